package c18

import (
	"context"
	"fmt"
	"math/rand"
	"reflect"
	"strings"
	"sync"

	"github.com/samsarahq/thunder/graphql"
	"github.com/samsarahq/thunder/graphql/schemabuilder"
	"github.com/samsarahq/thunder/verifharness/vlib"
)

// ---- paginated fields with their own arguments -----------------------------

// PItem is the node type of the paginated fields.
type PItem struct {
	Id int64
}

// PArgs are the custom arguments of the thunder-managed paginated field
// (separate args struct next to first/after/...).
type PArgs struct {
	Tag    string
	Limit  int64
	Note   *string
	Opt    MyString `graphql:",optional"`
	Filter *InS
	Ids    []int64 `graphql:",optional"`
	Token  *TextLong
}

// PEmb is the args struct of the externally managed paginated field: it
// embeds schemabuilder.PaginationArgs next to its own arguments.
type PEmb struct {
	schemabuilder.PaginationArgs
	Tag   string
	Note  *string
	Inner *InA
	Score *float64
}

// PEmbFlat is PEmb as the client sees it (one flat argument list). The
// pagination arguments that the leg never sends are hidden from the generator
// and must arrive nil.
type PEmbFlat struct {
	Tag        string
	Note       *string
	Inner      *InA
	Score      *float64
	First      *int64
	After      *string  `graphql:"-"`
	Last       *int64   `graphql:"-"`
	Before     *string  `graphql:"-"`
	FilterText *string  `graphql:"-"`
	SortBy     *string  `graphql:"-"`
	FilterType *string  `graphql:"-"`
	Fields     []string `graphql:"-"`
}

type pagFixture struct {
	fixture
}

func newPagFixture() (*pagFixture, error) {
	fx := &pagFixture{}
	record := func(v interface{}) {
		fx.mu.Lock()
		fx.calls++
		fx.captured = append(fx.captured, reflect.ValueOf(v))
		fx.mu.Unlock()
	}
	items := []PItem{{Id: 1}, {Id: 2}, {Id: 3}}
	s := schemabuilder.NewSchema()
	registerEnums(s)
	item := s.Object("PItem", PItem{})
	item.Key("id")
	q := s.Query()
	q.FieldFunc("items", func(ctx context.Context, a PArgs) ([]PItem, error) {
		record(a)
		return items, nil
	}, schemabuilder.Paginated)
	q.PaginateFieldFunc("conn", func(a PEmb) ([]PItem, schemabuilder.PaginationInfo, schemabuilder.PostProcessOptions, error) {
		flat := PEmbFlat{Tag: a.Tag, Note: a.Note, Inner: a.Inner, Score: a.Score, First: a.First, After: a.After, Last: a.Last,
			Before: a.Before, FilterText: a.FilterText, SortBy: a.SortBy, FilterType: a.FilterType}
		if a.FilterTextFields != nil {
			flat.Fields = append([]string{"set"}, *a.FilterTextFields...)
		}
		record(flat)
		return items, schemabuilder.PaginationInfo{TotalCountFunc: func() int64 { return 3 }}, schemabuilder.PostProcessOptions{}, nil
	})
	s.Mutation()
	built, err := s.Build()
	if err != nil {
		return nil, err
	}
	fx.schema = built
	fx.handler = graphql.HTTPHandler(built)
	return fx, nil
}

type pagRequest struct {
	kind         string
	query, vars  string
	valid        bool
	want         reflect.Value
	errText      string
	calls        int
	captured     []reflect.Value
	viaHTTP      bool
	responseText string
}

// pagLeg sends request sequences to Paginated fields that take their own
// arguments (separate args struct, and embedded PaginationArgs): a valid
// request; a request that carries every optional argument and is invalid
// because one required custom argument has the wrong kind; valid requests
// that leave the optional arguments out (they must arrive nil / zero); a
// random valid one. Half of the cases send the sequence one request at a
// time, the other half lets 4 clients send (invalid, valid) pairs at the same
// time.
func pagLeg(run *vlib.Run, i int) {
	r := run.Rand("paginated", i)
	fx, err := newPagFixture()
	if err != nil {
		run.Broken(fmt.Sprintf("case %d: paginated schema does not build: %v", i, err))
		return
	}
	embedded := r.Intn(2) == 0
	field, argsT := "items", reflect.TypeOf(PArgs{})
	if embedded {
		field, argsT = "conn", reflect.TypeOf(PEmbFlat{})
	}
	var names []string
	for _, f := range fieldsOf(argsT) {
		names = append(names, f.name)
	}
	form := "separate_args"
	if embedded {
		form = "embedded_pagination_args"
	}
	run.Count("paginated:"+form, 1)

	build := func(kind string, mode int) *pagRequest {
		// mode 0: random, 1: all optionals given + one wrong kind, 2: optionals left out
		var root *wire
		for try := 0; ; try++ {
			g := &gen{r: r, allowNull: mode == 0 && r.Intn(3) == 0}
			_, root = g.structVal(argsT, 2)
			if mode != 1 || try > 20 {
				break
			}
			all := true
			for _, f := range fieldsOf(argsT) {
				if !f.required() && wireField(root, f.name) == nil {
					all = false
				}
			}
			if all {
				break
			}
		}
		valid := true
		switch mode {
		case 1:
			var req []wfield
			for _, f := range root.fields {
				for _, n := range root.req {
					if f.name == n {
						req = append(req, f)
					}
				}
			}
			victim := req[r.Intn(len(req))]
			for k := range root.fields {
				if root.fields[k].name == victim.name {
					nw := otherKind(r, victim.v.want, victim.v)
					nw.want = victim.v.want
					root.fields[k].v = nw
				}
			}
			valid = false
		case 2:
			var kept []wfield
			for _, f := range root.fields {
				for _, n := range root.req {
					if f.name == n {
						kept = append(kept, f)
					}
				}
			}
			root.fields = kept
		}
		if embedded && r.Intn(2) == 0 && wireField(root, "first") == nil && mode != 2 {
			n := r.Intn(4)
			root.fields = append(root.fields, wfield{"first", &wire{k: kNum, text: fmt.Sprint(n), t: reflect.TypeOf((*int64)(nil)), want: kNum}})
		}
		req := &pagRequest{kind: kind, valid: valid}
		if valid {
			v, err := decode(root, argsT, false)
			if err != nil {
				run.Broken(fmt.Sprintf("case %d: reference decoder rejects a generated paginated request: %v", i, err))
				return nil
			}
			req.want = v
		} else if _, err := decode(root, argsT, false); err == nil {
			return nil
		}
		b := newBinder(r)
		text := field + strings.TrimPrefix(renderField(b, r, root, names, r.Intn(nTransports)), "f")
		if !embedded && r.Intn(3) == 0 { // relay arguments consumed by thunder itself
			if strings.HasSuffix(text, ")") {
				text = text[:len(text)-1] + ", first: 2)"
			} else {
				text += "(first: 2)"
			}
		}
		body := text + " { totalCount edges { node { id } } }"
		req.query = "query Q { " + body + " }"
		if len(b.decls) > 0 {
			req.query = "query Q(" + strings.Join(b.decls, ", ") + ") { " + body + " }"
		}
		req.vars = "{" + strings.Join(b.vars, ",") + "}"
		req.viaHTTP = r.Intn(2) == 0
		return req
	}
	send := func(p *pagRequest, raw bool) {
		if p.viaHTTP {
			var o httpOutcome
			if raw {
				o = fx.rawPost(p.query, p.vars)
			} else {
				o = fx.post(p.query, p.vars)
			}
			p.calls, p.captured, p.responseText = o.calls, o.captured, o.raw
			if o.panicMsg != "" {
				p.errText = "panic: " + o.panicMsg
			} else if len(o.errs) > 0 {
				p.errText = strings.Join(o.errs, "; ")
			}
			return
		}
		var o outcome
		if raw {
			o = fx.rawExec(p.query, p.vars, false)
		} else {
			o = fx.exec(p.query, p.vars, false)
		}
		p.calls, p.captured = o.calls, o.captured
		if o.stage != "done" {
			p.errText = o.stage + ": " + o.panicMsg
			if o.err != nil {
				p.errText = o.stage + ": " + o.err.Error()
			}
		}
	}
	describe := func(ps []*pagRequest) []map[string]interface{} {
		var out []map[string]interface{}
		for _, p := range ps {
			m := map[string]interface{}{"kind": p.kind, "valid": p.valid, "http": p.viaHTTP, "query": vlib.Trunc(p.query, 900),
				"variables": vlib.Trunc(p.vars, 600), "error": vlib.Trunc(p.errText, 300), "resolver_calls": p.calls}
			if p.valid {
				m["sent_go_value"] = vlib.Trunc(show(p.want), 900)
			}
			out = append(out, m)
		}
		return out
	}
	viol := func(what string, p *pagRequest, history []*pagRequest, extra map[string]interface{}) {
		w := map[string]interface{}{"what": what, "transport": "paginated:" + form, "request": p.kind,
			"requests_on_one_schema": describe(history)}
		for k, v := range extra {
			w[k] = v
		}
		run.Violation(i, "", w)
	}

	if r.Intn(2) == 0 {
		// one request at a time
		plan := []struct {
			kind string
			mode int
		}{{"valid", 0}, {"invalid_with_optionals", 1}, {"valid_optionals_left_out", 2}, {"invalid_with_optionals", 1}, {"valid_optionals_left_out", 2}, {"valid", 0}}
		var history []*pagRequest
		for _, st := range plan {
			p := build(st.kind, st.mode)
			if p == nil {
				continue
			}
			send(p, false)
			history = append(history, p)
			run.Count("paginated:requests", 1)
			switch {
			case strings.HasPrefix(p.errText, "panic"):
				viol("panic", p, history, nil)
			case p.valid && p.errText != "":
				viol("valid request rejected", p, history, nil)
			case p.valid && p.calls != 1:
				viol("resolver not called exactly once", p, history, nil)
			case p.valid:
				if d := eqValue(p.captured[0], p.want, "args"); d != "" {
					viol("resolver received a different value than was sent", p, history, map[string]interface{}{
						"diff": d, "received": vlib.Trunc(show(p.captured[0]), 1500)})
				}
			case p.errText == "" || p.calls != 0:
				viol("invalid request was not rejected before execution", p, history, nil)
			}
		}
		return
	}

	// several clients at once
	const clients = 4
	sets := make([][]*pagRequest, clients)
	var all []*pagRequest
	for c := 0; c < clients; c++ {
		for k := 0; k < 2; k++ {
			if p := build("invalid_with_optionals", 1); p != nil {
				sets[c] = append(sets[c], p)
			}
			mode, kind := 2, "valid_optionals_left_out"
			if r.Intn(3) == 0 {
				mode, kind = 0, "valid"
			}
			if p := build(kind, mode); p != nil {
				sets[c] = append(sets[c], p)
			}
		}
		all = append(all, sets[c]...)
	}
	fx.reset()
	var start, wg sync.WaitGroup
	start.Add(1)
	for c := 0; c < clients; c++ {
		wg.Add(1)
		go func(mine []*pagRequest) {
			defer wg.Done()
			start.Wait()
			for _, p := range mine {
				send(p, true)
			}
		}(sets[c])
	}
	start.Done()
	wg.Wait()
	_, captured := fx.observed()
	run.Count("paginated:concurrent_requests", len(all))
	for _, p := range all {
		switch {
		case strings.HasPrefix(p.errText, "panic"):
			viol("panic", p, all, nil)
			return
		case p.valid && p.errText != "":
			viol("valid request rejected while other requests were being served", p, all, nil)
			return
		case !p.valid && p.errText == "":
			viol("invalid request was not rejected", p, all, nil)
			return
		case p.valid:
			seen := false
			for _, c := range captured {
				if eqValue(c, p.want, "args") == "" {
					seen = true
					break
				}
			}
			if !seen {
				viol("no resolver invocation received the value a valid request sent", p, all, nil)
				return
			}
		}
	}
	for _, c := range captured {
		ok := false
		for _, p := range all {
			if p.valid && eqValue(c, p.want, "args") == "" {
				ok = true
				break
			}
		}
		if !ok {
			viol("a resolver received a value that no valid request sent", all[0], all, map[string]interface{}{"received": vlib.Trunc(show(c), 1500)})
			return
		}
	}
}

func wireField(w *wire, name string) *wire {
	for _, f := range w.fields {
		if f.name == name {
			return f.v
		}
	}
	return nil
}

// ---- documents with very many list literals --------------------------------

// Wide are the arguments of the many-lists leg.
type Wide struct {
	Rows [][]int64
	Tags []string `graphql:",optional"`
	N    int64
}

// ListLiteralBudget is the value TestCheck gives graphql.MaxQueryNesting (a
// public knob of thunder) so that documents with more list literals than the
// nesting limit stay small. Documents of the other legs nest far less deeply.
const ListLiteralBudget = 250

// manyListsLeg sends documents that contain more list literals than
// graphql.MaxQueryNesting although they are only a few levels deep: one
// [][]int64 literal with many rows, or many aliased selections that each carry
// list literals; then the same values through variables. Both must reach the
// resolvers.
func manyListsLeg(run *vlib.Run, i int) {
	r := run.Rand("manylists", i)
	argsT := reflect.TypeOf(Wide{})
	fx, err := newFixture(argsT, r.Intn(2))
	if err != nil {
		run.Broken(fmt.Sprintf("case %d: wide schema does not build: %v", i, err))
		return
	}
	limit := graphql.MaxQueryNesting
	target := limit + 10 + r.Intn(limit/2+1) // list literals in the document
	type sel struct {
		alias string
		want  reflect.Value
		root  *wire
	}
	mk := func(rows int, tags bool) (reflect.Value, *wire) {
		w := Wide{N: int64(r.Intn(1000)), Rows: make([][]int64, rows)}
		rw := &wire{k: kList, want: kList, list: []*wire{}}
		for k := range w.Rows {
			n := r.Intn(3)
			row := &wire{k: kList, want: kList, list: []*wire{}}
			w.Rows[k] = make([]int64, n)
			for j := 0; j < n; j++ {
				w.Rows[k][j] = int64(r.Intn(2000) - 1000)
				row.list = append(row.list, &wire{k: kNum, want: kNum, text: fmt.Sprint(w.Rows[k][j])})
			}
			rw.list = append(rw.list, row)
		}
		root := &wire{k: kObj, want: kObj, fields: []wfield{{"rows", rw}, {"n", &wire{k: kNum, want: kNum, text: fmt.Sprint(w.N)}}}}
		if tags {
			tw := &wire{k: kList, want: kList, list: []*wire{}}
			w.Tags = []string{}
			for j := 0; j < r.Intn(3); j++ {
				w.Tags = append(w.Tags, fmt.Sprintf("t%d", r.Intn(100)))
				tw.list = append(tw.list, &wire{k: kStr, want: kStr, text: w.Tags[j]})
			}
			root.fields = append(root.fields, wfield{"tags", tw})
		}
		return reflect.ValueOf(w), root
	}
	var sels []*sel
	shape := "one_wide_literal"
	if r.Intn(2) == 0 {
		v, root := mk(target, false)
		sels = append(sels, &sel{alias: "f", want: v, root: root})
	} else {
		shape = "many_selections"
		for lists := 0; lists < target; {
			rows := r.Intn(3)
			v, root := mk(rows, true)
			sels = append(sels, &sel{alias: fmt.Sprintf("u%d", len(sels)), want: v, root: root})
			lists += rows + 2
		}
	}
	run.Count("many_lists:"+shape, 1)
	names := []string{"rows", "tags", "n"}
	for _, transport := range []int{tLiteral, tVariable} {
		b := newBinder(r)
		var parts []string
		for _, s := range sels {
			text := renderField(b, r, s.root, names, transport)
			if s.alias != "f" {
				text = s.alias + ": " + text
			}
			parts = append(parts, text)
		}
		query := "query Q { " + strings.Join(parts, " ") + " }"
		if len(b.decls) > 0 {
			query = "query Q(" + strings.Join(b.decls, ", ") + ") { " + strings.Join(parts, " ") + " }"
		}
		vars := "{" + strings.Join(b.vars, ",") + "}"
		o := fx.exec(query, vars, false)
		name := transportNames[transport]
		wit := func(what string, extra map[string]interface{}) map[string]interface{} {
			w := map[string]interface{}{"what": what, "transport": "many_lists:" + name, "shape": shape, "list_literals_wanted": target,
				"max_query_nesting": limit, "selections": len(sels), "query": vlib.Trunc(query, 1500), "variables": vlib.Trunc(vars, 600)}
			for k, v := range extra {
				w[k] = v
			}
			return w
		}
		if o.stage != "done" {
			et := o.panicMsg
			if o.err != nil {
				et = o.err.Error()
			}
			run.Violation(i, "", wit("valid request rejected", map[string]interface{}{"stage": o.stage, "error": vlib.Trunc(et, 300)}))
			continue
		}
		data, _ := o.data.(map[string]interface{})
		for _, s := range sels {
			if got, _ := data[s.alias].(string); got != digestOf(s.want) {
				run.Violation(i, "", wit("the answer of a selection does not reflect the arguments sent for it", map[string]interface{}{
					"alias": s.alias, "sent_go_value": vlib.Trunc(show(s.want), 800), "answer": data[s.alias], "answer_for_sent_value": digestOf(s.want)}))
				break
			}
		}
		if o.calls != len(sels) {
			run.Violation(i, "", wit("resolver not called exactly once per selection", map[string]interface{}{"calls": o.calls}))
		}
	}
}

var _ = rand.Int
