package c18

import (
	"fmt"
	"math/rand"
	"reflect"
	"strings"
	"sync"

	"github.com/samsarahq/thunder/verifharness/vlib"
)

// ---- several positions of one query ----------------------------------------

// A position is one selection of the argument-taking field somewhere in the
// query: on the root, or on the shared node object reached through node /
// self (the same source pointer at every place).
type position struct {
	path  []string // response keys from the root down to the field's alias
	root  *wire
	want  reflect.Value
	field string // rendered selection text
}

// positionsLeg sends ONE query that selects the field at 2-3 positions, each
// with its own value and transport, usually under the same alias; the source
// object of the nested positions is one shared pointer. The response must
// show at every position the digest of the value sent for that position, and
// the resolvers must have seen exactly the values sent.
func positionsLeg(run *vlib.Run, i int, fx *fixture, argsT reflect.Type, names []string, typeSig string, expensive bool, leg string) {
	r := run.Rand("positions"+leg, i)
	layout := r.Intn(5)
	alias := []string{"v", "v", "v", "f", "arg"}[r.Intn(5)]
	sameAlias := r.Intn(5) != 0
	var ps []*position
	add := func(path ...string) {
		a := alias
		if !sameAlias {
			a = fmt.Sprintf("%s%d", alias, len(ps))
		}
		g := &gen{r: r, allowNull: r.Intn(5) < 2}
		want, root := g.structVal(argsT, 2)
		ps = append(ps, &position{path: append(path, a), root: root, want: want})
	}
	b := newBinder(r)
	sel := func(p *position) string {
		a := p.path[len(p.path)-1]
		text := renderField(b, r, p.root, names, r.Intn(nTransports))
		if a == "f" {
			return text
		}
		return a + ": " + text
	}
	var body string
	switch layout {
	case 0: // two places reached through two root fields
		add("a")
		add("b")
		body = "a: node { " + sel(ps[0]) + " } b: node { " + sel(ps[1]) + " }"
	case 1: // a place and the same object below it
		add("a")
		add("a", "self")
		body = "a: node { " + sel(ps[0]) + " self { " + sel(ps[1]) + " } }"
	case 2:
		add("a")
		add("a", "self")
		add("b", "self", "self")
		body = "a: node { " + sel(ps[0]) + " self { " + sel(ps[1]) + " } } b: node { self { self { " + sel(ps[2]) + " } } }"
	case 3: // root field and node field
		add()
		add("node")
		body = sel(ps[0]) + " node { " + sel(ps[1]) + " }"
	default:
		add("x")
		add("y")
		add("z", "self")
		body = "x: node { " + sel(ps[0]) + " } y: node { " + sel(ps[1]) + " } z: node { self { " + sel(ps[2]) + " } }"
	}
	query := "query Q { " + body + " }"
	if len(b.decls) > 0 {
		query = "query Q(" + strings.Join(b.decls, ", ") + ") { " + body + " }"
	}
	vars := "{" + strings.Join(b.vars, ",") + "}"
	run.Count(fmt.Sprintf("positions:layout_%d", layout), 1)
	if expensive {
		run.Count("positions:expensive_field", 1)
	}

	check := func(via string, errText string, data interface{}, calls int, captured []reflect.Value, raw string) {
		wit := func(what string, extra map[string]interface{}) map[string]interface{} {
			w := map[string]interface{}{"what": what, "transport": via, "args_type": typeSig, "query": query, "variables": vars,
				"node_field_expensive": expensive, "response": raw}
			for k, v := range extra {
				w[k] = v
			}
			return w
		}
		if errText != "" {
			run.Violation(i, "", wit("valid request rejected", map[string]interface{}{"error": errText}))
			return
		}
		for k, p := range ps {
			cur := data
			for _, key := range p.path {
				m, _ := cur.(map[string]interface{})
				cur = m[key]
			}
			if got, _ := cur.(string); got != digestOf(p.want) {
				run.Violation(i, "", wit("the answer of a selection does not reflect the arguments sent for it", map[string]interface{}{
					"position": strings.Join(p.path, "."), "position_index": k, "sent_go_value": vlib.Trunc(show(p.want), 2000),
					"answer": cur, "answer_for_sent_value": digestOf(p.want), "resolver_calls": calls}))
				return
			}
			seen := false
			for _, c := range captured {
				if eqValue(c, p.want, "args") == "" {
					seen = true
					break
				}
			}
			if !seen {
				run.Violation(i, "", wit("no resolver invocation received the value sent for a selection", map[string]interface{}{
					"position": strings.Join(p.path, "."), "sent_go_value": vlib.Trunc(show(p.want), 2000), "resolver_calls": calls}))
				return
			}
		}
		for _, c := range captured {
			ok := false
			for _, p := range ps {
				if eqValue(c, p.want, "args") == "" {
					ok = true
					break
				}
			}
			if !ok {
				run.Violation(i, "", wit("a resolver received a value that no selection sent", map[string]interface{}{"received": vlib.Trunc(show(c), 2000)}))
				return
			}
		}
	}
	// inside a rerunner (HTTP handler) and directly
	ho := fx.post(query, vars)
	et := ""
	if ho.panicMsg != "" {
		et = "panic: " + ho.panicMsg
	} else if len(ho.errs) > 0 {
		et = strings.Join(ho.errs, "; ")
	}
	check("http", et, ho.data, ho.calls, ho.captured, ho.raw)
	run.Count("positions:http_requests", 1)
	if r.Intn(2) == 0 {
		o := fx.exec(query, vars, false)
		et = ""
		if o.stage != "done" {
			et = o.stage + ": " + o.panicMsg
			if o.err != nil {
				et = o.stage + ": " + o.err.Error()
			}
		}
		check("in_process", et, o.data, o.calls, o.captured, "")
	}
}

// ---- concurrent requests on one schema -------------------------------------

// textHeavyArgs generates an args struct whose first field involves an
// encoding.TextUnmarshaler type (the parsers with the most code of their own).
func textHeavyArgs(r *rand.Rand) reflect.Type {
	t := textTypes[r.Intn(len(textTypes))]
	if r.Intn(2) == 0 {
		t = reflect.TypeOf(TextLong{})
	}
	switch r.Intn(5) {
	case 0:
		t = reflect.SliceOf(t)
	case 1:
		t = reflect.PtrTo(t)
	case 2:
		t = reflect.SliceOf(reflect.PtrTo(t))
	}
	fields := []reflect.StructField{{Name: "F0", Type: t}}
	for k := 1; k <= r.Intn(3); k++ {
		fields = append(fields, reflect.StructField{Name: fmt.Sprintf("F%d", k), Type: fieldType(r, 2)})
	}
	return reflect.StructOf(fields)
}

// ConcurrentCase builds ONE schema and lets 8 clients send requests to it at
// the same time (HTTP handler and in-process Parse/PrepareQuery/Execute
// alternating), every request with its own value of the same args type and
// its own transport. Each answer must carry the digest of the value that
// request sent, and every value a resolver received must be one that was
// sent. Run under the race detector this also reports any unsynchronised
// state shared by the argument parsers of a schema.
//
// static selects the args struct from the compile-time pool (ordinary Go types
// and closures only); otherwise it is a generated reflect.StructOf shape served
// by a reflect.MakeFunc field func.
func ConcurrentCase(run *vlib.Run, i int, static bool) {
	r := run.Rand("concurrent", i)
	var argsT reflect.Type
	if static {
		argsT = staticArgs[r.Intn(len(staticArgs))]
	} else if r.Intn(3) != 0 {
		argsT = textHeavyArgs(r)
	} else {
		argsT = argsType(r)
	}
	fx, err := newFixture(argsT, r.Intn(4))
	if err != nil {
		run.Broken(fmt.Sprintf("concurrent case %d: schema for %s does not build: %v", i, sig(argsT), err))
		return
	}
	var names []string
	for _, f := range fieldsOf(argsT) {
		names = append(names, f.name)
	}
	const clients, rounds = 8, 2
	type sent struct {
		client, round int
		req           request
		want          reflect.Value
		http          bool
		answer        string
		err           string
	}
	all := make([][]*sent, clients)
	for c := 0; c < clients; c++ {
		cr := run.Rand(fmt.Sprintf("client%d", c), i)
		for k := 0; k < rounds; k++ {
			g := &gen{r: cr, allowNull: cr.Intn(5) < 2}
			want, root := g.structVal(argsT, 2)
			req := render(cr, root, names, cr.Intn(nTransports), 1)
			all[c] = append(all[c], &sent{client: c, round: k, req: req, want: want, http: (c+k)%2 == 0})
		}
	}
	fx.reset()
	var start, wg sync.WaitGroup
	start.Add(1)
	for c := 0; c < clients; c++ {
		wg.Add(1)
		go func(mine []*sent) {
			defer wg.Done()
			start.Wait()
			for _, s := range mine {
				var data interface{}
				if s.http {
					o := fx.rawPost(s.req.query, s.req.vars)
					data = o.data
					if o.panicMsg != "" {
						s.err = "panic: " + o.panicMsg
					} else if len(o.errs) > 0 {
						s.err = strings.Join(o.errs, "; ")
					}
				} else {
					o := fx.rawExec(s.req.query, s.req.vars, false)
					data = o.data
					if o.stage != "done" {
						s.err = o.stage + ": " + o.panicMsg
						if o.err != nil {
							s.err = o.stage + ": " + o.err.Error()
						}
					}
				}
				if m, ok := data.(map[string]interface{}); ok {
					for _, v := range m { // exactly one selection, whatever its alias
						s.answer, _ = v.(string)
					}
				}
			}
		}(all[c])
	}
	start.Done()
	wg.Wait()
	calls, captured := fx.observed()
	run.Count("concurrent:cases", 1)
	run.Count("concurrent:requests", clients*rounds)
	run.Case("concurrent|"+sig(argsT), true)

	describe := func() []map[string]interface{} {
		var out []map[string]interface{}
		for _, mine := range all {
			for _, s := range mine {
				out = append(out, map[string]interface{}{"client": s.client, "round": s.round, "http": s.http,
					"query": vlib.Trunc(s.req.query, 700), "variables": vlib.Trunc(s.req.vars, 700),
					"answer": s.answer, "answer_for_sent_value": digestOf(s.want), "error": s.err})
			}
		}
		return out
	}
	for _, mine := range all {
		for _, s := range mine {
			what := ""
			switch {
			case s.err != "":
				what = "valid request rejected while other requests were being served"
			case s.answer != digestOf(s.want):
				what = "a request was answered for a value it did not send (concurrent requests on one schema)"
			}
			if what != "" {
				run.Violation(i, "", map[string]interface{}{"what": what, "transport": "concurrent", "args_type": sig(argsT),
					"client": s.client, "round": s.round, "sent_go_value": vlib.Trunc(show(s.want), 1500), "error": s.err,
					"resolver_calls": calls, "requests": describe()})
				return
			}
		}
	}
	for _, c := range captured {
		ok := false
		for _, mine := range all {
			for _, s := range mine {
				if eqValue(c, s.want, "args") == "" {
					ok = true
				}
			}
		}
		if !ok {
			run.Violation(i, "", map[string]interface{}{"what": "a resolver received a value that no request sent", "transport": "concurrent",
				"args_type": sig(argsT), "received": vlib.Trunc(show(c), 1500), "requests": describe()})
			return
		}
	}
}
