package c18

import (
	"context"
	"encoding/json"
	"fmt"
	"reflect"
	"strings"
	"time"

	"github.com/gorilla/websocket"
	"github.com/samsarahq/thunder/graphql"
	"github.com/samsarahq/thunder/verifharness/vlib"
)

// ---- websocket transport: message sequences on one connection -------------

// byteSocket is a graphql.JSONSocket whose messages really are JSON bytes:
// the server decodes what a client would have put on the wire and its replies
// are serialised before the harness looks at them.
type byteSocket struct {
	in  chan []byte
	out chan []byte
}

func (s *byteSocket) ReadJSON(v interface{}) error {
	b, ok := <-s.in
	if !ok {
		return &websocket.CloseError{Code: websocket.CloseNormalClosure}
	}
	return json.Unmarshal(b, v)
}

func (s *byteSocket) WriteJSON(v interface{}) error {
	b, err := json.Marshal(v)
	if err != nil {
		return err
	}
	s.out <- b
	return nil
}

func (s *byteSocket) Close() error { return nil }

// socketLeg opens ONE connection (graphql.CreateConnection(...).ServeJSONSocket) and sends a
// sequence of subscribe and mutate messages that all declare the same
// variables (one per argument, named like it). The first message supplies
// every variable; later messages supply some, rely on a declared default for
// others and leave the rest undefined (optional arguments left out), with the
// "variables" member present, empty, null or missing. Every message must be
// answered from its own variables only.
func socketLeg(run *vlib.Run, i int) {
	r := run.Rand("socket", i)
	argsT := argsType(r)
	fx, err := newFixture(argsT, r.Intn(4))
	if err != nil {
		run.Broken(fmt.Sprintf("case %d: schema for %s does not build: %v", i, sig(argsT), err))
		return
	}
	sock := &byteSocket{in: make(chan []byte), out: make(chan []byte, 64)}
	done := make(chan struct{})
	go func() {
		defer close(done)
		graphql.CreateConnection(context.Background(), sock, fx.schema).ServeJSONSocket()
	}()
	defer func() {
		close(sock.in)
		<-done
	}()
	fields := fieldsOf(argsT)
	nmsg := 3 + r.Intn(4)
	var history []map[string]interface{}
	for k := 0; k < nmsg; k++ {
		g := &gen{r: r, allowNull: r.Intn(4) == 0}
		want, root := g.structVal(argsT, 2)
		b := newBinder(r)
		var decls, args, vars []string
		modes := map[string]int{}
		for _, f := range fields {
			decl := "$" + f.name + ": " + gqlTypeName(f.typ)
			w := wireField(root, f.name)
			switch {
			case w == nil:
				modes["left_out"]++
			case k == 0 || w.hasNull() || r.Intn(5) < 2:
				vars = append(vars, fmt.Sprintf("%q:%s", f.name, w.json()))
				modes["supplied"]++
			default:
				decl += " = " + b.literal(w)
				modes["default"]++
			}
			decls = append(decls, decl)
			args = append(args, f.name+": $"+f.name)
		}
		r.Shuffle(len(args), func(a, c int) { args[a], args[c] = args[c], args[a] })
		kind, op := "subscribe", "query"
		if r.Intn(2) == 0 {
			kind, op = "mutate", "mutation"
		}
		query := op + " Q(" + strings.Join(decls, ", ") + ") { f(" + strings.Join(args, ", ") + ") }"
		qj, _ := json.Marshal(query)
		message := `{"query":` + string(qj)
		form := "object"
		switch {
		case len(vars) > 0:
			message += `,"variables":{` + strings.Join(vars, ",") + `}`
		case r.Intn(3) == 0:
			form = "missing"
		case r.Intn(2) == 0:
			form = "null"
			message += `,"variables":null`
		default:
			form = "empty"
			message += `,"variables":{}`
		}
		message += "}"
		id := fmt.Sprintf("m%d", k)
		envelope := fmt.Sprintf(`{"id":%q,"type":%q,"message":%s}`, id, kind, message)
		fx.reset()
		sock.in <- []byte(envelope)
		var reply struct {
			ID      string          `json:"id"`
			Type    string          `json:"type"`
			Message json.RawMessage `json:"message"`
		}
		for {
			var raw []byte
			select {
			case raw = <-sock.out:
			case <-time.After(60 * time.Second):
				run.Inconclusive(fmt.Sprintf("case %d: no reply to websocket message %s", i, id))
				return
			}
			if err := json.Unmarshal(raw, &reply); err != nil {
				run.Broken(fmt.Sprintf("case %d: unparsable websocket reply %s", i, raw))
				return
			}
			if reply.ID == id {
				break
			}
		}
		if kind == "subscribe" {
			sock.in <- []byte(fmt.Sprintf(`{"id":%q,"type":"unsubscribe"}`, id))
		}
		calls, captured := fx.observed()
		history = append(history, map[string]interface{}{"envelope": vlib.Trunc(envelope, 1500), "reply_type": reply.Type,
			"reply": vlib.Trunc(string(reply.Message), 300), "resolver_calls": calls, "sent_go_value": vlib.Trunc(show(want), 1200)})
		run.Count("socket:messages", 1)
		run.Count("socket:"+kind, 1)
		run.Count("socket:variables_member_"+form, 1)
		for m, c := range modes {
			run.Count("socket:arg_"+m, c)
		}
		wit := func(what string, extra map[string]interface{}) map[string]interface{} {
			w := map[string]interface{}{"what": what, "transport": "websocket", "args_type": sig(argsT), "message_index": k,
				"messages_on_one_connection": history}
			for k, v := range extra {
				w[k] = v
			}
			return w
		}
		switch {
		case reply.Type == "error":
			run.Violation(i, "", wit("valid request rejected", nil))
			return
		case calls < 1:
			run.Violation(i, "", wit("resolver not called", nil))
			return
		}
		for _, c := range captured {
			if d := eqValue(c, want, "args"); d != "" {
				run.Violation(i, "", wit("resolver received a different value than was sent", map[string]interface{}{
					"diff": d, "received": vlib.Trunc(show(c), 1500)}))
				return
			}
		}
	}
}

var _ = reflect.TypeOf
