package c18

import (
	"context"
	"reflect"
	"time"
)

// Compile-time args structs for the race-built concurrent leg (package
// c18conc): no reflect.StructOf types and no reflect.MakeFunc field funcs are
// involved there, only ordinary Go types and closures.

type CA1 struct {
	F0 TextLong
	F1 []TextPair
	F2 *TextArr `graphql:",optional"`
}

type CA2 struct {
	F0 []TextLong
	F1 InD
	F2 MyString
}

type CA3 struct {
	F0 []*TextLong
	F1 time.Time
	F2 []byte
	F3 Color
}

type CA4 struct {
	F0 *TextLong
	F1 []InS
	F2 InC
}

type CA5 struct {
	F0 TextPair
	F1 [][]string
	F2 *InRec
	F3 float64
}

type CA6 struct {
	F0 InOpt
	F1 []Mode
	F2 uint16
	F3 TextLong `graphql:"token"`
}

type CA7 struct {
	F0 []TextArr
	F1 *InB
	F2 Level `graphql:",optional"`
}

type CA8 struct {
	hidden int64
	F0     int64
	Skip   string `graphql:"-"`
	F1     string
	F2     []*InA
	F3     MyFloat32
	H      *InH
}

// staticFn builds the field func of a fixture as an ordinary closure over T.
func staticFn[T any](fx *fixture, withCtx bool) interface{} {
	record := func(a T) string {
		v := reflect.ValueOf(a)
		fx.mu.Lock()
		fx.calls++
		fx.captured = append(fx.captured, v)
		fx.mu.Unlock()
		return digestOf(v)
	}
	if withCtx {
		return func(ctx context.Context, a T) (string, error) { return record(a), nil }
	}
	return func(a T) string { return record(a) }
}

var staticArgs = []reflect.Type{
	reflect.TypeOf(CA1{}), reflect.TypeOf(CA2{}), reflect.TypeOf(CA3{}), reflect.TypeOf(CA4{}),
	reflect.TypeOf(CA5{}), reflect.TypeOf(CA6{}), reflect.TypeOf(CA7{}), reflect.TypeOf(CA8{}),
}

var staticFns = map[reflect.Type]func(fx *fixture, withCtx bool) interface{}{
	reflect.TypeOf(CA1{}): staticFn[CA1], reflect.TypeOf(CA2{}): staticFn[CA2],
	reflect.TypeOf(CA3{}): staticFn[CA3], reflect.TypeOf(CA4{}): staticFn[CA4],
	reflect.TypeOf(CA5{}): staticFn[CA5], reflect.TypeOf(CA6{}): staticFn[CA6],
	reflect.TypeOf(CA7{}): staticFn[CA7], reflect.TypeOf(CA8{}): staticFn[CA8],
	reflect.TypeOf(Wide{}): staticFn[Wide],
}
