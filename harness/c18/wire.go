package c18

import (
	"encoding/base64"
	"encoding/hex"
	"encoding/json"
	"fmt"
	"math"
	"math/rand"
	"reflect"
	"sort"
	"strconv"
	"strings"
	"time"
)

// wire is the transport-independent form of a value that is sent: it can be
// rendered as a GraphQL literal and as JSON (for the variables map).
type wkind uint8

const (
	kNull wkind = iota
	kNum
	kStr
	kEnum
	kBool
	kList
	kObj
)

type wfield struct {
	name string
	v    *wire
}

type wire struct {
	k      wkind
	text   string // kNum: number text; kStr: content; kEnum: name
	b      bool
	list   []*wire
	fields []wfield // kObj: present fields only

	// position metadata
	t    reflect.Type // declared Go type of the position (nil for mutated nodes)
	want wkind        // JSON kind the position accepts: kNum, kStr, kBool, kList, kObj
	req  []string     // kObj: names of required fields
}

func (w *wire) hasNull() bool {
	switch w.k {
	case kNull:
		return true
	case kList:
		for _, e := range w.list {
			if e.hasNull() {
				return true
			}
		}
	case kObj:
		for _, f := range w.fields {
			if f.v.hasNull() {
				return true
			}
		}
	}
	return false
}

func (w *wire) clone() *wire {
	c := *w
	if w.list != nil {
		c.list = make([]*wire, len(w.list))
		for i, e := range w.list {
			c.list[i] = e.clone()
		}
	}
	if w.fields != nil {
		c.fields = make([]wfield, len(w.fields))
		for i, f := range w.fields {
			c.fields[i] = wfield{f.name, f.v.clone()}
		}
	}
	return &c
}

// jsonText renders w as JSON.
func (w *wire) jsonText(sb *strings.Builder) {
	switch w.k {
	case kNull:
		sb.WriteString("null")
	case kNum:
		sb.WriteString(w.text)
	case kStr, kEnum:
		b, _ := json.Marshal(w.text)
		sb.Write(b)
	case kBool:
		sb.WriteString(strconv.FormatBool(w.b))
	case kList:
		sb.WriteString("[")
		for i, e := range w.list {
			if i > 0 {
				sb.WriteString(",")
			}
			e.jsonText(sb)
		}
		sb.WriteString("]")
	case kObj:
		sb.WriteString("{")
		for i, f := range w.fields {
			if i > 0 {
				sb.WriteString(",")
			}
			b, _ := json.Marshal(f.name)
			sb.Write(b)
			sb.WriteString(":")
			f.v.jsonText(sb)
		}
		sb.WriteString("}")
	}
}

func (w *wire) json() string {
	var sb strings.Builder
	w.jsonText(&sb)
	return sb.String()
}

// gqlQuote renders a GraphQL string literal (June-2018 grammar, no block
// strings): '"', '\\' and control characters escaped, everything else raw
// UTF-8; some BMP characters are written as \uXXXX escapes.
func gqlQuote(s string, r *rand.Rand) string {
	var sb strings.Builder
	sb.WriteByte('"')
	for _, c := range s {
		switch {
		case c == '"':
			sb.WriteString(`\"`)
		case c == '\\':
			sb.WriteString(`\\`)
		case c == '\n':
			sb.WriteString(`\n`)
		case c == '\r':
			sb.WriteString(`\r`)
		case c == '\t':
			if r != nil && r.Intn(2) == 0 {
				sb.WriteByte('\t')
			} else {
				sb.WriteString(`\t`)
			}
		case c == '\b':
			sb.WriteString(`\b`)
		case c == '\f':
			sb.WriteString(`\f`)
		case c == '/' && r != nil && r.Intn(3) == 0:
			sb.WriteString(`\/`)
		case c < 0x20:
			fmt.Fprintf(&sb, `\u%04x`, c)
		case c < 0xD800 && r != nil && r.Intn(12) == 0:
			if r.Intn(2) == 0 {
				fmt.Fprintf(&sb, `\u%04x`, c)
			} else {
				fmt.Fprintf(&sb, `\u%04X`, c)
			}
		default:
			sb.WriteRune(c)
		}
	}
	sb.WriteByte('"')
	return sb.String()
}

// ---- value generator -----------------------------------------------------

type gen struct {
	r         *rand.Rand
	allowNull bool
	feats     map[string]bool
}

func (g *gen) feat(s string) {
	if g.feats != nil {
		g.feats[s] = true
	}
}

const maxExact = int64(1) << 53

func intBounds(k reflect.Kind) (int64, int64) {
	switch k {
	case reflect.Int8:
		return math.MinInt8, math.MaxInt8
	case reflect.Int16:
		return math.MinInt16, math.MaxInt16
	case reflect.Int32:
		return math.MinInt32, math.MaxInt32
	case reflect.Int, reflect.Int64:
		return -maxExact, maxExact
	case reflect.Uint8:
		return 0, math.MaxUint8
	case reflect.Uint16:
		return 0, math.MaxUint16
	case reflect.Uint32:
		return 0, math.MaxUint32
	case reflect.Uint, reflect.Uint64:
		return 0, maxExact
	}
	panic("intBounds: " + k.String())
}

func (g *gen) integer(k reflect.Kind) int64 {
	lo, hi := intBounds(k)
	r := g.r
	switch r.Intn(10) {
	case 0:
		return lo
	case 1:
		return hi
	case 2:
		return []int64{0, 1, hi - 1, lo + 1}[r.Intn(4)]
	case 3:
		if lo < 0 {
			return -1
		}
		return hi / 2
	case 4, 5:
		// log-uniform magnitude
		bits := uint(r.Intn(54))
		v := r.Int63() & ((int64(1) << bits) - 1)
		if lo < 0 && r.Intn(2) == 0 {
			v = -v
		}
		if v < lo {
			v = lo
		}
		if v > hi {
			v = hi
		}
		return v
	default:
		v := int64(r.Intn(200))
		if lo < 0 {
			v -= 100
		}
		if v < lo {
			v = lo
		}
		if v > hi {
			v = hi
		}
		return v
	}
}

func (g *gen) float(k reflect.Kind) float64 {
	r := g.r
	if k == reflect.Float32 {
		var f float32
		switch r.Intn(8) {
		case 0:
			f = float32(r.Intn(2000)-1000) / 8
		case 1:
			f = []float32{math.MaxFloat32, -math.MaxFloat32, math.SmallestNonzeroFloat32, 1 << 24, 1<<24 + 2, 0.1, -0.3, 1e-10, 3.4e38}[r.Intn(9)]
		case 2:
			f = float32(r.Intn(100))
		case 3:
			f = math.Float32frombits(r.Uint32())
			if f != f || math.IsInf(float64(f), 0) {
				f = 1.5
			}
		default:
			f = float32(r.NormFloat64() * math.Pow(10, float64(r.Intn(20)-8)))
		}
		if f == 0 {
			f = 0 // no negative zero
		}
		return float64(f)
	}
	var f float64
	switch r.Intn(8) {
	case 0:
		f = float64(r.Intn(2000)-1000) / 8
	case 1:
		f = []float64{math.MaxFloat64, -math.MaxFloat64, math.SmallestNonzeroFloat64, 1 << 53, 1<<53 + 2, 0.1, -0.3, 1e-300, 1e21, 1e20, 123456789012345678, 2.5e-7}[r.Intn(12)]
	case 2:
		f = float64(r.Intn(100))
	case 3:
		f = math.Float64frombits(r.Uint64())
		if f != f || math.IsInf(f, 0) {
			f = 2.5
		}
	default:
		f = r.NormFloat64() * math.Pow(10, float64(r.Intn(40)-15))
	}
	if f == 0 {
		f = 0
	}
	return f
}

// floatText writes f so that both the GraphQL lexer and JSON read the same
// float64 back. Integral values are never written in a form longer than an
// int64 literal could hold (exponent form is used instead).
func (g *gen) floatText(f float64) string {
	s := strconv.FormatFloat(f, 'g', -1, 64)
	if strings.ContainsAny(s, "e") {
		if g.r.Intn(3) == 0 {
			s = strings.ToUpper(s)
		}
		return s
	}
	if !strings.Contains(s, ".") && g.r.Intn(2) == 0 {
		s += ".0"
	}
	return s
}

var stringPieces = []string{
	"", "a", "hello", " ", "\"", "\\", "\\n", "\n", "\t", "\r", "\b", "\f", "\x01", "\x1f", "\x7f", "/", "\u00e9", "\u00df", "\u65e5\u672c", "\U0001f600", "\u2028",
	"\ufeff", "$x", "$v0", "null", "true", "{", "}", "[", "]", ":", ",", "#", "...", "\\u0041", "\\\"", "'", "`", "<&>", "\u00a0", "\uffff",
	"0", "-1", "1e3", "RED", "=", "\ud7ff", "\ue000", "\U0001d4b3", "\U0010ffff",
}

func (g *gen) str() string {
	r := g.r
	n := 0
	switch r.Intn(4) {
	case 0:
		n = 0
		if r.Intn(3) != 0 {
			n = 1
		}
	case 1, 2:
		n = 1 + r.Intn(4)
	default:
		n = 1 + r.Intn(10)
	}
	var sb strings.Builder
	for i := 0; i < n; i++ {
		sb.WriteString(stringPieces[r.Intn(len(stringPieces))])
	}
	return sb.String()
}

func (g *gen) time() time.Time {
	r := g.r
	var loc *time.Location
	switch r.Intn(3) {
	case 0:
		loc = time.UTC
	default:
		off := (r.Intn(2*14*60+1) - 14*60) * 60
		if r.Intn(2) == 0 {
			off = (r.Intn(27) - 13) * 3600
		}
		if off == 0 {
			loc = time.UTC
		} else {
			loc = time.FixedZone("", off)
		}
	}
	year := 1970 + r.Intn(130)
	switch r.Intn(10) {
	case 0:
		year = 1 + r.Intn(9998)
	case 1:
		year = []int{1, 9999, 1969, 2000, 1900}[r.Intn(5)]
	}
	t := time.Date(year, time.Month(1+r.Intn(12)), 1+r.Intn(28), r.Intn(24), r.Intn(60), r.Intn(60), 0, loc)
	if y := t.UTC().Year(); y < 1 || y > 9999 || t.Year() < 1 || t.Year() > 9999 {
		t = time.Date(2001, 2, 3, 4, 5, 6, 0, loc)
	}
	return t
}

// value generates a Go value of non-pointer type t together with its wire form.
func (g *gen) value(t reflect.Type, depth int) (reflect.Value, *wire) {
	v := reflect.New(t).Elem()
	w := &wire{t: t}
	if isNamedScalar[t] {
		g.feat("named_scalar")
	}
	switch classify(t) {
	case cBool:
		b := g.r.Intn(2) == 0
		v.SetBool(b)
		w.k, w.want, w.b = kBool, kBool, b
		g.feat("kind:bool")
	case cInt:
		n := g.integer(t.Kind())
		v.SetInt(n)
		w.k, w.want, w.text = kNum, kNum, strconv.FormatInt(n, 10)
		g.feat("kind:" + t.Kind().String())
	case cUint:
		n := g.integer(t.Kind())
		v.SetUint(uint64(n))
		w.k, w.want, w.text = kNum, kNum, strconv.FormatInt(n, 10)
		g.feat("kind:" + t.Kind().String())
	case cFloat:
		f := g.float(t.Kind())
		v.SetFloat(f)
		w.k, w.want, w.text = kNum, kNum, g.floatText(f)
		g.feat("kind:" + t.Kind().String())
	case cString:
		s := g.str()
		v.SetString(s)
		w.k, w.want, w.text = kStr, kStr, s
		g.feat("kind:string")
	case cEnum:
		es := enumTable[t]
		e := es[g.r.Intn(len(es))]
		v.Set(reflect.ValueOf(e.val))
		w.k, w.want, w.text = kEnum, kStr, e.name
		g.feat("enum")
		g.feat("enum:" + t.Name())
	case cBytes:
		b := make([]byte, g.r.Intn(13))
		g.r.Read(b)
		if g.r.Intn(6) == 0 {
			for i := range b {
				b[i] = 0xff // exercises '/' and '+' neighbourhood of the alphabet
			}
		}
		v.SetBytes(b)
		w.k, w.want, w.text = kStr, kStr, base64.StdEncoding.EncodeToString(b)
		g.feat("bytes")
	case cTime:
		tm := g.time()
		v.Set(reflect.ValueOf(tm))
		w.k, w.want, w.text = kStr, kStr, tm.Format(time.RFC3339)
		g.feat("time")
	case cText:
		switch t {
		case reflect.TypeOf(TextPair{}):
			k := strings.ReplaceAll(g.str(), "=", "_")
			p := TextPair{K: k, V: g.str()}
			v.Set(reflect.ValueOf(p))
			w.text = p.K + "=" + p.V
		case reflect.TypeOf(TextArr{}):
			var a TextArr
			g.r.Read(a[:])
			v.Set(reflect.ValueOf(a))
			w.text = hex.EncodeToString(a[:])
			if g.r.Intn(2) == 0 {
				w.text = strings.ToUpper(w.text)
			}
		case reflect.TypeOf(TextLong{}):
			var l TextLong
			if g.r.Intn(3) == 0 {
				l.S = g.str()
			} else {
				// long, with a content that identifies the value
				unit := fmt.Sprintf("%c%x-", 'a'+rune(g.r.Intn(26)), g.r.Intn(1<<16))
				l.S = strings.Repeat(unit, 1+g.r.Intn(120))
			}
			v.Set(reflect.ValueOf(l))
			w.text = l.S
		default:
			kv, text, ok := g.kindTextValue(t)
			if !ok {
				panic("unknown text type " + t.String())
			}
			v.Set(kv)
			w.text = text
		}
		w.k, w.want = kStr, kStr
		g.feat("text_unmarshaler")
	case cStruct:
		return g.structVal(t, depth)
	case cSlice:
		g.feat("list")
		et := t.Elem()
		n := 0
		if depth > 0 {
			switch g.r.Intn(6) {
			case 0:
				n = 0
			case 1:
				n = 1
			default:
				n = 1 + g.r.Intn(3)
			}
		} else if c := classify(deref(et)); c != cStruct && c != cSlice {
			n = g.r.Intn(3)
		}
		s := reflect.MakeSlice(t, n, n)
		w.k, w.want = kList, kList
		w.list = []*wire{}
		for i := 0; i < n; i++ {
			ev, ew := g.slot(et, false, true, depth-1)
			s.Index(i).Set(ev)
			w.list = append(w.list, ew)
		}
		v.Set(s)
	default:
		panic("unsupported type " + t.String())
	}
	return v, w
}

func deref(t reflect.Type) reflect.Type {
	if t.Kind() == reflect.Ptr {
		return t.Elem()
	}
	return t
}

// slot generates the content of a position of declared type t (possibly a
// pointer; possibly tagged optional). A nil wire means "left out".
func (g *gen) slot(t reflect.Type, optionalTag, inList bool, depth int) (reflect.Value, *wire) {
	zero := reflect.Zero(t)
	isPtr := t.Kind() == reflect.Ptr
	if isPtr {
		g.feat("pointer")
	}
	if optionalTag {
		g.feat("optional_tag")
	}
	if isPtr || optionalTag {
		p := 0.25
		if depth <= 0 {
			if c := classify(deref(t)); c == cStruct || c == cSlice {
				p = 1
			}
		}
		if inList && !g.allowNull {
			// a list element cannot be left out; lists of containers are
			// kept empty at depth 0 by the caller.
			p = 0
		}
		if g.r.Float64() < p {
			if inList {
				g.feat("null_list_entry")
				return zero, &wire{k: kNull, t: t, want: wantOf(deref(t))}
			}
			if g.allowNull && g.r.Intn(2) == 0 {
				g.feat("explicit_null")
				return zero, &wire{k: kNull, t: t, want: wantOf(deref(t))}
			}
			g.feat("left_out")
			return zero, nil
		}
	}
	if isPtr {
		ev, ew := g.value(t.Elem(), depth)
		pv := reflect.New(t.Elem())
		pv.Elem().Set(ev)
		ew.t = t
		return pv, ew
	}
	return g.value(t, depth)
}

func wantOf(t reflect.Type) wkind {
	switch classify(t) {
	case cBool:
		return kBool
	case cInt, cUint, cFloat:
		return kNum
	case cStruct:
		return kObj
	case cSlice:
		return kList
	default:
		return kStr
	}
}

func (g *gen) structVal(t reflect.Type, depth int) (reflect.Value, *wire) {
	v := reflect.New(t).Elem()
	w := &wire{k: kObj, want: kObj, t: t, fields: []wfield{}}
	if t.Name() != "" {
		g.feat("nested_input_object")
		g.feat("struct:" + t.Name())
	}
	for _, f := range fieldsOf(t) {
		fv, fw := g.slot(f.typ, f.optional, false, depth-1)
		v.Field(f.idx).Set(fv)
		if fw != nil {
			w.fields = append(w.fields, wfield{f.name, fw})
		}
		if f.required() {
			w.req = append(w.req, f.name)
		}
	}
	g.r.Shuffle(len(w.fields), func(i, j int) { w.fields[i], w.fields[j] = w.fields[j], w.fields[i] })
	return v, w
}

// ---- equality between a captured argument value and the value sent ------

// eqValue compares got with want. nil and empty slices are not told apart
// (both are "the empty list"); times are compared as instants with their
// zone offset; everything else must be identical.
func eqValue(got, want reflect.Value, path string) string {
	if got.Type() != want.Type() {
		return fmt.Sprintf("%s: type %s != %s", path, got.Type(), want.Type())
	}
	if got.Type() != tTime && got.Kind() == reflect.Struct && got.Type().ConvertibleTo(tTime) {
		// a named type with the representation of time.Time
		got, want = got.Convert(tTime), want.Convert(tTime)
	}
	if got.Type() == tTime {
		if !got.CanInterface() {
			return ""
		}
		a, b := got.Interface().(time.Time), want.Interface().(time.Time)
		_, ao := a.Zone()
		_, bo := b.Zone()
		if !a.Equal(b) || ao != bo || a.Nanosecond() != b.Nanosecond() {
			return fmt.Sprintf("%s: time %s != %s", path, a.Format(time.RFC3339Nano), b.Format(time.RFC3339Nano))
		}
		return ""
	}
	switch got.Kind() {
	case reflect.Ptr:
		if got.IsNil() != want.IsNil() {
			return fmt.Sprintf("%s: nil=%v want nil=%v", path, got.IsNil(), want.IsNil())
		}
		if got.IsNil() {
			return ""
		}
		return eqValue(got.Elem(), want.Elem(), path+"*")
	case reflect.Slice, reflect.Array:
		if got.Len() != want.Len() {
			return fmt.Sprintf("%s: len %d != %d", path, got.Len(), want.Len())
		}
		for i := 0; i < got.Len(); i++ {
			if d := eqValue(got.Index(i), want.Index(i), fmt.Sprintf("%s[%d]", path, i)); d != "" {
				return d
			}
		}
		return ""
	case reflect.Struct:
		for i := 0; i < got.NumField(); i++ {
			if d := eqValue(got.Field(i), want.Field(i), path+"."+got.Type().Field(i).Name); d != "" {
				return d
			}
		}
		return ""
	case reflect.Map: // string-keyed (TextKV); nil and empty not told apart
		if got.Len() != want.Len() {
			return fmt.Sprintf("%s: len %d != %d", path, got.Len(), want.Len())
		}
		for _, k := range sortedKeys(want) {
			gv := got.MapIndex(k)
			if !gv.IsValid() {
				return fmt.Sprintf("%s: key %q missing", path, k.String())
			}
			if d := eqValue(gv, want.MapIndex(k), fmt.Sprintf("%s[%q]", path, k.String())); d != "" {
				return d
			}
		}
		return ""
	case reflect.Bool:
		if got.Bool() != want.Bool() {
			return fmt.Sprintf("%s: %v != %v", path, got.Bool(), want.Bool())
		}
	case reflect.Int, reflect.Int8, reflect.Int16, reflect.Int32, reflect.Int64:
		if got.Int() != want.Int() {
			return fmt.Sprintf("%s: %d != %d", path, got.Int(), want.Int())
		}
	case reflect.Uint, reflect.Uint8, reflect.Uint16, reflect.Uint32, reflect.Uint64:
		if got.Uint() != want.Uint() {
			return fmt.Sprintf("%s: %d != %d", path, got.Uint(), want.Uint())
		}
	case reflect.Float32, reflect.Float64:
		if got.Float() != want.Float() {
			return fmt.Sprintf("%s: %v != %v", path, got.Float(), want.Float())
		}
	case reflect.String:
		if got.String() != want.String() {
			return fmt.Sprintf("%s: %q != %q", path, got.String(), want.String())
		}
	default:
		return fmt.Sprintf("%s: unsupported kind %s", path, got.Kind())
	}
	return ""
}

// show renders a Go value for witnesses, following pointers.
func show(v reflect.Value) string {
	var sb strings.Builder
	showInto(&sb, v, 0, false)
	return sb.String()
}

// showInto renders v; norm writes nil slices like empty ones.
func showInto(sb *strings.Builder, v reflect.Value, depth int, norm bool) {
	if depth > 40 {
		sb.WriteString("…")
		return
	}
	if v.Type() != tTime && v.Kind() == reflect.Struct && v.Type().ConvertibleTo(tTime) {
		v = v.Convert(tTime)
	}
	if v.Type() == tTime && v.CanInterface() {
		sb.WriteString(v.Interface().(time.Time).Format(time.RFC3339Nano))
		return
	}
	switch v.Kind() {
	case reflect.Ptr:
		if v.IsNil() {
			sb.WriteString("nil")
			return
		}
		sb.WriteString("&")
		showInto(sb, v.Elem(), depth+1, norm)
	case reflect.Slice:
		if v.IsNil() && !norm {
			sb.WriteString("nil[]")
			return
		}
		fallthrough
	case reflect.Array:
		sb.WriteString("[")
		for i := 0; i < v.Len(); i++ {
			if i > 0 {
				sb.WriteString(" ")
			}
			showInto(sb, v.Index(i), depth+1, norm)
		}
		sb.WriteString("]")
	case reflect.Struct:
		sb.WriteString("{")
		for i := 0; i < v.NumField(); i++ {
			if i > 0 {
				sb.WriteString(" ")
			}
			sb.WriteString(v.Type().Field(i).Name + ":")
			showInto(sb, v.Field(i), depth+1, norm)
		}
		sb.WriteString("}")
	case reflect.Map:
		sb.WriteString("map[")
		for i, k := range sortedKeys(v) {
			if i > 0 {
				sb.WriteString(" ")
			}
			sb.WriteString(strconv.Quote(k.String()) + ":")
			showInto(sb, v.MapIndex(k), depth+1, norm)
		}
		sb.WriteString("]")
	case reflect.String:
		sb.WriteString(strconv.Quote(v.String()))
	case reflect.Bool:
		sb.WriteString(strconv.FormatBool(v.Bool()))
	case reflect.Int, reflect.Int8, reflect.Int16, reflect.Int32, reflect.Int64:
		sb.WriteString(strconv.FormatInt(v.Int(), 10))
	case reflect.Uint, reflect.Uint8, reflect.Uint16, reflect.Uint32, reflect.Uint64:
		sb.WriteString(strconv.FormatUint(v.Uint(), 10))
	case reflect.Float32, reflect.Float64:
		sb.WriteString(strconv.FormatFloat(v.Float(), 'g', -1, 64))
	default:
		sb.WriteString("?" + v.Kind().String())
	}
}

// sortedKeys returns the keys of a string-keyed map in order.
func sortedKeys(m reflect.Value) []reflect.Value {
	ks := m.MapKeys()
	sort.Slice(ks, func(a, b int) bool { return ks[a].String() < ks[b].String() })
	return ks
}
