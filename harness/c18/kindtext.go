package c18

import (
	"encoding"
	"encoding/hex"
	"errors"
	"fmt"
	"math/rand"
	"net"
	"reflect"
	"sort"
	"strconv"
	"strings"
	"time"

	"github.com/samsarahq/thunder/verifharness/vlib"
)

// ---- TextUnmarshalers whose reflect kind suggests another wire format -------
//
// The builder documents that an argument type implementing
// encoding.TextUnmarshaler travels as a string and is filled by UnmarshalText.
// The types below implement it on top of a representation that, judged by its
// reflect kind alone, would travel differently: a named byte slice (looks like
// the bytes scalar / a list of uint8), a named []string (looks like a list), a
// map (no wire form of its own), a struct with the layout of time.Time (looks
// like the Time scalar), next to the array and exported-field struct kinds of
// TextArr and TextPair. net.IP is the standard library's instance of the first.

// TextHex is an identifier that travels as hexadecimal text.
type TextHex []byte

func (h TextHex) MarshalText() ([]byte, error) { return []byte(hex.EncodeToString(h)), nil }

func (h *TextHex) UnmarshalText(b []byte) error {
	d, err := hex.DecodeString(string(b))
	if err != nil {
		return err
	}
	*h = d
	return nil
}

// TextCSV is a list of words that travels as ONE comma separated string.
type TextCSV []string

func (c *TextCSV) UnmarshalText(b []byte) error {
	if len(b) == 0 {
		*c = TextCSV{}
		return nil
	}
	*c = strings.Split(string(b), ",")
	return nil
}

// TextKV is a set of labels that travels as "k=v;k=v".
type TextKV map[string]string

func (m *TextKV) UnmarshalText(b []byte) error {
	out := TextKV{}
	if len(b) > 0 {
		for _, p := range strings.Split(string(b), ";") {
			i := strings.IndexByte(p, '=')
			if i < 0 {
				return errors.New("TextKV: missing '='")
			}
			out[p[:i]] = p[i+1:]
		}
	}
	*m = out
	return nil
}

// TextStamp has the representation of time.Time but travels as decimal unix
// seconds.
type TextStamp time.Time

func (s *TextStamp) UnmarshalText(b []byte) error {
	n, err := strconv.ParseInt(string(b), 10, 64)
	if err != nil {
		return err
	}
	*s = TextStamp(time.Unix(n, 0).UTC())
	return nil
}

// TextWords is a list of numbers that travels as "1 2 3" (slice of a scalar
// other than byte).
type TextWords []int32

func (w *TextWords) UnmarshalText(b []byte) error {
	out := TextWords{}
	for _, f := range strings.Fields(string(b)) {
		n, err := strconv.ParseInt(f, 10, 32)
		if err != nil {
			return err
		}
		out = append(out, int32(n))
	}
	*w = out
	return nil
}

var (
	_ encoding.TextUnmarshaler = (*TextHex)(nil)
	_ encoding.TextUnmarshaler = (*TextCSV)(nil)
	_ encoding.TextUnmarshaler = (*TextKV)(nil)
	_ encoding.TextUnmarshaler = (*TextStamp)(nil)
	_ encoding.TextUnmarshaler = (*TextWords)(nil)
	_ encoding.TextUnmarshaler = (*net.IP)(nil)
)

var (
	tTextHex   = reflect.TypeOf(TextHex(nil))
	tNetIP     = reflect.TypeOf(net.IP(nil))
	tTextCSV   = reflect.TypeOf(TextCSV(nil))
	tTextKV    = reflect.TypeOf(TextKV(nil))
	tTextStamp = reflect.TypeOf(TextStamp{})
	tTextWords = reflect.TypeOf(TextWords(nil))

	// kindTextTypes is the pool of the kind-vs-method leg (the byte-slice
	// kinded ones twice).
	kindTextTypes = []reflect.Type{
		tTextHex, tNetIP, tTextCSV, tTextKV, tTextStamp, tTextWords, tTextHex, tNetIP,
		reflect.TypeOf(TextArr{}), reflect.TypeOf(TextPair{}),
	}
)

// kindTextTexts writes the text that is sent for a value of each type; the
// Go value that must arrive is what the type's own UnmarshalText (harness or
// standard library code) makes of that text.
var kindTextTexts = map[reflect.Type]func(g *gen) string{
	tTextHex: func(g *gen) string {
		b := make([]byte, g.r.Intn(10))
		g.r.Read(b)
		s := hex.EncodeToString(b)
		if g.r.Intn(3) == 0 {
			s = strings.ToUpper(s)
		}
		return s
	},
	tNetIP: func(g *gen) string {
		n := 4
		if g.r.Intn(2) == 0 {
			n = 16
		}
		b := make([]byte, n)
		g.r.Read(b)
		switch g.r.Intn(6) {
		case 0:
			for k := range b[:n/2] {
				b[k] = 0
			}
		case 1:
			copy(b, []byte{10, 1, 2, 3})
		}
		return net.IP(b).String()
	},
	tTextCSV: func(g *gen) string {
		n := g.r.Intn(4)
		parts := make([]string, n)
		for k := range parts {
			parts[k] = strings.ReplaceAll(g.str(), ",", ";")
		}
		return strings.Join(parts, ",")
	},
	tTextKV: func(g *gen) string {
		n := g.r.Intn(4)
		parts := make([]string, n)
		for k := range parts {
			key := strings.NewReplacer("=", "_", ";", "_").Replace(g.str())
			parts[k] = key + "=" + strings.ReplaceAll(g.str(), ";", ",")
		}
		return strings.Join(parts, ";")
	},
	tTextStamp: func(g *gen) string {
		switch g.r.Intn(4) {
		case 0:
			return strconv.Itoa(g.r.Intn(3) - 1)
		case 1:
			return strconv.FormatInt(g.time().Unix(), 10)
		default:
			return strconv.FormatInt(g.r.Int63n(4e9), 10)
		}
	},
	tTextWords: func(g *gen) string {
		n := g.r.Intn(4)
		parts := make([]string, n)
		for k := range parts {
			parts[k] = strconv.FormatInt(g.integer(reflect.Int32), 10)
		}
		return strings.Join(parts, " ")
	},
}

// kindTextValue generates the text for a position of type t and the value its
// UnmarshalText makes of it.
func (g *gen) kindTextValue(t reflect.Type) (reflect.Value, string, bool) {
	mk, ok := kindTextTexts[t]
	if !ok {
		return reflect.Value{}, "", false
	}
	text := mk(g)
	p := reflect.New(t)
	if err := p.Interface().(encoding.TextUnmarshaler).UnmarshalText([]byte(text)); err != nil {
		panic(fmt.Sprintf("harness: generated text %q is not a valid %s: %v", text, t, err))
	}
	g.feat("kind_text")
	g.feat("kind_text:" + t.String())
	return p.Elem(), text, true
}

// ---- input objects and args structs carrying them --------------------------

// InK is an input object whose fields are such types at every position.
type InK struct {
	ID   TextHex
	Addr net.IP `graphql:",optional"`
	Tags TextCSV
	Opt  *TextHex
	More []TextHex
	KV   *TextKV
	At   TextStamp `graphql:",optional"`
}

// InK2 nests InK next to its own fields.
type InK2 struct {
	Peer  net.IP
	Peers []*net.IP
	Nums  TextWords `graphql:",optional"`
	K     *InK
	Ks    []InK `graphql:",optional"`
}

// KA1 and KA2 are compile-time args structs (served by ordinary closures).
type KA1 struct {
	Id   TextHex
	Opt  *TextHex
	More []TextHex
	Addr net.IP `graphql:",optional"`
}

type KA2 struct {
	Tags   TextCSV
	Labels TextKV `graphql:",optional"`
	At     *TextStamp
	In     InK
	Hops   [][]net.IP
	Raw    []byte
	When   time.Time
}

var kindTextStructs = []reflect.Type{reflect.TypeOf(InK{}), reflect.TypeOf(InK2{})}
var kindTextStatic = []reflect.Type{reflect.TypeOf(KA1{}), reflect.TypeOf(KA2{})}

func init() {
	staticFns[reflect.TypeOf(KA1{})] = staticFn[KA1]
	staticFns[reflect.TypeOf(KA2{})] = staticFn[KA2]
}

// kindTextField draws the type of one argument that involves such a type:
// plain, behind a pointer, as list element (of values, of pointers, nested), or
// as field of an input object (plain / pointer / list of it).
func kindTextField(r *rand.Rand) (reflect.Type, string) {
	t := kindTextTypes[r.Intn(len(kindTextTypes))]
	switch r.Intn(10) {
	case 0, 1, 2:
		return t, "plain"
	case 3, 4:
		return reflect.PtrTo(t), "pointer"
	case 5:
		return reflect.SliceOf(t), "list_element"
	case 6:
		return reflect.SliceOf(reflect.PtrTo(t)), "list_pointer_element"
	case 7:
		return reflect.SliceOf(reflect.SliceOf(t)), "nested_list_element"
	default:
		s := kindTextStructs[r.Intn(len(kindTextStructs))]
		switch r.Intn(3) {
		case 0:
			return s, "input_object_field"
		case 1:
			return reflect.PtrTo(s), "input_object_field"
		default:
			return reflect.SliceOf(s), "input_object_field"
		}
	}
}

// kindTextArgs generates the args struct of a kind-vs-method case: 1-3
// arguments involving such types (tags as in argsType), 0-2 arguments of the
// general grammar around them; sometimes a compile-time struct.
func kindTextArgs(r *rand.Rand) (reflect.Type, []string) {
	if r.Intn(8) == 0 {
		return kindTextStatic[r.Intn(len(kindTextStatic))], []string{"static"}
	}
	var types []reflect.Type
	var pos []string
	for k, n := 0, 1+r.Intn(3); k < n; k++ {
		t, p := kindTextField(r)
		types = append(types, t)
		pos = append(pos, p)
	}
	for k, n := 0, r.Intn(3); k < n; k++ {
		types = append(types, fieldType(r, 2))
	}
	r.Shuffle(len(types), func(a, b int) { types[a], types[b] = types[b], types[a] })
	fields := make([]reflect.StructField, 0, len(types))
	used := map[string]bool{}
	for k, t := range types {
		f := reflect.StructField{Name: fmt.Sprintf("F%d", k), Type: t}
		name := ""
		if r.Intn(3) == 0 {
			name = customNames[r.Intn(len(customNames))]
			if used[name] {
				name = ""
			}
			used[name] = true
		}
		opt := r.Intn(4) == 0
		switch {
		case name != "" && opt:
			f.Tag = reflect.StructTag(fmt.Sprintf(`graphql:"%s,optional"`, name))
			pos = append(pos, "optional_tag")
		case name != "":
			f.Tag = reflect.StructTag(fmt.Sprintf(`graphql:"%s"`, name))
		case opt:
			f.Tag = `graphql:",optional"`
			pos = append(pos, "optional_tag")
		}
		fields = append(fields, f)
	}
	return reflect.StructOf(fields), pos
}

// KindTextCase runs the sequential legs of a case (all transports, one
// invalid request, the HTTP sequence and the positions query) on an args
// struct from kindTextArgs.
func KindTextCase(run *vlib.Run, i int) {
	r := run.Rand("kindtext", i)
	argsT, pos := kindTextArgs(r)
	sort.Strings(pos)
	for k, p := range pos {
		if k == 0 || pos[k-1] != p {
			run.Count("kind_text_position:"+p, 1)
		}
	}
	run.Count("kind_text_cases", 1)
	caseBody(run, i, r, argsT, r.Intn(4), "kt")
}
