package c18

import (
	"encoding"
	"encoding/base64"
	"encoding/json"
	"errors"
	"fmt"
	"math"
	"math/rand"
	"reflect"
	"sort"
	"strconv"
	"time"
)

// decode is the reference model of input coercion as the property and the
// builder's documentation state it: the Go value of a position of declared
// type t for the JSON-transported wire value w (nil = left out). It is used
// to compute the expected value of requests that are derived from a generated
// one by rewriting the wire form, and to tell valid from invalid rewrites.
func decode(w *wire, t reflect.Type, optionalTag bool) (reflect.Value, error) {
	if w == nil || w.k == kNull {
		if t.Kind() == reflect.Ptr || optionalTag {
			return reflect.Zero(t), nil
		}
		return reflect.Value{}, errors.New("required value missing")
	}
	if t.Kind() == reflect.Ptr {
		ev, err := decode(w, t.Elem(), false)
		if err != nil {
			return reflect.Value{}, err
		}
		p := reflect.New(t.Elem())
		p.Elem().Set(ev)
		return p, nil
	}
	v := reflect.New(t).Elem()
	bad := func(want string) (reflect.Value, error) {
		return reflect.Value{}, fmt.Errorf("%s wanted for %s", want, t)
	}
	switch classify(t) {
	case cBool:
		if w.k != kBool {
			return bad("bool")
		}
		v.SetBool(w.b)
	case cInt, cUint, cFloat:
		if w.k != kNum {
			return bad("number")
		}
		f, err := strconv.ParseFloat(w.text, 64)
		if err != nil {
			return reflect.Value{}, err
		}
		switch classify(t) {
		case cInt:
			if f != math.Trunc(f) || math.Abs(f) > float64(maxExact) {
				return bad("exact integer")
			}
			v.SetInt(int64(f))
			if float64(v.Int()) != f {
				return bad("in-range integer")
			}
		case cUint:
			if f != math.Trunc(f) || f < 0 || f > float64(maxExact) {
				return bad("exact unsigned integer")
			}
			v.SetUint(uint64(f))
			if float64(v.Uint()) != f {
				return bad("in-range integer")
			}
		default:
			v.SetFloat(f)
			if v.Float() != f {
				return bad("exactly representable float")
			}
		}
	case cString:
		if jsonKind(w) != kStr {
			return bad("string")
		}
		v.SetString(w.text)
	case cEnum:
		if jsonKind(w) != kStr {
			return bad("string")
		}
		found := false
		for _, e := range enumTable[t] {
			if e.name == w.text {
				v.Set(reflect.ValueOf(e.val))
				found = true
			}
		}
		if !found {
			return bad("enum name")
		}
	case cBytes:
		if jsonKind(w) != kStr {
			return bad("string")
		}
		b, err := base64.StdEncoding.DecodeString(w.text)
		if err != nil {
			return reflect.Value{}, err
		}
		v.SetBytes(b)
	case cTime:
		if jsonKind(w) != kStr {
			return bad("string")
		}
		tm, err := time.Parse(time.RFC3339, w.text)
		if err != nil {
			return reflect.Value{}, err
		}
		v.Set(reflect.ValueOf(tm))
	case cText:
		if jsonKind(w) != kStr {
			return bad("string")
		}
		if err := v.Addr().Interface().(encoding.TextUnmarshaler).UnmarshalText([]byte(w.text)); err != nil {
			return reflect.Value{}, err
		}
	case cStruct:
		if w.k != kObj {
			return bad("object")
		}
		byName := map[string]*wire{}
		for _, f := range w.fields {
			byName[f.name] = f.v
		}
		known := 0
		for _, f := range fieldsOf(t) {
			fw := byName[f.name]
			if fw != nil {
				known++
			}
			fv, err := decode(fw, f.typ, f.optional)
			if err != nil {
				return reflect.Value{}, fmt.Errorf("%s: %v", f.name, err)
			}
			v.Field(f.idx).Set(fv)
		}
		if known != len(w.fields) {
			return reflect.Value{}, errors.New("unknown field (outside the model)")
		}
	case cSlice:
		if w.k != kList {
			return bad("list")
		}
		s := reflect.MakeSlice(t, len(w.list), len(w.list))
		for i, e := range w.list {
			ev, err := decode(e, t.Elem(), false)
			if err != nil {
				return reflect.Value{}, fmt.Errorf("[%d]: %v", i, err)
			}
			s.Index(i).Set(ev)
		}
		v.Set(s)
	default:
		return bad("supported type")
	}
	return v, nil
}

// printed is how a parsed-JSON value looks under fmt's default formatting,
// which forgets JSON kinds and structure ("21" and 21, "true" and true,
// ["a b"] and ["a","b"] all look alike).
func printed(w *wire) string {
	var v interface{}
	if err := json.Unmarshal([]byte(w.json()), &v); err != nil {
		return "<<" + err.Error() + ">>"
	}
	return fmt.Sprint(v)
}

func isPlainString(t reflect.Type) bool {
	return t != nil && classify(deref(t)) == cString
}

// wrongKindTwin rewrites one node of a copy of root into a value of another
// JSON kind that looks the same when printed: number/bool/list/object ->
// string holding its printed form, string "true"/"12" -> bool/number.
func wrongKindTwin(r *rand.Rand, root *wire, argsT reflect.Type) (*wire, string, bool) {
	tw := root.clone()
	var all, req []site
	collect(tw, &all, &req)
	var cands []site
	for _, s := range all {
		n := s.node()
		if n.t == nil {
			continue
		}
		if n.want != kStr {
			cands = append(cands, s)
			continue
		}
		if jsonKind(n) == kStr {
			if n.text == "true" || n.text == "false" {
				cands = append(cands, s)
			} else if f, err := strconv.ParseFloat(n.text, 64); err == nil && !math.IsInf(f, 0) && f == f &&
				strconv.FormatFloat(f, 'g', -1, 64) == n.text && json.Valid([]byte(n.text)) {
				cands = append(cands, s)
			}
		}
	}
	if len(cands) == 0 {
		return nil, "", false
	}
	s := cands[r.Intn(len(cands))]
	n := s.node()
	var nw *wire
	switch {
	case n.want != kStr:
		nw = &wire{k: kStr, text: printed(n)}
	case n.text == "true" || n.text == "false":
		nw = &wire{k: kBool, b: n.text == "true"}
	default:
		nw = &wire{k: kNum, text: n.text}
	}
	nw.want = n.want
	s.set(nw)
	if _, err := decode(tw, argsT, false); err == nil {
		return nil, "", false // not invalid after all
	}
	if printed(tw) != printed(root) {
		return nil, "", false
	}
	return tw, "twin:" + kindNames[n.want] + "<-" + kindNames[jsonKind(nw)], true
}

// sameLookTwin rewrites a copy of root into a different, equally valid value
// that looks the same when printed: two neighbouring strings of a list
// merged with a space (or one split at a space), a null string replaced by
// the text "<nil>", or two neighbouring string fields k1,k2 of an object
// folded into k1 = `v1 k2:v2` with the optional k2 left out.
func sameLookTwin(r *rand.Rand, root *wire, argsT reflect.Type) (*wire, reflect.Value, string, bool) {
	tw := root.clone()
	type rewrite struct {
		name string
		do   func()
	}
	var cands []rewrite
	var walk func(w *wire)
	walk = func(w *wire) {
		switch w.k {
		case kList:
			if w.t != nil && deref(w.t).Kind() == reflect.Slice && isPlainString(deref(w.t).Elem()) {
				for i := range w.list {
					i := i
					a := w.list[i]
					if a.k != kStr {
						continue
					}
					if i+1 < len(w.list) && w.list[i+1].k == kStr {
						cands = append(cands, rewrite{"list_merge", func() {
							a.text = a.text + " " + w.list[i+1].text
							w.list = append(w.list[:i+1:i+1], w.list[i+2:]...)
						}})
					}
					for p := 0; p < len(a.text); p++ {
						if a.text[p] == ' ' {
							p := p
							cands = append(cands, rewrite{"list_split", func() {
								b := *a
								b.text = a.text[p+1:]
								a.text = a.text[:p]
								rest := append([]*wire{&b}, w.list[i+1:]...)
								w.list = append(w.list[:i+1:i+1], rest...)
							}})
							break
						}
					}
				}
			}
			for _, e := range w.list {
				if e.k == kNull && isPlainString(e.t) {
					e := e
					cands = append(cands, rewrite{"null_as_text", func() { e.k, e.text = kStr, "<nil>" }})
				}
				walk(e)
			}
		case kObj:
			req := map[string]bool{}
			for _, n := range w.req {
				req[n] = true
			}
			idx := make([]int, len(w.fields))
			for i := range idx {
				idx[i] = i
			}
			sort.Slice(idx, func(a, b int) bool { return w.fields[idx[a]].name < w.fields[idx[b]].name })
			for k := 0; k+1 < len(idx); k++ {
				f1, f2 := w.fields[idx[k]], w.fields[idx[k+1]]
				if f1.v.k == kStr && f2.v.k == kStr && isPlainString(f1.v.t) && isPlainString(f2.v.t) && !req[f2.name] {
					i2 := idx[k+1]
					cands = append(cands, rewrite{"fields_folded", func() {
						f1.v.text = f1.v.text + " " + f2.name + ":" + f2.v.text
						w.fields = append(w.fields[:i2:i2], w.fields[i2+1:]...)
					}})
				}
			}
			for _, f := range w.fields {
				if f.v.k == kNull && isPlainString(f.v.t) {
					fv := f.v
					cands = append(cands, rewrite{"null_as_text", func() { fv.k, fv.text = kStr, "<nil>" }})
				}
				walk(f.v)
			}
		}
	}
	walk(tw)
	if len(cands) == 0 {
		return nil, reflect.Value{}, "", false
	}
	c := cands[r.Intn(len(cands))]
	c.do()
	v, err := decode(tw, argsT, false)
	if err != nil || printed(tw) != printed(root) || tw.json() == root.json() {
		return nil, reflect.Value{}, "", false
	}
	return tw, v, "same_look:" + c.name, true
}
