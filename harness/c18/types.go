// Package c18 monitors property C18: arguments reach resolvers exactly as
// sent, by GraphQL literal, by variable, or by variable default; missing
// required arguments and values of the wrong JSON kind are rejected as client
// errors before any resolver runs; optional arguments left out arrive as
// nil / zero.
package c18

import (
	"encoding"
	"encoding/hex"
	"errors"
	"reflect"
	"runtime"
	"strings"
	"time"
	"unicode"
	"unicode/utf8"

	"github.com/samsarahq/thunder/graphql/schemabuilder"
)

// ---- named scalars -------------------------------------------------------

type MyBool bool
type MyInt int
type MyInt8 int8
type MyInt16 int16
type MyInt32 int32
type MyInt64 int64
type MyUint uint
type MyUint8 uint8
type MyUint16 uint16
type MyUint32 uint32
type MyUint64 uint64
type MyFloat32 float32
type MyFloat64 float64
type MyString string

// ---- enums (registered with schema.Enum on every schema) -----------------

type Color int32
type Mode string
type Level uint8

type enumEntry struct {
	name string
	val  interface{}
}

var enumTable = map[reflect.Type][]enumEntry{
	reflect.TypeOf(Color(0)): {{"NONE", Color(0)}, {"RED", Color(1)}, {"GREEN", Color(2)}, {"BLUE", Color(7)}, {"ultraViolet", Color(-3)}},
	reflect.TypeOf(Mode("")): {{"FAST", Mode("fast-mode")}, {"SLOW", Mode("slow mode")}, {"_off", Mode("")}, {"true1", Mode("TRUE")}},
	reflect.TypeOf(Level(0)): {{"LOW", Level(1)}, {"MID", Level(128)}, {"HIGH", Level(255)}},
}

func registerEnums(s *schemabuilder.Schema) {
	c := map[string]Color{}
	for _, e := range enumTable[reflect.TypeOf(Color(0))] {
		c[e.name] = e.val.(Color)
	}
	s.Enum(Color(0), c)
	m := map[string]Mode{}
	for _, e := range enumTable[reflect.TypeOf(Mode(""))] {
		m[e.name] = e.val.(Mode)
	}
	s.Enum(Mode(""), m)
	l := map[string]Level{}
	for _, e := range enumTable[reflect.TypeOf(Level(0))] {
		l[e.name] = e.val.(Level)
	}
	s.Enum(Level(0), l)
}

// ---- encoding.TextUnmarshaler types --------------------------------------

// TextPair is transported as "K=V" (K contains no '=').
type TextPair struct {
	K, V string
}

func (p *TextPair) UnmarshalText(b []byte) error {
	s := string(b)
	i := strings.IndexByte(s, '=')
	if i < 0 {
		return errors.New("TextPair: missing '='")
	}
	p.K, p.V = s[:i], s[i+1:]
	return nil
}

// TextArr is transported as 8 hex digits (array kind, like a uuid).
type TextArr [4]byte

func (a *TextArr) UnmarshalText(b []byte) error {
	if len(b) != 8 {
		return errors.New("TextArr: want 8 hex digits")
	}
	_, err := hex.Decode(a[:], b)
	return err
}

// TextLong keeps the text as it is (id / token like arguments, possibly
// long). It copies the text, as the encoding.TextUnmarshaler contract asks,
// in two steps with a scheduling point in between: a parser can be
// descheduled half-way on any machine.
type TextLong struct {
	S string
}

func (t *TextLong) UnmarshalText(b []byte) error {
	n := len(b) / 2
	head := string(b[:n])
	runtime.Gosched()
	t.S = head + string(b[n:])
	return nil
}

var _ encoding.TextUnmarshaler = (*TextLong)(nil)
var _ encoding.TextUnmarshaler = (*TextPair)(nil)
var _ encoding.TextUnmarshaler = (*TextArr)(nil)

// ---- named input objects -------------------------------------------------

type InA struct {
	I int64
	S string
}

type InB struct {
	P       *int32
	L       []string
	E       Color `graphql:",optional"`
	skipped int
	Ign     string `graphql:"-"`
}

type InC struct {
	A  InA
	PA *InA
	LA []InA `graphql:"las"`
	T  time.Time
	OA InA `graphql:"optA,optional"`
}

type InD struct {
	B   []byte
	U   TextPair
	F   float64
	LPB []*InB
	M   Mode
	N   MyUint16
	H   *TextArr
}

type InRec struct {
	V    int32
	Next *InRec
	Kids []InRec `graphql:",optional"`
}

// InS has string fields that are neighbours in key order (name, note,
// suffix, tags), two of them optional.
type InS struct {
	Name   string
	Suffix *string
	Tags   []string
	Note   MyString `graphql:",optional"`
}

// InH has fields the builder must skip before, between and after the exposed
// ones, next to exposed fields of the same and of other types.
type InH struct {
	hidden0 int64
	A       int64
	Skip1   string `graphql:"-"`
	B       string
	hidden2 string
	C       *int64
	Skip3   *int64 `graphql:"-"`
	D       string `graphql:",optional"`
	E       []string
	hidden4 []string
}

// InH2 starts with an exported skipped field and nests InH.
type InH2 struct {
	Skip0 InA `graphql:"-"`
	X     InA
	H     InH
	skip1 bool
	Y     bool `graphql:"why,optional"`
	LH    []*InH
}

type InOpt struct {
	A *int8
	B *MyString
	C *bool
	D []float32  `graphql:",optional"`
	E *InA       `graphql:"inner"`
	F *time.Time `graphql:",optional"`
	G uint64     `graphql:",optional"`
}

var (
	tBytes           = reflect.TypeOf([]byte(nil))
	tTime            = reflect.TypeOf(time.Time{})
	tTextUnmarshaler = reflect.TypeOf((*encoding.TextUnmarshaler)(nil)).Elem()

	plainScalars = []reflect.Type{
		reflect.TypeOf(false), reflect.TypeOf(int(0)), reflect.TypeOf(int8(0)), reflect.TypeOf(int16(0)),
		reflect.TypeOf(int32(0)), reflect.TypeOf(int64(0)), reflect.TypeOf(uint(0)), reflect.TypeOf(uint8(0)),
		reflect.TypeOf(uint16(0)), reflect.TypeOf(uint32(0)), reflect.TypeOf(uint64(0)), reflect.TypeOf(float32(0)),
		reflect.TypeOf(float64(0)), reflect.TypeOf(""),
	}
	namedScalars = []reflect.Type{
		reflect.TypeOf(MyBool(false)), reflect.TypeOf(MyInt(0)), reflect.TypeOf(MyInt8(0)), reflect.TypeOf(MyInt16(0)),
		reflect.TypeOf(MyInt32(0)), reflect.TypeOf(MyInt64(0)), reflect.TypeOf(MyUint(0)), reflect.TypeOf(MyUint8(0)),
		reflect.TypeOf(MyUint16(0)), reflect.TypeOf(MyUint32(0)), reflect.TypeOf(MyUint64(0)), reflect.TypeOf(MyFloat32(0)),
		reflect.TypeOf(MyFloat64(0)), reflect.TypeOf(MyString("")),
	}
	enumTypes   = []reflect.Type{reflect.TypeOf(Color(0)), reflect.TypeOf(Mode("")), reflect.TypeOf(Level(0))}
	textTypes   = []reflect.Type{reflect.TypeOf(TextPair{}), reflect.TypeOf(TextArr{}), reflect.TypeOf(TextLong{})}
	structTypes = []reflect.Type{
		reflect.TypeOf(InA{}), reflect.TypeOf(InB{}), reflect.TypeOf(InC{}), reflect.TypeOf(InD{}),
		reflect.TypeOf(InRec{}), reflect.TypeOf(InOpt{}), reflect.TypeOf(InS{}), reflect.TypeOf(InH{}), reflect.TypeOf(InH2{}),
	}
)

// ---- classification of an argument type (what the builder documents) -----

type cat int

const (
	cBool cat = iota
	cInt
	cUint
	cFloat
	cString
	cEnum
	cBytes
	cTime
	cText
	cStruct
	cSlice
	cBad
)

func classify(t reflect.Type) cat {
	if _, ok := enumTable[t]; ok {
		return cEnum
	}
	if t == tBytes {
		return cBytes
	}
	if t == tTime {
		return cTime
	}
	switch t.Kind() {
	case reflect.Bool:
		return cBool
	case reflect.Int, reflect.Int8, reflect.Int16, reflect.Int32, reflect.Int64:
		return cInt
	case reflect.Uint, reflect.Uint8, reflect.Uint16, reflect.Uint32, reflect.Uint64:
		return cUint
	case reflect.Float32, reflect.Float64:
		return cFloat
	case reflect.String:
		return cString
	}
	if reflect.PtrTo(t).Implements(tTextUnmarshaler) {
		return cText
	}
	switch t.Kind() {
	case reflect.Struct:
		return cStruct
	case reflect.Slice:
		return cSlice
	}
	return cBad
}

// fieldModel is the documented mapping of a Go struct field to an input
// field: name from the graphql tag or the lower-cased Go name, "-" and
// unexported fields skipped, ",optional" makes the field optional.
type fieldModel struct {
	idx      int
	name     string
	typ      reflect.Type
	optional bool // `graphql:",optional"`
}

func fieldsOf(t reflect.Type) []fieldModel {
	var out []fieldModel
	for i := 0; i < t.NumField(); i++ {
		f := t.Field(i)
		if f.PkgPath != "" {
			continue
		}
		parts := strings.Split(f.Tag.Get("graphql"), ",")
		name := parts[0]
		if name == "-" {
			continue
		}
		if name == "" {
			r, n := utf8.DecodeRuneInString(f.Name)
			name = string(unicode.ToLower(r)) + f.Name[n:]
		}
		opt := false
		for _, p := range parts[1:] {
			if p == "optional" {
				opt = true
			}
		}
		out = append(out, fieldModel{idx: i, name: name, typ: f.Type, optional: opt})
	}
	return out
}

func (f fieldModel) required() bool { return !f.optional && f.typ.Kind() != reflect.Ptr }

var scalarNames = map[reflect.Kind]string{
	reflect.Bool: "bool", reflect.Int: "int", reflect.Int8: "int8", reflect.Int16: "int16", reflect.Int32: "int32",
	reflect.Int64: "int64", reflect.Uint: "uint", reflect.Uint8: "uint8", reflect.Uint16: "uint16",
	reflect.Uint32: "uint32", reflect.Uint64: "uint64", reflect.Float32: "float32", reflect.Float64: "float64",
	reflect.String: "string",
}

// gqlTypeName renders the variable type for a declaration. thunder's parser
// only looks at the outermost NonNull and the default value, so this is
// cosmetic apart from the trailing "!".
func gqlTypeName(t reflect.Type) string {
	if t == nil {
		return "string"
	}
	if t.Kind() == reflect.Ptr {
		return gqlInner(t.Elem())
	}
	return gqlInner(t)
}

func gqlInner(t reflect.Type) string {
	switch classify(t) {
	case cEnum:
		return t.Name()
	case cBytes:
		return "bytes"
	case cTime:
		return "Time"
	case cText:
		return "string"
	case cStruct:
		if t.Name() == "" {
			return "Args_InputObject"
		}
		return t.Name() + "_InputObject"
	case cSlice:
		e := t.Elem()
		if e.Kind() == reflect.Ptr {
			return "[" + gqlInner(e.Elem()) + "]"
		}
		return "[" + gqlInner(e) + "!]"
	default:
		return scalarNames[t.Kind()]
	}
}

// sig is the distinctness key of a type.
func sig(t reflect.Type) string {
	if k := t.Kind(); (k == reflect.Slice || k == reflect.Map) && t.Name() != "" && classify(t) == cText {
		return t.String() // whatever its kind, it is one text-transported leaf
	}
	switch t.Kind() {
	case reflect.Ptr:
		return "*" + sig(t.Elem())
	case reflect.Slice:
		if t == tBytes {
			return "bytes"
		}
		return "[]" + sig(t.Elem())
	case reflect.Struct:
		if t.Name() != "" {
			return t.Name()
		}
		var sb strings.Builder
		sb.WriteString("{")
		exposed := map[int]fieldModel{}
		for _, f := range fieldsOf(t) {
			exposed[f.idx] = f
		}
		for i := 0; i < t.NumField(); i++ {
			if i > 0 {
				sb.WriteString(",")
			}
			f, ok := exposed[i]
			if !ok { // a field the builder skips
				sb.WriteString("-:" + sig(t.Field(i).Type))
				continue
			}
			sb.WriteString(f.name)
			if f.optional {
				sb.WriteString("?")
			}
			sb.WriteString(":")
			sb.WriteString(sig(f.typ))
		}
		sb.WriteString("}")
		return sb.String()
	}
	return t.String()
}

var isNamedScalar = func() map[reflect.Type]bool {
	m := map[reflect.Type]bool{}
	for _, t := range namedScalars {
		m[t] = true
	}
	return m
}()
