package c18

import (
	"testing"

	"github.com/samsarahq/thunder/verifharness/vlib"
)

func TestCheck(t *testing.T) {
	run := vlib.Start(t, "C18", "exploration")
	defer run.Finish()
	Describe(run)
	n := run.N(40000, 1000000)
	run.Each(n, 8, func(i int) {
		Case(run, i)
		if i%16 == 0 {
			ConcurrentCase(run, i, i%32 == 0)
		}
	})
}
