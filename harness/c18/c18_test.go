package c18

import (
	"runtime/debug"
	"testing"

	"github.com/samsarahq/thunder/graphql"
	"github.com/samsarahq/thunder/verifharness/vlib"
)

func TestCheck(t *testing.T) {
	run := vlib.Start(t, "C18", "exploration")
	defer run.Finish()
	Describe(run)
	// Thunder's public nesting limit, lowered so that "more list literals
	// than the limit" needs a few hundred of them instead of a thousand.
	graphql.MaxQueryNesting = ListLiteralBudget
	// The run allocates many short-lived request objects on a small live
	// heap; collect less often (bounded by a memory limit).
	debug.SetGCPercent(400)
	debug.SetMemoryLimit(3 << 30)
	n := run.N(40000, 1000000)
	run.Each(n, 8, func(i int) {
		Case(run, i)
		if i%8 == 4 {
			KindTextCase(run, i)
		}
		if i%4 == 1 {
			pagLeg(run, i)
		}
		if i%16 == 8 {
			manyListsLeg(run, i)
		}
		if i%64 == 32 {
			socketLeg(run, i)
		}
		if i%16 == 0 {
			ConcurrentCase(run, i, i%32 == 0)
		}
	})
}
