package c18

import (
	"context"
	"crypto/sha256"
	"encoding/hex"
	"encoding/json"
	"fmt"
	"math/rand"
	"net/http"
	"net/http/httptest"
	"reflect"
	"sort"
	"strings"
	"sync"

	"github.com/samsarahq/thunder/graphql"
	"github.com/samsarahq/thunder/graphql/schemabuilder"
	"github.com/samsarahq/thunder/verifharness/vlib"
)

// ---- argument struct shapes ----------------------------------------------

func leafType(r *rand.Rand) reflect.Type {
	switch x := r.Intn(20); {
	case x < 6:
		return plainScalars[r.Intn(len(plainScalars))]
	case x < 10:
		return namedScalars[r.Intn(len(namedScalars))]
	case x < 12:
		return enumTypes[r.Intn(len(enumTypes))]
	case x < 13:
		return tBytes
	case x < 14:
		return tTime
	case x < 16:
		return textTypes[r.Intn(len(textTypes))]
	default:
		return structTypes[r.Intn(len(structTypes))]
	}
}

// fieldType generates a supported argument field type: leaf, list of field
// types, or pointer to a non-pointer field type.
func fieldType(r *rand.Rand, depth int) reflect.Type {
	if depth <= 0 {
		return leafType(r)
	}
	switch x := r.Intn(20); {
	case x < 10:
		return leafType(r)
	case x < 16:
		return reflect.SliceOf(fieldType(r, depth-1))
	default:
		t := fieldType(r, depth-1)
		if t.Kind() == reflect.Ptr {
			return t
		}
		return reflect.PtrTo(t)
	}
}

var customNames = []string{"id", "first", "after", "input", "x_y", "_u", "camelCase", "Upper", "a1"}

// argsType generates the args struct of a case: a predeclared struct or a
// reflect.StructOf shape with 1..4 fields.
func argsType(r *rand.Rand) reflect.Type {
	if r.Intn(6) == 0 {
		return structTypes[r.Intn(len(structTypes))]
	}
	n := 1 + r.Intn(4)
	fields := make([]reflect.StructField, 0, 2*n+1)
	used := map[string]bool{}
	hidden := 0
	// hide adds a field the builder must skip (`graphql:"-"` or unexported),
	// of the neighbour's type or of another one.
	hide := func(neighbour reflect.Type) {
		t := neighbour
		if t == nil || r.Intn(2) == 0 {
			t = leafType(r)
		}
		hidden++
		if r.Intn(2) == 0 {
			fields = append(fields, reflect.StructField{Name: fmt.Sprintf("Hidden%d", hidden), Type: t, Tag: `graphql:"-"`})
		} else {
			fields = append(fields, reflect.StructField{Name: fmt.Sprintf("hidden%d", hidden), Type: t, PkgPath: "github.com/samsarahq/thunder/verifharness/c18"})
		}
	}
	for i := 0; i < n; i++ {
		f := reflect.StructField{Name: fmt.Sprintf("F%d", i), Type: fieldType(r, 3)}
		if r.Intn(5) == 0 {
			hide(f.Type) // before / between exposed fields
		}
		name := ""
		if r.Intn(3) == 0 {
			name = customNames[r.Intn(len(customNames))]
			if used[name] {
				name = ""
			}
			used[name] = true
		}
		opt := r.Intn(4) == 0
		switch {
		case name != "" && opt:
			f.Tag = reflect.StructTag(fmt.Sprintf(`graphql:"%s,optional"`, name))
		case name != "":
			f.Tag = reflect.StructTag(fmt.Sprintf(`graphql:"%s"`, name))
		case opt:
			f.Tag = `graphql:",optional"`
		}
		fields = append(fields, f)
	}
	if r.Intn(8) == 0 {
		hide(fields[len(fields)-1].Type) // after the last exposed field
	}
	return reflect.StructOf(fields)
}

// ---- schema fixture --------------------------------------------------------

type fixture struct {
	schema  *graphql.Schema
	argsT   reflect.Type
	handler http.Handler // one graphql.HTTPHandler per fixture, shared by all HTTP requests of the case
	shared  *node        // the one source object every node / self field returns

	mu       sync.Mutex
	calls    int
	captured []reflect.Value
}

// node is the object the argument-taking field also lives on, below the
// root: Query.node and Node.self return the same pointer, so one source is
// reachable at several places of a query.
type node struct {
	ID int64
}

var (
	tCtx = reflect.TypeOf((*context.Context)(nil)).Elem()
	tErr = reflect.TypeOf((*error)(nil)).Elem()
)

// digestOf is what the resolvers answer: a digest of the args value they
// received (nil and empty slices not told apart), so that the response shows
// which value reached the resolver of each selection.
func digestOf(v reflect.Value) string {
	var sb strings.Builder
	showInto(&sb, v, 0, true)
	h := sha256.Sum256([]byte(sb.String()))
	return hex.EncodeToString(h[:8])
}

// newFixture builds the schema of a case. variant bit 0: the field funcs take
// a context and return an error as well; bit 1: Node.f is registered with
// schemabuilder.Expensive.
func newFixture(argsT reflect.Type, variant int) (*fixture, error) {
	fx := &fixture{argsT: argsT, shared: &node{ID: 7}}
	var fnI interface{}
	if mk, ok := staticFns[argsT]; ok {
		fnI = mk(fx, variant&1 == 1)
	} else {
		in := []reflect.Type{argsT}
		out := []reflect.Type{reflect.TypeOf("")}
		argIdx := 0
		if variant&1 == 1 {
			in = []reflect.Type{tCtx, argsT}
			out = append(out, tErr)
			argIdx = 1
		}
		fnI = reflect.MakeFunc(reflect.FuncOf(in, out, false), func(a []reflect.Value) []reflect.Value {
			fx.mu.Lock()
			fx.calls++
			fx.captured = append(fx.captured, a[argIdx])
			fx.mu.Unlock()
			res := []reflect.Value{reflect.ValueOf(digestOf(a[argIdx]))}
			if variant&1 == 1 {
				res = append(res, reflect.Zero(tErr))
			}
			return res
		}).Interface()
	}
	s := schemabuilder.NewSchema()
	registerEnums(s)
	s.Query().FieldFunc("f", fnI)
	s.Mutation().FieldFunc("f", fnI)
	s.Query().FieldFunc("node", func() *node { return fx.shared })
	obj := s.Object("Node", node{})
	if variant&2 == 2 {
		obj.FieldFunc("f", fnI, schemabuilder.Expensive)
	} else {
		obj.FieldFunc("f", fnI)
	}
	obj.FieldFunc("self", func(n *node) *node { return n })
	built, err := s.Build()
	if err != nil {
		return nil, err
	}
	fx.schema = built
	fx.handler = graphql.HTTPHandler(built)
	return fx, nil
}

func (fx *fixture) reset() {
	fx.mu.Lock()
	fx.calls, fx.captured = 0, nil
	fx.mu.Unlock()
}

func (fx *fixture) observed() (int, []reflect.Value) {
	fx.mu.Lock()
	defer fx.mu.Unlock()
	return fx.calls, fx.captured
}

type httpOutcome struct {
	errs     []string
	hasData  bool
	data     interface{}
	calls    int
	captured []reflect.Value
	raw      string
	panicMsg string
}

// post sends one request to the fixture's HTTP handler, as a client would,
// and reports the resolver calls it caused (one request at a time).
func (fx *fixture) post(query, varsJSON string) httpOutcome {
	fx.reset()
	o := fx.rawPost(query, varsJSON)
	o.calls, o.captured = fx.observed()
	return o
}

// rawPost is safe for concurrent use.
func (fx *fixture) rawPost(query, varsJSON string) (o httpOutcome) {
	defer func() {
		if p := recover(); p != nil {
			o.panicMsg = vlib.Trunc(fmt.Sprint(p), 400)
		}
	}()
	qj, _ := json.Marshal(query)
	body := `{"query":` + string(qj) + `,"variables":` + varsJSON + `}`
	req := httptest.NewRequest("POST", "/graphql", strings.NewReader(body))
	rec := httptest.NewRecorder()
	fx.handler.ServeHTTP(rec, req)
	o.raw = vlib.Trunc(rec.Body.String(), 600)
	var resp struct {
		Data   interface{} `json:"data"`
		Errors []string    `json:"errors"`
	}
	if err := json.Unmarshal(rec.Body.Bytes(), &resp); err != nil {
		o.errs = []string{"<<unparsable response: " + err.Error() + ">>"}
		return o
	}
	o.errs, o.hasData, o.data = resp.Errors, resp.Data != nil, resp.Data
	return o
}

// renderHTTP writes the query of the HTTP leg: every argument of f is passed
// through a nullable variable named like the argument, so the variables
// object of a request is exactly the JSON form of the args value and left-out
// arguments are undefined variables.
func renderHTTP(r *rand.Rand, argsT reflect.Type, uses int) string {
	var decls, args []string
	for _, f := range fieldsOf(argsT) {
		decls = append(decls, "$"+f.name+": "+gqlTypeName(f.typ))
		args = append(args, f.name+": $"+f.name)
	}
	r.Shuffle(len(args), func(i, j int) { args[i], args[j] = args[j], args[i] })
	op, on := "query", "Query"
	if r.Intn(4) == 0 {
		op, on = "mutation", "Mutation"
	}
	body, tail := selectionBody(r, "f("+strings.Join(args, ", ")+")", on, uses, map[string]int{})
	return op + " Q(" + strings.Join(decls, ", ") + ") { " + body + " }" + tail
}

type outcome struct {
	stage    string // "parse", "prepare", "execute", "done", "panic:<stage>"
	err      error
	data     interface{} // JSON form of the result
	calls    int
	captured []reflect.Value
	panicMsg string
}

// exec runs one request in process (Parse, PrepareQuery, Execute) and reports
// the resolver calls it caused (one request at a time).
func (fx *fixture) exec(query, varsJSON string, nilVars bool) outcome {
	fx.reset()
	o := fx.rawExec(query, varsJSON, nilVars)
	o.calls, o.captured = fx.observed()
	return o
}

// rawExec is safe for concurrent use.
func (fx *fixture) rawExec(query, varsJSON string, nilVars bool) (o outcome) {
	root := fx.schema.Query
	if strings.HasPrefix(query, "mutation") {
		root = fx.schema.Mutation
	}
	stage := "vars"
	defer func() {
		if p := recover(); p != nil {
			o.stage = "panic:" + stage
			o.panicMsg = vlib.Trunc(fmt.Sprint(p), 400)
		}
	}()
	var vars map[string]interface{}
	if !nilVars || varsJSON != "{}" {
		// as the HTTP and websocket transports do
		if err := json.Unmarshal([]byte(varsJSON), &vars); err != nil {
			panic("harness: variables JSON does not parse: " + err.Error() + ": " + varsJSON)
		}
	}
	stage = "parse"
	q, err := graphql.Parse(query, vars)
	if err != nil {
		return outcome{stage: "parse", err: err}
	}
	stage = "prepare"
	ctx := context.Background()
	if err := graphql.PrepareQuery(ctx, root, q.SelectionSet); err != nil {
		return outcome{stage: "prepare", err: err}
	}
	stage = "execute"
	e := graphql.NewExecutor(graphql.NewImmediateGoroutineScheduler())
	res, err := e.Execute(ctx, root, nil, q)
	if err != nil {
		return outcome{stage: "execute", err: err}
	}
	data, err := vlib.ToJSONForm(res)
	if err != nil {
		return outcome{stage: "execute", err: err}
	}
	return outcome{stage: "done", data: data}
}

// ---- request rendering -----------------------------------------------------

const (
	mSupplied      = iota // declared without default, value in the map
	mDefaultAbsent        // default = value, variable not in the map
	mDefaultNull          // default = value, variable null in the map
	mDecoy                // value in the map, default = another value (must be ignored)
	mUndefined            // (null only) declared without default, not in the map
)

var modeNames = []string{"var_supplied", "default_left_out", "default_null", "supplied_with_other_default", "var_undefined"}

type binder struct {
	r     *rand.Rand
	g     *gen
	decls []string
	vars  []string
	used  map[string]int // mode histogram of this request
}

func newBinder(r *rand.Rand) *binder {
	return &binder{r: r, g: &gen{r: r}, used: map[string]int{}}
}

// decoy generates a different null-free value for the position of w.
func (b *binder) decoy(w *wire) *wire {
	if w.t == nil {
		return nil
	}
	own := w.json()
	for try := 0; try < 6; try++ {
		_, d := b.g.value(deref(w.t), 2)
		if d.hasNull() || d.json() == own {
			continue
		}
		return d
	}
	return nil
}

// bind routes w through a variable with the wanted mode (falling back to a
// mode that can carry w) and returns "$name".
func (b *binder) bind(w *wire, mode int) string {
	name := fmt.Sprintf("v%d", len(b.decls))
	var dec *wire
	switch {
	case w.k == kNull:
		if mode != mUndefined {
			mode = mSupplied
		}
	case mode == mUndefined:
		mode = mSupplied
	case mode == mDecoy:
		if dec = b.decoy(w); dec == nil {
			mode = mSupplied
		}
	case (mode == mDefaultAbsent || mode == mDefaultNull) && w.hasNull():
		mode = mSupplied
	}
	typ := gqlTypeName(w.t)
	decl := "$" + name + ": " + typ
	switch mode {
	case mSupplied:
		if w.k != kNull && b.r.Intn(2) == 0 {
			decl += "!"
		}
		b.vars = append(b.vars, fmt.Sprintf("%q:%s", name, w.json()))
	case mUndefined:
	case mDefaultAbsent:
		decl += " = " + b.literal(w)
	case mDefaultNull:
		decl += " = " + b.literal(w)
		b.vars = append(b.vars, fmt.Sprintf("%q:null", name))
	case mDecoy:
		decl += " = " + b.literal(dec)
		b.vars = append(b.vars, fmt.Sprintf("%q:%s", name, w.json()))
	}
	b.decls = append(b.decls, decl)
	if w.k == kNull && mode == mSupplied {
		b.used["var_null"]++
	} else {
		b.used[modeNames[mode]]++
	}
	return "$" + name
}

// literal renders a null-free wire as a pure GraphQL literal.
func (b *binder) literal(w *wire) string {
	var sb strings.Builder
	b.lit(&sb, w, 0, true)
	return sb.String()
}

// lit renders w as a GraphQL literal. Null nodes (which the pinned parser
// cannot write) and, with probability nested, other nodes are routed through
// variables; pure forbids any variable.
func (b *binder) lit(sb *strings.Builder, w *wire, nested float64, pure bool) {
	if w.k == kNull {
		if pure {
			panic("harness: null in pure literal")
		}
		mode := mSupplied
		if b.r.Intn(2) == 0 {
			mode = mUndefined
		}
		sb.WriteString(b.bind(w, mode))
		return
	}
	if !pure && nested > 0 && b.r.Float64() < nested {
		sb.WriteString(b.bind(w, b.r.Intn(4)))
		return
	}
	switch w.k {
	case kNum, kEnum:
		sb.WriteString(w.text)
	case kStr:
		sb.WriteString(gqlQuote(w.text, b.r))
	case kBool:
		if w.b {
			sb.WriteString("true")
		} else {
			sb.WriteString("false")
		}
	case kList:
		sb.WriteString("[")
		for i, e := range w.list {
			if i > 0 {
				sb.WriteString([]string{", ", " ", ","}[b.r.Intn(3)])
			}
			b.lit(sb, e, nested, pure)
		}
		sb.WriteString("]")
	case kObj:
		sb.WriteString("{")
		for i, f := range w.fields {
			if i > 0 {
				sb.WriteString([]string{", ", " ", ","}[b.r.Intn(3)])
			}
			sb.WriteString(f.name + ": ")
			b.lit(sb, f.v, nested, pure)
		}
		sb.WriteString("}")
	}
}

const (
	tLiteral = iota
	tVariable
	tDefaultAbsent
	tDefaultNull
	tDecoy
	tMixed
	nTransports
)

var transportNames = []string{"literal", "variable", "default_left_out", "default_null", "supplied_with_other_default", "mixed"}

type request struct {
	query, vars string
	used        map[string]int
	uses        int // number of selections of f in the query
}

// pickUses draws how many times the field is selected in one request.
func pickUses(r *rand.Rand) int {
	switch x := r.Intn(10); {
	case x < 4:
		return 1
	case x < 8:
		return 2
	default:
		return 3
	}
}

// selectionBody writes `uses` selections of field (the same text, hence the
// same variables, every time) under distinct aliases: directly, inside an
// inline fragment, or inside one named fragment.
func selectionBody(r *rand.Rand, field, on string, uses int, used map[string]int) (body, tail string) {
	var direct, frag []string
	for k := 0; k < uses; k++ {
		sel := field
		if uses > 1 {
			sel = fmt.Sprintf("u%d: %s", k, field)
		} else if r.Intn(8) == 0 {
			sel = "renamed: " + field
			used["shape:alias"]++
		}
		switch r.Intn(8) {
		case 0:
			direct = append(direct, "... on "+on+" { "+sel+" }")
			used["shape:inline_fragment"]++
		case 1:
			frag = append(frag, sel)
		default:
			direct = append(direct, sel)
		}
	}
	if len(frag) > 0 {
		used["shape:named_fragment"]++
		direct = append(direct, "...Fr")
		tail = " fragment Fr on " + on + " { " + strings.Join(frag, " ") + " }"
	}
	if uses > 1 {
		used[fmt.Sprintf("shape:uses_%d", uses)]++
	}
	r.Shuffle(len(direct), func(i, j int) { direct[i], direct[j] = direct[j], direct[i] })
	return strings.Join(direct, " "), tail
}

// render builds the request that sends root (an object whose fields are the
// arguments of f) through the given transport. names lists every argument of
// the field so that left-out ones can also be written as undefined variables.
// renderField writes one selection of f carrying root (an object whose fields
// are the arguments) through the given transport, binding variables in b.
func renderField(b *binder, r *rand.Rand, root *wire, names []string, transport int) string {
	var args []string
	present := map[string]bool{}
	for _, f := range root.fields {
		present[f.name] = true
		var text string
		tr := transport
		if tr == tMixed {
			tr = r.Intn(tMixed + 1)
		}
		switch tr {
		case tLiteral:
			var sb strings.Builder
			b.lit(&sb, f.v, 0, false)
			text = sb.String()
			if !f.v.hasNull() {
				b.used["literal"]++
			} else {
				b.used["literal_with_null_vars"]++
			}
		case tVariable:
			text = b.bind(f.v, mSupplied)
		case tDefaultAbsent:
			text = b.bind(f.v, mDefaultAbsent)
		case tDefaultNull:
			text = b.bind(f.v, mDefaultNull)
		case tDecoy:
			text = b.bind(f.v, mDecoy)
		default: // literal with nested variable sites
			var sb strings.Builder
			b.lit(&sb, f.v, 0.3, false)
			text = sb.String()
			b.used["literal_nested_vars"]++
		}
		args = append(args, f.name+": "+text)
	}
	for _, n := range names {
		if !present[n] && transport != tLiteral && r.Intn(3) == 0 {
			args = append(args, n+": "+b.bind(&wire{k: kNull}, mUndefined))
		}
	}
	r.Shuffle(len(args), func(i, j int) { args[i], args[j] = args[j], args[i] })
	if len(args) == 0 {
		return "f"
	}
	return "f(" + strings.Join(args, ", ") + ")"
}

func render(r *rand.Rand, root *wire, names []string, transport, uses int) request {
	b := newBinder(r)
	field := renderField(b, r, root, names, transport)
	// the selection is written plain, aliased, inside an inline fragment or
	// inside a named fragment; as a query or as a mutation.
	op, on := "query", "Query"
	if r.Intn(4) == 0 {
		op, on = "mutation", "Mutation"
	}
	body, tail := selectionBody(r, field, on, uses, b.used)
	if op == "mutation" {
		b.used["shape:mutation"]++
	}
	var q string
	switch {
	case len(b.decls) > 0:
		q = op + " Q(" + strings.Join(b.decls, ", ") + ") { " + body + " }" + tail
	case op == "query" && r.Intn(2) == 0:
		q = "{ " + body + " }" + tail
	default:
		q = op + " Q { " + body + " }" + tail
	}
	return request{query: q, vars: "{" + strings.Join(b.vars, ",") + "}", used: b.used, uses: uses}
}

// ---- negative mutations ----------------------------------------------------

type site struct {
	parent *wire
	idx    int // index in parent.fields or parent.list
}

func (s site) node() *wire {
	if s.parent.k == kObj {
		return s.parent.fields[s.idx].v
	}
	return s.parent.list[s.idx]
}

func (s site) set(w *wire) {
	if s.parent.k == kObj {
		s.parent.fields[s.idx].v = w
	} else {
		s.parent.list[s.idx] = w
	}
}

func collect(w *wire, all *[]site, required *[]site) {
	switch w.k {
	case kObj:
		req := map[string]bool{}
		for _, n := range w.req {
			req[n] = true
		}
		for i, f := range w.fields {
			s := site{w, i}
			if f.v.k != kNull {
				*all = append(*all, s)
			}
			if req[f.name] {
				*required = append(*required, s)
			}
			collect(f.v, all, required)
		}
	case kList:
		for i, e := range w.list {
			if e.k != kNull {
				*all = append(*all, site{w, i})
			}
			collect(e, all, required)
		}
	}
}

var kindNames = map[wkind]string{kNum: "number", kStr: "string", kBool: "bool", kList: "list", kObj: "object"}

// otherKind builds a value of a JSON kind different from want.
func otherKind(r *rand.Rand, want wkind, orig *wire) *wire {
	kinds := []wkind{kNum, kStr, kBool, kList, kObj}
	var k wkind
	for {
		k = kinds[r.Intn(len(kinds))]
		if k != want {
			break
		}
	}
	switch k {
	case kNum:
		return &wire{k: kNum, text: []string{"7", "0", "1", "-2", "1.5"}[r.Intn(5)]}
	case kStr:
		return &wire{k: kStr, text: []string{"x7", "1", "", "true", "RED", "2020-01-02T03:04:05Z", "[]"}[r.Intn(7)]}
	case kBool:
		return &wire{k: kBool, b: r.Intn(2) == 0}
	case kList:
		if r.Intn(2) == 0 && orig.k != kList {
			return &wire{k: kList, list: []*wire{orig.clone()}}
		}
		return &wire{k: kList, list: []*wire{}}
	default:
		if r.Intn(2) == 0 {
			return &wire{k: kObj, fields: []wfield{}}
		}
		return &wire{k: kObj, fields: []wfield{{"zz", &wire{k: kNum, text: "1"}}}}
	}
}

// mutate turns a valid request value into an invalid one and describes how.
func mutate(r *rand.Rand, root *wire) (string, bool) {
	var all, required []site
	collect(root, &all, &required)
	choice := r.Intn(10)
	if choice < 4 && len(required) > 0 {
		s := required[r.Intn(len(required))]
		name := s.parent.fields[s.idx].name
		if r.Intn(3) == 0 {
			old := s.node()
			s.set(&wire{k: kNull, t: old.t, want: old.want})
			return "required_null:" + kindNames[old.want] + ":" + name, true
		}
		want := s.node().want
		s.parent.fields = append(s.parent.fields[:s.idx:s.idx], s.parent.fields[s.idx+1:]...)
		return "required_missing:" + kindNames[want] + ":" + name, true
	}
	if len(all) == 0 {
		return "", false
	}
	s := all[r.Intn(len(all))]
	old := s.node()
	nw := otherKind(r, old.want, old)
	nw.want = old.want
	s.set(nw)
	return "wrong_kind:" + kindNames[old.want] + "<-" + kindNames[jsonKind(nw)], true
}

func jsonKind(w *wire) wkind {
	if w.k == kEnum {
		return kStr
	}
	return w.k
}

// ---- the check -------------------------------------------------------------

func featureCount(feats map[string]bool, defaultUsed bool) int {
	n := 0
	if feats["list"] {
		n++
	}
	if feats["nested_input_object"] {
		n++
	}
	if feats["pointer"] || feats["optional_tag"] {
		n++
	}
	if feats["named_scalar"] || feats["enum"] || feats["bytes"] || feats["time"] || feats["text_unmarshaler"] {
		n++
	}
	if defaultUsed {
		n++
	}
	return n
}

func isClientError(err error) (sanitized, exact bool) {
	_, sanitized = err.(graphql.SanitizedError)
	_, exact = err.(graphql.ClientError)
	return
}

// Case runs the sequential legs of case i.
func Case(run *vlib.Run, i int) {
	r := run.Rand("case", i)
	argsT := argsType(r)
	variant := r.Intn(4)
	caseBody(run, i, r, argsT, variant, "")
}

// caseBody runs the sequential legs on one args struct; leg names the family
// of the case ("" = the general grammar) and selects its random streams.
func caseBody(run *vlib.Run, i int, r *rand.Rand, argsT reflect.Type, variant int, leg string) {
	fx, err := newFixture(argsT, variant)
	if err != nil {
		run.Broken(fmt.Sprintf("case %d: schema for %s does not build: %v", i, sig(argsT), err))
		return
	}
	feats := map[string]bool{}
	g := &gen{r: r, allowNull: r.Intn(5) < 2, feats: feats}
	want, root := g.structVal(argsT, 3)
	var names []string
	for _, f := range fieldsOf(argsT) {
		names = append(names, f.name)
	}
	typeSig := sig(argsT)
	if argsT.Name() != "" {
		typeSig = "args:" + typeSig
		delete(feats, "nested_input_object") // top-level args struct is not nested
		for _, f := range root.fields {
			markNested(f.v, feats)
		}
	}

	wit := func(req request, transport string, extra map[string]interface{}) map[string]interface{} {
		w := map[string]interface{}{
			"args_type": typeSig, "transport": transport, "query": req.query, "variables": req.vars,
			"sent_go_value": vlib.Trunc(show(want), 3000),
		}
		for k, v := range extra {
			w[k] = v
		}
		return w
	}

	// positive: all transports carry the same value
	defaultUsed := false
	for tr := 0; tr < nTransports; tr++ {
		rr := run.Rand(fmt.Sprintf("render%d%s", tr, leg), i)
		req := render(rr, root, names, tr, pickUses(rr))
		o := fx.exec(req.query, req.vars, r.Intn(2) == 0)
		name := transportNames[tr]
		run.Count("transport_runs:"+name, 1)
		for k, c := range req.used {
			run.Count("mode:"+k, c)
			if k == "default_left_out" || k == "default_null" {
				defaultUsed = true
			}
		}
		switch {
		case strings.HasPrefix(o.stage, "panic"):
			run.Violation(i, "", wit(req, name, map[string]interface{}{"what": "panic on a valid request", "stage": o.stage, "panic": o.panicMsg}))
		case o.stage != "done":
			run.Violation(i, "", wit(req, name, map[string]interface{}{"what": "valid request rejected", "stage": o.stage, "error": o.err.Error()}))
		case o.calls != req.uses:
			run.Violation(i, "", wit(req, name, map[string]interface{}{"what": "resolver not called exactly once per selection", "calls": o.calls, "selections": req.uses}))
		default:
			for _, c := range o.captured {
				if d := eqValue(c, want, "args"); d != "" {
					run.Violation(i, "", wit(req, name, map[string]interface{}{
						"what": "resolver received a different value than was sent", "diff": d, "selections": req.uses,
						"received": vlib.Trunc(show(c), 3000)}))
					break
				}
			}
		}
		if tr == tMixed && run.WantSample() && featureCount(feats, defaultUsed) >= 3 {
			run.Sample(map[string]interface{}{"args_type": typeSig, "query": vlib.Trunc(req.query, 1200), "variables": vlib.Trunc(req.vars, 800), "received": vlib.Trunc(show(want), 1200)})
		}
	}

	// negative: one invalid request
	neg := root.clone()
	nr := run.Rand("neg"+leg, i)
	class, ok := mutate(nr, neg)
	mclass := "none"
	if ok {
		mclass = class
		if k := strings.LastIndex(class, ":"); strings.HasPrefix(class, "required_") && k > 0 {
			mclass = class[:k]
		}
		tr := nr.Intn(nTransports)
		req := render(nr, neg, names, tr, pickUses(nr))
		o := fx.exec(req.query, req.vars, false)
		name := transportNames[tr]
		run.Count("negative:"+mclass, 1)
		run.Count("negative_transport:"+name, 1)
		extra := map[string]interface{}{"mutation": class, "stage": o.stage, "calls": o.calls}
		if o.err != nil {
			extra["error"] = vlib.Trunc(o.err.Error(), 400)
		}
		switch {
		case strings.HasPrefix(o.stage, "panic"):
			extra["what"], extra["panic"] = "panic on an invalid request", o.panicMsg
			run.Violation(i, "", wit(req, name, extra))
		case o.stage == "done" || o.stage == "execute":
			extra["what"] = "invalid request was not rejected before execution"
			if len(o.captured) > 0 {
				extra["received"] = vlib.Trunc(show(o.captured[0]), 3000)
			}
			run.Violation(i, "", wit(req, name, extra))
		default:
			run.Count("rejected_at:"+o.stage, 1)
			sanitized, exact := isClientError(o.err)
			if exact {
				run.Count("rejected_with:ClientError", 1)
			}
			if !sanitized {
				extra["what"] = fmt.Sprintf("rejection is not a client error (%T)", o.err)
				run.Violation(i, "", wit(req, name, extra))
			}
			if o.calls != 0 {
				extra["what"] = "resolver ran although the request was rejected"
				run.Violation(i, "", wit(req, name, extra))
			}
		}
	}

	httpLeg(run, i, fx, argsT, root, want, typeSig, leg)
	positionsLeg(run, i, fx, argsT, names, typeSig, variant&2 == 2, leg)

	var fl []string
	for f := range feats {
		fl = append(fl, f)
	}
	sort.Strings(fl)
	for _, f := range fl {
		run.Count("feature:"+f, 1)
	}
	nt := featureCount(feats, defaultUsed) >= 2
	if nt {
		run.Count("nontrivial_cases", 1)
	}
	if leg != "" {
		typeSig = leg + "|" + typeSig
	}
	run.Case(typeSig+"|"+mclass, nt)
}

func markNested(w *wire, feats map[string]bool) {
	if w == nil {
		return
	}
	switch w.k {
	case kObj:
		feats["nested_input_object"] = true
	case kList:
		for _, e := range w.list {
			markNested(e, feats)
		}
	}
}

// httpLeg sends a sequence of requests with one query text to the fixture's
// single graphql.HTTPHandler: the generated value first, then (in random
// order) the same request again, a wrong-kind twin and a same-look twin of
// its variables (values that fmt prints identically), and an invalid request
// from mutate. Every request must be answered from its own variables.
func httpLeg(run *vlib.Run, i int, fx *fixture, argsT reflect.Type, root *wire, want reflect.Value, typeSig, leg string) {
	r := run.Rand("http"+leg, i)
	if mv, err := decode(root, argsT, false); err != nil {
		run.Broken(fmt.Sprintf("case %d: reference decoder rejects the generated value: %v", i, err))
		return
	} else if d := eqValue(mv, want, "args"); d != "" {
		run.Broken(fmt.Sprintf("case %d: reference decoder disagrees with the generator: %s", i, d))
		return
	}
	uses := pickUses(r)
	query := renderHTTP(r, argsT, uses)
	type step struct {
		kind   string
		vars   string
		expect reflect.Value // valid => the value that must arrive
		valid  bool
	}
	first := step{"sent", root.json(), want, true}
	var rest []step
	rest = append(rest, step{"sent_again", root.json(), want, true})
	if tw, class, ok := wrongKindTwin(r, root, argsT); ok {
		rest = append(rest, step{class, tw.json(), reflect.Value{}, false})
		run.Count("http_twin:"+class, 1)
	}
	if tw, v, class, ok := sameLookTwin(r, root, argsT); ok {
		rest = append(rest, step{class, tw.json(), v, true})
		run.Count("http_twin:"+class, 1)
	}
	neg := root.clone()
	if class, ok := mutate(r, neg); ok {
		if _, err := decode(neg, argsT, false); err != nil {
			rest = append(rest, step{"invalid:" + class[:strings.Index(class, ":")], neg.json(), reflect.Value{}, false})
		}
	}
	r.Shuffle(len(rest), func(a, b int) { rest[a], rest[b] = rest[b], rest[a] })
	if r.Intn(4) == 0 && len(rest) > 0 {
		// sometimes a later request comes first (failed requests must not
		// influence later ones either)
		rest = append(rest, rest[0])
	}
	var history []map[string]interface{}
	for _, st := range append([]step{first}, rest...) {
		o := fx.post(query, st.vars)
		history = append(history, map[string]interface{}{"kind": st.kind, "variables": vlib.Trunc(st.vars, 1500), "valid": st.valid, "response": o.raw, "resolver_calls": o.calls})
		run.Count("http_requests", 1)
		wit := func(what string, extra map[string]interface{}) map[string]interface{} {
			w := map[string]interface{}{"what": what, "transport": "http", "args_type": typeSig, "query": query,
				"selections": uses, "request": st.kind, "history_on_one_handler": history}
			for k, v := range extra {
				w[k] = v
			}
			return w
		}
		switch {
		case o.panicMsg != "":
			run.Violation(i, "", wit("panic in the HTTP handler", map[string]interface{}{"panic": o.panicMsg}))
		case st.valid && len(o.errs) > 0:
			run.Violation(i, "", wit("valid request rejected", map[string]interface{}{"errors": o.errs}))
		case st.valid && o.calls != uses:
			run.Violation(i, "", wit("resolver not called exactly once per selection", map[string]interface{}{"calls": o.calls}))
		case st.valid:
			for _, c := range o.captured {
				if d := eqValue(c, st.expect, "args"); d != "" {
					run.Violation(i, "", wit("resolver received a different value than was sent", map[string]interface{}{
						"diff": d, "sent_go_value": vlib.Trunc(show(st.expect), 3000), "received": vlib.Trunc(show(c), 3000)}))
					break
				}
			}
		case len(o.errs) == 0 || o.calls != 0:
			run.Violation(i, "", wit("invalid request was not rejected before execution", map[string]interface{}{"calls": o.calls, "errors": o.errs}))
		default:
			run.Count("http_rejected", 1)
		}
	}
}

// Describe records the generation rule and the trusted-base statements.
func Describe(run *vlib.Run) {
	run.Rule("case = args struct shape (predeclared input structs or reflect.StructOf with 1-4 fields; field types from the grammar T ::= scalar of every width | named scalar | enum (int32/string/uint8 kinds) | []byte | time.Time | TextUnmarshaler (struct, array) [general grammar; see the kind-vs-method leg for the other kinds] | named input object (incl. recursive, all-optional) | fields the builder must skip (`graphql:\"-\"` or unexported, of the neighbour's or another type) before, between and after the exposed fields of args structs and input objects, which must stay zero | []T | *T, plus `graphql:\"name\"`, `,optional`, `-` tags) " +
		"x one generated value (ints within the type's range and +-2^53 with boundary bias, float32/float64 finite values written in shortest round-trip decimal, strings with quotes/backslashes/control characters/non-BMP runes, RFC3339 second-precision times with Z or +-hh:mm zones, base64 bytes; optional positions left out / explicitly null / given; null list entries) " +
		"x transports {literal, variable, default with variable left out, default with variable null, value supplied next to a different default, literal containing nested variables (all modes)}; nodes that need `null` go by variable because the pinned parser has no null literal. " +
		"Every request selects the field 1-3 times (distinct aliases, directly / in an inline fragment / in a named fragment) with the same argument text, so variables and defaults are used several times; every selection must receive the value. " +
		"Each case also sends one invalid request (required field missing / undefined variable / null, or one node replaced by a value of another JSON kind among number,string,bool,list,object) through one random transport. " +
		"Oracle: every transport's captured args == the generated Go value (nil and empty slices not told apart, times compared as instant+offset), resolver called exactly once; invalid requests: Parse or PrepareQuery returns a graphql.SanitizedError and the resolver is not called. " +
		"HTTP leg: one graphql.HTTPHandler per case receives a sequence of POSTs with ONE query text (all arguments through variables): the value; then in random order the same again, a wrong-kind twin (one node replaced by a value of another JSON kind that fmt prints identically: 21/\"21\", true/\"true\", list or object/its printed string), a same-look twin (a different valid value that prints identically: neighbouring strings merged or split, null/\"<nil>\", two string fields folded into one) whose expected value comes from the reference decoder, and an invalid request; valid ones must arrive as sent, invalid ones must come back with errors and no resolver call. " +
		"Positions leg: the field also lives on a Node object (registered with schemabuilder.Expensive in half of the schemas) whose one shared pointer is reachable through node / self; ONE query selects the field at 2-3 positions (two root fields, an object and the same object below it, root and node), usually under the same alias, each position with its own value and transport, sent through the HTTP handler (rerunner context) and in process; the answer at every position must be the digest of the value sent for that position and the resolvers must have received exactly the values sent. " +
		"Concurrent leg (every 16th case index in c18; all cases of package c18conc, which is built with -race): 8 clients x 2 requests at the same time on ONE schema (HTTP handler / in-process alternating), each request with its own value and transport of the same args type (in c18: generated shapes, two thirds starting with a TextUnmarshaler field, and every other concurrent case a compile-time struct; in c18conc: only the 8 compile-time args structs CA1..CA8 served by ordinary closures, no reflect.StructOf / reflect.MakeFunc; long texts and an UnmarshalText with a scheduling point); each answer must be the digest of the value that request sent. " +
		"Kind-vs-method leg (every 8th case): the same sequential legs (all transports, one invalid request, HTTP sequence, positions query) on an args struct with 1-3 arguments whose Go type implements encoding.TextUnmarshaler on a representation that, by reflect kind alone, would travel differently: named []byte (hex id; net.IP of the standard library), named []string (comma separated), named []int32, map[string]string, a struct with the representation of time.Time (unix seconds), array and exported-field struct; each as plain / pointer / list element / list-of-pointers element / nested-list element / field of the predeclared input objects InK, InK2 (plain, pointer, list, `,optional`) / in the compile-time args structs KA1, KA2, with 0-2 arguments of the general grammar around them. The text sent is generated per type (hex in both cases, so texts that are and are not valid base64; dotted and colon IP forms; decimal digits) and the value that must arrive is what the type's own UnmarshalText makes of that text; such positions accept JSON strings only. " +
		"Paginated leg (every 4th case): Paginated field funcs with their own arguments in both forms (args struct next to first/after/..., and args struct embedding schemabuilder.PaginationArgs) with pointer / `,optional` arguments; request sequences on one schema: valid; invalid because one required custom argument has the wrong kind while every optional argument is given; valid with the optional arguments left out (must arrive nil / zero); half of the cases one request at a time (HTTP handler / in process), half with 4 clients sending (invalid, valid) pairs at the same time. " +
		"Many-lists leg (every 16th case): graphql.MaxQueryNesting (public knob) is set to 250 for the run; documents only a few levels deep but containing more list literals than that limit (one [][]int64 literal with 260-385 rows, or 90+ aliased selections each carrying list literals) and the same values through variables; every selection's answer must be the digest of its value. " +
		"Websocket leg (every 64th case): one graphql.ServeJSONSocket connection over a socket whose messages are JSON bytes receives 3-6 subscribe / mutate messages that declare the same variables (one per argument); the first supplies all of them, later ones supply some, rely on declared defaults for others and leave the rest undefined, with the variables member present / empty / null / missing; each message must be answered from its own variables (default used, optional nil / zero). " +
		"Non-trivial = at least 2 of {list, nested input object, pointer/optional tag, named scalar/enum/bytes/time/text, a default transport carried a value}; distinct = args type signature + mutation class.")
	run.Assume("graphql-go's lexer/parser (third party) reads GraphQL literals as written by gqlQuote / strconv")
	run.Assume("variables reach graphql.Parse as json.Unmarshal output (map[string]interface{} with float64 numbers), as in graphql/http.go and graphql/server.go")
	run.Assume("out of scope (not stated by C18): unknown extra arguments, fractional values for ints, negative values for uints, out-of-range integers, enum<->string confusions, -0, sub-second times")

}
