// Package c01 monitors property C01: query results equal a naive sequential
// reference evaluation under any scheduler, interleaving and per-field
// execution mode.
package c01

import (
	"bytes"
	"context"
	"encoding/json"
	"fmt"
	"math/rand"
	"net/http"
	"net/http/httptest"
	"os"
	"runtime"
	"sort"
	"sync"
	"sync/atomic"
	"testing"
	"time"

	"github.com/samsarahq/thunder/batch"
	"github.com/samsarahq/thunder/graphql"
	"github.com/samsarahq/thunder/reactive"
	"github.com/samsarahq/thunder/verifharness/gen"
	"github.com/samsarahq/thunder/verifharness/vlib"
)

type config struct {
	name        string
	cfg         gen.Config
	schema      *graphql.Schema
	hasFallback bool
}

var pauseCtr uint64

func pause() {
	n := atomic.AddUint64(&pauseCtr, 1)
	x := n * 0x9e3779b97f4a7c15
	x ^= x >> 29
	switch x % 10 {
	case 0:
		runtime.Gosched()
	case 1:
		time.Sleep(time.Duration(1+x>>8%40) * time.Microsecond)
	}
}

func randomMode(r *rand.Rand, root bool) gen.Mode {
	if root {
		if r.Intn(2) == 0 {
			return gen.Mode{Kind: gen.MExpensive}
		}
		return gen.Mode{Kind: gen.MPlain}
	}
	ks := []int{-1, 0, 1, 2, 3, 7, 1000, 1005}
	switch r.Intn(8) {
	case 0:
		return gen.Mode{Kind: gen.MPlain}
	case 1:
		return gen.Mode{Kind: gen.MExpensive}
	case 2:
		return gen.Mode{Kind: gen.MBatch}
	case 3:
		return gen.Mode{Kind: gen.MBatchFallback}
	case 4:
		return gen.Mode{Kind: gen.MParallel, K: ks[r.Intn(len(ks))]}
	case 5:
		return gen.Mode{Kind: gen.MBatchParallel, K: ks[r.Intn(len(ks))]}
	case 6:
		return gen.Mode{Kind: gen.MBatchExpensive}
	default:
		return gen.Mode{Kind: gen.MBatchFallback}
	}
}

// cancelPlan cancels the request context when the after-th resolver call of
// one execution starts (resolvers ignore the context, as user code may).
type cancelPlan struct {
	after  int64
	n      int64
	cancel context.CancelFunc
}
type cancelKey struct{}

func cancelHook(ctx context.Context, typ string, id int64, field string, inBatch bool) error {
	if p, _ := ctx.Value(cancelKey{}).(*cancelPlan); p != nil {
		if atomic.AddInt64(&p.n, 1) == p.after {
			p.cancel()
		}
	}
	return nil
}

func buildConfigs(run *vlib.Run, sd *gen.SchemaDesc, n int) []*config {
	env := &gen.Env{Pause: pause, Fail: func(ctx context.Context, typ string, id int64, field string, inBatch bool) error {
		liveHook(ctx, typ, id, field)
		return cancelHook(ctx, typ, id, field, inBatch)
	}}
	var out []*config
	uniform := []gen.Mode{{Kind: gen.MPlain}, {Kind: gen.MBatch}, {Kind: gen.MExpensive}, {Kind: gen.MBatchFallback}}
	for c := 0; c < n; c++ {
		cf := &config{cfg: gen.Config{Modes: map[string]gen.Mode{}}}
		r := run.Rand("config", c)
		for _, key := range sd.ModalFields() {
			root := len(key) > 6 && key[:6] == "Query."
			var m gen.Mode
			if c < len(uniform) {
				m = uniform[c]
				if root && m.Kind != gen.MExpensive {
					m = gen.Mode{Kind: gen.MPlain}
				}
			} else {
				m = randomMode(r, root)
			}
			cf.cfg.Modes[key] = m
			if m.Kind == gen.MBatchFallback {
				cf.hasFallback = true
			}
		}
		if c < len(uniform) {
			cf.name = "uniform-" + uniform[c].String()
		} else {
			cf.name = fmt.Sprintf("mixed-%d", c)
		}
		s, err := gen.Build(sd, cf.cfg, env).Build()
		if err != nil {
			run.Broken("schema build failed: " + err.Error())
			continue
		}
		cf.schema = s
		out = append(out, cf)
	}
	return out
}

type execResult struct {
	val interface{}
	err error
	at  string
}

func execute(schema *graphql.Schema, sched graphql.WorkScheduler, text string, vars map[string]interface{}, w *gen.World, flag bool) execResult {
	q, err := graphql.Parse(text, vars)
	if err != nil {
		return execResult{err: err, at: "Parse"}
	}
	if err := graphql.PrepareQuery(context.Background(), schema.Query, q.SelectionSet); err != nil {
		return execResult{err: err, at: "PrepareQuery"}
	}
	ctx := gen.WithUseBatch(gen.WithWorld(context.Background(), w), flag)
	val, err := graphql.NewExecutor(sched).Execute(ctx, schema.Query, nil, q)
	return execResult{val: val, err: err, at: "Execute"}
}

// executeInRerunner runs the query the way the websocket server does: inside
// a reactive.Rerunner with batching, twice (the second run is triggered by a
// strobe and re-uses the reactive cache of expensive fields).
func executeInRerunner(schema *graphql.Schema, sched graphql.WorkScheduler, text string, vars map[string]interface{}, w *gen.World, flag bool) []execResult {
	q, err := graphql.Parse(text, vars)
	if err != nil {
		return []execResult{{err: err, at: "Parse"}}
	}
	if err := graphql.PrepareQuery(context.Background(), schema.Query, q.SelectionSet); err != nil {
		return []execResult{{err: err, at: "PrepareQuery"}}
	}
	res := reactive.NewResource()
	out := make(chan execResult, 4)
	ex := graphql.NewExecutor(sched)
	base := gen.WithUseBatch(gen.WithWorld(context.Background(), w), flag)
	rr := reactive.NewRerunner(base, func(ctx context.Context) (interface{}, error) {
		reactive.AddDependency(ctx, res, nil)
		ctx = batch.WithBatching(ctx)
		val, err := ex.Execute(ctx, schema.Query, nil, q)
		out <- execResult{val: val, err: err, at: "Execute(rerunner)"}
		return nil, nil
	}, 0, false)
	defer rr.Stop()
	var results []execResult
	timeout := time.After(60 * time.Second)
	select {
	case r := <-out:
		results = append(results, r)
	case <-timeout:
		return append(results, execResult{at: "timeout"})
	}
	res.Strobe()
	select {
	case r := <-out:
		r.at = "Execute(rerunner, 2nd run)"
		results = append(results, r)
	case <-timeout:
		return append(results, execResult{at: "timeout"})
	}
	return results
}

// liveDeps gives every (type, id, field) a resolver reads its own reactive
// resource; resolvers register it on the context thunder hands them.
type liveKey struct {
	typ   string
	id    int64
	field string
}
type liveDeps struct {
	mu  sync.Mutex
	res map[liveKey]*reactive.Resource
}
type liveCtxKey struct{}

func liveHook(ctx context.Context, typ string, id int64, field string) {
	d, _ := ctx.Value(liveCtxKey{}).(*liveDeps)
	if d == nil || (typ != "Node" && typ != "Leaf") {
		return
	}
	k := liveKey{typ, id, field}
	d.mu.Lock()
	r := d.res[k]
	if r == nil {
		r = reactive.NewResource()
		d.res[k] = r
	}
	d.mu.Unlock()
	reactive.AddDependency(ctx, r, nil)
}

// executeLive runs the query inside a reactive.Rerunner over its own copy of
// the world in which every Node / Leaf resolver depends on a resource of its
// own (type, id, field). After the first run a seeded few of the values that
// run read are changed and exactly their resources invalidated. Thunder's
// reactive cache is eventually consistent (a run may still meet a cache entry
// whose invalidation is under way; it is then invalidated and run again), so
// single re-runs are not judged: the rerunner must go on until its latest
// result is the reference result over the changed data - whatever is cached
// for Expensive fields, a resolver that registered a dependency on the context
// it was given is re-run once that dependency is invalidated. "Quiet with a
// stale latest result" is decided by vlib.WaitCond's stuck-versus-slow
// classifier; still busy at the deadline is inconclusive.
// first is the first run's result (judged against the unchanged world).
type liveOutcome struct {
	first   execResult
	changed int // values changed (0: leg not applicable)
	reruns  int64
	outcome vlib.Outcome
	latest  execResult // latest re-run result when outcome != Reached
	want2   string
}

func executeLive(schema *graphql.Schema, sched graphql.WorkScheduler, text string, vars map[string]interface{}, w *gen.World, flag bool, r *rand.Rand, wantAfter func(w2 *gen.World) ([]string, error)) (lo liveOutcome, err error) {
	q, perr := graphql.Parse(text, vars)
	if perr != nil {
		lo.first = execResult{err: perr, at: "Parse"}
		return lo, nil
	}
	if perr := graphql.PrepareQuery(context.Background(), schema.Query, q.SelectionSet); perr != nil {
		lo.first = execResult{err: perr, at: "PrepareQuery"}
		return lo, nil
	}
	w2 := w.Clone()
	deps := &liveDeps{res: map[liveKey]*reactive.Resource{}}
	firstCh := make(chan execResult, 1)
	var mu sync.Mutex
	var latest *execResult
	var runs, activity int64
	ex := graphql.NewExecutor(sched)
	base := context.WithValue(gen.WithUseBatch(gen.WithWorld(context.Background(), w2), flag), liveCtxKey{}, deps)
	rr := reactive.NewRerunner(base, func(ctx context.Context) (interface{}, error) {
		atomic.AddInt64(&activity, 1)
		ctx = batch.WithBatching(ctx)
		val, err := ex.Execute(ctx, schema.Query, nil, q)
		if err == nil {
			// like the websocket server, serialise the result inside the
			// computation: cached parts of it are shared with the next run
			if j, jerr := vlib.ToJSONForm(val); jerr == nil {
				val = j
			} else {
				err = fmt.Errorf("result cannot be serialised: %v", jerr)
			}
		}
		res := execResult{val: val, err: err, at: "Execute(rerunner, live data)"}
		if atomic.AddInt64(&runs, 1) == 1 {
			firstCh <- res
		} else {
			res.at = "Execute(rerunner, re-run after a data change)"
			mu.Lock()
			latest = &res
			mu.Unlock()
		}
		atomic.AddInt64(&activity, 1)
		return nil, nil
	}, 0, false)
	defer rr.Stop()
	select {
	case lo.first = <-firstCh:
	case <-time.After(60 * time.Second):
		lo.first = execResult{at: "timeout"}
		return lo, nil
	}
	if lo.first.err != nil {
		return lo, nil
	}
	// the first run is over: nothing reads w2 now
	deps.mu.Lock()
	keys := make([]liveKey, 0, len(deps.res))
	for k := range deps.res {
		keys = append(keys, k)
	}
	deps.mu.Unlock()
	if len(keys) == 0 {
		return lo, nil
	}
	sort.Slice(keys, func(i, j int) bool {
		a, b := keys[i], keys[j]
		if a.typ != b.typ {
			return a.typ < b.typ
		}
		if a.id != b.id {
			return a.id < b.id
		}
		return a.field < b.field
	})
	lo.changed = 1 + r.Intn(3)
	var picked []*reactive.Resource
	for j := 0; j < lo.changed; j++ {
		k := keys[r.Intn(len(keys))]
		w2.Bump(k.typ, k.id, k.field)
		deps.mu.Lock()
		picked = append(picked, deps.res[k])
		deps.mu.Unlock()
	}
	ok, werr := wantAfter(w2)
	if werr != nil {
		return lo, werr
	}
	lo.want2 = ok[0]
	for _, res := range picked {
		res.Strobe()
	}
	lo.outcome = vlib.WaitCond(func() bool {
		mu.Lock()
		defer mu.Unlock()
		if latest == nil || latest.err != nil {
			return false
		}
		gc := vlib.Canon(latest.val)
		for _, o := range ok {
			if gc == o {
				return true
			}
		}
		return false
	}, func() int64 { return atomic.LoadInt64(&activity) }, time.Second, 60*time.Second)
	lo.reruns = atomic.LoadInt64(&runs) - 1
	mu.Lock()
	if latest != nil {
		lo.latest = *latest
	} else {
		lo.latest = execResult{at: "no re-run happened"}
	}
	mu.Unlock()
	return lo, nil
}

// executeHTTP sends the query through graphql's HTTP entry point (the handler
// runs it in a rerunner with batching, like a production server).
func executeHTTP(schema *graphql.Schema, sched graphql.WorkScheduler, text string, vars map[string]interface{}, w *gen.World, flag bool) execResult {
	body, err := json.Marshal(map[string]interface{}{"query": text, "variables": vars})
	if err != nil {
		return execResult{err: err, at: "harness: marshal request"}
	}
	req := httptest.NewRequest("POST", "/graphql", bytes.NewReader(body))
	req = req.WithContext(gen.WithUseBatch(gen.WithWorld(req.Context(), w), flag))
	rec := httptest.NewRecorder()
	graphql.HTTPHandlerWithExecutor(schema, graphql.NewExecutor(sched)).ServeHTTP(rec, req)
	if rec.Code != http.StatusOK {
		return execResult{err: fmt.Errorf("HTTP status %d: %s", rec.Code, rec.Body.String()), at: "HTTPHandler"}
	}
	var resp struct {
		Data   interface{} `json:"data"`
		Errors []string    `json:"errors"`
	}
	dec := json.NewDecoder(bytes.NewReader(rec.Body.Bytes()))
	if err := dec.Decode(&resp); err != nil {
		return execResult{err: fmt.Errorf("response is not JSON: %v: %s", err, vlib.Trunc(rec.Body.String(), 300)), at: "HTTPHandler"}
	}
	if len(resp.Errors) > 0 {
		return execResult{err: fmt.Errorf("%v", resp.Errors), at: "HTTPHandler"}
	}
	return execResult{val: resp.Data, at: "HTTPHandler"}
}

func TestCheck(t *testing.T) {
	run := vlib.Start(t, "C01", "exploration")
	defer run.Finish()
	reactive.WriteThenReadDelay = 0
	sd := gen.Zoo()
	run.Rule("queries generated over a zoo schema (keyed/unkeyed objects, value and pointer lists with nil entries, union, enum, args by literal/variable/default) with duplicate aliases, inline and named fragments (re-used), unions; " +
		"each query is executed under several per-field mode configurations (plain/Expensive/batch/batch+fallback both flags/NumParallelInvocations k) x work schedulers (thunder's + FIFO/LIFO/random/pool/yield), inside a Rerunner twice, through graphql.HTTPHandlerWithExecutor, and as one prepared query shared by 3 concurrent requests over different data; " +
		"every result is compared with an independent sequential reference evaluator. Non-trivial = query shows >= 2 of {duplicate alias, fragment, union, list, arguments, depth >= 3}; distinct by AST shape.")
	run.Assume("reference evaluator gen.Eval and generator gen.Generate are correct; only queries thunder's validation accepts; 1 case in 4 carries @skip/@include (C19 studies those by themselves); 1 in 4 spreads one fragment, typed on Node or Leaf and selecting only fields both have, inside objects of both types: thunder validates such a fragment against the object it sits in and applies it, GraphQL proper would not apply it - either outcome is accepted, nothing else")
	nCfg := run.N(5, 10)
	configs := buildConfigs(run, sd, nCfg)
	if len(configs) == 0 {
		return
	}
	scheds := gen.Schedulers()
	nQ := run.N(800, 12000)
	opts := gen.DefaultGenOpts()
	opts.UnionSecondFragment = true
	opts.UnionSelfFragment = true
	opts.RootTypename = true
	var executions int64
	run.Each(nQ, 8, func(i int) {
		r := run.Rand("query", i)
		w := gen.NewWorld(uint64(r.Int63()), 4+r.Intn(12), 3+r.Intn(8))
		o := opts
		o.MaxDepth = 3 + r.Intn(4)
		if r.Intn(3) == 0 {
			o = gen.MergeHeavy(o)
		}
		switch r.Intn(8) {
		case 0, 1:
			// one named fragment shared by objects of two types
			o.PForeign = 0.2
		case 4:
			// a field answering under the name of the object's key field
			o.KeyNameAlias = true
		case 5:
			// fragments typed on a union spread inside objects of its member types
			o.PUnionInObject = 0.25
		case 2, 3:
			// @skip/@include as part of ordinary queries (C19 studies them by
			// themselves); a selection set may lose all its selections
			o.PDir = 0.15 + 0.2*r.Float64()
		}
		doc := gen.Generate(r, sd, w, o)
		text, vars := doc.Text(), doc.VarsJSON()
		want, err := gen.Eval(sd, doc, w)
		if err != nil {
			run.Broken(fmt.Sprintf("case %d: %v\n%s", i, err, text))
			return
		}
		wantC := vlib.Canon(want)
		// A fragment typed on another object type than the object it sits in:
		// thunder applies it (wantC); GraphQL's rule, not applying it, is the
		// only other acceptable outcome.
		wantAlt := wantC
		if doc.Foreign > 0 {
			alt, err := gen.EvalForeign(sd, doc, w, false)
			if err != nil {
				run.Broken(fmt.Sprintf("case %d: %v\n%s", i, err, text))
				return
			}
			wantAlt = vlib.Canon(alt)
			run.Count("query_feature:fragment_typed_on_other_object", 1)
		}
		if o.PDir > 0 {
			run.Count("query_feature:directives", 1)
		}
		if doc.UnionInObject > 0 {
			run.Count("query_feature:union_fragment_inside_member_object", 1)
		}
		ft := doc.Features(sd)
		score := 0
		for _, b := range []bool{ft.DupAlias > 0, ft.InlineFrag+ft.NamedFrag > 0, ft.Union > 0, ft.List > 0, ft.Args > 0, ft.Depth >= 3} {
			if b {
				score++
			}
		}
		run.Case(doc.Shape(), score >= 2)
		for k, v := range map[string]int{"dup_alias": ft.DupAlias, "inline_fragment": ft.InlineFrag, "named_fragment": ft.NamedFrag, "named_fragment_reuse": ft.NamedFragReuse,
			"union": ft.Union, "list": ft.List, "args": ft.Args, "variables": ft.Vars, "typename": ft.Typename} {
			if v > 0 {
				run.Count("query_feature:"+k, 1)
			}
		}
		if run.WantSample() && score >= 3 {
			run.Sample(map[string]interface{}{"query": text, "variables": vars, "expected": vlib.Trunc(wantC, 600)})
		}
		report := func(cfg *config, sched string, flag bool, res execResult) {
			atomic.AddInt64(&executions, 1)
			wit := map[string]interface{}{"query": text, "variables": vars, "world": map[string]interface{}{"seed": w.Seed, "n": w.N, "m": w.M},
				"config": cfg.name, "modes": fmt.Sprint(cfg.cfg.Modes), "scheduler": sched, "use_batch_flag": flag, "stage": res.at, "expected": vlib.Trunc(wantC, 3000)}
			if res.at == "timeout" {
				run.Inconclusive(fmt.Sprintf("case %d: rerunner run did not finish within 60s (%s/%s)", i, cfg.name, sched))
				return
			}
			if res.err != nil {
				wit["what"] = "valid query failed at " + res.at
				wit["error"] = res.err.Error()
				run.Violation(i, classify(doc, sd, ""), wit)
				return
			}
			gotC := vlib.Canon(res.val)
			if gotC != wantC && gotC != wantAlt {
				wit["what"] = "result differs from sequential reference evaluation"
				wit["got"] = vlib.Trunc(gotC, 3000)
				run.Violation(i, classify(doc, sd, gotC), wit)
			}
		}
		// which (config, scheduler) pairs: all configs; schedulers sampled in quick
		for ci, cfg := range configs {
			var sidx []int
			if run.Thorough() {
				for s := range scheds {
					sidx = append(sidx, s)
				}
			} else {
				sidx = []int{0, 1 + (i+ci)%(len(scheds)-1), 1 + (i+ci+2)%(len(scheds)-1)}
			}
			for _, s := range sidx {
				flags := []bool{true}
				if cfg.hasFallback {
					flags = []bool{true, false}
				}
				for _, flag := range flags {
					run.Count("scheduler:"+scheds[s].Name, 1)
					report(cfg, scheds[s].Name, flag, execute(cfg.schema, scheds[s].New(int64(i)), text, vars, w, flag))
				}
			}
		}
		// the request context ends while the query executes (resolvers ignore it):
		// the outcome must be an error or the complete result, never partial data
		{
			var nres int64
			_, _ = gen.EvalTrace(sd, doc, w, func(gen.Resolution) { nres++ })
			if nres > 0 {
				cfg := configs[(i+1)%len(configs)]
				s := (i + 3) % len(scheds)
				after := 1 + r.Int63n(nres)
				q, err := graphql.Parse(text, vars)
				if err == nil {
					err = graphql.PrepareQuery(context.Background(), cfg.schema.Query, q.SelectionSet)
				}
				if err == nil {
					base := gen.WithUseBatch(gen.WithWorld(context.Background(), w), i%2 == 0)
					cctx, cancel := context.WithCancel(base)
					cctx = context.WithValue(cctx, cancelKey{}, &cancelPlan{after: after, cancel: cancel})
					val, xerr := graphql.NewExecutor(scheds[s].New(int64(i))).Execute(cctx, cfg.schema.Query, nil, q)
					cancel()
					run.Count("cancel_mid_execution_runs", 1)
					if xerr != nil {
						run.Count("cancel_mid_execution_returned_error", 1)
					} else if gotC := vlib.Canon(val); gotC != wantC && gotC != wantAlt {
						run.Violation(i, "", map[string]interface{}{"what": "request context cancelled during execution: Execute returned no error and a result that differs from the reference (partial data)",
							"query": text, "variables": vars, "config": cfg.name, "scheduler": scheds[s].Name, "cancel_at_resolver_call": after, "got": vlib.Trunc(gotC, 2500), "expected": vlib.Trunc(wantC, 2500)})
					}
				}
			}
		}
		// one parsed and prepared query executed by several requests at once,
		// each over its own data: nothing a request computes may leak into another
		{
			cfg := configs[(i+2)%len(configs)]
			q, err := graphql.Parse(text, vars)
			if err == nil {
				err = graphql.PrepareQuery(context.Background(), cfg.schema.Query, q.SelectionSet)
			}
			if err != nil {
				report(cfg, "shared-prepared-query", true, execResult{err: err, at: "Parse/PrepareQuery"})
			} else {
				const par = 3
				worlds := make([]*gen.World, par)
				res := make([]execResult, par)
				var wg sync.WaitGroup
				for g := 0; g < par; g++ {
					worlds[g] = w
					if g > 0 {
						worlds[g] = gen.NewWorld(w.Seed+uint64(g)*7919, w.N, w.M)
					}
					wg.Add(1)
					go func(g int) {
						defer wg.Done()
						ctx := gen.WithUseBatch(gen.WithWorld(context.Background(), worlds[g]), (i+g)%2 == 0)
						sc := scheds[(i+g)%len(scheds)]
						val, err := graphql.NewExecutor(sc.New(int64(i+g))).Execute(ctx, cfg.schema.Query, nil, q)
						res[g] = execResult{val: val, err: err, at: "Execute(shared prepared query, " + sc.Name + ")"}
					}(g)
				}
				wg.Wait()
				for g := 0; g < par; g++ {
					run.Count("shared_prepared_query_runs", 1)
					atomic.AddInt64(&executions, 1)
					wantG, err := gen.Eval(sd, doc, worlds[g])
					if err != nil {
						run.Broken(fmt.Sprintf("case %d: reference evaluation over world %d: %v", i, g, err))
						continue
					}
					wc := vlib.Canon(wantG)
					wcAlt := wc
					if doc.Foreign > 0 {
						if alt, err := gen.EvalForeign(sd, doc, worlds[g], false); err == nil {
							wcAlt = vlib.Canon(alt)
						}
					}
					wit := map[string]interface{}{"query": text, "variables": vars, "world": map[string]interface{}{"seed": worlds[g].Seed, "n": w.N, "m": w.M},
						"config": cfg.name, "modes": fmt.Sprint(cfg.cfg.Modes), "stage": res[g].at, "concurrent_requests": par, "expected": vlib.Trunc(wc, 3000)}
					if res[g].err != nil {
						wit["what"] = "valid query failed when the prepared query is shared by concurrent requests"
						wit["error"] = res[g].err.Error()
						run.Violation(i, "", wit)
					} else if gc := vlib.Canon(res[g].val); gc != wc && gc != wcAlt {
						wit["what"] = "result differs from the reference when one prepared query serves concurrent requests over different data"
						wit["got"] = vlib.Trunc(gc, 3000)
						run.Violation(i, "", wit)
					}
				}
			}
		}
		// through the HTTP entry point
		{
			cfg := configs[(i+3)%len(configs)]
			s := (i + 1) % len(scheds)
			run.Count("http_runs", 1)
			report(cfg, scheds[s].Name+"+http", i%2 == 1, executeHTTP(cfg.schema, scheds[s].New(int64(i)), text, vars, w, i%2 == 1))
		}
		// server-like execution inside a rerunner (reactive cache path)
		cfg := configs[i%len(configs)]
		s := i % len(scheds)
		for _, res := range executeInRerunner(cfg.schema, scheds[s].New(int64(i)), text, vars, w, i%2 == 0) {
			run.Count("rerunner_runs", 1)
			report(cfg, scheds[s].Name+"+rerunner", i%2 == 0, res)
		}
		// live data: fine-grained invalidation below cached (Expensive) fields
		{
			cfg := configs[(i+2)%len(configs)]
			s := (i + 2) % len(scheds)
			lo, err := executeLive(cfg.schema, scheds[s].New(int64(i)), text, vars, w, i%2 == 0, run.Rand("live", i), func(w2 *gen.World) ([]string, error) {
				want2, err := gen.Eval(sd, doc, w2)
				if err != nil {
					return nil, err
				}
				ok := []string{vlib.Canon(want2)}
				if doc.Foreign > 0 {
					alt, err := gen.EvalForeign(sd, doc, w2, false)
					if err != nil {
						return nil, err
					}
					ok = append(ok, vlib.Canon(alt))
				}
				return ok, nil
			})
			if err != nil {
				run.Broken(fmt.Sprintf("case %d: %v\n%s", i, err, text))
				return
			}
			report(cfg, scheds[s].Name+"+rerunner(live)", i%2 == 0, lo.first)
			if lo.changed > 0 {
				run.Count("live_data_changes", 1)
				run.Count("live_reruns", int(lo.reruns))
				atomic.AddInt64(&executions, lo.reruns)
				if lo.want2 != wantC {
					run.Count("live_data_changes_visible_in_result", 1)
				}
				wit := map[string]interface{}{"query": text, "variables": vars, "world": map[string]interface{}{"seed": w.Seed, "n": w.N, "m": w.M},
					"config": cfg.name, "modes": fmt.Sprint(cfg.cfg.Modes), "scheduler": scheds[s].Name, "stage": lo.latest.at, "values_changed": lo.changed, "reruns": lo.reruns,
					"expected": vlib.Trunc(lo.want2, 3000), "first_run_expected": vlib.Trunc(wantC, 3000)}
				switch lo.outcome {
				case vlib.Reached:
				case vlib.Undecided:
					run.Inconclusive(fmt.Sprintf("case %d: live re-runs still under way after 60s (%s/%s)", i, cfg.name, scheds[s].Name))
				default:
					if lo.latest.err != nil {
						wit["what"] = "valid query failed when re-run after a data change"
						wit["error"] = lo.latest.err.Error()
					} else {
						wit["what"] = "rerunner went quiet with a stale result: values read by resolvers were changed and their resources invalidated, the latest re-run differs from the reference over the changed data"
						wit["got"] = vlib.Trunc(vlib.Canon(lo.latest.val), 3000)
					}
					run.Violation(i, "", wit)
				}
			}
		}
	})
	run.Set("executions", executions)
	run.Set("configurations", len(configs))
	var names []string
	for _, c := range configs {
		names = append(names, c.name)
	}
	run.Set("configuration_names", names)
}

// classify recognises known defect classes (see /verif/known_findings.json);
// "" = unclassified.
func classify(doc *gen.Doc, sd *gen.SchemaDesc, got string) string {
	if os.Getenv("VERIF_TRIAGE") == "" {
		return ""
	}
	// triage aid only (never used for known findings): label by query shape
	multi, unmatched := false, false
	var walk func(s *gen.SelSet, typ string)
	walk = func(s *gen.SelSet, typ string) {
		t := sd.Types[typ]
		if t != nil && t.IsUnion {
			cnt := map[string]int{}
			for _, it := range s.Items {
				if it.Frag != nil {
					cnt[it.Frag.On]++
				}
			}
			for _, m := range t.Members {
				if cnt[m] == 0 {
					unmatched = true
				}
				if cnt[m] > 1 {
					multi = true
				}
			}
		}
		for _, it := range s.Items {
			if it.Field != nil && it.Field.Sub != nil && t != nil && !t.IsUnion {
				if fd := t.Fields[it.Field.Name]; fd != nil {
					walk(it.Field.Sub, fd.Ret.Base().Name)
				}
			}
			if it.Frag != nil {
				walk(it.Frag.Set, it.Frag.On)
			}
		}
	}
	walk(doc.Root, "Query")
	switch {
	case multi && unmatched:
		return "triage:union-multi+unmatched"
	case multi:
		return "triage:union-multi-fragment"
	case unmatched:
		return "triage:union-unmatched-member"
	}
	return ""
}
