package c06

// The "names" leg: the same differential oracle as the main leg (gateway ==
// combined server, sub-queries stay inside the receiving service's schema),
// driven over schemas whose NAMES are generated: object type names, field
// names, root field names, aliases and service names are drawn from a seeded
// generator of valid GraphQL names (underscores anywhere, digits, mixed case,
// names that are prefixes / suffixes / case variants of each other or of a
// service name). The shared zoo (package gen) has fixed, plain names, so the
// leg carries its own small schemas: 2-4 federated entity types {id} with
// scalar and link (object / list hop) field funcs whose values are pure
// functions of the object id.
//
// Names are data to the gateway: it composes and decomposes them
// ("<service>_<Type>" fields of the Federation object, type conditions of
// fragments, __typename, per-type lookups of the merged schema). The
// property quantifies over "any set of services whose schemas merge"; whether
// they merge must not depend on how the types are called. The leg therefore
// builds every structure twice: with plain control names (T0, f0, s0 ...) and
// with the generated names. The control gateway has to come up (otherwise the
// harness construction is wrong: VERIF-BROKEN); the named one then has to
// come up too and answer like the combined server built with the same names.

import (
	"context"
	"fmt"
	"math/rand"
	"os"
	"reflect"
	"sort"
	"strconv"
	"strings"
	"sync/atomic"
	"time"

	"github.com/samsarahq/thunder/federation"
	"github.com/samsarahq/thunder/graphql"
	"github.com/samsarahq/thunder/graphql/schemabuilder"
	"github.com/samsarahq/thunder/internal/verifhook"
	"github.com/samsarahq/thunder/verifharness/vlib"
)

// namesBase offsets the case indices of this leg from the main leg's
// (partition*100000 + query).
const namesBase = 50000000

type ent0 struct{ Id int64 }
type ent1 struct{ Id int64 }
type ent2 struct{ Id int64 }
type ent3 struct{ Id int64 }

var entTypes = []reflect.Type{reflect.TypeOf(ent0{}), reflect.TypeOf(ent1{}), reflect.TypeOf(ent2{}), reflect.TypeOf(ent3{})}

func mkEnt(k int, id int64) reflect.Value {
	v := reflect.New(entTypes[k])
	v.Elem().Field(0).SetInt(id)
	return v
}

const (
	fkString = iota // scalar string field func
	fkInt           // scalar int64 field func
	fkOne           // object hop: *entJ
	fkList          // list hop: []*entJ (possibly empty)
	fkRoot          // Query root field: []*entJ
)

// nField is one field func of the generated structure. typ -1 = Query.
type nField struct {
	typ    int
	kind   int
	target int
	owners []int // service indices
}

// nStruct is the name-free structure of one case: entity types, their field
// funcs and which services own them.
type nStruct struct {
	nTypes   int
	nSvc     int
	fields   []nField
	byType   map[int][]int // typ -> field indices
	multiOwn int
}

// naming gives every element of an nStruct its GraphQL / service name.
type naming struct {
	services []string
	types    []string
	fields   []string
}

func genStruct(r *rand.Rand) *nStruct {
	st := &nStruct{nTypes: 2 + r.Intn(3), nSvc: 2 + r.Intn(2), byType: map[int][]int{}}
	own := func() []int {
		perm := r.Perm(st.nSvc)
		k := 1
		if r.Intn(4) == 0 {
			k = 2
		}
		o := append([]int(nil), perm[:k]...)
		sort.Ints(o)
		if k > 1 {
			st.multiOwn++
		}
		return o
	}
	add := func(f nField) {
		f.owners = own()
		st.byType[f.typ] = append(st.byType[f.typ], len(st.fields))
		st.fields = append(st.fields, f)
	}
	for k := 0; k < st.nTypes; k++ {
		add(nField{typ: -1, kind: fkRoot, target: k})
		for i, n := 0, 1+r.Intn(3); i < n; i++ {
			add(nField{typ: k, kind: fkString + r.Intn(2)})
		}
		for i, n := 0, 1+r.Intn(2); i < n; i++ {
			add(nField{typ: k, kind: fkOne + r.Intn(2), target: r.Intn(st.nTypes)})
		}
	}
	if r.Intn(2) == 0 {
		add(nField{typ: -1, kind: fkRoot, target: r.Intn(st.nTypes)})
	}
	return st
}

func plainNaming(st *nStruct) *naming {
	nm := &naming{}
	for i := 0; i < st.nSvc; i++ {
		nm.services = append(nm.services, fmt.Sprintf("s%d", i))
	}
	for i := 0; i < st.nTypes; i++ {
		nm.types = append(nm.types, fmt.Sprintf("T%d", i))
	}
	for i := range st.fields {
		nm.fields = append(nm.fields, fmt.Sprintf("f%d", i))
	}
	return nm
}

var nameWords = []string{"Fleet", "Vehicle", "Org", "User", "user", "device", "Stat", "v2", "X", "a", "API", "Node", "item", "Log", "entry", "T", "t9", "Key", "s1", "Page"}

// names the schema machinery owns; generated names avoid exactly these.
var reservedNames = map[string]bool{"Query": true, "Mutation": true, "Federation": true, "id": true, "_federation": true,
	"string": true, "int": true, "int8": true, "int16": true, "int32": true, "int64": true, "uint": true, "uint8": true, "uint16": true, "uint32": true, "uint64": true,
	"float32": true, "float64": true, "bool": true, "Time": true, "bytes": true, "Map": true, "Duration": true}

// genName returns a valid GraphQL name ([_A-Za-z][_0-9A-Za-z]*, not starting
// with the reserved "__"): 1-3 words joined with or without an underscore,
// random case, optional leading / trailing underscore and digits.
func genName(r *rand.Rand, underscores bool) string {
	var b strings.Builder
	if underscores && r.Intn(12) == 0 {
		b.WriteByte('_')
	}
	for i, n := 0, 1+r.Intn(3); i < n; i++ {
		if i > 0 && underscores && r.Intn(2) == 0 {
			b.WriteByte('_')
		}
		w := nameWords[r.Intn(len(nameWords))]
		switch r.Intn(5) {
		case 0:
			w = strings.ToUpper(w)
		case 1:
			w = strings.ToLower(w)
		}
		b.WriteString(w)
	}
	if r.Intn(6) == 0 {
		b.WriteString(strconv.Itoa(r.Intn(100)))
	}
	if underscores && r.Intn(12) == 0 {
		b.WriteByte('_')
	}
	s := b.String()
	if strings.HasPrefix(s, "__") {
		s = "x" + s
	}
	return s
}

func swapFirstCase(s string) string {
	if s == "" {
		return s
	}
	c := s[:1]
	if u := strings.ToUpper(c); u != c {
		return u + s[1:]
	}
	return strings.ToLower(c) + s[1:]
}

// relatedName derives a name from an existing one: extended by a word in
// front or behind an underscore, cut at an underscore, or with the case of
// its first letter swapped.
func relatedName(r *rand.Rand, of string, prefixes []string) string {
	w := nameWords[r.Intn(len(nameWords))]
	switch r.Intn(6) {
	case 0:
		return w + "_" + of
	case 1:
		return of + "_" + w
	case 2:
		if i := strings.Index(of, "_"); i > 0 && i+1 < len(of) {
			return of[i+1:]
		}
		return w + "_" + of
	case 3:
		if i := strings.LastIndex(of, "_"); i > 0 {
			return of[:i]
		}
		return of + "_" + w
	case 4:
		if len(prefixes) > 0 {
			return prefixes[r.Intn(len(prefixes))] + "_" + of
		}
		return w + "_" + of
	}
	return swapFirstCase(of)
}

func validName(s string) bool {
	if s == "" || strings.HasPrefix(s, "__") || reservedNames[s] || strings.HasSuffix(s, "_InputObject") {
		return false
	}
	for i := 0; i < len(s); i++ {
		c := s[i]
		if !(c == '_' || c >= 'a' && c <= 'z' || c >= 'A' && c <= 'Z' || i > 0 && c >= '0' && c <= '9') {
			return false
		}
	}
	return true
}

// genNaming names the structure. Service names are the keys of the gateway's
// executor map and the schemabuilder.NewSchemaWithName argument. thunder
// defines their domain itself: NewSchemaWithName lower-cases the name and the
// underscore is the separator of "<service>_<Type>", so service names are
// lower-case words and digits without underscore (C06_SVC_UNDERSCORE=1 lifts
// the latter for experiments). They may coincide with (parts of) type names
// up to case.
func genNaming(r *rand.Rand, st *nStruct) *naming {
	nm := &naming{}
	used := map[string]bool{}
	pick := func(gen func() string) string {
		for {
			if s := gen(); validName(s) && !used[s] {
				used[s] = true
				return s
			}
		}
	}
	for i := 0; i < st.nSvc; i++ {
		nm.services = append(nm.services, pick(func() string { return strings.ToLower(genName(r, os.Getenv("C06_SVC_UNDERSCORE") != "")) }))
	}
	// type names live in their own namespace (a type may be called like a service)
	used = map[string]bool{}
	for i := 0; i < st.nTypes; i++ {
		nm.types = append(nm.types, pick(func() string {
			if i > 0 && r.Intn(2) == 0 {
				return relatedName(r, nm.types[r.Intn(i)], nm.services)
			}
			if r.Intn(6) == 0 {
				return relatedName(r, nm.services[r.Intn(len(nm.services))], nm.services)
			}
			return genName(r, true)
		}))
	}
	nm.fields = make([]string, len(st.fields))
	typs := make([]int, 0, len(st.byType))
	for t := range st.byType {
		typs = append(typs, t)
	}
	sort.Ints(typs)
	for _, t := range typs {
		used = map[string]bool{}
		var prev []string
		for _, fi := range st.byType[t] {
			nm.fields[fi] = pick(func() string {
				switch {
				case len(prev) > 0 && r.Intn(3) == 0:
					return relatedName(r, prev[r.Intn(len(prev))], nm.services)
				case r.Intn(8) == 0:
					// a field called like a type, or like a Federation field
					if r.Intn(2) == 0 {
						return nm.types[r.Intn(len(nm.types))]
					}
					return nm.services[r.Intn(len(nm.services))] + "_" + nm.types[r.Intn(len(nm.types))]
				}
				return genName(r, true)
			})
			prev = append(prev, nm.fields[fi])
		}
	}
	return nm
}

// values: pure functions of (field index, object id)
func scalarString(fi int, id int64) string { return fmt.Sprintf("v%d:%d", fi, id) }
func scalarInt(fi int, id int64) int64     { return id*131 + int64(fi) }
func hopOne(fi int, id int64) int64        { return (id*7+int64(fi))%13 + 1 }
func hopList(fi int, id int64) []int64 {
	n := (id + int64(fi)) % 4
	out := make([]int64, 0, n)
	for j := int64(0); j < n; j++ {
		out = append(out, (id*5+int64(fi)*3+j*11)%17+1)
	}
	return out
}
func rootIDs(fi int) []int64 {
	n := 2 + fi%3
	out := make([]int64, 0, n)
	for j := 0; j < n; j++ {
		out = append(out, int64((fi*3+j*7)%19+1))
	}
	return out
}

func entList(k int, ids []int64) reflect.Value {
	out := reflect.MakeSlice(reflect.SliceOf(reflect.PtrTo(entTypes[k])), 0, len(ids))
	for _, id := range ids {
		out = reflect.Append(out, mkEnt(k, id))
	}
	return out
}

// buildNamed registers the structure on one schema: svc < 0 = the combined
// server (everything, nothing federated), otherwise service svc (its own
// fields; every entity type federated on its key {id}).
func buildNamed(st *nStruct, nm *naming, svc int) (schema *graphql.Schema, err error) {
	defer func() {
		if rec := recover(); rec != nil {
			err = fmt.Errorf("schemabuilder panic: %v", rec)
		}
	}()
	s := schemabuilder.NewSchema()
	if svc >= 0 {
		s = schemabuilder.NewSchemaWithName(nm.services[svc])
	}
	objs := map[int]*schemabuilder.Object{-1: s.Query()}
	for k := 0; k < st.nTypes; k++ {
		var opts []schemabuilder.ObjectOption
		if svc >= 0 {
			list := reflect.SliceOf(reflect.PtrTo(entTypes[k]))
			argT := reflect.StructOf([]reflect.StructField{{Name: "Keys", Type: list}})
			fn := reflect.MakeFunc(reflect.FuncOf([]reflect.Type{argT}, []reflect.Type{list}, false), func(in []reflect.Value) []reflect.Value {
				return []reflect.Value{in[0].Field(0)}
			})
			opts = append(opts, schemabuilder.FetchObjectFromKeys(fn.Interface()))
		}
		objs[k] = s.Object(nm.types[k], reflect.Zero(entTypes[k]).Interface(), opts...)
	}
	for fi, f := range st.fields {
		if svc >= 0 {
			mine := false
			for _, o := range f.owners {
				mine = mine || o == svc
			}
			if !mine {
				continue
			}
		}
		fi, f := fi, f
		var in []reflect.Type
		if f.typ >= 0 {
			in = []reflect.Type{reflect.PtrTo(entTypes[f.typ])}
		}
		id := func(args []reflect.Value) int64 {
			if len(args) == 0 {
				return 0
			}
			return args[0].Elem().Field(0).Int()
		}
		var out reflect.Type
		var body func(args []reflect.Value) reflect.Value
		switch f.kind {
		case fkString:
			out = reflect.TypeOf("")
			body = func(a []reflect.Value) reflect.Value { return reflect.ValueOf(scalarString(fi, id(a))) }
		case fkInt:
			out = reflect.TypeOf(int64(0))
			body = func(a []reflect.Value) reflect.Value { return reflect.ValueOf(scalarInt(fi, id(a))) }
		case fkOne:
			out = reflect.PtrTo(entTypes[f.target])
			body = func(a []reflect.Value) reflect.Value { return mkEnt(f.target, hopOne(fi, id(a))) }
		case fkList:
			out = reflect.SliceOf(reflect.PtrTo(entTypes[f.target]))
			body = func(a []reflect.Value) reflect.Value { return entList(f.target, hopList(fi, id(a))) }
		case fkRoot:
			out = reflect.SliceOf(reflect.PtrTo(entTypes[f.target]))
			body = func(a []reflect.Value) reflect.Value { return entList(f.target, rootIDs(fi)) }
		}
		fn := reflect.MakeFunc(reflect.FuncOf(in, []reflect.Type{out}, false), func(a []reflect.Value) []reflect.Value {
			return []reflect.Value{body(a)}
		})
		objs[f.typ].FieldFunc(nm.fields[fi], fn.Interface())
	}
	return s.Build()
}

type namedGateway struct {
	clients map[string]*recordingClient
	gateway *federation.Executor
	cancel  context.CancelFunc
}

func (g *namedGateway) calls() int64 {
	var n int64
	for _, c := range g.clients {
		n += atomic.LoadInt64(&c.calls)
	}
	return n
}

// buildNamedGateway returns (nil, stage, err) when a stage failed: "service"
// (schemabuilder / federation.NewServer) or "merge" (federation.NewExecutor).
func buildNamedGateway(st *nStruct, nm *naming, refresh time.Duration) (*namedGateway, string, error) {
	g := &namedGateway{clients: map[string]*recordingClient{}}
	execs := map[string]federation.ExecutorClient{}
	for i, name := range nm.services {
		schema, err := buildNamed(st, nm, i)
		if err != nil {
			return nil, "service", fmt.Errorf("service %s: %v", name, err)
		}
		srv, err := federation.NewServer(schema)
		if err != nil {
			return nil, "service", fmt.Errorf("service %s: %v", name, err)
		}
		rc := &recordingClient{name: name, inner: &federation.DirectExecutorClient{Client: srv}, schema: schema}
		g.clients[name] = rc
		execs[name] = rc
	}
	ctx, cancel := context.WithCancel(context.Background())
	verifhook.SetSyncInterval(refresh)
	e, err := federation.NewExecutor(ctx, execs, &federation.SchemaSyncerConfig{SchemaSyncer: federation.NewIntrospectionSchemaSyncer(ctx, execs, nil)})
	verifhook.SetSyncInterval(0)
	if err != nil {
		cancel()
		return nil, "merge", err
	}
	g.gateway, g.cancel = e, cancel
	return g, "", nil
}

// nSel is one selection of a generated query; rendered with a naming.
type nSel struct {
	field    int // index into nStruct.fields; -1 = id, -2 = __typename
	alias    string
	sub      *nSelSet
	fragment bool // sits inside "... on <Type> { }"
}
type nSelSet struct {
	typ  int
	sels []nSel
}

func genSelSet(r *rand.Rand, st *nStruct, nm *naming, typ, depth int, aliasName func() string) *nSelSet {
	ss := &nSelSet{typ: typ}
	keys := map[string]bool{}
	add := func(s nSel, key string) {
		// response keys (alias, else field name) are kept distinct per level
		// (same-alias merging is the main leg's subject)
		if r.Intn(3) == 0 {
			if a := aliasName(); !keys[a] {
				s.alias, key = a, a
			}
		}
		if keys[key] {
			return
		}
		keys[key] = true
		if typ >= 0 && r.Intn(4) == 0 {
			s.fragment = true
		}
		ss.sels = append(ss.sels, s)
	}
	if typ >= 0 {
		if r.Intn(2) == 0 {
			add(nSel{field: -1}, "id")
		}
		if r.Intn(3) == 0 {
			add(nSel{field: -2}, "__typename")
		}
	}
	fields := st.byType[typ]
	for pass := 0; pass < 2; pass++ {
		for _, fi := range fields {
			f := st.fields[fi]
			switch {
			case f.kind == fkString || f.kind == fkInt:
				if r.Intn(5) < 3 {
					add(nSel{field: fi}, nm.fields[fi])
				}
			case depth > 0 && r.Intn(5) < 2+pass:
				add(nSel{field: fi, sub: genSelSet(r, st, nm, f.target, depth-1, aliasName)}, nm.fields[fi])
			}
		}
		if len(ss.sels) > 0 || depth == 0 {
			break
		}
	}
	if len(ss.sels) == 0 {
		if typ >= 0 {
			ss.sels = append(ss.sels, nSel{field: -1})
		} else {
			fi := fields[r.Intn(len(fields))]
			ss.sels = append(ss.sels, nSel{field: fi, sub: genSelSet(r, st, nm, st.fields[fi].target, 0, aliasName)})
		}
	}
	return ss
}

func (ss *nSelSet) render(b *strings.Builder, nm *naming, withAliases bool) {
	b.WriteString("{ ")
	one := func(s nSel) {
		if s.alias != "" {
			if withAliases {
				b.WriteString(s.alias)
			} else {
				b.WriteString("A")
			}
			b.WriteString(": ")
		}
		switch s.field {
		case -1:
			b.WriteString("id ")
		case -2:
			b.WriteString("__typename ")
		default:
			b.WriteString(nm.fields[s.field])
			b.WriteByte(' ')
			if s.sub != nil {
				s.sub.render(b, nm, withAliases)
			}
		}
	}
	frag := false
	for _, s := range ss.sels {
		if !s.fragment {
			one(s)
		} else {
			frag = true
		}
	}
	if frag {
		b.WriteString("... on " + nm.types[ss.typ] + " { ")
		for _, s := range ss.sels {
			if s.fragment {
				one(s)
			}
		}
		b.WriteString("} ")
	}
	b.WriteString("} ")
}

// singleOwners collects the owners of the selected fields that live on
// exactly one service.
func (ss *nSelSet) singleOwners(st *nStruct, into map[int]bool) {
	for _, s := range ss.sels {
		if s.field >= 0 {
			if o := st.fields[s.field].owners; len(o) == 1 {
				into[o[0]] = true
			}
			if s.sub != nil {
				s.sub.singleOwners(st, into)
			}
		}
	}
}

func nameFeatures(run *vlib.Run, nm *naming) {
	us, suffix, caseVar, svcPrefix := 0, 0, 0, 0
	for i, t := range nm.types {
		if strings.Contains(t, "_") {
			us++
		}
		for j, u := range nm.types {
			if i != j && strings.HasSuffix(t, "_"+u) {
				suffix++
			}
			if i < j && t != u && strings.EqualFold(t, u) {
				caseVar++
			}
		}
		for _, s := range nm.services {
			if strings.HasPrefix(t, s+"_") || t == s {
				svcPrefix++
			}
		}
	}
	run.Count("names:type_names_with_underscore", us)
	run.Count("names:type_name_is_underscore_suffix_of_another", suffix)
	run.Count("names:type_names_differing_in_case_only", caseVar)
	run.Count("names:type_name_starts_with_or_equals_a_service_name", svcPrefix)
	for _, f := range nm.fields {
		if strings.Contains(f, "_") {
			run.Count("names:field_names_with_underscore", 1)
		}
	}
}

func (nm *naming) describe(st *nStruct) map[string]interface{} {
	fields := map[string]interface{}{}
	for fi, f := range st.fields {
		on := "Query"
		if f.typ >= 0 {
			on = nm.types[f.typ]
		}
		var owners []string
		for _, o := range f.owners {
			owners = append(owners, nm.services[o])
		}
		ret := []string{"string", "int64", "*", "[]*", "[]*"}[f.kind]
		if f.kind >= fkOne {
			ret += nm.types[f.target]
		}
		fields[on+"."+nm.fields[fi]] = ret + " @ " + strings.Join(owners, ",")
	}
	return map[string]interface{}{"services": nm.services, "types (federated on key id, on every service)": nm.types, "fields": fields}
}

// namesCase runs one generated structure: control gateway with plain names,
// then the named gateway against the named combined server.
func namesCase(run *vlib.Run, ni, nQ int) {
	caseBase := namesBase + ni*1000
	r := run.Rand("names", ni)
	st := genStruct(r)
	nm := genNaming(r, st)
	refresh := time.Duration(2+r.Intn(4)) * time.Millisecond
	fmt.Printf("CASE %d names leg: services %v types %v\n", caseBase, nm.services, nm.types)

	plain := plainNaming(st)
	cg, stage, err := buildNamedGateway(st, plain, 0)
	if err != nil {
		run.Broken(fmt.Sprintf("names case %d: control gateway (plain names) failed at %s: %v", ni, stage, err))
		return
	}
	cg.cancel()
	mono, err := buildNamed(st, nm, -1)
	if err != nil {
		// a name the single server does not accept either is outside the statement
		run.Broken(fmt.Sprintf("names case %d: combined server rejects the generated names: %v (%v)", ni, err, nm.describe(st)))
		return
	}
	run.Count("names:structures", 1)
	run.Count("fields_with_several_owners", st.multiOwn)
	nameFeatures(run, nm)
	g, stage, err := buildNamedGateway(st, nm, refresh)
	if err != nil {
		run.Violation(caseBase, classify(err.Error(), ""), map[string]interface{}{
			"what":   "the services' schemas merge when types/fields/services carry plain names (control gateway came up) and the combined server accepts the generated names, but with the generated names the gateway fails at stage " + stage,
			"error":  vlib.Trunc(firstLine(err.Error()), 600),
			"schema": nm.describe(st), "control_names": plain.describe(st)})
		return
	}
	defer g.cancel()

	for qi := 0; qi < nQ; qi++ {
		caseIdx := caseBase + qi
		qr := run.Rand("names-query", ni*1000+qi)
		root := genSelSet(qr, st, nm, -1, 2+qr.Intn(2), func() string {
			if qr.Intn(4) == 0 {
				return relatedName(qr, nm.types[qr.Intn(len(nm.types))], nm.services)
			}
			return genName(qr, true)
		})
		var b, shape strings.Builder
		root.render(&b, nm, true)
		root.render(&shape, plain, false)
		text := b.String()
		owners := map[int]bool{}
		root.singleOwners(st, owners)
		spread := len(owners) >= 2
		run.Case(fmt.Sprintf("names|%d|", ni)+shape.String(), spread)
		if spread {
			run.Count("queries_needing_several_services", 1)
		}
		run.Count("names:queries", 1)
		if strings.Contains(text, "... on ") {
			run.Count("names:queries_with_type_condition", 1)
		}
		if strings.Contains(text, "__typename") {
			run.Count("names:queries_selecting___typename", 1)
		}

		q, err := graphql.Parse(text, nil)
		if err != nil {
			run.Broken(fmt.Sprintf("case %d: generated query rejected by Parse: %v\n%s", caseIdx, err, text))
			return
		}
		ctx := context.Background()
		if err := graphql.PrepareQuery(ctx, mono.Query, q.SelectionSet); err != nil {
			run.Broken(fmt.Sprintf("case %d: generated query rejected by the combined server: %v\n%s", caseIdx, err, text))
			return
		}
		want, err := graphql.NewExecutor(graphql.NewImmediateGoroutineScheduler()).Execute(ctx, mono.Query, nil, q)
		if err != nil {
			run.Broken(fmt.Sprintf("case %d: combined server failed: %v\n%s", caseIdx, err, text))
			return
		}
		wantC := vlib.Canon(strip(want))
		if run.WantSample() && spread && qi == 1 {
			run.Sample(map[string]interface{}{"leg": "names", "query": text, "schema": nm.describe(st)})
		}
		for rep := 0; rep < 3; rep++ {
			gq, err := graphql.Parse(text, nil)
			if err != nil {
				return
			}
			type gres struct {
				v   interface{}
				err error
			}
			ch := make(chan gres, 1)
			go func() {
				v, _, err := g.gateway.Execute(ctx, gq, nil)
				ch <- gres{v, err}
			}()
			var got gres
			arrived := false
			done := func() bool {
				if !arrived {
					select {
					case got = <-ch:
						arrived = true
					default:
					}
				}
				return arrived
			}
			switch vlib.AwaitOrParked(done, g.calls, 20*time.Second, 15*time.Minute) {
			case vlib.QuiescentNot:
				run.Violation(caseIdx, classify("gateway hang", ""), map[string]interface{}{"what": "gateway request did not return and the process is parked on a query the combined server answers",
					"query": text, "schema": nm.describe(st), "stacks": vlib.Trunc(strings.Join(vlib.ThunderGoroutines(), "\n\n"), 5000)})
				return
			case vlib.Undecided:
				run.Inconclusive(fmt.Sprintf("case %d: gateway request still running (busy, not parked) at the hard deadline", caseIdx))
				return
			}
			wit := map[string]interface{}{"leg": "names", "query": text, "schema": nm.describe(st), "repetition": rep, "want": vlib.Trunc(wantC, 2500)}
			for _, c := range g.clients {
				for _, why := range c.takeBad() {
					w2 := map[string]interface{}{}
					for k, v := range wit {
						w2[k] = v
					}
					w2["what"] = "sub-query sent to service " + c.name + " uses something that service does not expose: " + why
					run.Violation(caseIdx, "", w2)
				}
			}
			if got.err != nil {
				wit["what"] = "gateway failed on a query the combined server answers"
				wit["error"] = vlib.Trunc(firstLine(got.err.Error()), 600)
				run.Violation(caseIdx, classify(got.err.Error(), ""), wit)
				return
			}
			if gotC := vlib.Canon(strip(got.v)); gotC != wantC {
				wit["got"] = vlib.Trunc(gotC, 2500)
				wit["what"] = "gateway result differs from the combined server's result"
				run.Violation(caseIdx, classify("", gotC), wit)
				return
			}
		}
	}
}
