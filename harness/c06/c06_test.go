// Package c06 monitors property C06: the federation gateway answers like one
// combined server, each sub-query only uses what its service exposes, and
// background schema refreshes do not disturb requests.
package c06

import (
	"context"
	"encoding/json"
	"fmt"
	"math/rand"
	"os"
	"sort"
	"strings"
	"sync"
	"sync/atomic"
	"testing"
	"time"

	"github.com/samsarahq/thunder/diff"
	"github.com/samsarahq/thunder/federation"
	"github.com/samsarahq/thunder/graphql"
	"github.com/samsarahq/thunder/internal/verifhook"
	"github.com/samsarahq/thunder/verifharness/gen"
	"github.com/samsarahq/thunder/verifharness/vlib"
)

// recordingClient wraps a service's ExecutorClient: it validates every
// sub-query against the service's own schema before forwarding it.
type recordingClient struct {
	name   string
	inner  federation.ExecutorClient
	schema *graphql.Schema
	calls  int64
	mu     sync.Mutex
	bad    []string
}

// cancelPlan cancels the request context when the after-th service call of
// one gateway request starts (the client went away / the deadline passed
// while a hop is in flight).
type cancelPlan struct {
	after  int64
	n      int64
	cancel context.CancelFunc
}
type cancelKey struct{}

func (c *recordingClient) Execute(ctx context.Context, req *federation.QueryRequest) (*federation.QueryResponse, error) {
	atomic.AddInt64(&c.calls, 1)
	if p, _ := ctx.Value(cancelKey{}).(*cancelPlan); p != nil {
		if atomic.AddInt64(&p.n, 1) == p.after {
			p.cancel()
		}
	}
	if req.Query != nil && req.Query.SelectionSet != nil {
		root := c.schema.Query
		if req.Query.Kind == "mutation" && c.schema.Mutation != nil {
			root = c.schema.Mutation
		}
		if why := validateAgainst(root, req.Query.SelectionSet); why != "" {
			c.mu.Lock()
			if len(c.bad) < 5 {
				c.bad = append(c.bad, why)
			}
			c.mu.Unlock()
		}
	}
	return c.inner.Execute(ctx, req)
}

func (c *recordingClient) takeBad() []string {
	c.mu.Lock()
	defer c.mu.Unlock()
	b := c.bad
	c.bad = nil
	return b
}

// validateAgainst walks a sub-query over the service's own types: every
// selected field must exist there and every argument must be declared.
func validateAgainst(typ graphql.Type, ss *graphql.SelectionSet) string {
	switch t := typ.(type) {
	case *graphql.NonNull:
		return validateAgainst(t.Type, ss)
	case *graphql.List:
		return validateAgainst(t.Type, ss)
	case *graphql.Scalar, *graphql.Enum:
		if ss != nil {
			return "sub-selection on scalar/enum " + typ.String()
		}
		return ""
	case *graphql.Union:
		if ss == nil {
			return "missing selection on union " + t.Name
		}
		for _, s := range ss.Selections {
			if s.Name != "__typename" {
				return fmt.Sprintf("field %q selected directly on union %s", s.Name, t.Name)
			}
		}
		for _, f := range ss.Fragments {
			m, ok := t.Types[f.On]
			if !ok {
				continue
			}
			if why := validateAgainst(m, f.SelectionSet); why != "" {
				return why
			}
		}
		return ""
	case *graphql.Object:
		if ss == nil {
			return "missing selection on object " + t.Name
		}
		for _, s := range ss.Selections {
			if s.Name == "__typename" {
				continue
			}
			f, ok := t.Fields[s.Name]
			if !ok {
				return fmt.Sprintf("field %s.%s is not exposed by this service", t.Name, s.Name)
			}
			for name := range s.UnparsedArgs {
				if _, ok := f.Args[name]; !ok {
					return fmt.Sprintf("argument %s.%s(%s:) is not exposed by this service", t.Name, s.Name, name)
				}
			}
			if why := validateAgainst(f.Type, s.SelectionSet); why != "" {
				return why
			}
		}
		for _, f := range ss.Fragments {
			if why := validateAgainst(t, f.SelectionSet); why != "" {
				return why
			}
		}
		return ""
	}
	return ""
}

type partition struct {
	// dead is set once a request on this gateway was found parked for good:
	// later requests on it would only wait for the same verdict
	dead     int32
	idx      int
	services []string
	owners   map[string][]string // "Type.field" -> services
	clients  map[string]*recordingClient
	gateway  *federation.Executor
	cancel   context.CancelFunc
	multi    int // fields with more than one owner
}

func buildPartition(run *vlib.Run, sd *gen.SchemaDesc, idx int, refresh time.Duration) (*partition, error) {
	r := run.Rand("partition", idx)
	p := &partition{idx: idx, owners: map[string][]string{}, clients: map[string]*recordingClient{}}
	ns := 2 + r.Intn(3)
	for i := 0; i < ns; i++ {
		p.services = append(p.services, fmt.Sprintf("s%d", i))
	}
	for _, key := range sd.ModalFields() {
		k := 1
		if r.Intn(4) == 0 {
			k = 2
			if r.Intn(3) == 0 {
				k = 3
			}
		}
		perm := r.Perm(ns)
		if k > ns {
			k = ns
		}
		for _, j := range perm[:k] {
			p.owners[key] = append(p.owners[key], p.services[j])
		}
		sort.Strings(p.owners[key])
		if k > 1 {
			p.multi++
		}
	}
	for _, key := range sd.MutationFields() {
		// a mutation field lives on exactly one service
		p.owners[key] = []string{p.services[r.Intn(ns)]}
	}
	execs := map[string]federation.ExecutorClient{}
	for _, name := range p.services {
		name := name
		nodeKeys := "full"
		if r.Intn(2) == 0 {
			nodeKeys = "id"
		}
		cfg := gen.Config{Service: name, NodeKeys: nodeKeys, Mutations: true, Modes: map[string]gen.Mode{}, Include: func(typ, field string) bool {
			for _, o := range p.owners[typ+"."+field] {
				if o == name {
					return true
				}
			}
			return false
		}}
		// a few batch / expensive fields on services as well
		for _, key := range sd.ModalFields() {
			if !strings.HasPrefix(key, "Query.") {
				switch r.Intn(6) {
				case 0:
					cfg.Modes[key] = gen.Mode{Kind: gen.MBatch}
				case 1:
					cfg.Modes[key] = gen.Mode{Kind: gen.MExpensive}
				}
			}
		}
		schema, err := gen.Build(sd, cfg, &gen.Env{}).Build()
		if err != nil {
			return nil, fmt.Errorf("service %s: %v", name, err)
		}
		srv, err := federation.NewServer(schema)
		if err != nil {
			return nil, err
		}
		rc := &recordingClient{name: name, inner: &federation.DirectExecutorClient{Client: srv}, schema: schema}
		p.clients[name] = rc
		execs[name] = rc
	}
	ctx, cancel := context.WithCancel(context.Background())
	p.cancel = cancel
	verifhook.SetSyncInterval(refresh)
	e, err := federation.NewExecutor(ctx, execs, &federation.SchemaSyncerConfig{SchemaSyncer: federation.NewIntrospectionSchemaSyncer(ctx, execs, nil)})
	verifhook.SetSyncInterval(0)
	if err != nil {
		cancel()
		return nil, err
	}
	p.gateway = e
	return p, nil
}

func (p *partition) describe() map[string]interface{} {
	o := map[string]interface{}{}
	for k, v := range p.owners {
		o[k] = strings.Join(v, ",")
	}
	return map[string]interface{}{"services": p.services, "owners": o}
}

func strip(v interface{}) interface{} {
	j, err := vlib.ToJSONForm(v)
	if err != nil {
		return v
	}
	return diff.StripKey(j)
}

func TestCheck(t *testing.T) {
	run := vlib.Start(t, "C06", "exploration")
	defer run.Finish()
	sd := gen.Zoo()
	run.Rule("seeded partitions assign every zoo field (root fields and Node/Leaf/Item field funcs, values pure functions of object id) to 1-3 of 2-4 services, all objects federated with FetchObjectFromKeys; " +
		"generated queries (duplicate aliases with different sub-selections, nested/named fragments, unions, args/variables, nulls, empty lists, multi-hop plans; every 7th operation is a mutation on a Mutation root whose fields live on one service each; one query in 50 runs over a world of 1200-2700 nodes so that single hops carry thousands of objects) run through federation.Executor (5 repetitions to vary the arbitrary service pick) while the gateway refreshes its schema every 2-5 ms and 8 goroutines query; " +
		"names leg: 40/600 further structures of 2-4 federated entity types {id} with scalar / object-hop / list-hop field funcs over 2-3 services whose type, field, root-field, alias and service names come from a seeded generator of valid GraphQL names (underscores anywhere, digits, mixed case, names that extend / cut / case-swap each other or a service name; service names lower-case without underscore, the domain schemabuilder.NewSchemaWithName defines), 10/16 queries each (aliases, type conditions, __typename), each structure also built with plain control names: the control gateway must come up (else VERIF-BROKEN), then the named gateway must come up and answer like the combined server built with the same names; " +
		"oracle: StripKey(gateway result) == StripKey(monolith result); every sub-query received by a service names only fields/args in that service's own schema; race detector. Non-trivial = plan needs >= 2 services; distinct by (partition, query shape).")
	run.Assume("DirectExecutorClient (in-process protobuf round trip) stands for the gRPC transport")
	mono, err := gen.Build(sd, gen.Config{Mutations: true}, &gen.Env{}).Build()
	if err != nil {
		run.Broken("monolith build: " + err.Error())
		return
	}
	nPart := run.N(16, 300)
	nQ := run.N(100, 400)
	var refreshes int64
	run.Each(nPart, 2, func(pi int) {
		r0 := run.Rand("refresh", pi)
		p, err := buildPartition(run, sd, pi, time.Duration(2+r0.Intn(4))*time.Millisecond)
		if err != nil {
			run.Broken(fmt.Sprintf("partition %d: %v", pi, err))
			return
		}
		defer p.cancel()
		introspectionCalls := func() int64 {
			var n int64
			for _, c := range p.clients {
				n += atomic.LoadInt64(&c.calls)
			}
			return n
		}
		var wg sync.WaitGroup
		var next int64 = -1
		for g := 0; g < 8; g++ {
			wg.Add(1)
			go func() {
				defer wg.Done()
				for {
					qi := int(atomic.AddInt64(&next, 1))
					if qi >= nQ {
						return
					}
					oneQuery(run, sd, mono, p, pi, qi)
				}
			}()
		}
		wg.Wait()
		atomic.AddInt64(&refreshes, introspectionCalls())
		run.Count("partitions", 1)
		run.Count("fields_with_several_owners", p.multi)
	})
	run.Set("service_calls_including_schema_refreshes", refreshes)

	// names leg (names_test.go): generated type / field / service names
	nNames, nNQ := run.N(40, 600), run.N(10, 16)
	if only, replay := run.Only(); replay {
		if only >= namesBase {
			namesCase(run, (only-namesBase)/1000, nNQ)
		}
		return
	}
	t0 := time.Now()
	run.Each(nNames, 2, func(ni int) { namesCase(run, ni, nNQ) })
	fmt.Printf("names leg: %d structures x %d queries took %v (this shard)\n", nNames, nNQ, time.Since(t0).Round(time.Millisecond))
}

func oneQuery(run *vlib.Run, sd *gen.SchemaDesc, mono *graphql.Schema, p *partition, pi, qi int) {
	if atomic.LoadInt32(&p.dead) != 0 {
		run.Count("queries_skipped_on_a_gateway_found_parked", 1)
		return
	}
	caseIdx := pi*100000 + qi
	r := rand.New(rand.NewSource(run.Rand("query", caseIdx).Int63()))
	w := gen.NewWorld(uint64(r.Int63()), 4+r.Intn(10), 3+r.Intn(6))
	o := gen.DefaultGenOpts()
	o.MaxDepth = 3 + r.Intn(3)
	if r.Intn(3) == 0 {
		o = gen.MergeHeavy(o)
	}
	switch {
	case qi%7 == 3:
		// a mutation whose result needs fields of other services
		o.Mutation = true
		run.Count("mutation_operations", 1)
	case qi%50 == 11:
		// one hop carrying thousands of objects (small query, large lists)
		w = gen.NewWorld(uint64(r.Int63()), 1200+r.Intn(1500), 3+r.Intn(4))
		o.MaxDepth, o.MaxWidth = 2, 3
		o.RootFields = []string{"all"}
		o.PDupAlias, o.PNamed, o.PInline = 0.05, 0.05, 0.05
		run.Count("large_world_queries", 1)
	}
	o.UnionSecondFragment = os.Getenv("C06_NO_UNION2") == ""
	o.UnionSelfFragment = true
	o.AvoidTypes = map[string]bool{"Bag": true} // Bag is not federated
	if os.Getenv("C06_NO_UNIONS") != "" {
		o.NoUnions = true
	}
	if os.Getenv("C06_NO_DUP") != "" {
		o.PDupAlias = 0
	}
	doc := gen.Generate(r, sd, w, o)
	text, vars := doc.Text(), doc.VarsJSON()
	ctx := gen.WithUseBatch(gen.WithWorld(context.Background(), w), true)

	q, err := graphql.Parse(text, vars)
	if err != nil {
		run.Broken(fmt.Sprintf("case %d: generated query rejected by Parse: %v\n%s", caseIdx, err, text))
		return
	}
	monoRoot := mono.Query
	if q.Kind == "mutation" {
		monoRoot = mono.Mutation
	}
	if err := graphql.PrepareQuery(ctx, monoRoot, q.SelectionSet); err != nil {
		run.Broken(fmt.Sprintf("case %d: generated query rejected by the monolith: %v\n%s", caseIdx, err, text))
		return
	}
	want, err := graphql.NewExecutor(graphql.NewImmediateGoroutineScheduler()).Execute(ctx, monoRoot, nil, q)
	if err != nil {
		run.Broken(fmt.Sprintf("case %d: monolith failed: %v\n%s", caseIdx, err, text))
		return
	}
	wantC := vlib.Canon(strip(want))

	// how many services does the query touch (non-triviality)
	touched := map[string]bool{}
	var trace []gen.Resolution
	_, _ = gen.EvalTrace(sd, doc, w, func(res gen.Resolution) { trace = append(trace, res) })
	single := ""
	spread := false
	for _, t := range trace {
		os := p.owners[t.Type+"."+t.Field]
		for _, s := range os {
			touched[s] = true
		}
		if len(os) == 1 {
			if single == "" {
				single = os[0]
			} else if single != os[0] {
				spread = true
			}
		}
	}
	run.Case(fmt.Sprintf("p%d|", pi)+doc.Shape(), spread)
	if spread {
		run.Count("queries_needing_several_services", 1)
	}
	if run.WantSample() && spread && len(text) < 900 {
		run.Sample(map[string]interface{}{"query": text, "variables": vars, "partition": p.describe()})
	}
	for rep := 0; rep < 5; rep++ {
		gq, err := graphql.Parse(text, vars)
		if err != nil {
			return
		}
		type gres struct {
			v   interface{}
			err error
		}
		ch := make(chan gres, 1)
		go func() {
			v, _, err := p.gateway.Execute(ctx, gq, nil)
			ch <- gres{v, err}
		}()
		var got interface{}
		arrived := false
		done := func() bool {
			if arrived {
				return true
			}
			select {
			case g := <-ch:
				got, err, arrived = g.v, g.err, true
			default:
			}
			return arrived
		}
		serviceCalls := func() int64 {
			var n int64
			for _, c := range p.clients {
				n += atomic.LoadInt64(&c.calls)
			}
			return n
		}
		switch vlib.AwaitOrParked(done, serviceCalls, 20*time.Second, 15*time.Minute) {
		case vlib.QuiescentNot:
			// no goroutine inside thunder is busy, nothing moves, and the request has not returned
			atomic.StoreInt32(&p.dead, 1)
			run.Violation(caseIdx, classify("gateway hang", ""), map[string]interface{}{"what": "gateway request did not return and the process is parked (no busy goroutine inside thunder, no service call) on a query the combined server answers",
				"query": text, "variables": vars, "partition": p.describe(), "stacks": vlib.Trunc(strings.Join(vlib.ThunderGoroutines(), "\n\n"), 5000)})
			return
		case vlib.Undecided:
			run.Inconclusive(fmt.Sprintf("case %d: gateway request still running (busy, not parked) at the hard deadline", caseIdx))
			return
		}
		wit := map[string]interface{}{"query": text, "variables": vars, "partition": p.describe(), "repetition": rep,
			"world": map[string]interface{}{"seed": w.Seed, "n": w.N, "m": w.M}, "want": vlib.Trunc(wantC, 2500)}
		for _, c := range p.clients {
			for _, why := range c.takeBad() {
				w2 := map[string]interface{}{}
				for k, v := range wit {
					w2[k] = v
				}
				w2["what"] = "sub-query sent to service " + c.name + " uses something that service does not expose: " + why
				run.Violation(caseIdx, "", w2)
			}
		}
		if err != nil {
			wit["what"] = "gateway failed on a query the combined server answers"
			wit["error"] = vlib.Trunc(firstLine(err.Error()), 600)
			run.Violation(caseIdx, classify(err.Error(), ""), wit)
			return
		}
		gotS := strip(got)
		gotC := vlib.Canon(gotS)
		if gotC != wantC {
			wit["got"] = vlib.Trunc(gotC, 2500)
			wantS, _ := vlib.ToJSONForm(strip(want))
			if n := dropInjectedTypename(gotS, wantS); n > 0 && vlib.Canon(gotS) == wantC {
				// the only difference: objects carry a "__typename" the query did not select
				wit["what"] = fmt.Sprintf("gateway result carries %d unrequested __typename entries (the planner's dispatch marker for unions is not removed)", n)
				run.Violation(caseIdx, "gateway-leaves-injected-typename-in-union-objects", wit)
				run.Count("known_class_hits:injected_typename", 1)
				continue
			}
			wit["what"] = "gateway result differs from the combined server's result"
			run.Violation(caseIdx, classify("", gotC), wit)
			return
		}
	}
	if qi%2 == 0 {
		cancelLeg(run, p, caseIdx, r, ctx, text, vars, wantC, want)
	}
}

// cancelLeg runs the query once more with the request context cancelled at a
// seeded service call: the gateway must fail, or answer completely — never
// report success with part of the document missing.
func cancelLeg(run *vlib.Run, p *partition, caseIdx int, r *rand.Rand, base context.Context, text string, vars map[string]interface{}, wantC string, want interface{}) {
	count := &cancelPlan{after: 1 << 40, cancel: func() {}}
	q1, err := graphql.Parse(text, vars)
	if err != nil {
		return
	}
	if _, _, err := p.gateway.Execute(context.WithValue(base, cancelKey{}, count), q1, nil); err != nil {
		return
	}
	calls := atomic.LoadInt64(&count.n)
	if calls < 1 {
		return
	}
	cctx, cancel := context.WithCancel(base)
	defer cancel()
	plan := &cancelPlan{after: 1 + r.Int63n(calls), cancel: cancel}
	q2, _ := graphql.Parse(text, vars)
	type gres struct {
		v   interface{}
		err error
	}
	ch := make(chan gres, 1)
	go func() {
		v, _, err := p.gateway.Execute(context.WithValue(cctx, cancelKey{}, plan), q2, nil)
		ch <- gres{v, err}
	}()
	var g gres
	arrived := false
	done := func() bool {
		if arrived {
			return true
		}
		select {
		case g = <-ch:
			arrived = true
		default:
		}
		return arrived
	}
	serviceCalls := func() int64 {
		var n int64
		for _, c := range p.clients {
			n += atomic.LoadInt64(&c.calls)
		}
		return n
	}
	switch vlib.AwaitOrParked(done, serviceCalls, 20*time.Second, 15*time.Minute) {
	case vlib.QuiescentNot:
		atomic.StoreInt32(&p.dead, 1)
		run.Violation(caseIdx, "", map[string]interface{}{"what": "gateway request did not return after its context was cancelled mid-request and the process is parked",
			"query": text, "variables": vars, "partition": p.describe(), "cancel_at_service_call": plan.after, "stacks": vlib.Trunc(strings.Join(vlib.ThunderGoroutines(), "\n\n"), 5000)})
		return
	case vlib.Undecided:
		run.Inconclusive(fmt.Sprintf("case %d: cancelled gateway request still running (busy, not parked) at the hard deadline", caseIdx))
		return
	}
	run.Count("cancel_mid_request_runs", 1)
	if g.err != nil {
		run.Count("cancel_mid_request_returned_error", 1)
		return
	}
	gotS := strip(g.v)
	if vlib.Canon(gotS) == wantC {
		return
	}
	wantS, _ := vlib.ToJSONForm(strip(want))
	if n := dropInjectedTypename(gotS, wantS); n > 0 && vlib.Canon(gotS) == wantC {
		return
	}
	run.Violation(caseIdx, "", map[string]interface{}{"what": "request context cancelled while a hop was in flight: the gateway reported success with a result that differs from the combined server's (partial document)",
		"query": text, "variables": vars, "partition": p.describe(), "cancel_at_service_call": plan.after, "service_calls": calls,
		"got": vlib.Trunc(vlib.Canon(strip(g.v)), 2500), "want": vlib.Trunc(wantC, 2500)})
}

func firstLine(s string) string {
	if i := strings.Index(s, "\n"); i >= 0 {
		return s[:i]
	}
	return s
}

// classify is a triage aid (VERIF_TRIAGE=1 only); it never produces keys that
// are listed as known findings.
func classify(errText, got string) string {
	if os.Getenv("VERIF_TRIAGE") == "" {
		return ""
	}
	switch {
	case errText == "gateway hang":
		return "triage:gateway-hang"
	case strings.Contains(errText, "not an object"):
		return "triage:null-hop-not-an-object"
	case errText != "":
		w := strings.Fields(firstLine(errText))
		if len(w) > 6 {
			w = w[:6]
		}
		return "triage:error:" + strings.Join(w, " ")
	}
	return "triage:result-differs"
}

var _ = json.Marshal

// dropInjectedTypename deletes from got every "__typename" entry that want
// does not have at the same position, and returns how many were deleted.
func dropInjectedTypename(got, want interface{}) int {
	n := 0
	switch g := got.(type) {
	case map[string]interface{}:
		w, _ := want.(map[string]interface{})
		if v, ok := g["__typename"]; ok {
			if _, isStr := v.(string); isStr && w != nil {
				if _, wanted := w["__typename"]; !wanted {
					delete(g, "__typename")
					n++
				}
			}
		}
		for k, v := range g {
			var wv interface{}
			if w != nil {
				wv = w[k]
			}
			n += dropInjectedTypename(v, wv)
		}
	case []interface{}:
		w, _ := want.([]interface{})
		for i, v := range g {
			var wv interface{}
			if i < len(w) {
				wv = w[i]
			}
			n += dropInjectedTypename(v, wv)
		}
	}
	return n
}
