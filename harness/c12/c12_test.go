// Package c12 monitors property C12: a shard-limited sqlgen.DB handle can
// never read or write outside its shard. The real sqlgen / livesql code runs
// against the in-memory engine of package fakesql; the oracle reads the
// engine's statement log (parsed predicates, bound arguments) and the errors
// returned by the API.
package c12

import (
	"context"
	"database/sql/driver"
	"fmt"
	"hash/fnv"
	"math/rand"
	"reflect"
	"runtime/debug"
	"sort"
	"strings"
	"sync"
	"testing"
	"time"
	"unicode"

	"github.com/samsarahq/thunder/batch"
	"github.com/samsarahq/thunder/livesql"
	"github.com/samsarahq/thunder/reactive"
	"github.com/samsarahq/thunder/sqlgen"
	"github.com/samsarahq/thunder/verifharness/fakesql"
	"github.com/samsarahq/thunder/verifharness/vlib"
)

// ---- tables ----

type OrgID int64
type Region string

type Device struct {
	Id     int64 `sql:",primary"`
	OrgId  int64
	Region string
	Name   string
	Score  *int64
}

type Event struct {
	Id     int64 `sql:",primary"`
	OrgId  OrgID
	Region Region
	Kind   string
}

type Member struct {
	OrgId  int32 `sql:",primary"`
	UserId int64 `sql:",primary"`
	Role   string
	Region *string
}

// Slot has non-primary columns in front of its primary key, so the column
// lists of its INSERT/UPSERT (struct order) and of the UpdateRow check (key
// first) have the same length in a different order.
type Slot struct {
	OrgId  int64
	Region string
	Id     int64 `sql:",primary"`
	Tag    int64
}

// Tick is an auto-increment table with as many primary as non-primary
// columns: its INSERT lists [org_id], its DELETE carries [id].
type Tick struct {
	Id    int64 `sql:",primary"`
	OrgId int64
}

var tableTypes = map[string]reflect.Type{
	"devices": reflect.TypeOf(Device{}),
	"events":  reflect.TypeOf(Event{}),
	"members": reflect.TypeOf(Member{}),
	"slots":   reflect.TypeOf(Slot{}),
	"ticks":   reflect.TypeOf(Tick{}),
}
var tableNames = []string{"devices", "events", "members", "slots", "ticks"}

func newSchema() *sqlgen.Schema {
	s := sqlgen.NewSchema()
	s.MustRegisterType("devices", sqlgen.UniqueId, Device{})
	s.MustRegisterType("events", sqlgen.AutoIncrement, Event{})
	s.MustRegisterType("members", sqlgen.UniqueId, Member{})
	s.MustRegisterType("slots", sqlgen.UniqueId, Slot{})
	s.MustRegisterType("ticks", sqlgen.AutoIncrement, Tick{})
	return s
}

// snake is the harness's own CamelCase -> snake_case (the documented column
// naming rule), used to read row fields independently of sqlgen.
func snake(s string) string {
	var b strings.Builder
	for i, c := range s {
		if i > 0 && unicode.IsUpper(c) {
			b.WriteByte('_')
		}
		b.WriteRune(unicode.ToLower(c))
	}
	return b.String()
}

// fieldOf returns the Go value of the struct field backing column col.
func fieldOf(row interface{}, col string) (interface{}, bool) {
	v := reflect.ValueOf(row)
	for v.Kind() == reflect.Ptr {
		v = v.Elem()
	}
	t := v.Type()
	for i := 0; i < t.NumField(); i++ {
		if snake(t.Field(i).Name) == col {
			return v.Field(i).Interface(), true
		}
	}
	return nil, false
}

// ---- independent value denotation ----

type denot struct {
	null bool
	kind byte // 'i' 's' 'f' 'b' '?'
	i    int64
	s    string
	f    float64
}

func norm(v interface{}) denot {
	if v == nil {
		return denot{null: true}
	}
	rv := reflect.ValueOf(v)
	for rv.Kind() == reflect.Ptr {
		if rv.IsNil() {
			return denot{null: true}
		}
		rv = rv.Elem()
	}
	switch rv.Kind() {
	case reflect.Int, reflect.Int8, reflect.Int16, reflect.Int32, reflect.Int64:
		return denot{kind: 'i', i: rv.Int()}
	case reflect.Uint, reflect.Uint8, reflect.Uint16, reflect.Uint32, reflect.Uint64:
		return denot{kind: 'i', i: int64(rv.Uint())}
	case reflect.String:
		return denot{kind: 's', s: rv.String()}
	case reflect.Bool:
		if rv.Bool() {
			return denot{kind: 'b', i: 1}
		}
		return denot{kind: 'b'}
	case reflect.Float32, reflect.Float64:
		return denot{kind: 'f', f: rv.Float()}
	case reflect.Slice:
		if rv.Type().Elem().Kind() == reflect.Uint8 {
			if rv.IsNil() {
				return denot{null: true}
			}
			return denot{kind: 's', s: string(rv.Bytes())}
		}
	}
	return denot{kind: '?', s: fmt.Sprintf("%#v", v)}
}

func (d denot) driverValue() driver.Value {
	switch d.kind {
	case 'i':
		return d.i
	case 's':
		return d.s
	case 'f':
		return d.f
	case 'b':
		return d.i != 0
	}
	return nil
}

func sameDenotation(a, b denot) bool {
	return !a.null && !b.null && a.kind != '?' && a == b
}

func identical(a, b interface{}) bool {
	if a == nil || b == nil {
		return false
	}
	ta, tb := reflect.TypeOf(a), reflect.TypeOf(b)
	if ta != tb || !ta.Comparable() {
		return false
	}
	return a == b
}

func show(v interface{}) string {
	if v == nil {
		return "nil"
	}
	rv := reflect.ValueOf(v)
	if rv.Kind() == reflect.Ptr {
		if rv.IsNil() {
			return fmt.Sprintf("(%T)(nil)", v)
		}
		return fmt.Sprintf("&%T(%v)", rv.Elem().Interface(), rv.Elem().Interface())
	}
	if b, ok := v.([]byte); ok {
		return fmt.Sprintf("[]byte(%q)", string(b))
	}
	return fmt.Sprintf("%T(%#v)", v, v)
}

func showFilter(f sqlgen.Filter) string {
	if f == nil {
		return "nil"
	}
	keys := make([]string, 0, len(f))
	for k := range f {
		keys = append(keys, k)
	}
	sort.Strings(keys)
	parts := make([]string, len(keys))
	for i, k := range keys {
		parts[i] = k + ": " + show(f[k])
	}
	return "Filter{" + strings.Join(parts, ", ") + "}"
}

// ---- limits ----

type pair struct {
	col string
	val interface{}
	src string // "shard" / "dynamic"
}

type handleSpec struct {
	shard    sqlgen.Filter
	dynMode  string                   // "", "reject", "permit", "nil"
	dyn      map[string]sqlgen.Filter // per table
	dynFirst bool                     // apply WithDynamicLimit before WithShardLimit
	// explain: the handle also has WithPanicOnNoIndex (an EXPLAIN precedes every
	// non-batched SELECT that does not allow full scans); explainFirst applies
	// it before the limits
	explain      bool
	explainFirst bool
}

func (h *handleSpec) describe() string {
	s := "shard=" + showFilter(h.shard) + " dynamic=" + h.dynMode
	if h.explain {
		s = "WithPanicOnNoIndex " + s
	}
	if h.dynMode == "reject" || h.dynMode == "permit" || h.dynMode == "varying" {
		var parts []string
		for _, t := range tableNames {
			parts = append(parts, t+":"+showFilter(h.dyn[t]))
		}
		s += "{" + strings.Join(parts, " ") + "}"
	}
	return s
}

// enforced lists the (column, value) pairs the property requires for table.
func (h *handleSpec) enforced(table string) []pair {
	var out []pair
	for _, c := range sortedCols(h.shard) {
		out = append(out, pair{c, h.shard[c], "shard"})
	}
	if h.dynMode == "reject" {
		f := h.dyn[table]
		for _, c := range sortedCols(f) {
			out = append(out, pair{c, f[c], "dynamic"})
		}
	}
	return out
}

func sortedCols(f sqlgen.Filter) []string {
	out := make([]string, 0, len(f))
	for c := range f {
		out = append(out, c)
	}
	sort.Strings(out)
	return out
}

type dynObs struct {
	mu          sync.Mutex
	getCalls    int
	errCalls    int
	wrongTable  []string
	errNotQuery int
	// verdicts of the "varying" callbacks, in invocation order (true = continue)
	verdicts []bool
}

func (h *handleSpec) build(base *sqlgen.DB, obs *dynObs, callTable func(ctx context.Context) string) (*sqlgen.DB, error) {
	db := base
	var err error
	applyShard := func() {
		if h.shard != nil && err == nil {
			db, err = db.WithShardLimit(h.shard)
		}
	}
	applyDyn := func() {
		if h.dynMode == "" || err != nil {
			return
		}
		mode := h.dynMode
		dl := sqlgen.DynamicLimit{
			GetLimitFilter: func(ctx context.Context, table string) sqlgen.Filter {
				obs.mu.Lock()
				obs.getCalls++
				if want := callTable(ctx); want != "" && want != table {
					obs.wrongTable = append(obs.wrongTable, fmt.Sprintf("callback got table %q for a call on %q", table, want))
				}
				obs.mu.Unlock()
				if mode == "nil" {
					return nil
				}
				return h.dyn[table]
			},
			ShouldContinueOnError: func(err error, table string) bool {
				obs.mu.Lock()
				obs.errCalls++
				if _, ok := err.(*sqlgen.ErrorWithQuery); !ok {
					obs.errNotQuery++
				}
				verdict := mode == "permit"
				if mode == "varying" {
					// the verdict depends on the statement the callback is shown and
					// drifts over the life of the handle (an allow-list being tightened
					// and relaxed): allow / reject by a hash of clause and arguments,
					// inverted every four consultations
					hsh := fnv.New32a()
					if eq, ok := err.(*sqlgen.ErrorWithQuery); ok {
						hsh.Write([]byte(eq.Reason()))
					}
					verdict = (hsh.Sum32()%2 == 0) != ((len(obs.verdicts)/4)%2 == 1)
					obs.verdicts = append(obs.verdicts, verdict)
				}
				obs.mu.Unlock()
				return verdict
			},
		}
		db, err = db.WithDynamicLimit(dl)
	}
	applyExplain := func() {
		if !h.explain || err != nil {
			return
		}
		if db == base {
			// WithPanicOnNoIndex switches the option on in place: keep the
			// scenario's base handle untouched
			c := *base
			db = &c
		}
		db, err = db.WithPanicOnNoIndex()
	}
	if h.explainFirst {
		applyExplain()
	}
	if h.dynFirst {
		applyDyn()
		applyShard()
	} else {
		applyShard()
		applyDyn()
	}
	if !h.explainFirst {
		applyExplain()
	}
	return db, err
}

// ---- calls ----

type call struct {
	id      int
	op      string
	ctxKind string
	table   string
	handle  int // index into scenario handles
	filter  sqlgen.Filter
	opts    *sqlgen.SelectOptions
	optDesc string
	rows    []interface{} // write ops
	chunk   int
	intent  string

	// classification (independent of thunder)
	class         string // "identical" | "equivalent" | "noncomplying" | "unlimited"
	why           string
	firstBadChunk int

	// outcome
	ran      bool
	err      error
	panicked interface{}
	returned []interface{}
	mixed    bool // statement-level confinement not attributable (shared batch)
	block    int  // mixed-live: identifies the reactive computation the call ran in
	// sharedOpts: the *SelectOptions object this call shares with the other
	// calls of its reuse block (passed uncopied)
	sharedOpts *sqlgen.SelectOptions
	stack      string // goroutine stack when the call panicked
	// verdict window: the "varying" callback consultations made during the call
	verdictsFrom, verdictsTo int
}

func (c *call) describe() string {
	s := fmt.Sprintf("call %d: %s on %s [%s] handle#%d", c.id, c.op, c.table, c.ctxKind, c.handle)
	if c.rows != nil {
		var rs []string
		for _, r := range c.rows {
			rs = append(rs, fmt.Sprintf("%+v", derefShow(r)))
		}
		s += " rows=[" + strings.Join(rs, "; ") + "]"
		if c.chunk > 0 {
			s += fmt.Sprintf(" chunkSize=%d", c.chunk)
		}
	} else {
		s += " " + showFilter(c.filter) + " options=" + c.optDesc
	}
	return s + " class=" + c.class + " (" + c.why + ")"
}

func derefShow(r interface{}) string {
	v := reflect.ValueOf(r).Elem()
	t := v.Type()
	var parts []string
	for i := 0; i < t.NumField(); i++ {
		parts = append(parts, snake(t.Field(i).Name)+"="+show(v.Field(i).Interface()))
	}
	return t.Name() + "{" + strings.Join(parts, " ") + "}"
}

// classifyFilter decides compliance of a read from the filter alone.
func classifyFilter(f sqlgen.Filter, limits []pair) (class, why string) {
	if len(limits) == 0 {
		return "unlimited", "no enforced limit"
	}
	class = "identical"
	for _, p := range limits {
		v, ok := f[p.col]
		if !ok {
			return "noncomplying", fmt.Sprintf("filter lacks %s (%s limit %s)", p.col, p.src, show(p.val))
		}
		if !sameDenotation(norm(v), norm(p.val)) {
			return "noncomplying", fmt.Sprintf("filter %s=%s but %s limit is %s", p.col, show(v), p.src, show(p.val))
		}
		if !identical(v, p.val) {
			class = "equivalent"
			why = fmt.Sprintf("filter %s=%s denotes the %s limit value %s in another Go type", p.col, show(v), p.src, show(p.val))
		}
	}
	if class == "identical" {
		why = "filter carries every limit value"
	}
	return class, why
}

// classifyRow decides compliance of one row of a write. cols restricts the
// columns the statement can carry (nil = all columns of the row).
func classifyRow(row interface{}, cols map[string]bool, limits []pair) (class, why string) {
	if len(limits) == 0 {
		return "unlimited", "no enforced limit"
	}
	class = "identical"
	for _, p := range limits {
		v, ok := fieldOf(row, p.col)
		if !ok || (cols != nil && !cols[p.col]) {
			return "noncomplying", fmt.Sprintf("statement cannot carry %s (%s limit %s)", p.col, p.src, show(p.val))
		}
		if !sameDenotation(norm(v), norm(p.val)) {
			return "noncomplying", fmt.Sprintf("row %s=%s but %s limit is %s", p.col, show(v), p.src, show(p.val))
		}
		if !identical(norm(v).driverValue(), p.val) {
			class = "equivalent"
			why = fmt.Sprintf("row %s=%s denotes the %s limit value %s in another Go type", p.col, show(v), p.src, show(p.val))
		}
	}
	if class == "identical" {
		why = "row carries every limit value"
	}
	return class, why
}

var primaryCols = map[string]map[string]bool{
	"devices": {"id": true},
	"events":  {"id": true},
	"members": {"org_id": true, "user_id": true},
	"slots":   {"id": true},
	"ticks":   {"id": true},
}

func (c *call) classify(limits []pair) {
	c.firstBadChunk = -1
	switch c.op {
	case "Query", "QueryRow", "Count", "FullScanQuery", "LiveQuery", "LiveQueryRow", "LiveFullScanQuery":
		c.class, c.why = classifyFilter(c.filter, limits)
	case "DeleteRow":
		c.class, c.why = classifyRow(c.rows[0], primaryCols[c.table], limits)
	default:
		c.class, c.why = "identical", "every row carries every limit value"
		if len(limits) == 0 {
			c.class, c.why = "unlimited", "no enforced limit"
		}
		for i, r := range c.rows {
			cl, why := classifyRow(r, nil, limits)
			if cl == "noncomplying" {
				c.class, c.why = cl, fmt.Sprintf("row %d: %s", i, why)
				if c.chunk > 0 {
					c.firstBadChunk = i / c.chunk
				}
				break
			}
			if cl == "equivalent" {
				c.class, c.why = cl, why
			}
		}
	}
}

// ---- scenario ----

type scenario struct {
	run     *vlib.Run
	idx     int
	r       *rand.Rand
	eng     *fakesql.Engine
	schema  *sqlgen.Schema
	base    *sqlgen.DB
	specs   []*handleSpec
	handles []*sqlgen.DB
	obs     *dynObs
	calls   []*call
	callMu  sync.Mutex
	byID    map[int]*call
	nextID  int
	nextRow int64
	txTags  map[string]bool
	dom     *domain
	// forceTable pins the table of generated calls (write-sequence blocks)
	forceTable string
	// nGenerated handles come first in handles/specs; one extra unrestricted
	// handle (the base DB) follows, used by the options-reuse blocks
	nGenerated int
	// abandoned: a reactive computation is still running; the scenario is not judged
	abandoned bool
}

func (s *scenario) newCall(op, ctxKind, table string, handle int) *call {
	s.callMu.Lock()
	defer s.callMu.Unlock()
	s.nextID++
	c := &call{id: s.nextID, op: op, ctxKind: ctxKind, table: table, handle: handle, optDesc: "nil"}
	s.calls = append(s.calls, c)
	s.byID[c.id] = c
	return c
}

// domain is the value pool of one scenario for the shard columns. Besides the
// plain one there are pools at representational boundaries: 64-bit ids above
// 2^53 that differ only in bits a float64 cannot hold, the extremes of int64,
// zero and negative ids, strings that differ only in case, in a trailing space
// or in a single (non-ASCII) rune of a long value. Foreign values are always
// the neighbour of the limit value in the pool.
type domain struct {
	name    string
	orgs    []int64
	regions []string
}

const longRegion = "région-zürich-ñandú-北京-0123456789-abcdefghijklmnopqrstuvwxyz-"

var orgPools = [][]int64{
	{1, 2, 3},
	{1, 2, 3},
	{1<<53 + 1, 1 << 53, 1<<53 + 2},
	{9223372036854775807, 9223372036854775806, -9223372036854775808},
	{0, -1, 1},
	{-(1<<53 + 1), -(1 << 53), 4611686018427387905},
}
var regionPools = [][]string{
	{"us", "eu"},
	{"us", "eu"},
	{"us", "US", "us "},
	{longRegion + "é", longRegion + "e", longRegion + "è"},
	{"", " ", "us"},
}

func genDomain(r *rand.Rand) *domain {
	oi, ri := r.Intn(len(orgPools)), r.Intn(len(regionPools))
	return &domain{name: fmt.Sprintf("orgs#%d/regions#%d", oi, ri), orgs: orgPools[oi], regions: regionPools[ri]}
}

// otherOrg / otherRegion return the pool neighbour of v (a different value).
func (d *domain) otherOrg(v int64) int64 {
	for i, o := range d.orgs {
		if o == v {
			return d.orgs[(i+1)%len(d.orgs)]
		}
	}
	return d.orgs[0]
}

func (d *domain) otherRegion(v string) string {
	for i, o := range d.regions {
		if o == v {
			return d.regions[(i+1)%len(d.regions)]
		}
	}
	return d.regions[0]
}

func orgAs(r *rand.Rand, v int64, variant int) interface{} {
	switch variant % 6 {
	case 0:
		return v
	case 1:
		return int(v)
	case 2:
		if v == int64(int32(v)) {
			return int32(v)
		}
		return OrgID(v)
	case 3:
		return OrgID(v)
	case 4:
		return &v
	default:
		if v >= 0 && v <= 65535 {
			return uint16(v)
		}
		if v >= 0 {
			return uint64(v)
		}
		return int(v)
	}
}

func regionAs(r *rand.Rand, v string, variant int) interface{} {
	switch variant % 4 {
	case 0:
		return v
	case 1:
		return Region(v)
	case 2:
		return []byte(v)
	default:
		return &v
	}
}

// limitValue picks a limit value (comparable scalar: ints, strings, named types).
func limitValue(r *rand.Rand, dom *domain, col string) interface{} {
	if col == "org_id" {
		v := dom.orgs[r.Intn(2)]
		switch r.Intn(8) {
		case 0:
			return int(v)
		case 1:
			if v != int64(int32(v)) {
				return v
			}
			return int32(v)
		case 2:
			return OrgID(v)
		default:
			return v
		}
	}
	v := dom.regions[r.Intn(2)]
	if r.Intn(4) == 0 {
		return Region(v)
	}
	return v
}

func genLimitFilter(r *rand.Rand, dom *domain) sqlgen.Filter {
	f := sqlgen.Filter{}
	switch r.Intn(5) {
	case 0:
		f["region"] = limitValue(r, dom, "region")
	case 1:
		f["org_id"] = limitValue(r, dom, "org_id")
		f["region"] = limitValue(r, dom, "region")
	default:
		f["org_id"] = limitValue(r, dom, "org_id")
	}
	return f
}

func genHandleSpec(r *rand.Rand, dom *domain) *handleSpec {
	h := &handleSpec{dynFirst: r.Intn(2) == 0, explain: r.Intn(3) == 0, explainFirst: r.Intn(2) == 0}
	mode := r.Intn(15)
	switch {
	case mode == 12: // dynamic limit whose callback decides per statement, differently over time
		h.dynMode = "varying"
	case mode >= 13:
		h.shard = genLimitFilter(r, dom)
		h.dynMode = "varying"
	case mode < 4: // shard only
		h.shard = genLimitFilter(r, dom)
	case mode < 6: // dynamic reject only
		h.dynMode = "reject"
	case mode < 7:
		h.dynMode = "permit"
	case mode < 8:
		h.dynMode = "nil"
	case mode < 10: // both
		h.shard = genLimitFilter(r, dom)
		h.dynMode = "reject"
	case mode < 11:
		h.shard = genLimitFilter(r, dom)
		h.dynMode = "permit"
	default:
		h.shard = genLimitFilter(r, dom)
		h.dynMode = "nil"
	}
	if h.dynMode != "" {
		h.dyn = map[string]sqlgen.Filter{}
		common := genLimitFilter(r, dom)
		perTable := r.Intn(2) == 0
		for _, t := range tableNames {
			if perTable {
				h.dyn[t] = genLimitFilter(r, dom)
			} else {
				h.dyn[t] = common
			}
		}
		if h.shard != nil && r.Intn(3) != 0 {
			// keep shard and dynamic limits compatible most of the time
			for _, t := range tableNames {
				for c, v := range h.shard {
					if _, ok := h.dyn[t][c]; ok {
						h.dyn[t][c] = v
					}
				}
			}
		}
	}
	return h
}

func (s *scenario) seed() error {
	ctx := fakesql.WithTag(context.Background(), "setup")
	var devs []*Device
	var evs []*Event
	var mems []*Member
	var slots []*Slot
	var ticks []*Tick
	id := int64(1)
	for _, o := range s.dom.orgs {
		for _, rg := range s.dom.regions {
			for k := 0; k < 2; k++ {
				var score *int64
				if k == 0 {
					v := id * 10
					score = &v
				}
				devs = append(devs, &Device{Id: id, OrgId: o, Region: rg, Name: fmt.Sprintf("d%d", id%3), Score: score})
				evs = append(evs, &Event{OrgId: OrgID(o), Region: Region(rg), Kind: []string{"a", "b"}[k]})
				var reg *string
				if k == 0 {
					x := rg
					reg = &x
				}
				mems = append(mems, &Member{OrgId: int32(o), UserId: id, Role: []string{"admin", "user"}[k], Region: reg})
				slots = append(slots, &Slot{OrgId: o, Region: rg, Id: id, Tag: id % 3})
				ticks = append(ticks, &Tick{OrgId: o})
				id++
			}
		}
	}
	s.nextRow = 1000
	if err := s.base.InsertRows(ctx, devs, 5); err != nil {
		return err
	}
	if err := s.base.InsertRows(ctx, evs, 100); err != nil {
		return err
	}
	if err := s.base.InsertRows(ctx, mems, 100); err != nil {
		return err
	}
	if err := s.base.InsertRows(ctx, slots, 100); err != nil {
		return err
	}
	return s.base.InsertRows(ctx, ticks, 100)
}

// genFilter builds a read filter for a call with the given intent.
func (s *scenario) genFilter(table string, limits []pair, intent string) sqlgen.Filter {
	r := s.r
	f := sqlgen.Filter{}
	// unrelated columns
	if r.Intn(2) == 0 {
		switch table {
		case "devices":
			f["name"] = fmt.Sprintf("d%d", r.Intn(3))
		case "events":
			f["kind"] = []string{"a", "b"}[r.Intn(2)]
		case "members":
			f["role"] = []string{"admin", "user"}[r.Intn(2)]
		case "slots":
			f["tag"] = int64(r.Intn(3))
		}
	}
	if r.Intn(5) == 0 {
		switch table {
		case "devices", "events", "slots", "ticks":
			f["id"] = int64(1 + r.Intn(12))
		case "members":
			f["user_id"] = int64(1 + r.Intn(12))
		}
	}
	// sometimes a non-limit shard-like column as well
	if r.Intn(4) == 0 && table != "ticks" {
		f["region"] = regionAs(r, s.dom.regions[r.Intn(len(s.dom.regions))], 0)
	}
	if r.Intn(6) == 0 {
		f["org_id"] = s.dom.orgs[r.Intn(len(s.dom.orgs))]
	}
	if len(limits) == 0 {
		return f
	}
	for _, p := range limits {
		f[p.col] = p.val
	}
	bad := limits[r.Intn(len(limits))]
	other := func() interface{} {
		d := norm(bad.val)
		if d.kind == 'i' {
			return orgAs(r, s.dom.otherOrg(d.i), r.Intn(6))
		}
		return regionAs(r, s.dom.otherRegion(d.s), r.Intn(4))
	}
	switch intent {
	case "identical":
	case "equivalent":
		d := norm(bad.val)
		if d.kind == 'i' {
			f[bad.col] = orgAs(r, d.i, 1+r.Intn(5))
		} else {
			f[bad.col] = regionAs(r, d.s, 1+r.Intn(3))
		}
	case "wrong":
		f[bad.col] = other()
	case "missing":
		delete(f, bad.col)
	case "nil":
		if r.Intn(2) == 0 {
			f[bad.col] = nil
		} else if norm(bad.val).kind == 'i' {
			f[bad.col] = (*int64)(nil)
		} else {
			f[bad.col] = (*string)(nil)
		}
	case "stringly":
		d := norm(bad.val)
		if d.kind == 'i' {
			f[bad.col] = fmt.Sprint(d.i) // "1" for 1: SQL-equal, another value by denotation
		} else {
			f[bad.col] = other()
		}
	}
	return f
}

func (s *scenario) genOptions(table string, ctxKind string) (*sqlgen.SelectOptions, string) {
	r := s.r
	pk := map[string]string{"devices": "id", "events": "id", "members": "user_id", "slots": "id", "ticks": "id"}[table]
	switch r.Intn(11) {
	case 9, 10:
		where, vals := s.genWhere(table)
		return &sqlgen.SelectOptions{Where: where, Values: vals}, "Where(" + where + ")"
	case 0:
		return &sqlgen.SelectOptions{Limit: 1 + r.Intn(3)}, "Limit"
	case 1:
		return &sqlgen.SelectOptions{OrderBy: pk + " DESC"}, "OrderBy"
	case 2:
		switch table {
		case "devices":
			return &sqlgen.SelectOptions{Where: "name = ? OR score IS NULL", Values: []interface{}{"d1"}}, "Where(name = ? OR score IS NULL)"
		case "events":
			return &sqlgen.SelectOptions{Where: "kind IN (?, ?)", Values: []interface{}{"a", "zz"}}, "Where(kind IN (?, ?))"
		case "slots":
			return &sqlgen.SelectOptions{Where: "tag = ? OR tag = ?", Values: []interface{}{int64(0), int64(2)}}, "Where(tag = ? OR tag = ?)"
		case "ticks":
			return &sqlgen.SelectOptions{Where: "id = ? OR id = ?", Values: []interface{}{int64(1), int64(2)}}, "Where(id = ? OR id = ?)"
		default:
			return &sqlgen.SelectOptions{Where: "role = ? OR region IS NOT NULL", Values: []interface{}{"admin"}}, "Where(role = ? OR region IS NOT NULL)"
		}
	case 3:
		// user WHERE that names a shard column with some value: it must not
		// substitute for the filter, nor weaken it
		if table == "ticks" { // no region column
			return &sqlgen.SelectOptions{Where: "org_id = ? OR id = ?", Values: []interface{}{s.dom.orgs[r.Intn(len(s.dom.orgs))], int64(1 + r.Intn(12))}}, "Where(org_id = ? OR id = ?)"
		}
		return &sqlgen.SelectOptions{Where: "org_id = ? OR region = ?", Values: []interface{}{s.dom.orgs[r.Intn(len(s.dom.orgs))], s.dom.regions[r.Intn(len(s.dom.regions))]}}, "Where(org_id = ? OR region = ?)"
	case 4:
		return &sqlgen.SelectOptions{ForUpdate: true, OrderBy: pk}, "ForUpdate"
	case 5:
		return &sqlgen.SelectOptions{}, "empty"
	}
	return nil, "nil"
}

// genWhere composes a custom WHERE clause from 2-3 atoms over the table's
// columns (shard columns with arbitrary values included), each fragment
// parenthesised or not, joined by OR / AND at the top level, the whole wrapped
// once more now and then: "(name = ?) OR (region = ?)", "name = ? OR (score IS
// NULL)", "(kind = ? AND org_id = ?) OR (region = ?)", "((role = ?) OR (org_id =
// ?))" ... The statement oracle parses what sqlgen emits with SQL precedence
// (AND binds tighter than OR), so a custom clause that escapes the AND with
// the filter shows up as a disjunct without the limit columns.
func (s *scenario) genWhere(table string) (string, []interface{}) {
	r := s.r
	type atom struct {
		text string
		vals func() []interface{}
	}
	none := func() []interface{} { return nil }
	org := atom{"org_id = ?", func() []interface{} { return []interface{}{s.dom.orgs[r.Intn(len(s.dom.orgs))]} }}
	reg := atom{"region = ?", func() []interface{} { return []interface{}{s.dom.regions[r.Intn(len(s.dom.regions))]} }}
	var atoms []atom
	switch table {
	case "devices":
		atoms = []atom{{"name = ?", func() []interface{} { return []interface{}{fmt.Sprintf("d%d", r.Intn(3))} }}, {"score IS NULL", none},
			{"id = ?", func() []interface{} { return []interface{}{int64(1 + r.Intn(12))} }}, org, reg}
	case "events":
		atoms = []atom{{"kind = ?", func() []interface{} { return []interface{}{[]string{"a", "b"}[r.Intn(2)]} }},
			{"kind IN (?, ?)", func() []interface{} { return []interface{}{"a", "zz"} }}, {"id = ?", func() []interface{} { return []interface{}{int64(1 + r.Intn(12))} }}, org, reg}
	case "slots":
		atoms = []atom{{"tag = ?", func() []interface{} { return []interface{}{int64(r.Intn(3))} }}, {"id = ?", func() []interface{} { return []interface{}{int64(1 + r.Intn(12))} }}, org, reg}
	case "ticks":
		atoms = []atom{{"id = ?", func() []interface{} { return []interface{}{int64(1 + r.Intn(12))} }}, {"id IN (?, ?)", func() []interface{} { return []interface{}{int64(1), int64(5)} }}, org}
	default:
		atoms = []atom{{"role = ?", func() []interface{} { return []interface{}{[]string{"admin", "user"}[r.Intn(2)]} }}, {"region IS NOT NULL", none},
			{"user_id = ?", func() []interface{} { return []interface{}{int64(1 + r.Intn(12))} }}, org, reg}
	}
	var vals []interface{}
	fragment := func() string {
		a := atoms[r.Intn(len(atoms))]
		text := a.text
		vals = append(vals, a.vals()...)
		if r.Intn(4) == 0 { // a compound fragment
			b := atoms[r.Intn(len(atoms))]
			text += []string{" AND ", " OR "}[r.Intn(2)] + b.text
			vals = append(vals, b.vals()...)
			return "(" + text + ")"
		}
		if r.Intn(10) < 7 {
			return "(" + text + ")"
		}
		return text
	}
	n := 2 + r.Intn(2)
	clause := fragment()
	for k := 1; k < n; k++ {
		conn := " OR "
		if r.Intn(10) < 3 {
			conn = " AND "
		}
		clause += conn + fragment()
	}
	if r.Intn(10) == 0 {
		clause = "(" + clause + ")"
	}
	return clause, vals
}

// genRow builds a row for a write with the given intent.
func (s *scenario) genRow(table string, limits []pair, intent string, existing bool) interface{} {
	r := s.r
	org := s.dom.orgs[r.Intn(len(s.dom.orgs))]
	reg := s.dom.regions[r.Intn(len(s.dom.regions))]
	for _, p := range limits {
		d := norm(p.val)
		if p.col == "org_id" && d.kind == 'i' {
			org = d.i
		}
		if p.col == "region" && d.kind == 's' {
			reg = d.s
		}
	}
	nilRegion := false
	if len(limits) > 0 && intent != "identical" {
		bad := limits[r.Intn(len(limits))]
		if bad.col == "org_id" {
			org = s.dom.otherOrg(org)
		} else if intent == "nil" && table == "members" {
			nilRegion = true
		} else {
			reg = s.dom.otherRegion(reg)
		}
	}
	var id int64
	if existing {
		id = int64(1 + r.Intn(12))
		if (table == "slots" || table == "ticks") && r.Intn(2) == 0 {
			// a key that equals a limit value: a check that looks at the wrong
			// column of the statement would be satisfied by it
			for _, p := range limits {
				if d := norm(p.val); d.kind == 'i' && d.i >= 1 && d.i <= 12 {
					id = d.i
				}
			}
		}
	} else {
		s.callMu.Lock()
		s.nextRow++
		id = s.nextRow
		s.callMu.Unlock()
	}
	switch table {
	case "devices":
		var score *int64
		if r.Intn(2) == 0 {
			v := int64(r.Intn(100))
			score = &v
		}
		return &Device{Id: id, OrgId: org, Region: reg, Name: fmt.Sprintf("n%d", r.Intn(5)), Score: score}
	case "events":
		return &Event{Id: id, OrgId: OrgID(org), Region: Region(reg), Kind: []string{"a", "b", "c"}[r.Intn(3)]}
	case "slots":
		return &Slot{OrgId: org, Region: reg, Id: id, Tag: int64(r.Intn(3))}
	case "ticks":
		return &Tick{Id: id, OrgId: org}
	default:
		m := &Member{OrgId: int32(org), UserId: id, Role: []string{"admin", "user"}[r.Intn(2)]}
		if !nilRegion {
			x := reg
			m.Region = &x
		}
		return m
	}
}

func (s *scenario) pickIntent() string {
	switch x := s.r.Intn(20); {
	case x < 9:
		return "identical"
	case x < 11:
		return "equivalent"
	case x < 15:
		return "wrong"
	case x < 18:
		return "missing"
	case x < 19:
		return "nil"
	default:
		return "stringly"
	}
}

var readOps = []string{"Query", "QueryRow", "Count", "FullScanQuery", "LiveQuery", "LiveQueryRow", "LiveFullScanQuery"}
var writeOps = []string{"InsertRow", "InsertRows", "UpsertRow", "UpsertRows", "UpdateRow", "DeleteRow"}

func (s *scenario) genCall(ctxKind string, handle int, op string) *call {
	r := s.r
	table := tableNames[r.Intn(len(tableNames))]
	if s.forceTable != "" {
		table = s.forceTable
	} else if op == "DeleteRow" && r.Intn(2) == 0 {
		table = "members" // the only table whose primary key contains a shard column
	}
	if s.forceTable == "" && (op == "DeleteRow" || op == "UpdateRow") && r.Intn(4) == 0 {
		table = []string{"slots", "ticks"}[r.Intn(2)]
	}
	c := s.newCall(op, ctxKind, table, handle)
	limits := s.specs[handle].enforced(table)
	intent := s.pickIntent()
	c.intent = intent
	switch op {
	case "Query", "QueryRow", "Count", "FullScanQuery", "LiveQuery", "LiveQueryRow", "LiveFullScanQuery":
		c.filter = s.genFilter(table, limits, intent)
		if r.Intn(12) == 0 && intent == "missing" {
			c.filter = nil
		}
		if op != "Count" && ctxKind != "batch" && ctxKind != "mixed-batch" {
			c.opts, c.optDesc = s.genOptions(table, ctxKind)
		}
	case "InsertRows", "UpsertRows":
		n := 1 + r.Intn(6)
		c.chunk = 1 + r.Intn(3)
		badAt := -1
		if intent != "identical" {
			badAt = r.Intn(n)
		}
		for i := 0; i < n; i++ {
			in := "identical"
			if i == badAt || (badAt >= 0 && i > badAt && r.Intn(3) == 0) {
				in = intent
			}
			c.rows = append(c.rows, s.genRow(table, limits, in, false))
		}
	case "InsertRow":
		c.rows = []interface{}{s.genRow(table, limits, intent, false)}
	case "UpsertRow":
		c.rows = []interface{}{s.genRow(table, limits, intent, r.Intn(2) == 0)}
	case "UpdateRow", "DeleteRow":
		c.rows = []interface{}{s.genRow(table, limits, intent, true)}
	}
	c.classify(limits)
	return c
}

// typedSlice converts rows to a []*T slice value as the API expects.
func typedSlice(table string, rows []interface{}) interface{} {
	sl := reflect.MakeSlice(reflect.SliceOf(reflect.PtrTo(tableTypes[table])), 0, len(rows))
	for _, r := range rows {
		sl = reflect.Append(sl, reflect.ValueOf(r))
	}
	return sl.Interface()
}

func copyOpts(o *sqlgen.SelectOptions) *sqlgen.SelectOptions {
	if o == nil {
		return nil
	}
	c := *o
	c.Values = append([]interface{}{}, o.Values...)
	return &c
}

// exec performs the call against the real API.
func (s *scenario) exec(ctx context.Context, c *call, db *sqlgen.DB, ldb *livesql.LiveDB) {
	ctx = fakesql.WithTag(ctx, c.id)
	s.obs.mu.Lock()
	c.verdictsFrom = len(s.obs.verdicts)
	s.obs.mu.Unlock()
	defer func() {
		s.obs.mu.Lock()
		c.verdictsTo = len(s.obs.verdicts)
		s.obs.mu.Unlock()
		c.ran = true
		if p := recover(); p != nil {
			c.panicked = p
			c.stack = vlib.Trunc(string(debug.Stack()), 4000)
			c.err = fmt.Errorf("panic: %v", p)
		}
	}()
	typ := tableTypes[c.table]
	collect := func(res reflect.Value) {
		sl := res.Elem()
		for i := 0; i < sl.Len(); i++ {
			c.returned = append(c.returned, sl.Index(i).Interface())
		}
	}
	opts := copyOpts(c.opts)
	if c.sharedOpts != nil {
		// the caller keeps ONE options object across several calls (e.g. a
		// package-level "newest first" value); thunder merges each call's filter
		// into it, so it is passed as is, never copied
		opts = c.sharedOpts
	}
	switch c.op {
	case "Query", "FullScanQuery", "LiveQuery", "LiveFullScanQuery":
		res := reflect.New(reflect.SliceOf(reflect.PtrTo(typ)))
		switch c.op {
		case "Query":
			c.err = db.Query(ctx, res.Interface(), c.filter, opts)
		case "FullScanQuery":
			c.err = db.FullScanQuery(ctx, res.Interface(), c.filter, opts)
		case "LiveQuery":
			c.err = ldb.Query(ctx, res.Interface(), c.filter, opts)
		case "LiveFullScanQuery":
			c.err = ldb.FullScanQuery(ctx, res.Interface(), c.filter, opts)
		}
		if c.err == nil {
			collect(res)
		}
	case "QueryRow", "LiveQueryRow":
		res := reflect.New(reflect.PtrTo(typ))
		if c.op == "QueryRow" {
			c.err = db.QueryRow(ctx, res.Interface(), c.filter, opts)
		} else {
			c.err = ldb.QueryRow(ctx, res.Interface(), c.filter, opts)
		}
		if c.err == nil && !res.Elem().IsNil() {
			c.returned = append(c.returned, res.Elem().Interface())
		}
	case "Count":
		_, c.err = db.Count(ctx, reflect.New(typ).Interface(), c.filter)
	case "InsertRow":
		_, c.err = db.InsertRow(ctx, c.rows[0])
	case "UpsertRow":
		_, c.err = db.UpsertRow(ctx, c.rows[0])
	case "InsertRows":
		c.err = db.InsertRows(ctx, typedSlice(c.table, c.rows), c.chunk)
	case "UpsertRows":
		c.err = db.UpsertRows(ctx, typedSlice(c.table, c.rows), c.chunk)
	case "UpdateRow":
		c.err = db.UpdateRow(ctx, c.rows[0])
	case "DeleteRow":
		c.err = db.DeleteRow(ctx, c.rows[0])
	default:
		panic("unknown op " + c.op)
	}
}

func pickOp(r *rand.Rand, ctxKind string) string {
	switch ctxKind {
	case "batch", "mixed-batch":
		return []string{"Query", "QueryRow", "LiveQuery"}[r.Intn(3)]
	case "live", "mixed-live":
		return readOps[4+r.Intn(3)]
	}
	if r.Intn(2) == 0 {
		return readOps[r.Intn(len(readOps))]
	}
	return writeOps[r.Intn(len(writeOps))]
}

// runInRerunner executes calls sequentially inside one reactive computation.
func (s *scenario) runInRerunner(f func(ctx context.Context)) bool {
	done := make(chan struct{})
	var once sync.Once
	rr := reactive.NewRerunner(context.Background(), func(ctx context.Context) (interface{}, error) {
		f(ctx)
		once.Do(func() { close(done) })
		return nil, nil
	}, 0, false)
	defer rr.Stop()
	select {
	case <-done:
		return true
	case <-time.After(60 * time.Second):
		s.run.Inconclusive(fmt.Sprintf("case %d: reactive computation did not finish within 60s", s.idx))
		s.abandoned = true
		return false
	}
}

func (s *scenario) play() {
	r := s.r
	bg := context.Background()
	nBlocks := 3 + r.Intn(3)
	for b := 0; b < nBlocks && !s.abandoned; b++ {
		h := r.Intn(s.nGenerated)
		db := s.handles[h]
		ldb := livesql.NewLiveDB(db)
		switch kind := r.Intn(14); {
		case kind >= 12: // a sequence of different write kinds on one handle and table
			s.writeSequenceBlock(b, h)
		case kind >= 10: // 2-3 select calls that share ONE *SelectOptions object
			s.reuseBlock(b, h)
		case kind < 3: // plain
			for k := 0; k < 2+r.Intn(2); k++ {
				c := s.genCall("plain", h, pickOp(r, "plain"))
				s.exec(bg, c, db, ldb)
			}
		case kind < 5: // inside WithTx
			tag := fmt.Sprintf("tx-%d-%d", s.idx, b)
			s.txTags[tag] = true
			txctx, tx, err := db.WithTx(fakesql.WithTag(bg, tag))
			if err != nil {
				s.run.Broken(fmt.Sprintf("case %d: WithTx: %v", s.idx, err))
				return
			}
			for k := 0; k < 2+r.Intn(3); k++ {
				c := s.genCall("tx", h, pickOp(r, "tx"))
				s.exec(txctx, c, db, ldb)
			}
			if r.Intn(2) == 0 {
				tx.Commit()
			} else {
				tx.Rollback()
			}
		case kind < 7: // batching, several concurrent callers of the same limited handle
			bctx := batch.WithBatching(bg)
			n := 3 + r.Intn(4)
			var cs []*call
			for k := 0; k < n; k++ {
				cs = append(cs, s.genCall("batch", h, pickOp(r, "batch")))
			}
			// make the callers hit the same table often, so that they combine
			if r.Intn(3) != 0 {
				for _, c := range cs[1:] {
					if c.table != cs[0].table && r.Intn(3) != 0 {
						c.table = cs[0].table
						c.filter = s.genFilter(c.table, s.specs[h].enforced(c.table), c.intent)
						c.classify(s.specs[h].enforced(c.table))
					}
				}
			}
			var wg sync.WaitGroup
			for _, c := range cs {
				wg.Add(1)
				go func(c *call) {
					defer wg.Done()
					s.exec(bctx, c, db, ldb)
				}(c)
			}
			wg.Wait()
		case kind < 8: // live queries in a rerunner
			var cs []*call
			for k := 0; k < 2+r.Intn(3); k++ {
				cs = append(cs, s.genCall("live", h, pickOp(r, "live")))
			}
			s.runInRerunner(func(ctx context.Context) {
				for _, c := range cs {
					s.exec(ctx, c, db, ldb)
				}
			})
		case kind < 9: // mixed handles sharing one batching context
			bctx := batch.WithBatching(bg)
			n := 4 + r.Intn(3)
			var cs []*call
			table := tableNames[r.Intn(3)]
			for k := 0; k < n; k++ {
				hh := r.Intn(s.nGenerated)
				c := s.genCall("mixed-batch", hh, pickOp(r, "mixed-batch"))
				if c.table != table {
					c.table = table
					c.filter = s.genFilter(table, s.specs[hh].enforced(table), c.intent)
					c.classify(s.specs[hh].enforced(table))
				}
				c.mixed = true
				cs = append(cs, c)
			}
			var wg sync.WaitGroup
			for _, c := range cs {
				wg.Add(1)
				go func(c *call) {
					defer wg.Done()
					s.exec(bctx, c, s.handles[c.handle], livesql.NewLiveDB(s.handles[c.handle]))
				}(c)
			}
			wg.Wait()
		default: // two LiveDBs (different handles) in one reactive computation, same queries
			h2 := r.Intn(s.nGenerated)
			ldb2 := livesql.NewLiveDB(s.handles[h2])
			var first, second []*call
			for k := 0; k < 1+r.Intn(2); k++ {
				c1 := s.genCall("mixed-live", h, pickOp(r, "mixed-live"))
				c2 := s.newCall(c1.op, "mixed-live", c1.table, h2)
				c2.filter, c2.opts, c2.optDesc, c2.intent = c1.filter, copyOpts(c1.opts), c1.optDesc, "same-as-previous"
				c2.classify(s.specs[h2].enforced(c2.table))
				c1.block, c2.block = b+1, b+1
				first, second = append(first, c1), append(second, c2)
			}
			s.runInRerunner(func(ctx context.Context) {
				for i := range first {
					s.exec(ctx, first[i], db, ldb)
					s.exec(ctx, second[i], s.handles[h2], ldb2)
				}
			})
		}
	}
}

// writeSequenceBlock issues 3-5 writes of different kinds on ONE handle and ONE
// table, plain or in one transaction: first an insert / upsert that complies,
// then updates, deletes and further inserts of any intent. Whatever a handle
// remembers from one kind of statement (column layouts, verdicts) must not
// leak into the check of the next kind.
func (s *scenario) writeSequenceBlock(b, h int) {
	r := s.r
	bg := context.Background()
	db := s.handles[h]
	ldb := livesql.NewLiveDB(db)
	s.forceTable = tableNames[r.Intn(len(tableNames))]
	if r.Intn(2) == 0 {
		s.forceTable = []string{"slots", "ticks"}[r.Intn(2)]
	}
	defer func() { s.forceTable = "" }()
	ctx, ctxKind := bg, "seq-plain"
	var tx interface{ Rollback() error }
	if r.Intn(3) == 0 {
		tag := fmt.Sprintf("tx-%d-%d", s.idx, b)
		s.txTags[tag] = true
		txctx, t, err := db.WithTx(fakesql.WithTag(bg, tag))
		if err != nil {
			s.run.Broken(fmt.Sprintf("case %d: WithTx: %v", s.idx, err))
			return
		}
		ctx, ctxKind, tx = txctx, "seq-tx", t
	}
	first := s.genCall(ctxKind, h, []string{"InsertRow", "InsertRows", "UpsertRow", "UpsertRows"}[r.Intn(4)])
	if first.class == "noncomplying" && r.Intn(3) != 0 {
		// most sequences start with a write that goes through
		limits := s.specs[h].enforced(first.table)
		for k := range first.rows {
			first.rows[k] = s.genRow(first.table, limits, "identical", false)
		}
		first.intent = "identical"
		first.classify(limits)
	}
	s.exec(ctx, first, db, ldb)
	for k := 0; k < 2+r.Intn(3); k++ {
		op := []string{"UpdateRow", "DeleteRow", "UpdateRow", "DeleteRow", "InsertRow", "UpsertRow"}[r.Intn(6)]
		c := s.genCall(ctxKind, h, op)
		s.exec(ctx, c, db, ldb)
	}
	if tx != nil {
		tx.Rollback()
	}
}

// reuseBlock issues 2-3 select calls (db and LiveDB; plain, in a transaction
// or inside one reactive computation; possibly across the unrestricted base
// handle and a limited one, limited handle second) that all pass the SAME
// *sqlgen.SelectOptions pointer. sqlgen merges each call's filter into that
// object (MakeSelectQuery mutates the caller's options), so on the unchanged
// tree later statements carry the earlier filters AND-ed in front of the
// current one: still confined, possibly fewer rows. Only compliance errors,
// statement confinement and confinement of returned rows are judged.
func (s *scenario) reuseBlock(b, h int) {
	r := s.r
	bg := context.Background()
	table := tableNames[r.Intn(len(tableNames))]
	shared, desc := s.genOptions(table, "plain")
	if shared == nil {
		shared, desc = &sqlgen.SelectOptions{}, "empty"
	}
	if shared.ForUpdate {
		shared.ForUpdate = false // no lock waits across handles
	}
	base := len(s.handles) - 1
	n := 2 + r.Intn(2)
	ctxKind := []string{"reuse-plain", "reuse-tx", "reuse-live"}[r.Intn(3)]
	var cs []*call
	for k := 0; k < n; k++ {
		hh := h
		if k == 0 && r.Intn(2) == 0 {
			hh = base // first use through the unrestricted handle
		} else if k > 0 && r.Intn(5) == 0 {
			hh = r.Intn(s.nGenerated)
		}
		var op string
		if ctxKind == "reuse-live" {
			op = readOps[4+r.Intn(3)]
		} else {
			op = []string{"Query", "QueryRow", "FullScanQuery", "LiveQuery", "LiveQueryRow", "LiveFullScanQuery"}[r.Intn(6)]
		}
		c := s.newCall(op, ctxKind, table, hh)
		limits := s.specs[hh].enforced(table)
		c.intent = s.pickIntent()
		if k > 0 && r.Intn(2) == 0 {
			c.intent = "identical" // a complying later call is what reaches the database
		}
		if ctxKind == "reuse-live" && c.intent == "nil" {
			// accumulated options can carry more than 8 arguments; with a nil among
			// them internal.MakeHashable (LiveDB's cache key) panics - a defect of
			// its own (see FINDINGS.md), kept out of this workload
			c.intent = "missing"
		}
		c.filter = s.genFilter(table, limits, c.intent)
		if k == 0 && r.Intn(4) == 0 && len(limits) == 0 {
			c.filter = nil // options first used with an empty filter
		}
		c.sharedOpts, c.optDesc = shared, "shared:"+desc
		c.classify(limits)
		cs = append(cs, c)
	}
	run := func(ctx context.Context) {
		for _, c := range cs {
			s.exec(ctx, c, s.handles[c.handle], livesql.NewLiveDB(s.handles[c.handle]))
		}
	}
	switch ctxKind {
	case "reuse-plain":
		run(bg)
	case "reuse-tx":
		tag := fmt.Sprintf("tx-%d-%d", s.idx, b)
		s.txTags[tag] = true
		txctx, tx, err := s.base.WithTx(fakesql.WithTag(bg, tag))
		if err != nil {
			s.run.Broken(fmt.Sprintf("case %d: WithTx: %v", s.idx, err))
			return
		}
		run(txctx) // all handles share the base connection, hence the transaction
		tx.Rollback()
	default:
		ldbs := map[int]*livesql.LiveDB{}
		for _, c := range cs {
			if ldbs[c.handle] == nil {
				ldbs[c.handle] = livesql.NewLiveDB(s.handles[c.handle])
			}
		}
		s.runInRerunner(func(ctx context.Context) {
			for _, c := range cs {
				s.exec(ctx, c, s.handles[c.handle], ldbs[c.handle])
			}
		})
	}
}

// ---- oracle ----

// cacheBypass recognises the known defect "livedb-cache-skips-limit-check":
// a LiveDB query inside a reactive computation that reached no statement at
// all, after the same query (table, filter values, options) had succeeded
// earlier in the same computation through the LiveDB of another handle - it
// was answered from the rerunner's cache, whose key is only the SQL text and
// arguments.
func (s *scenario) cacheBypass(c *call, stmts []*fakesql.Stmt) bool {
	if c.ctxKind != "mixed-live" || len(stmts) != 0 {
		return false
	}
	for _, e := range s.calls {
		if e.id < c.id && e.block == c.block && e.ctxKind == "mixed-live" && e.handle != c.handle && e.ran && e.err == nil &&
			e.table == c.table && sameFilter(e.filter, c.filter) && sameOpts(e.opts, c.opts) {
			return true
		}
	}
	return false
}

// sameOpts: do the options lead to the same SQL text and arguments?
func sameOpts(a, b *sqlgen.SelectOptions) bool {
	if a == nil {
		a = &sqlgen.SelectOptions{}
	}
	if b == nil {
		b = &sqlgen.SelectOptions{}
	}
	return a.Where == b.Where && a.OrderBy == b.OrderBy && a.Limit == b.Limit && a.ForUpdate == b.ForUpdate &&
		fmt.Sprint(a.Values) == fmt.Sprint(b.Values) && fmt.Sprint(a.UseIndex, a.ForceIndex) == fmt.Sprint(b.UseIndex, b.ForceIndex)
}

func sameFilter(a, b sqlgen.Filter) bool {
	if len(a) != len(b) {
		return false
	}
	for k, va := range a {
		vb, ok := b[k]
		if !ok {
			return false
		}
		da, db := norm(va), norm(vb)
		if da != db {
			return false
		}
	}
	return true
}

func sqlEqual(kind fakesql.Kind, limit interface{}, arg driver.Value) bool {
	d := norm(limit)
	if d.null || d.kind == '?' {
		return false
	}
	stored, err := fakesql.Coerce(kind, d.driverValue())
	if err != nil {
		return false
	}
	c, ok := fakesql.Compare(kind, stored, arg)
	return ok && c == 0
}

func colKind(def fakesql.TableDef, col string) (fakesql.Kind, bool) {
	for _, c := range def.Columns {
		if c.Name == col {
			return c.Kind, true
		}
	}
	return 0, false
}

// confined checks one statement against the enforced limits; it returns a
// description of what is missing, or "".
func confined(st *fakesql.Stmt, def fakesql.TableDef, limits []pair) (string, int) {
	conjuncts := 0
	whereHas := func(p pair, kind fakesql.Kind) string {
		d, err := st.Where.DNF(4096)
		if err != nil {
			return "WHERE too large to normalise: " + err.Error()
		}
		conjuncts += len(d)
		for i, conj := range d {
			found := false
			for _, a := range conj {
				if a.Op == fakesql.OpEq && a.Col == p.col && sqlEqual(kind, p.val, a.Val) {
					found = true
					break
				}
			}
			if !found {
				return fmt.Sprintf("disjunct %d of WHERE %s does not constrain %s = %s (%s limit)", i, st.Where.String(), p.col, show(p.val), p.src)
			}
		}
		return ""
	}
	for _, p := range limits {
		kind, ok := colKind(def, p.col)
		if !ok {
			return fmt.Sprintf("table %s has no column %s", st.Table, p.col), conjuncts
		}
		switch st.Kind {
		case fakesql.SSelect, fakesql.SCount, fakesql.SDelete, fakesql.SExplain:
			if m := whereHas(p, kind); m != "" {
				return m, conjuncts
			}
		case fakesql.SInsert, fakesql.SUpsert:
			for i := range st.Rows {
				v, ok := st.RowMap(i)[p.col]
				if !ok || !sqlEqual(kind, p.val, v) {
					return fmt.Sprintf("row %d of %s does not carry %s = %s (%s limit): has %s", i, st.Kind, p.col, show(p.val), p.src, fakesql.FormatValue(v)), conjuncts
				}
			}
			for _, d := range st.OnDup {
				if d.Col == p.col && d.Src != p.col {
					return fmt.Sprintf("ON DUPLICATE KEY UPDATE rewrites %s from %s", d.Col, d.Src), conjuncts
				}
			}
		case fakesql.SUpdate:
			if v, ok := st.SetMap()[p.col]; ok {
				if !sqlEqual(kind, p.val, v) {
					return fmt.Sprintf("UPDATE sets %s = %s, limit is %s", p.col, fakesql.FormatValue(v), show(p.val)), conjuncts
				}
			} else if m := whereHas(p, kind); m != "" {
				return m, conjuncts
			}
		}
	}
	return "", conjuncts
}

func (s *scenario) witness(c *call, what string, stmts []*fakesql.Stmt) map[string]interface{} {
	w := map[string]interface{}{"what": what, "case": s.idx}
	var hs []string
	for i, sp := range s.specs {
		hs = append(hs, fmt.Sprintf("handle#%d: %s", i, sp.describe()))
	}
	w["handles"] = hs
	if c != nil {
		w["call"] = c.describe()
		w["enforced_limits"] = fmt.Sprint(pairsString(s.specs[c.handle].enforced(c.table)))
		if c.stack != "" {
			w["panic_stack"] = c.stack
		}
		if c.err != nil {
			w["returned_error"] = c.err.Error()
		} else {
			w["returned_error"] = nil
		}
		var rows []string
		for _, r := range c.returned {
			rows = append(rows, derefShow(r))
		}
		w["returned_rows"] = rows
	}
	var ss []string
	for _, st := range stmts {
		ss = append(ss, st.Summary())
	}
	w["statements_of_call"] = ss
	return w
}

func pairsString(ps []pair) string {
	var parts []string
	for _, p := range ps {
		parts = append(parts, fmt.Sprintf("%s=%s(%s)", p.col, show(p.val), p.src))
	}
	return "[" + strings.Join(parts, " ") + "]"
}

// violation records a violation and counts it by kind for the evidence.
func (s *scenario) violation(class, kind string, w map[string]interface{}) {
	if class == "" {
		s.run.Count("violations_unclassified:"+kind, 1)
	}
	s.run.Violation(s.idx, class, w)
}

func (s *scenario) check(sinceSeq int64) {
	run := s.run
	if b := s.eng.Broken(); len(b) > 0 {
		run.Broken(fmt.Sprintf("case %d: fake SQL engine: %s", s.idx, strings.Join(b, " | ")))
		return
	}
	log := s.eng.LogSince(sinceSeq)
	byCall := map[int][]*fakesql.Stmt{}
	for _, st := range log {
		switch tag := st.Tag.(type) {
		case int:
			byCall[tag] = append(byCall[tag], st)
		case string:
			if !s.txTags[tag] || (st.Kind != fakesql.SBegin && st.Kind != fakesql.SCommit && st.Kind != fakesql.SRollback) {
				run.Broken(fmt.Sprintf("case %d: statement with unexpected tag %q: %s", s.idx, tag, st.Summary()))
			}
		default:
			if st.Kind != fakesql.SMarker {
				run.Broken(fmt.Sprintf("case %d: untagged statement: %s", s.idx, st.Summary()))
			}
		}
	}
	for _, c := range s.calls {
		if !c.ran {
			continue
		}
		limits := s.specs[c.handle].enforced(c.table)
		stmts := byCall[c.id]
		outcome := "ok"
		if c.err != nil {
			outcome = "error"
		}
		run.Count(fmt.Sprintf("calls:%s:%s:%s:%s", c.op, c.ctxKind, c.class, outcome), 1)
		run.Count("class:"+c.class+":"+outcome, 1)
		shape := fmt.Sprintf("%s|%s|%s|%s|%s|%s|opt=%s|%s|stmts=%d", c.op, c.ctxKind, c.table, limitShape(s.specs[c.handle], c.table), c.class, c.intent, c.optDesc, outcome, len(stmts))
		run.Case(shape, len(limits) > 0)
		if c.panicked != nil {
			s.violation("", "panic", s.witness(c, fmt.Sprintf("call panicked: %v", c.panicked), stmts))
			continue
		}
		if c.class == "noncomplying" {
			if c.err == nil {
				cls := ""
				if s.cacheBypass(c, stmts) {
					cls = "livedb-cache-skips-limit-check"
				}
				s.violation(cls, "noncomplying-nil-error", s.witness(c, "non-complying call returned a nil error", stmts))
			}
			var reached []*fakesql.Stmt
			committed := false
			for _, st := range stmts {
				if st.Kind == fakesql.SCommit {
					committed = true
				}
				if st.Kind != fakesql.SBegin && st.Kind != fakesql.SRollback {
					reached = append(reached, st)
				}
			}
			if len(reached) > 0 {
				cls := ""
				if (c.op == "InsertRows" || c.op == "UpsertRows") && c.firstBadChunk > 0 && !committed && c.err != nil && len(reached) <= c.firstBadChunk {
					allConfined := true
					for _, st := range reached {
						if m, _ := confined(st, s.def(st.Table), limits); m != "" {
							allConfined = false
						}
					}
					if allConfined {
						cls = "chunked-write-before-check"
					}
				}
				s.violation(cls, "noncomplying-reached-db", s.witness(c, "non-complying call reached the database (statements other than BEGIN/ROLLBACK were logged)", stmts))
			}
		}
		if len(limits) > 0 && !c.mixed {
			for _, st := range stmts {
				switch st.Kind {
				case fakesql.SBegin, fakesql.SCommit, fakesql.SRollback:
					continue
				case fakesql.SInvalid:
					run.Broken(fmt.Sprintf("case %d: invalid statement %s", s.idx, st.Summary()))
					continue
				}
				m, nconj := confined(st, s.def(st.Table), limits)
				run.Count("statements_checked:"+st.Kind.String(), 1)
				run.Count("disjuncts_checked", nconj)
				if m != "" {
					s.violation("", "unconfined-statement:"+st.Kind.String(), s.witness(c, "statement on a limited handle is not confined to the shard: "+m, stmts))
				}
			}
		}
		// a dynamic limit whose callback decides case by case: what it rejected
		// never reaches the driver, and nothing that violates the limit runs
		// without its consent (calls of concurrent blocks are not attributable)
		if sp := s.specs[c.handle]; sp.dynMode == "varying" && c.class != "noncomplying" && c.ctxKind != "batch" && c.ctxKind != "mixed-batch" {
			var dynLimits []pair
			for _, col := range sortedCols(sp.dyn[c.table]) {
				dynLimits = append(dynLimits, pair{col, sp.dyn[c.table][col], "dynamic"})
			}
			cc := *c
			cc.classify(dynLimits)
			if cc.class == "noncomplying" {
				s.obs.mu.Lock()
				verdicts := append([]bool{}, s.obs.verdicts[c.verdictsFrom:c.verdictsTo]...)
				s.obs.mu.Unlock()
				rejected := false
				for _, v := range verdicts {
					if !v {
						rejected = true
					}
				}
				reached := 0
				for _, st := range stmts {
					if st.Kind != fakesql.SBegin && st.Kind != fakesql.SRollback && st.Kind != fakesql.SCommit {
						reached++
					}
				}
				run.Count(fmt.Sprintf("varying_dynamic_limit:consulted=%v:rejected=%v:reached=%v", len(verdicts) > 0, rejected, reached > 0), 1)
				switch {
				case rejected && (c.err == nil || reached > 0):
					w := s.witness(c, "the dynamic-limit callback rejected this call ("+cc.why+"), yet it returned no error or reached the database", stmts)
					w["callback_verdicts"] = verdicts
					s.violation("", "dynamic-reject-ignored", w)
				case reached > 0 && len(verdicts) == 0:
					w := s.witness(c, "a call violating the dynamic limit ("+cc.why+") reached the database without the callback being consulted", stmts)
					s.violation("", "dynamic-callback-not-consulted", w)
				}
			}
		}
		// returned rows must lie inside the shard
		for _, row := range c.returned {
			for _, p := range limits {
				v, _ := fieldOf(row, p.col)
				if !sameDenotation(norm(v), norm(p.val)) {
					cls := ""
					if s.cacheBypass(c, stmts) {
						cls = "livedb-cache-skips-limit-check"
					}
					s.violation(cls, "row-outside-shard", s.witness(c, fmt.Sprintf("limited handle returned a row outside its shard: %s", derefShow(row)), stmts))
					break
				}
			}
		}
		if c.ctxKind == "batch" || c.ctxKind == "mixed-batch" {
			run.Count("batched_calls", 1)
			for _, st := range stmts {
				if st.Kind == fakesql.SSelect {
					run.Count("batched_selects", 1)
				}
			}
		}
	}
	s.obs.mu.Lock()
	run.Count("dynamic:GetLimitFilter_calls", s.obs.getCalls)
	run.Count("dynamic:ShouldContinueOnError_calls", s.obs.errCalls)
	for _, w := range s.obs.wrongTable {
		s.violation("", "dynamic-wrong-table", map[string]interface{}{"what": "dynamic limit consulted for the wrong table: " + w, "case": s.idx})
	}
	s.obs.mu.Unlock()
	if n := s.eng.OpenTransactions(); n != 0 {
		run.Count("open_transactions_left", n)
	}
}

func (s *scenario) def(table string) fakesql.TableDef {
	d, _ := s.eng.Def(table)
	return d
}

func limitShape(h *handleSpec, table string) string {
	var parts []string
	for _, p := range h.enforced(table) {
		parts = append(parts, fmt.Sprintf("%s:%s:%T", p.src, p.col, p.val))
	}
	ex := ""
	if h.explain {
		ex = "explain,"
	}
	return ex + "dyn=" + h.dynMode + "[" + strings.Join(parts, ",") + "]"
}

func runScenario(run *vlib.Run, i int) {
	fmt.Println("CASE", i)
	r := run.Rand("scenario", i)
	eng := fakesql.New("", "verifdb")
	defer eng.Dispose()
	if r.Intn(2) == 0 {
		eng.SetProtocol(fakesql.Binary, r.Intn(2) == 0)
	}
	if r.Intn(2) == 0 {
		eng.SetRowOrder(fakesql.ShuffledOrder, int64(i))
	}
	schema := newSchema()
	if err := eng.CreateSchemaTables(schema); err != nil {
		run.Broken(fmt.Sprintf("case %d: create tables: %v", i, err))
		return
	}
	conn := eng.Open()
	defer conn.Close()
	s := &scenario{run: run, idx: i, r: r, eng: eng, schema: schema, base: sqlgen.NewDB(conn, schema), obs: &dynObs{}, byID: map[int]*call{}, txTags: map[string]bool{}, dom: genDomain(r)}
	if err := s.seed(); err != nil {
		run.Broken(fmt.Sprintf("case %d: seeding: %v", i, err))
		return
	}
	callTable := func(ctx context.Context) string {
		// the tag is attached by exec; recover the call's table from it
		id, ok := fakesql.TagOf(ctx).(int)
		if !ok {
			return ""
		}
		s.callMu.Lock()
		defer s.callMu.Unlock()
		if c := s.byID[id]; c != nil {
			return c.table
		}
		return ""
	}
	nHandles := 1 + r.Intn(2)
	for k := 0; k < nHandles; k++ {
		spec := genHandleSpec(r, s.dom)
		if k == 1 && r.Intn(3) == 0 {
			spec = &handleSpec{} // an unlimited handle next to a limited one
		}
		h, err := spec.build(s.base, s.obs, callTable)
		if err != nil {
			run.Broken(fmt.Sprintf("case %d: building handle: %v", i, err))
			return
		}
		s.specs = append(s.specs, spec)
		s.handles = append(s.handles, h)
	}
	s.nGenerated = len(s.handles)
	s.specs = append(s.specs, &handleSpec{})
	s.handles = append(s.handles, s.base)
	since := eng.Mark("scenario")
	s.play()
	if s.abandoned {
		return
	}
	s.check(since)
	if run.WantSample() {
		var cs []string
		for _, c := range s.calls {
			e := "nil"
			if c.err != nil {
				e = vlib.Trunc(c.err.Error(), 120)
			}
			cs = append(cs, c.describe()+" -> err="+e)
		}
		var hs []string
		for k, sp := range s.specs {
			hs = append(hs, fmt.Sprintf("handle#%d: %s", k, sp.describe()))
		}
		run.Sample(map[string]interface{}{"case": i, "handles": hs, "calls": cs})
	}
}

// pinned runs the fixed reproducers of the recorded findings; each is an
// ordinary regression case once the defect is repaired.
func pinned(run *vlib.Run) {
	newEnv := func() (*fakesql.Engine, *sqlgen.DB, *sqlgen.DB, func()) {
		eng := fakesql.New("", "verifdb")
		schema := newSchema()
		if err := eng.CreateSchemaTables(schema); err != nil {
			run.Broken("pinned: " + err.Error())
		}
		conn := eng.Open()
		base := sqlgen.NewDB(conn, schema)
		limited, err := base.WithShardLimit(sqlgen.Filter{"org_id": int64(1)})
		if err != nil {
			run.Broken("pinned: " + err.Error())
		}
		return eng, base, limited, func() { conn.Close(); eng.Dispose() }
	}
	bg := context.Background()
	// 1. livedb-cache-skips-limit-check
	{
		eng, base, limited, done := newEnv()
		base.InsertRows(fakesql.WithTag(bg, "setup"), []*Device{{Id: 1, OrgId: 1, Region: "us"}, {Id: 2, OrgId: 2, Region: "us"}}, 10)
		ldbU, ldbL := livesql.NewLiveDB(base), livesql.NewLiveDB(limited)
		var viaU, viaL []*Device
		var errU, errL error
		fin := make(chan struct{})
		var once sync.Once
		rr := reactive.NewRerunner(bg, func(ctx context.Context) (interface{}, error) {
			errU = ldbU.Query(fakesql.WithTag(ctx, "unlimited"), &viaU, sqlgen.Filter{"org_id": int64(2)}, nil)
			errL = ldbL.Query(fakesql.WithTag(ctx, "limited"), &viaL, sqlgen.Filter{"org_id": int64(2)}, nil)
			once.Do(func() { close(fin) })
			return nil, nil
		}, 0, false)
		select {
		case <-fin:
			run.Case("pinned|livedb-cache", true)
			if errU != nil {
				run.Broken("pinned livedb-cache: unlimited query failed: " + errU.Error())
			} else if errL == nil {
				var rows []string
				for _, d := range viaL {
					rows = append(rows, derefShow(d))
				}
				run.Violation(-1, "livedb-cache-skips-limit-check", map[string]interface{}{
					"what":     "pinned reproducer: LiveDB of a handle limited to org_id=int64(1) answered Filter{org_id: int64(2)} with a nil error from the rerunner cache filled through an unlimited LiveDB",
					"returned": rows, "statements": summaries(eng.Log()),
				})
			}
		case <-time.After(60 * time.Second):
			run.Inconclusive("pinned livedb-cache: computation did not finish")
		}
		rr.Stop()
		done()
	}
	// 2. chunked-write-before-check
	{
		eng, _, limited, done := newEnv()
		mark := eng.Mark("pinned-chunked")
		err := limited.InsertRows(fakesql.WithTag(bg, "call"), []*Device{{Id: 1, OrgId: 1}, {Id: 2, OrgId: 1}, {Id: 3, OrgId: 2}}, 2)
		run.Case("pinned|chunked-write", true)
		var reached []*fakesql.Stmt
		for _, st := range eng.LogSince(mark) {
			if st.Kind != fakesql.SBegin && st.Kind != fakesql.SRollback {
				reached = append(reached, st)
			}
		}
		if err == nil {
			run.Violation(-1, "", map[string]interface{}{"what": "pinned reproducer: InsertRows with a row of org 2 on a handle limited to org 1 returned nil", "statements": summaries(reached)})
		} else if len(reached) > 0 {
			run.Violation(-1, "chunked-write-before-check", map[string]interface{}{
				"what":       "pinned reproducer: InsertRows([org1, org1, org2], chunkSize 2) on a handle limited to org_id=int64(1) returned an error only after sending the first chunk to the database",
				"error":      err.Error(),
				"statements": summaries(eng.LogSince(mark)),
			})
		}
		done()
	}
}

func summaries(stmts []*fakesql.Stmt) []string {
	var out []string
	for _, st := range stmts {
		out = append(out, st.Summary())
	}
	return out
}

func TestCheck(t *testing.T) {
	run := vlib.Start(t, "C12", "exploration")
	defer run.Finish()
	run.Rule("scenario = fresh fake-SQL engine with 3 tables (plain int64/string, named OrgID/Region, int32 + *string shard columns; composite key incl. shard column) seeded over 3 orgs x 2 regions; " +
		"1-2 handles built with WithShardLimit / WithDynamicLimit (reject, permit, nil filter; per-table limits; either order; limit values int64/int/int32/OrgID/string/Region on org_id, region or both); " +
		"3-5 blocks of calls: plain, inside WithTx, batch.WithBatching with 3-6 concurrent callers of one handle, LiveDB inside a reactive rerunner, mixed handles in one batching context, two LiveDBs in one rerunner. " +
		"Ops: Query QueryRow Count FullScanQuery InsertRow(s) UpsertRow(s) UpdateRow DeleteRow LiveDB.Query/QueryRow/FullScanQuery with SelectOptions (Where with OR, Limit, OrderBy, ForUpdate). " +
		"Each call is classified independently (filter / row field vs limit by denoted value): identical, equivalent (other Go type), noncomplying (wrong value, missing, nil, string for int). " +
		"Evaluation = one call; non-trivial = the handle enforces at least one limit on the call's table; distinct = (op, context, table, limit shape, class, intent, options kind, outcome, #statements).")
	run.Assume("fakesql parses exactly the statements sqlgen emits and reports the bound arguments faithfully (anything else is VERIF-BROKEN)")
	run.Assume("fakesql compares strings bytewise (binary collation, no PAD SPACE) and serialises writers with one engine-wide lock (READ COMMITTED for plain SELECTs)")
	run.Assume("limit values are comparable scalars (ints, strings, named types), as the property states")
	run.Assume("a filter value denotes a column value by Go kind after pointer dereference (ints by numeric value, strings/[]byte by bytes); a string such as \"1\" does not denote the integer 1")
	run.Assume("complying calls are allowed to fail (thunder compares Go values with ==, so another Go type of the same value is rejected); only statements and non-complying calls are judged")
	reactive.WriteThenReadDelay = 0
	pinned(run)
	n := run.N(1500, 1200000)
	run.Each(n, 8, func(i int) {
		runScenario(run, i)
	})
	if run.Counter("class:identical:ok") == 0 && run.Violations() == 0 {
		if _, only := run.Only(); !only {
			run.Broken("no complying call succeeded on a limited handle: the check observed only rejections")
		}
	}
}
