#!/bin/bash
# tryseed.sh <seeded-dir> [tier]  — confirm a seeded change (demo fails with it, passes without; existing tests of the
# touched packages still pass) and run the property's check against it, all in a scratch worktree (never /repo).
# seeded-dir holds patch.diff, meta.json {property, demo_pkg_dir, demo_file, demo_run_cmd?}, and the demo file.
set -u
export GOFLAGS=-mod=mod GOPROXY=off GOSUMDB=off GOTOOLCHAIN=local
D="$(cd "$1" && pwd)"; TIER="${2:-quick}"
ID=$(python3 -c "import json;print(json.load(open('$D/meta.json'))['property'])")
PKG=$(python3 -c "import json;print(json.load(open('$D/meta.json')).get('demo_pkg_dir',''))")
DEMO=$(python3 -c "import json;print(json.load(open('$D/meta.json')).get('demo_file',''))")
RUN=$(python3 -c "import json;print(json.load(open('$D/meta.json')).get('demo_run',''))")
WT=/tmp/seedwt_$$
git -C /repo worktree add -q --detach "$WT" HEAD || exit 2
trap 'git -C /repo worktree remove --force "$WT" >/dev/null 2>&1; git -C /repo worktree prune' EXIT
cd "$WT"
res_clean="n/a"; res_mut="n/a"
if [ -n "$DEMO" ] && [ -n "$PKG" ]; then
  cp "$D/$DEMO" "$WT/$PKG/zz_seed_demo_test.go"
  (cd "$WT/$PKG" && go test -tags verif -count=1 -run "${RUN:-.}" . >/tmp/seed_clean_$$.log 2>&1) && res_clean=pass || res_clean=FAIL
fi
if ! git apply "$D/patch.diff"; then echo "SEED $ID $(basename $D): patch does not apply"; exit 2; fi
go build ./... >/tmp/seed_build_$$.log 2>&1 || { echo "SEED $ID $(basename $D): does not compile"; exit 2; }
if [ -n "$DEMO" ] && [ -n "$PKG" ]; then
  (cd "$WT/$PKG" && go test -tags verif -count=1 -run "${RUN:-.}" . >/tmp/seed_mut_$$.log 2>&1) && res_mut=pass || res_mut=FAIL
  rm -f "$WT/$PKG/zz_seed_demo_test.go"
fi
# existing tests of touched packages
pkgs=$(git diff --name-only | xargs -n1 dirname | sort -u | sed 's#^#./#')
tests=pass
for p in $pkgs; do
  case "$p" in ./sqlgen|./livesql) continue;; esac
  go test -count=1 "$p" >/tmp/seed_tests_$$.log 2>&1 || tests="FAIL($p)"
done
out=$(cd /verif && VERIF_REPO="$WT" ./check "$ID" "$TIER" 2>&1)
rc=$?
echo "SEED $ID $(basename $D): demo clean=$res_clean mutated=$res_mut existing_tests=$tests check_rc=$rc violations=$(echo "$out" | grep -c '^VIOLATION') $(echo "$out" | tail -1)"
rm -f /tmp/seed_*_$$.log
