#!/bin/bash
# Builds every registered check (plain or -race as configured) into the Go build cache, offline.
set -e
export GOFLAGS=-mod=mod GOPROXY=off GOSUMDB=off GOTOOLCHAIN=local
cd /verif/harness
[ -f go.sum ] || cp /repo/go.sum go.sum
mkdir -p /verif/.work/setup
grep -v '^#' checks.conf | awk 'NF>=3{print $2, $3}' | sort -u | while read -r pkg race; do
  rflag=""; [ "$race" = "1" ] && rflag="-race"
  go test -c -tags verif $rflag -o /verif/.work/setup/$pkg.test ./$pkg/
done
rm -rf /verif/.work/setup
echo "setup ok"
