#!/bin/bash
# seedall.sh [tier] [dirs...]: run tryseed on every seeded change (or the given ones); record the line in <dir>/lead_run.txt
TIER="${1:-quick}"; shift
cd /verif
dirs=("$@"); [ ${#dirs[@]} -eq 0 ] && dirs=(seeded/*/)
for d in "${dirs[@]}"; do
  [ -f "$d/patch.diff" ] || continue
  line=$(harness/tools/tryseed.sh "$d" "$TIER" 2>&1 | tail -1)
  echo "$(date -u +%FT%TZ) tier=$TIER repo=$(git -C /repo rev-parse --short HEAD) $line" >> "$d/lead_run.txt"
  echo "$line"
done
