#!/usr/bin/env python3
"""Regenerates /verif/MANIFEST.json from the table below + harness/checks.conf.
A property is claimed iff it has a line in checks.conf AND is not listed in DISABLED."""
import json, subprocess
ENV = "export GOFLAGS=-mod=mod GOPROXY=off GOSUMDB=off GOTOOLCHAIN=local"
DISABLED = {}  # id -> reason (kept in not_applicable)
T = {
 "C01": ("exploration", "Differential runtime monitor: generated schemas-by-configuration x generated valid queries run through the real executor under many schedulers/modes (-race), compared with an independent sequential reference evaluator and across configurations; also inside a rerunner over live data, where after fine-grained invalidations of values the resolvers read the re-runs must converge on the reference over the changed data.",
         "Trusts the harness reference evaluator and query generator; only queries inside thunder's documented feature set; race detector sees only executed interleavings; convergence of the live-data leg is judged by an observed-quiescence classifier, not proven.", "reference-model monitor + race detector over scheduler/mode sweeps; convergence oracle at observed quiescence for the live-data leg", "3/C01"),
 "C02": ("exploration", "History monitor over a scripted websocket: every envelope is logged in socket order, a model client folds deltas (merge.ts port and merge.Merge); at observed quiescence the folded state must equal a fresh Execute on the final data; ordering rules (first update full, no update after unsubscribe processed) checked offline on the log.",
         "Quiescence is observed (activity counters), not proven; intermediate states are not compared; trusts merge.ts port.", "offline event-log checker + convergence oracle at quiescence, yield-hook schedule perturbation, race detector", "3/C02"),
 "C03": ("exploration", "Reference-model monitor: millions of generated (old,new) JSON pairs; Diff's delta, after JSON serialisation, is applied by thunder's Go merge and by a port of client/src/merge.ts and compared with StripKey(new); self-diff emptiness and argument immutability asserted on every pair.",
         "Trusts the merge.ts port (cross-checked against the real merge.ts under node in the thorough tier when node is present) and the value/mutation generator's reach.", "round-trip oracle over generated inputs", "3/C03"),
 "C04": ("fault_enumeration", "Enumerated injection matrix (every reactive hook point x action x visit) plus seeded random schedules on the real Rerunner/Resource graph; oracles: runs never overlap, nothing runs after Stop returns, and at observed quiescence the last successful run of every live rerunner read the current version of everything it read (bounded re-runs).",
         "Liveness restated as bounded progress + observed quiescence; hook placement trusted (hit counts in evidence).", "invariant monitor on compute entry/exit + version oracle at quiescence under injected invalidations (yield hooks), race detector", "3/C04"),
 "C05": ("exploration", "Offline checker over a log of every Invoke call/return and every Many call: unique args, exactly-once dispatch, MaxSize, single shard per call, own-result, every caller returns (stuck-vs-slow classifier).",
         "Timing-dependent arrival patterns are sampled, not enumerated.", "offline exactly-once/own-result log checker under timer-aligned bursts, yield hooks, race detector", "3/C05"),
 "C06": ("exploration", "Differential monitor: generated partitions of one field pool over 2-4 services vs a monolith with all fields; gateway result must equal monolith result; every sub-query recorded at each ExecutorClient must validate against that service's own schema; background schema refresh under -race.",
         "Trusts generator validity; only schemas built with schemabuilder.", "differential oracle (gateway vs monolith) + sub-query validation + race detector during refresh", "3/C06"),
 "C07": ("exploration", "Convergence monitor on LiveDB over an in-memory SQL engine that emits binlog row events through the verif Binlog constructor: at observed quiescence every live query holds exactly the rows the engine returns; undecodable events must still invalidate; tester vs WHERE equivalence on random rows.",
         "Trusts the fake SQL engine (binary collation) and binlog value forms it emits.", "convergence oracle at quiescence vs independent SQL evaluation, fault injection of undecodable events, race detector", "3/C07"),
 "C08": ("fault_enumeration", "Shares C04's harness with trees of cached sub-computations: versions embedded in final output must all be current at quiescence; every resource's Cleanup runs exactly once after stop and never while a live computation depends on it; enumerated injections at cache/release hook points.",
         "Liveness restated as bounded progress; hook placement trusted.", "invariant monitor (cleanup exactly-once, not-early) + version oracle under injected invalidation/purge/stop", "3/C08"),
 "C09": ("exploration", "Metamorphic + reference monitor on generated introspection schema sets: order/naming independence, closure, per-service version intersection, nullability lattice, and end-to-end: sub-queries routed by the gateway for queries generated from the merged schema must validate against every version of the receiving service.",
         "Trusts the schema-set generator and the strict per-version validator.", "metamorphic + reference-model monitor over generated schema sets", "3/C09"),
 "C10": ("exploration", "Differential monitor: same table and filters, rows returned under batch.WithBatching with concurrent callers vs one-at-a-time unbatched, on a fake database/sql driver that logs statements.",
         "Trusts the fake SQL engine.", "differential oracle batched vs unbatched + statement log", "3/C10"),
 "C11": ("exploration", "Reference-model monitor: independent filter/sort/Relay-slicing model vs connection JSON over generated lists, page sizes, cursors and implementations; forward/backward walks must partition the filtered list.",
         "Trusts the Relay model; single-case sort strings.", "reference-model monitor + walk invariants", "3/C11"),
 "C12": ("exploration", "Statement-log monitor: every statement the fake driver receives from a limited handle is parsed and must confine each limit column in every disjunct; non-complying calls must error and leave no statement.",
         "Trusts the fake driver's SQL parser for the sqlgen dialect.", "invariant monitor over driver statement log", "3/C12"),
 "C13": ("exploration", "Round-trip monitor over a zoo of table structs and generated values through every source representation (driver values, text protocol, binlog forms), plus tester-self-match and filter proto round trip.",
         "Value generators bounded to representable ranges.", "round-trip oracle over generated values and representations", "3/C13"),
 "C14": ("exploration", "Schemas generated at run time (reflect.StructOf/MakeFunc + predeclared pool); queries generated from the advertised introspection graph; damaged queries must be rejected, accepted queries must execute and the response must conform to the advertised types.",
         "Trusts the introspection-driven validator.", "conformance monitor driven by introspection", "3/C14"),
 "C15": ("exploration", "Four monitors in child processes: no-panic on grammar/mutation-generated inputs through Parse/Prepare/Execute/HTTP/websocket/gateway; thread-CPU-time growth ladders for fragment bombs; panic containment on a live connection; enumerated cancellation points with a goroutine-leak monitor.",
         "CPU-growth verdict uses 3 orders of magnitude of margin; leak monitor looks for goroutines with thunder frames.", "crash/hang monitors, CPU-clock growth ladder, goroutine-leak monitor under enumerated cancellation", "3/C15"),
 "C16": ("exploration", "Failure-plan monitor: seeded sets of failing resolvers (plain/safe/wrapped/panic in plain/expensive/batch fields); Execute must return error and no data, error must be a planned one with the response path prefix unless sanitised; websocket envelopes must carry only safe texts.",
         "Path match is separator-agnostic.", "oracle on (value,error) and socket envelopes under generated failure plans, race detector", "3/C16"),
 "C17": ("exploration", "Merged-log monitor over scripted websocket histories with a recording SubscriptionLogger, tagged resolvers and Cleanup counters: exactly one Unsubscribe per Subscribe, silence after end, resources released, subscription limit and duplicate-id rule.",
         "Quiescence observed, not proven.", "offline event-log checker (exactly-once end, silence after end), yield hooks, race detector", "3/C17"),
 "C18": ("exploration", "Transport-equivalence monitor: generated argument struct shapes and values sent as literal / variable / default / null+default; the resolver-captured Go value must equal the sent value in all transports; wrong-kind and missing-required rejected before any resolver runs.",
         "Pinned graphql-go parser has no null literal: null cases go by variable only.", "equivalence oracle across transports over generated shapes", "3/C18"),
 "C19": ("exploration", "Metamorphic monitor: annotated query vs textually pruned query must give equal results on the monolith and through the federation gateway, over generated placements/truth values.",
         "Trusts the pruner.", "metamorphic oracle (annotated vs pruned)", "3/C19"),
 "C20": ("exploration", "History monitor: conservative holding intervals recorded per goroutine around Acquire/release/TemporarilyRelease, sweep-line max overlap <= n, conservation at quiescence, porcupine cross-check of short histories in the thorough tier.",
         "Intervals are conservative (under-count only).", "interval-overlap checker over recorded histories + conservation probe, yield hooks; porcupine cross-check", "3/C20"),
}
conf = {}
for line in open('/verif/harness/checks.conf'):
    if line.startswith('#') or not line.strip(): continue
    f = line.split(); conf.setdefault(f[0], []).append(f)
hook_commits = subprocess.run(["git", "-C", "/repo", "log", "--format=%H %s", "--reverse"], capture_output=True, text=True).stdout.splitlines()
hook_commits = [l.split()[0] for l in hook_commits if " verif hooks:" in " " + l]
props = [json.loads(l) for l in open('/verif/properties.jsonl')]
checks, na = [], []
for p in props:
    i = p['id']
    if i in conf and i not in DISABLED:
        lvl, text, note, tech, ref = T[i]
        checks.append({"property_id": i, "quick_cmd": "./check %s quick" % i, "thorough_cmd": "./check %s thorough" % i,
                       "evidence_file": "/verif/evidence/%s.json" % i, "replay_cmd_template": "./check %s --replay {path}" % i,
                       "engine": "verifharness", "level_claimed": {"category": lvl, "text": text, "design_ref": "DESIGN.md §" + ref},
                       "level_note": note, "technique": tech})
    else:
        na.append({"property_id": i, "reason": DISABLED.get(i, "runtime monitor designed (DESIGN.md §3) but its check is not built/registered yet; nothing is claimed for it")})
m = {
 "version": 1,
 "setup_cmd": "/verif/harness/tools/setup.sh",
 "hooks": {"guard": "verif", "enable": "go test -tags verif in the harness module (replace github.com/samsarahq/thunder => /repo)",
           "baseline_off_cmd": "cd /repo && GOFLAGS=-mod=mod GOPROXY=off GOSUMDB=off GOTOOLCHAIN=local go test -json -vet=off -count=1 -timeout 25m ./...",
           "source_commits": hook_commits, "add_only": True},
 "engines": [{"name": "verifharness", "path": "/verif/harness", "serves_properties": [c["property_id"] for c in checks],
              "kind_free_text": "Go test binaries run as child processes by /verif/check: seeded workloads against the real thunder code (tag verif, usually -race); oracles = reference models, offline log checkers, invariant hooks, race detector"}],
 "checks": checks,
 "notes": "See DESIGN.md. ./check exit codes: 0 held on what was observed, 1 VIOLATION (line printed), 2 machinery broken or inconclusive. known_findings.json lists genuine defects (fixed / known).",
 "not_applicable": na,
}
json.dump(m, open('/verif/MANIFEST.json', 'w'), indent=1)
print("claimed:", [c["property_id"] for c in checks])
