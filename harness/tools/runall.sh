#!/bin/bash
# runs every registered check once: runall.sh [quick|thorough] [seed]
TIER="${1:-quick}"; export VERIF_SEED="${2:-1}"
cd "$(dirname "${BASH_SOURCE[0]}")/../.."
for id in $(grep -v '^#' harness/checks.conf | awk 'NF>=3{print $1}' | sort -u); do
  out=$(./check "$id" "$TIER" 2>&1)
  rc=$?
  echo "$id rc=$rc $(echo "$out" | grep -c '^VIOLATION') violations, $(echo "$out" | grep -c '^KNOWN-FINDING') known, $(echo "$out" | grep -c 'VERIF-BROKEN') broken; $(echo "$out" | tail -1)"
done
