#!/usr/bin/env python3
"""Validate MANIFEST.json and evidence files against the schemas (run with python3-vt)."""
import json, sys, glob
import jsonschema
m = json.load(open('/verif/MANIFEST.json'))
jsonschema.validate(m, json.load(open('/root/.vp/MANIFEST.schema.json')))
print("MANIFEST ok: %d checks, %d not_applicable" % (len(m['checks']), len(m.get('not_applicable', []))))
props = [json.loads(l)['id'] for l in open('/verif/properties.jsonl')]
claimed = [c['property_id'] for c in m['checks']]
na = [x['property_id'] for x in m.get('not_applicable', [])]
for p in props:
    if (p in claimed) == (p in na): print("  !! property", p, "claimed/not_applicable mismatch")
es = json.load(open('/root/.vp/EVIDENCE.schema.json'))
bad = 0
for f in sorted(glob.glob('/verif/evidence/*.json')):
    try:
        jsonschema.validate(json.load(open(f)), es)
    except Exception as e:
        bad += 1; print("  !! evidence invalid", f, str(e)[:300])
print("evidence files ok" if not bad else "evidence problems: %d" % bad)
sys.exit(1 if bad else 0)
