#!/usr/bin/env python3
"""importseed.py <ID>: copy /tmp/adv_<ID>_out/{patch,demo,meta}{1,2} into /verif/seeded/<ID>-{1,2}/"""
import json, os, re, shutil, sys, glob
pid = sys.argv[1]
rnd = sys.argv[2] if len(sys.argv) > 2 else ''
src = '/tmp/adv%s_%s_out' % (rnd, pid)
existing = [int(d.rsplit('-', 1)[1]) for d in glob.glob('/verif/seeded/%s-*' % pid)]
off = max(existing) if (rnd and existing) else 0
for i in (1, 2, 3):
    pf = '%s/patch%d.diff' % (src, i)
    if not os.path.exists(pf): continue
    dst = '/verif/seeded/%s-%d' % (pid, i + off)
    os.makedirs(dst, exist_ok=True)
    shutil.copy(pf, dst + '/patch.diff')
    meta = {}
    try: meta = json.load(open('%s/meta%d.json' % (src, i)))
    except Exception as e: print("meta unreadable", e)
    demo = None
    for cand in glob.glob('%s/demo%d*' % (src, i)):
        if os.path.isdir(cand): continue
        demo = cand
    out = {"property": pid, "summary": meta.get("summary", ""), "needs": meta.get("needs", ""),
           "demo_pkg_dir": (meta.get("demo_pkg_dir") or "").replace('/tmp/adv%s_%s/' % (rnd, pid), '').strip('./') or "",
           "author_existing_tests_run": meta.get("existing_tests_run", ""), "author_demo_run_cmd": meta.get("demo_run_cmd", "")}
    if demo:
        shutil.copy(demo, dst + '/demo_test.go')
        out["demo_file"] = "demo_test.go"
        txt = open(demo).read()
        names = re.findall(r'^func (Test\w+)\(', txt, re.M)
        out["demo_run"] = '^(' + '|'.join(names) + ')$' if names else '.'
    json.dump(out, open(dst + '/meta.json', 'w'), indent=1)
    print(dst, out["demo_pkg_dir"], out.get("demo_run"))
