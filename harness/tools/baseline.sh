#!/bin/bash
# Runs the repository's own test suite with the verif guard OFF and compares the set of
# passing tests with /root/.vp/BASELINE.json stable_pass. Exit 0 iff every stable test passes.
export GOFLAGS=-mod=mod GOPROXY=off GOSUMDB=off GOTOOLCHAIN=local
OUT="${1:-/verif/.work/baseline.json}"
mkdir -p "$(dirname "$OUT")"
cd /repo && go test -json -vet=off -count=1 -timeout 25m ./... > "$OUT" 2>/dev/null
python3 - "$OUT" <<'PY'
import json,sys
passed=set()
for line in open(sys.argv[1],errors='replace'):
    try: e=json.loads(line)
    except Exception: continue
    if e.get('Action')=='pass' and e.get('Test'):
        passed.add(e['Package']+'::'+e['Test'])
base=json.load(open('/root/.vp/BASELINE.json'))
want=set(base['stable_pass'])
missing=sorted(want-passed)
print("baseline: %d stable tests, %d passed now, %d missing"%(len(want),len(want&passed),len(missing)))
for m in missing[:30]: print("  MISSING",m)
sys.exit(1 if missing else 0)
PY
