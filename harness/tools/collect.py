#!/usr/bin/env python3
"""Merge evidence parts, scan child logs and race logs, print verdict lines.

usage: collect.py <prop> <workdir> <evidence_out> <replay_dir> <known_findings> <tier> <seed> <mode>
mode = check | replay
Exit: 0 held, 1 violation, 2 machinery broken.
"""
import glob, json, os, re, sys, time

prop, work, ev_out, replay_dir, known_path, tier, seed, mode = sys.argv[1:9]
seed = int(seed)
viol_lines, known_lines, broken, inconcl = [], [], [], 0

known = []
try:
    known = json.load(open(known_path)).get("findings", [])
except Exception:
    pass
def is_known(key):
    return any(k.get("property") == prop and k.get("key") == key and k.get("status") == "known" for k in known)
def known_what(key):
    for k in known:
        if k.get("property") == prop and k.get("key") == key:
            return k.get("what", "")
    return ""

def write_replay(tag, doc):
    os.makedirs(replay_dir, exist_ok=True)
    path = os.path.join(replay_dir, "%s-%d-%s-%s.json" % (prop, seed, tier, tag))
    doc = dict(doc); doc.update({"property": prop, "seed": seed, "tier": tier, "case": -1})
    json.dump(doc, open(path, "w"), indent=1)
    return path

FRAME_FILE = re.compile(r'^\s+(/\S+\.go):(\d+)')
ALT_REPO = os.environ.get("VERIF_REPO", "").rstrip("/")
def classify_file(f):
    if f.startswith("/repo/"): return "thunder"
    if ALT_REPO and f.startswith(ALT_REPO + "/"): return "thunder"
    if "/verif/" in f or "/verifharness/" in f or "/.vp/runs/" in f: return "harness"
    return "other"

# ---- child logs
statuses = {}
for st in glob.glob(os.path.join(work, "*.status")):
    name = os.path.basename(st)[:-7]
    try: statuses[name] = int(open(st).read().strip() or "0")
    except Exception: statuses[name] = 99
for name, code in sorted(statuses.items()):
    log = os.path.join(work, name + ".log")
    txt = open(log, errors="replace").read() if os.path.exists(log) else ""
    has_v = False
    for line in txt.splitlines():
        if line.startswith("VIOLATION property="):
            viol_lines.append(line.strip()); has_v = True
        elif line.startswith("KNOWN-FINDING:"):
            if line.strip() not in known_lines: known_lines.append(line.strip())
        elif line.startswith("VERIF-BROKEN"):
            broken.append(line.strip())
        elif line.startswith("INCONCLUSIVE"):
            inconcl += 1
    if code != 0 and not has_v:
        # crash / timeout / plain test failure
        m = re.search(r'^(panic: .*|fatal error: .*)$', txt, re.M)
        if code in (124, 137) or "SIGQUIT" in txt[:20000] and not m:
            broken.append("VERIF-BROKEN property=%s child %s timed out (inconclusive; see %s)" % (prop, name, log))
            continue
        if m:
            tail = txt[m.start():m.start() + 12000]
            first = None
            fn_prev = None
            for ln in tail.splitlines()[1:]:
                fm = FRAME_FILE.match(ln)
                if fm:
                    c = classify_file(fm.group(1))
                    if "/usr/local/go/" in fm.group(1) or "/go/src/" in fm.group(1) or "/opt/" in fm.group(1):
                        continue
                    if c in ("thunder", "harness"):
                        first = c; break
                if ln.startswith("goroutine ") and first is None and fn_prev is not None and "[running]" not in ln:
                    break
                fn_prev = ln
            last_case = None
            for ln in txt[:m.start()].splitlines():
                if ln.startswith("CASE "): last_case = ln
            # a deliberate panic raised by a harness resolver (marked) that killed the
            # process: thunder called that user code and did not contain the panic
            if "VERIF-INJECTED-PANIC" in m.group(1):
                parts = tail.split("\n\ngoroutine ")
                gor = parts[1] if len(parts) > 1 else tail
                if any(classify_file(fm.group(1)) == "thunder" for fm in (FRAME_FILE.match(l) for l in gor.splitlines()) if fm):
                    first = "thunder"
            if first == "thunder" or (first is None and "/repo/" in tail):
                key = "crash"
                path = write_replay("crash-" + name, {"class": "crash", "crash": m.group(1), "last_case": last_case, "log_tail": tail})
                viol_lines.append("VIOLATION property=%s replay=%s" % (prop, path))
            else:
                broken.append("VERIF-BROKEN property=%s child %s crashed in harness code: %s (see %s)" % (prop, name, m.group(1), log))
        elif "race detected during execution of test" in txt and "\nSUMMARY property=" in txt:
            pass  # the race reports are collected from the race logs below
        else:
            if not any(b for b in broken if name in b) and "VERIF-BROKEN" not in txt:
                broken.append("VERIF-BROKEN property=%s child %s exited %d without a verdict (see %s)" % (prop, name, code, log))

# ---- race logs
race_total = race_thunder = race_harness = 0
race_keys = {}
for rl in sorted(glob.glob(os.path.join(work, "race.*"))):
    txt = open(rl, errors="replace").read()
    for block in txt.split("WARNING: DATA RACE")[1:]:
        block = block.split("==================")[0]
        race_total += 1
        # sections: access 1, access 2 (stop at 'Goroutine N (...) created at:')
        secs = re.split(r'\n(?=(?:Previous )?(?:[Rr]ead|[Ww]rite|atomic [Rr]ead|atomic [Ww]rite) (?:at|of) )', "\n" + block)
        tops = []
        for sec in secs:
            if not re.match(r'\s*(?:Previous )?(?:[Rr]ead|[Ww]rite|atomic)', sec): continue
            sec = re.split(r'\nGoroutine \d+ \(', sec)[0]
            lines = sec.splitlines()
            top = None
            for i, ln in enumerate(lines):
                fm = FRAME_FILE.match(ln)
                if fm:
                    c = classify_file(fm.group(1))
                    if c == "other": continue
                    fn = lines[i-1].strip().split("(")[0] if i > 0 else "?"
                    top = (c, fn); break
            tops.append(top or ("other", "?"))
        kinds = [t[0] for t in tops]
        key = "race:" + "|".join(sorted(t[1] for t in tops))
        if "thunder" in kinds:
            race_thunder += 1
            if key not in race_keys:
                race_keys[key] = block[:6000]
        elif "harness" in kinds:
            race_harness += 1
            broken.append("VERIF-BROKEN property=%s data race inside harness code %s (see %s)" % (prop, key, rl))
        else:
            race_thunder += 1
            race_keys.setdefault(key, block[:6000])
n = 0
for key, block in race_keys.items():
    if is_known(key):
        line = "KNOWN-FINDING: property=%s %s: %s" % (prop, key, known_what(key))
        if line not in known_lines: known_lines.append(line)
        continue
    n += 1
    path = write_replay("race-%d" % n, {"class": key, "race_report": block})
    viol_lines.append("VIOLATION property=%s replay=%s" % (prop, path))

# ---- merge evidence parts
if mode == "check":
    parts = []
    for p in sorted(glob.glob(os.path.join(work, "evidence.*.json"))):
        try: parts.append(json.load(open(p)))
        except Exception as e: broken.append("VERIF-BROKEN property=%s unreadable evidence part %s: %s" % (prop, p, e))
    if not parts:
        broken.append("VERIF-BROKEN property=%s no evidence part was written" % prop)
    else:
        hashes = set(); evals = 0; samples = []; counters = {}; incon = []; assumptions = []; viol = 0; wall = 0.0
        cov = {}
        rules = []
        for part in parts:
            c = part.get("coverage", {})
            hashes.update(part.get("_hashes", []))
            evals += c.get("evaluations", 0)
            for s in (c.get("samples") or []):
                if len(samples) < 10: samples.append(s)
            for k, v in (c.get("counters") or {}).items(): counters[k] = counters.get(k, 0) + v
            incon += (c.get("inconclusive") or [])
            for a in (part.get("assumptions") or []):
                if a not in assumptions: assumptions.append(a)
            viol += part.get("violations", 0)
            wall = max(wall, part.get("wall_s", 0))
            if c.get("rule") and c["rule"] not in rules: rules.append(c["rule"])
            for k, v in c.items():
                if k in ("evaluations", "distinct_nontrivial", "samples", "counters", "inconclusive", "rule", "known_findings_observed"): continue
                if k not in cov: cov[k] = v
                elif isinstance(v, (int, float)) and not isinstance(v, bool) and isinstance(cov[k], (int, float)): cov[k] = cov[k] + v
                elif isinstance(v, list) and isinstance(cov[k], list): cov[k] = (cov[k] + v)[:50]
                elif isinstance(v, dict) and isinstance(cov[k], dict):
                    for kk, vv in v.items():
                        if isinstance(vv, (int, float)) and not isinstance(vv, bool) and isinstance(cov[k].get(kk, 0), (int, float)): cov[k][kk] = cov[k].get(kk, 0) + vv
                        else: cov[k].setdefault(kk, vv)
        cov.update({"evaluations": evals, "distinct_nontrivial": len(hashes), "rule": " || ".join(rules), "samples": samples,
                    "counters": counters, "inconclusive": incon[:50], "parts": len(parts),
                    "known_findings_observed": [l for l in known_lines],
                    "race_detector": {"reports_total": race_total, "reports_in_thunder": race_thunder, "reports_in_harness": race_harness,
                                      "distinct_keys": sorted(race_keys.keys())}})
        ev = {"property_id": prop, "tier": tier, "seed": seed, "level": parts[0].get("level", "exploration"), "coverage": cov,
              "assumptions": assumptions, "wall_s": wall, "violations": len(viol_lines)}
        os.makedirs(os.path.dirname(ev_out), exist_ok=True)
        json.dump(ev, open(ev_out, "w"), indent=1)
        if not viol_lines and (evals < 1 or len(hashes) < 2):
            broken.append("VERIF-BROKEN property=%s run observed nothing non-trivial (evaluations=%d distinct=%d)" % (prop, evals, len(hashes)))
        print("EVIDENCE %s evaluations=%d distinct_nontrivial=%d races(thunder)=%d inconclusive=%d" % (ev_out, evals, len(hashes), race_thunder, inconcl))

seen = set()
for l in known_lines: print(l)
for l in viol_lines:
    if l not in seen: print(l); seen.add(l)
for l in broken[:20]: print(l)
if viol_lines: sys.exit(1)
if broken: sys.exit(2)
print("HELD property=%s tier=%s seed=%d (on what was observed; see evidence)" % (prop, tier, seed))
sys.exit(0)
