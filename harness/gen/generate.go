package gen

import (
	"fmt"
	"math/rand"
)

// GenOpts steers the query generator. Only valid GraphQL inside thunder's
// documented feature set is produced.
type GenOpts struct {
	MaxDepth  int
	MaxWidth  int
	PDupAlias float64 // repeat an earlier field of the set (same alias/args, new sub-selection)
	PInline   float64 // inline fragment on the parent type
	PNamed    float64 // spread of a named fragment on the parent type
	PVar      float64 // argument given through a variable
	PDir      float64 // directive on a node (0 = none)
	// KeepPlainLeaf makes the first item of every selection set an
	// un-annotated leaf so that pruning never leaves an empty set.
	KeepPlainLeaf bool
	// UnionSecondFragment allows two fragments on the same union member in
	// one selection set.
	UnionSecondFragment bool
	// UnionAllMembers forces a fragment for every member of a union.
	UnionAllMembers bool
	// NoUnions avoids union-typed fields.
	NoUnions bool
	// RootTypename allows __typename directly on the query root.
	RootTypename bool
	// UnionSelfFragment allows fragments on the union type itself inside a
	// union-typed selection set (`... on Thing { ... on Node { id } }`).
	UnionSelfFragment bool
	// AvoidTypes lists result types whose fields are never selected.
	AvoidTypes map[string]bool
	// PreferObjectDup makes duplicated selections favour object fields (whose
	// sub-selections then have to be merged).
	PreferObjectDup bool
	// PConflictExcluded adds, below the root, a selection that shares its
	// response key with a sibling but names another field (or other arguments)
	// and is excluded by its directive. With the node deleted the query is an
	// ordinary one. Doc.ConflictExcluded counts them.
	PConflictExcluded float64
	// PCloneDirs selects an object field a second time under a fresh alias with
	// a copy of its sub-selection whose directives are drawn afresh: the same
	// objects are reached twice, with textually equal selections that differ in
	// what their directives exclude. Doc.ClonedDirs counts them.
	PCloneDirs float64
	// KeyNameAlias makes every argument-less selection of Node.name answer
	// under the response key "id" - the name of Node's (and Leaf's) key field -
	// while the id fields themselves are always selected under another alias.
	// Not to be combined with KeepPlainLeaf.
	KeyNameAlias bool
	// RootFields, when set, restricts the query root to these fields.
	RootFields []string
	// Mutation generates a mutation operation (root type Mutation).
	Mutation bool
	// PForeign adds, inside Node and Leaf selection sets, spreads of fragments
	// typed on the other of the two object types that select only fields both
	// types have (id, color, __typename). One named fragment is then shared by
	// objects of two types. GraphQL proper would not let such a fragment apply;
	// thunder validates a fragment inside an object against that object's type
	// and applies it. Doc.Foreign counts them; see EvalForeign.
	PForeign float64
	// PUnionInObject adds, inside Node and Leaf selection sets, a fragment typed
	// on a union that has the object's type as a member (valid GraphQL: the type
	// conditions overlap), inline or named. Its body selects __typename and / or
	// a fragment typed on the object's own type again, so thunder's rule (every
	// fragment inside an object applies and is validated against that object)
	// and GraphQL's agree on the result. Doc.UnionInObject counts them.
	PUnionInObject float64
}

func DefaultGenOpts() GenOpts {
	return GenOpts{MaxDepth: 5, MaxWidth: 5, PDupAlias: 0.15, PInline: 0.1, PNamed: 0.12, PVar: 0.25}
}

type generator struct {
	r       *rand.Rand
	sd      *SchemaDesc
	o       GenOpts
	w       *World
	doc     *Doc
	aliases map[string][]string // fieldName+argsText -> aliases
	nAlias  int
	nVar    int
	nFrag   int
	done    map[string][]*FragDef // completed fragments by type
	common  []*FragDef            // fragments selecting only fields Node and Leaf share
}

// Generate produces one query document over the zoo.
func Generate(r *rand.Rand, sd *SchemaDesc, w *World, o GenOpts) *Doc {
	g := &generator{r: r, sd: sd, o: o, w: w, aliases: map[string][]string{}, done: map[string][]*FragDef{},
		doc: &Doc{VarValues: map[string]interface{}{}}}
	if r.Intn(3) == 0 {
		g.doc.OpName = "Op"
	}
	depth := 2 + r.Intn(o.MaxDepth-1)
	if o.Mutation {
		g.doc.Mutation = true
		g.doc.Root = g.set("Mutation", depth)
	} else {
		g.doc.Root = g.set("Query", depth)
	}
	if g.doc.OpName == "" && len(g.doc.Vars) > 0 {
		g.doc.OpName = "Q"
	}
	return g.doc
}

func isRoot(typ string) bool { return typ == "Query" || typ == "Mutation" }

func (g *generator) p(x float64) bool { return x > 0 && g.r.Float64() < x }

func (g *generator) dirs() []Dir {
	if !g.p(g.o.PDir) {
		return nil
	}
	n := 1
	if g.r.Intn(4) == 0 {
		n = 2
	}
	var ds []Dir
	first := g.r.Intn(2)
	for i := 0; i < n; i++ {
		// a directive may appear at most once per node: with two, use one of each
		name := []string{"skip", "include"}[(first+i)%2]
		b := g.r.Intn(2) == 0
		var v Value
		if g.r.Intn(3) == 0 {
			v = g.variable("Boolean", b)
		} else {
			v = Value{Lit: b}
		}
		ds = append(ds, Dir{Name: name, Val: v})
	}
	return ds
}

// variable declares a fresh variable whose effective value is val.
func (g *generator) variable(typ string, val interface{}) Value {
	g.nVar++
	name := fmt.Sprintf("v%d", g.nVar)
	vd := VarDef{Name: name, Type: typ}
	switch g.r.Intn(4) {
	case 0: // supplied, no default
		g.doc.VarValues[name] = val
	case 1: // supplied, default ignored
		g.doc.VarValues[name] = val
		vd.HasDef, vd.Default = true, g.otherValue(typ, val)
	case 2: // not supplied, default used
		vd.HasDef, vd.Default = true, val
	default: // explicit null supplied, default used
		g.doc.VarValues[name] = nil
		vd.HasDef, vd.Default = true, val
	}
	g.doc.Vars = append(g.doc.Vars, vd)
	return Value{Var: name}
}

func (g *generator) otherValue(typ string, val interface{}) interface{} {
	switch typ {
	case "Int":
		return float64(g.r.Intn(7) + 20)
	case "String":
		return "other"
	case "Boolean":
		b, _ := val.(bool)
		return !b
	case "[Int!]":
		return []interface{}{float64(1)}
	}
	return val
}

func (g *generator) argValue(owner, field string, a ArgDesc) interface{} {
	switch a.Type {
	case "Int":
		switch a.Name {
		case "id":
			hi := g.w.N
			if field == "leaf" {
				hi = g.w.M
			}
			return float64(g.r.Intn(hi + 2))
		case "first":
			return float64(g.r.Intn(5))
		case "mul":
			return float64(g.r.Intn(6) - 2)
		case "a":
			return float64(g.r.Intn(40))
		}
		return float64(g.r.Intn(10))
	case "String":
		return []string{"a", "b", "zz", ""}[g.r.Intn(4)]
	case "Boolean":
		return g.r.Intn(2) == 0
	case "[Int!]":
		n := g.r.Intn(6)
		out := make([]interface{}, n)
		for i := range out {
			out[i] = float64(g.r.Intn(g.w.N + 2))
		}
		return out
	}
	panic("gen: arg type " + a.Type)
}

func (g *generator) args(fd *FieldDesc) []Arg {
	var out []Arg
	for _, a := range fd.Args {
		if !a.Required && g.r.Intn(2) == 0 {
			continue
		}
		val := g.argValue(fd.Owner, fd.Name, a)
		if g.p(g.o.PVar) {
			out = append(out, Arg{Name: a.Name, Val: g.variable(a.Type, val)})
		} else {
			out = append(out, Arg{Name: a.Name, Val: Value{Lit: val}})
		}
	}
	return out
}

// alias returns a response key for (field, args) such that one key always
// denotes the same field with the same argument text in the whole document
// (so any two selection sets can be merged).
func (g *generator) alias(name string, args []Arg) string {
	at := argsText(args)
	if g.o.KeyNameAlias {
		switch {
		case name == "name" && at == "":
			return "id"
		case name == "id":
			return "id_k"
		}
	}
	if at == "" && g.r.Intn(5) != 0 {
		return ""
	}
	k := name + at
	as := g.aliases[k]
	if len(as) == 0 || (len(as) < 2 && g.r.Intn(4) == 0) {
		g.nAlias++
		a := fmt.Sprintf("%s_%d", name, g.nAlias)
		if name == "__typename" {
			a = fmt.Sprintf("tn_%d", g.nAlias)
		}
		g.aliases[k] = append(as, a)
		return a
	}
	return as[g.r.Intn(len(as))]
}

func (g *generator) leafNames(t *TypeDesc) []string {
	var out []string
	for _, n := range t.Order {
		if t.Fields[n].IsLeaf() {
			out = append(out, n)
		}
	}
	return out
}

func (g *generator) field(t *TypeDesc, depth int, forceLeaf bool) *Field {
	if g.r.Intn(14) == 0 && (!isRoot(t.Name) || g.o.RootTypename) {
		return &Field{Name: "__typename", Alias: g.alias("__typename", nil)}
	}
	var fd *FieldDesc
	for tries := 0; ; tries++ {
		fd = t.Fields[t.Order[g.r.Intn(len(t.Order))]]
		if t.Name == "Query" && len(g.o.RootFields) > 0 {
			fd = t.Fields[g.o.RootFields[g.r.Intn(len(g.o.RootFields))]]
		}
		if g.o.NoUnions && fd.Ret.Base().Kind == KUnion {
			continue
		}
		if g.o.AvoidTypes[fd.Ret.Base().Name] {
			continue
		}
		if fd.IsLeaf() || (depth > 1 && !forceLeaf) {
			break
		}
		if tries > 20 {
			ls := g.leafNames(t)
			fd = t.Fields[ls[g.r.Intn(len(ls))]]
			break
		}
	}
	f := &Field{Name: fd.Name, Args: g.args(fd)}
	f.Alias = g.alias(fd.Name, f.Args)
	if !fd.IsLeaf() {
		f.Sub = g.set(fd.Ret.Base().Name, depth-1)
	}
	return f
}

func (g *generator) plainLeaf(t *TypeDesc) *Field {
	if t.IsUnion {
		return &Field{Name: "__typename"}
	}
	for _, n := range t.Order {
		fd := t.Fields[n]
		if fd.IsLeaf() && len(fd.Args) == 0 && fd.Ret.Kind != KList {
			return &Field{Name: n}
		}
	}
	return &Field{Name: "__typename"}
}

func (g *generator) namedFrag(typ string, depth int) *Frag {
	ds := g.done[typ]
	if len(ds) > 0 && g.r.Intn(2) == 0 {
		fd := ds[g.r.Intn(len(ds))]
		return &Frag{Named: fd.Name, On: typ, Set: fd.Set, Dirs: g.dirs()}
	}
	g.nFrag++
	fd := &FragDef{Name: fmt.Sprintf("F%d", g.nFrag), On: typ}
	fd.Set = g.set(typ, depth)
	g.doc.Frags = append(g.doc.Frags, fd)
	g.done[typ] = append(g.done[typ], fd)
	return &Frag{Named: fd.Name, On: typ, Set: fd.Set, Dirs: g.dirs()}
}

// unionInObject: see GenOpts.PUnionInObject.
func (g *generator) unionInObject(typ string, depth int) *Frag {
	unions := []string{"Thing"}
	if typ == "Leaf" && !g.o.AvoidTypes["Solo"] && g.sd.Types["Solo"] != nil {
		unions = append(unions, "Solo")
	}
	u := unions[g.r.Intn(len(unions))]
	g.doc.UnionInObject++
	key := u + "@" + typ
	if ds := g.done[key]; len(ds) > 0 && g.r.Intn(3) == 0 {
		fd := ds[g.r.Intn(len(ds))]
		return &Frag{Named: fd.Name, On: u, Set: fd.Set, Dirs: g.dirs()}
	}
	body := &SelSet{}
	kind := g.r.Intn(3)
	if kind != 1 {
		body.Items = append(body.Items, SelItem{Field: &Field{Name: "__typename", Alias: g.alias("__typename", nil), Dirs: g.dirs()}})
	}
	if kind != 0 {
		if g.r.Intn(3) == 0 && depth > 1 {
			body.Items = append(body.Items, SelItem{Frag: g.namedFrag(typ, depth)})
		} else {
			body.Items = append(body.Items, SelItem{Frag: &Frag{On: typ, Set: g.set(typ, depth), Dirs: g.dirs()}})
		}
		if g.r.Intn(2) == 0 {
			body.Items[0], body.Items[len(body.Items)-1] = body.Items[len(body.Items)-1], body.Items[0]
		}
	}
	if g.r.Intn(2) == 0 {
		return &Frag{On: u, Set: body, Dirs: g.dirs()}
	}
	g.nFrag++
	fd := &FragDef{Name: fmt.Sprintf("F%d", g.nFrag), On: u, Set: body}
	g.doc.Frags = append(g.doc.Frags, fd)
	g.done[key] = append(g.done[key], fd)
	return &Frag{Named: fd.Name, On: u, Set: fd.Set, Dirs: g.dirs()}
}

// excluding returns one directive that excludes its node.
func (g *generator) excluding() []Dir {
	name, b := "skip", true
	if g.r.Intn(2) == 0 {
		name, b = "include", false
	}
	if g.r.Intn(3) == 0 {
		return []Dir{{Name: name, Val: g.variable("Boolean", b)}}
	}
	return []Dir{{Name: name, Val: Value{Lit: b}}}
}

// conflictTwin returns an excluded selection with f's response key that cannot
// be merged with f: another field of t, or f's field with other arguments.
func (g *generator) conflictTwin(t *TypeDesc, f *Field, depth int) *Field {
	for tries := 0; tries < 12; tries++ {
		fd := t.Fields[t.Order[g.r.Intn(len(t.Order))]]
		if (g.o.NoUnions && fd.Ret.Base().Kind == KUnion) || g.o.AvoidTypes[fd.Ret.Base().Name] {
			continue
		}
		if !fd.IsLeaf() && depth <= 1 {
			continue
		}
		tw := &Field{Alias: f.Key(), Name: fd.Name, Args: g.args(fd), Twin: true}
		if fd.Name == f.Name && argsText(tw.Args) == argsText(f.Args) {
			continue
		}
		if !fd.IsLeaf() {
			tw.Sub = g.set(fd.Ret.Base().Name, depth-1)
		}
		tw.Dirs = g.excluding()
		return tw
	}
	return nil
}

// cloneSet copies a selection set, drawing the directives of its nodes afresh.
func (g *generator) cloneSet(s *SelSet) *SelSet {
	if s == nil {
		return nil
	}
	out := &SelSet{}
	for i, it := range s.Items {
		plain := i == 0 && g.o.KeepPlainLeaf
		switch {
		case it.Field != nil:
			f := &Field{Alias: it.Field.Alias, Name: it.Field.Name, Args: it.Field.Args, Sub: g.cloneSet(it.Field.Sub), Twin: it.Field.Twin}
			switch {
			case plain:
			case it.Field.Twin, g.r.Intn(3) == 0:
				f.Dirs = it.Field.Dirs // unchanged (an excluded twin has to stay excluded)
			default:
				f.Dirs = g.dirs()
			}
			out.Items = append(out.Items, SelItem{Field: f})
		case it.Frag.Named != "":
			out.Items = append(out.Items, SelItem{Frag: &Frag{Named: it.Frag.Named, On: it.Frag.On, Set: it.Frag.Set, Dirs: g.dirs()}})
		default:
			out.Items = append(out.Items, SelItem{Frag: &Frag{On: it.Frag.On, Set: g.cloneSet(it.Frag.Set), Dirs: g.dirs()}})
		}
	}
	return out
}

// commonFrag returns a fragment (named or inline) that selects only fields
// Node and Leaf share; its type condition is either of the two.
func (g *generator) commonFrag(typ string) *Frag {
	on := []string{"Node", "Leaf"}[g.r.Intn(2)]
	body := func() *SelSet {
		s := &SelSet{}
		names := []string{"id", "color", "__typename"}
		g.r.Shuffle(len(names), func(i, j int) { names[i], names[j] = names[j], names[i] })
		for _, n := range names[:1+g.r.Intn(3)] {
			f := &Field{Name: n}
			f.Alias = g.alias(n, nil)
			s.Items = append(s.Items, SelItem{Field: f})
		}
		return s
	}
	var fr *Frag
	switch {
	case g.r.Intn(4) == 0:
		fr = &Frag{On: on, Set: body()}
	case len(g.common) > 0 && g.r.Intn(3) != 0:
		fd := g.common[g.r.Intn(len(g.common))]
		fr = &Frag{Named: fd.Name, On: fd.On, Set: fd.Set}
	default:
		g.nFrag++
		fd := &FragDef{Name: fmt.Sprintf("C%d", g.nFrag), On: on, Set: body()}
		g.doc.Frags = append(g.doc.Frags, fd)
		g.common = append(g.common, fd)
		fr = &Frag{Named: fd.Name, On: fd.On, Set: fd.Set}
	}
	if fr.On != typ {
		g.doc.Foreign++
	}
	return fr
}

func (g *generator) set(typ string, depth int) *SelSet {
	t := g.sd.Types[typ]
	s := &SelSet{}
	if g.o.KeepPlainLeaf {
		s.Items = append(s.Items, SelItem{Field: g.plainLeaf(t)})
	}
	if t.IsUnion {
		if g.r.Intn(5) < 2 {
			f := &Field{Name: "__typename", Dirs: g.dirs()}
			f.Alias = g.alias("__typename", nil)
			s.Items = append(s.Items, SelItem{Field: f})
		}
		for _, m := range t.Members {
			n := 0
			if g.o.UnionAllMembers || g.r.Intn(5) != 0 {
				n = 1
				if g.o.UnionSecondFragment && g.r.Intn(4) == 0 {
					n = 2
				}
			}
			for i := 0; i < n; i++ {
				if g.p(g.o.PNamed*2) && depth > 1 {
					s.Items = append(s.Items, SelItem{Frag: g.namedFrag(m, depth)})
				} else {
					s.Items = append(s.Items, SelItem{Frag: &Frag{On: m, Set: g.set(m, depth), Dirs: g.dirs()}})
				}
			}
		}
		if len(s.Items) == 0 {
			m := t.Members[g.r.Intn(len(t.Members))]
			s.Items = append(s.Items, SelItem{Frag: &Frag{On: m, Set: g.set(m, depth)}})
		}
		// a fragment whose type condition is the union itself applies to every member
		if g.o.UnionSelfFragment && depth > 1 && g.r.Intn(4) == 0 {
			if g.r.Intn(3) == 0 {
				s.Items = append(s.Items, SelItem{Frag: g.namedFrag(typ, depth-1)})
			} else {
				s.Items = append(s.Items, SelItem{Frag: &Frag{On: typ, Set: g.set(typ, depth-1), Dirs: g.dirs()}})
			}
		}
		g.r.Shuffle(len(s.Items), func(i, j int) {
			if g.o.KeepPlainLeaf && (i == 0 || j == 0) {
				return
			}
			s.Items[i], s.Items[j] = s.Items[j], s.Items[i]
		})
		return s
	}
	n := 1 + g.r.Intn(g.o.MaxWidth)
	if typ == "Mutation" {
		n = 1 // the gateway supports one mutation step per operation
	}
	var fields []*Field
	for i := 0; i < n; i++ {
		switch {
		case (typ == "Node" || typ == "Leaf") && g.p(g.o.PForeign):
			s.Items = append(s.Items, SelItem{Frag: g.commonFrag(typ)})
		case (typ == "Node" || typ == "Leaf") && depth > 1 && !g.o.NoUnions && !g.o.AvoidTypes["Thing"] && g.p(g.o.PUnionInObject):
			s.Items = append(s.Items, SelItem{Frag: g.unionInObject(typ, depth-1)})
		case typ == "Mutation":
			// mutation fields are selected directly (they are all object-valued)
			f := g.field(t, depth, false)
			f.Dirs = g.dirs()
			fields = append(fields, f)
			s.Items = append(s.Items, SelItem{Field: f})
		case depth > 1 && g.p(g.o.PInline):
			fr := &Frag{On: typ, Set: g.set(typ, depth-1), Dirs: g.dirs()}
			s.Items = append(s.Items, SelItem{Frag: fr})
			fields = append(fields, topFields(fr.Set)...)
		case depth > 1 && g.p(g.o.PNamed):
			fr := g.namedFrag(typ, depth-1)
			s.Items = append(s.Items, SelItem{Frag: fr})
			// fields selected inside the fragment may be selected again
			// directly (same alias, other sub-selection)
			fields = append(fields, topFields(fr.Set)...)
		case len(fields) > 0 && g.p(g.o.PDupAlias):
			prev := fields[g.r.Intn(len(fields))]
			if g.o.PreferObjectDup {
				for tries := 0; tries < 4 && prev.Sub == nil; tries++ {
					prev = fields[g.r.Intn(len(fields))]
				}
			}
			dup := &Field{Alias: prev.Alias, Name: prev.Name, Args: prev.Args, Dirs: g.dirs()}
			if prev.Sub != nil {
				fd := t.Fields[prev.Name]
				dup.Sub = g.set(fd.Ret.Base().Name, depth-1)
			}
			s.Items = append(s.Items, SelItem{Field: dup})
		case depth > 1 && len(fields) > 0 && !isRoot(typ) && g.p(g.o.PCloneDirs):
			// prefer a field whose sub-selection itself selects objects: the copies
			// then reach the same objects with equal text two levels down
			var prev *Field
			for tries := 0; tries < 10; tries++ {
				c := fields[g.r.Intn(len(fields))]
				if c.Sub == nil {
					continue
				}
				if prev == nil {
					prev = c
				}
				deep := false
				for _, it := range c.Sub.Items {
					if it.Field != nil && it.Field.Sub != nil {
						deep = true
					}
				}
				if deep {
					prev = c
					break
				}
			}
			if prev == nil {
				break
			}
			g.nAlias++
			cl := &Field{Alias: fmt.Sprintf("%s_c%d", prev.Name, g.nAlias), Name: prev.Name, Args: prev.Args, Sub: g.cloneSet(prev.Sub), Dirs: g.dirs()}
			s.Items = append(s.Items, SelItem{Field: cl})
			g.doc.ClonedDirs++
		default:
			f := g.field(t, depth, false)
			f.Dirs = g.dirs()
			fields = append(fields, f)
			s.Items = append(s.Items, SelItem{Field: f})
			if !isRoot(typ) && f.Name != "__typename" && g.p(g.o.PConflictExcluded) {
				if tw := g.conflictTwin(t, f, depth); tw != nil {
					if g.r.Intn(2) == 0 {
						s.Items = append(s.Items, SelItem{Field: tw})
					} else {
						s.Items = append(s.Items[:len(s.Items)-1], SelItem{Field: tw}, SelItem{Field: f})
					}
					g.doc.ConflictExcluded++
				}
			}
		}
	}
	return s
}

// topFields lists the field selections directly inside a selection set.
func topFields(s *SelSet) []*Field {
	var out []*Field
	for _, it := range s.Items {
		if it.Field != nil && it.Field.Name != "__typename" && !it.Field.Twin {
			out = append(out, it.Field)
		}
	}
	return out
}

// MergeHeavy returns options that stress selection merging: many duplicated
// object selections and re-used named fragments.
func MergeHeavy(o GenOpts) GenOpts {
	o.PDupAlias = 0.45
	o.PNamed = 0.3
	o.PInline = 0.15
	o.PreferObjectDup = true
	if o.MaxWidth < 6 {
		o.MaxWidth = 6
	}
	return o
}
