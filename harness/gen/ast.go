package gen

import (
	"encoding/json"
	"fmt"
	"sort"
	"strings"
)

// Value is an argument value: a literal (JSON-form Go value: float64, string,
// bool, []interface{}) or a variable reference.
type Value struct {
	Var string      // non-empty = $Var
	Lit interface{} // literal otherwise
}

type Arg struct {
	Name string
	Val  Value
}

// Dir is @skip(if:) / @include(if:) with a literal or variable condition.
type Dir struct {
	Name string // "skip" | "include"
	Val  Value  // bool literal or variable
}

// SelItem is either a field selection or a fragment (inline, or a spread of a
// named fragment).
type SelItem struct {
	Field *Field
	Frag  *Frag
}

type Field struct {
	Alias string // "" = none
	Name  string
	Args  []Arg
	Dirs  []Dir
	Sub   *SelSet // nil for leaves
	// Twin marks a selection that is excluded by construction and could not be
	// merged with its same-key sibling (GenOpts.PConflictExcluded); it is never
	// duplicated or re-annotated.
	Twin bool
}

func (f *Field) Key() string {
	if f.Alias != "" {
		return f.Alias
	}
	return f.Name
}

type Frag struct {
	Named string // "" = inline
	On    string
	Dirs  []Dir
	Set   *SelSet // inline: own body; named: the definition's body (shared)
}

type SelSet struct {
	Items []SelItem
}

type VarDef struct {
	Name    string
	Type    string      // GraphQL type text
	Default interface{} // nil = none
	HasDef  bool
}

type FragDef struct {
	Name string
	On   string
	Set  *SelSet
}

type Doc struct {
	OpName string
	Vars   []VarDef
	Root   *SelSet
	Frags  []*FragDef
	// VarValues are the variable values sent with the request (a variable
	// may be absent, or explicitly nil).
	VarValues map[string]interface{}
	// Foreign counts spreads, inside an object selection set, of a fragment
	// typed on another object type (GenOpts.PForeign).
	Foreign int
	// ConflictExcluded / ClonedDirs: see GenOpts.PConflictExcluded / PCloneDirs.
	ConflictExcluded int
	ClonedDirs       int
	// UnionInObject: see GenOpts.PUnionInObject.
	UnionInObject int
	// Mutation: the operation is a mutation (root type Mutation).
	Mutation bool
}

func litText(v interface{}) string {
	switch v := v.(type) {
	case nil:
		return "null"
	case string:
		b, _ := json.Marshal(v)
		return string(b)
	case float64:
		if v == float64(int64(v)) {
			return fmt.Sprintf("%d", int64(v))
		}
		return fmt.Sprintf("%g", v)
	case int64:
		return fmt.Sprintf("%d", v)
	case int:
		return fmt.Sprintf("%d", v)
	case bool:
		if v {
			return "true"
		}
		return "false"
	case []interface{}:
		parts := make([]string, len(v))
		for i, x := range v {
			parts[i] = litText(x)
		}
		return "[" + strings.Join(parts, ", ") + "]"
	case EnumLit:
		return string(v)
	}
	panic(fmt.Sprintf("gen: unsupported literal %T", v))
}

// EnumLit is an enum literal value.
type EnumLit string

func (v Value) text() string {
	if v.Var != "" {
		return "$" + v.Var
	}
	return litText(v.Lit)
}

func argsText(args []Arg) string {
	if len(args) == 0 {
		return ""
	}
	parts := make([]string, len(args))
	for i, a := range args {
		parts[i] = a.Name + ": " + a.Val.text()
	}
	return "(" + strings.Join(parts, ", ") + ")"
}

func dirsText(ds []Dir) string {
	var sb strings.Builder
	for _, d := range ds {
		sb.WriteString(" @" + d.Name + "(if: " + d.Val.text() + ")")
	}
	return sb.String()
}

func (s *SelSet) print(sb *strings.Builder, indent string) {
	sb.WriteString("{\n")
	for _, it := range s.Items {
		sb.WriteString(indent + "  ")
		switch {
		case it.Field != nil:
			f := it.Field
			if f.Alias != "" && f.Alias != f.Name {
				sb.WriteString(f.Alias + ": ")
			}
			sb.WriteString(f.Name + argsText(f.Args) + dirsText(f.Dirs))
			if f.Sub != nil {
				sb.WriteString(" ")
				f.Sub.print(sb, indent+"  ")
			}
		case it.Frag != nil && it.Frag.Named != "":
			sb.WriteString("..." + it.Frag.Named + dirsText(it.Frag.Dirs))
		default:
			sb.WriteString("... on " + it.Frag.On + dirsText(it.Frag.Dirs) + " ")
			it.Frag.Set.print(sb, indent+"  ")
		}
		sb.WriteString("\n")
	}
	sb.WriteString(indent + "}")
}

// Text renders the document as GraphQL.
// RootType is the root object type of the operation.
func (d *Doc) RootType() string {
	if d.Mutation {
		return "Mutation"
	}
	return "Query"
}

func (d *Doc) Text() string {
	var sb strings.Builder
	if d.OpName != "" || len(d.Vars) > 0 || d.Mutation {
		if d.Mutation {
			sb.WriteString("mutation")
		} else {
			sb.WriteString("query")
		}
		if d.OpName != "" {
			sb.WriteString(" " + d.OpName)
		}
		if len(d.Vars) > 0 {
			parts := make([]string, len(d.Vars))
			for i, v := range d.Vars {
				parts[i] = "$" + v.Name + ": " + v.Type
				if v.HasDef {
					parts[i] += " = " + litText(v.Default)
				}
			}
			sb.WriteString("(" + strings.Join(parts, ", ") + ")")
		}
		sb.WriteString(" ")
	}
	d.Root.print(&sb, "")
	sb.WriteString("\n")
	for _, f := range d.Frags {
		sb.WriteString("fragment " + f.Name + " on " + f.On + " ")
		f.Set.print(&sb, "")
		sb.WriteString("\n")
	}
	return sb.String()
}

// VarsJSON returns the variables as a JSON-decoded map (what the servers hand
// to graphql.Parse).
func (d *Doc) VarsJSON() map[string]interface{} {
	out := map[string]interface{}{}
	for k, v := range d.VarValues {
		out[k] = v
	}
	b, _ := json.Marshal(out)
	var m map[string]interface{}
	_ = json.Unmarshal(b, &m)
	if m == nil {
		m = map[string]interface{}{}
	}
	return m
}

// Resolve returns the effective value of a Value under the document's
// variables: supplied non-null value, else the declared default, else nil.
func (d *Doc) Resolve(v Value) interface{} {
	if v.Var == "" {
		return v.Lit
	}
	if x, ok := d.VarValues[v.Var]; ok && x != nil {
		return x
	}
	for _, vd := range d.Vars {
		if vd.Name == v.Var && vd.HasDef {
			return vd.Default
		}
	}
	return nil
}

// Included applies the directive rule: excluded iff some @skip is true or
// some @include is false.
func (d *Doc) Included(ds []Dir) bool {
	for _, x := range ds {
		b, _ := d.Resolve(x.Val).(bool)
		if x.Name == "skip" && b {
			return false
		}
		if x.Name == "include" && !b {
			return false
		}
	}
	return true
}

// Prune returns a copy of the document in which every node excluded by its
// directives is deleted and all directives are dropped. Named fragments are
// expanded into inline fragments (one use of a fragment may be pruned
// differently from another); variables that are no longer referenced are
// removed from the declaration list and from the supplied values.
func (d *Doc) Prune() *Doc {
	out := &Doc{OpName: d.OpName, Mutation: d.Mutation, VarValues: map[string]interface{}{}}
	used := map[string]bool{}
	var prune func(s *SelSet) *SelSet
	prune = func(s *SelSet) *SelSet {
		if s == nil {
			return nil
		}
		ns := &SelSet{}
		for _, it := range s.Items {
			switch {
			case it.Field != nil:
				f := it.Field
				if !d.Included(f.Dirs) {
					continue
				}
				for _, a := range f.Args {
					if a.Val.Var != "" {
						used[a.Val.Var] = true
					}
				}
				ns.Items = append(ns.Items, SelItem{Field: &Field{Alias: f.Alias, Name: f.Name, Args: f.Args, Sub: prune(f.Sub)}})
			default:
				fr := it.Frag
				if !d.Included(fr.Dirs) {
					continue
				}
				ns.Items = append(ns.Items, SelItem{Frag: &Frag{On: fr.On, Set: prune(fr.Set)}})
			}
		}
		return ns
	}
	out.Root = prune(d.Root)
	for _, v := range d.Vars {
		if used[v.Name] {
			out.Vars = append(out.Vars, v)
			if x, ok := d.VarValues[v.Name]; ok {
				out.VarValues[v.Name] = x
			}
		}
	}
	return out
}

// HasEmptySet reports whether some selection set in the document is empty
// (which is not valid GraphQL).
func (d *Doc) HasEmptySet() bool {
	var walk func(s *SelSet) bool
	walk = func(s *SelSet) bool {
		if s == nil {
			return false
		}
		if len(s.Items) == 0 {
			return true
		}
		for _, it := range s.Items {
			if it.Field != nil && walk(it.Field.Sub) {
				return true
			}
			if it.Frag != nil && it.Frag.Named == "" && walk(it.Frag.Set) {
				return true
			}
		}
		return false
	}
	if walk(d.Root) {
		return true
	}
	for _, f := range d.Frags {
		if walk(f.Set) {
			return true
		}
	}
	return false
}

// Shape abstracts the document for distinctness counting: structure with
// literal values dropped.
func (d *Doc) Shape() string {
	var sb strings.Builder
	var walk func(s *SelSet)
	walk = func(s *SelSet) {
		sb.WriteString("{")
		for _, it := range s.Items {
			if it.Field != nil {
				f := it.Field
				if f.Alias != "" {
					sb.WriteString("a:")
				}
				sb.WriteString(f.Name)
				if len(f.Args) > 0 {
					sb.WriteString("()")
				}
				for _, x := range f.Dirs {
					sb.WriteString("@" + x.Name[:1])
				}
				if f.Sub != nil {
					walk(f.Sub)
				}
				sb.WriteString(",")
			} else {
				if it.Frag.Named != "" {
					sb.WriteString("...N" + it.Frag.On)
				} else {
					sb.WriteString("...I" + it.Frag.On)
				}
				for _, x := range it.Frag.Dirs {
					sb.WriteString("@" + x.Name[:1])
				}
				walk(it.Frag.Set)
			}
		}
		sb.WriteString("}")
	}
	walk(d.Root)
	return sb.String()
}

// Features summarises the document for evidence histograms and the
// non-triviality rules.
type Features struct {
	DupAlias, InlineFrag, NamedFrag, NamedFragReuse, Union, List, Args, Vars, Dirs, Typename int
	Depth                                                                                    int
}

func (d *Doc) Features(sd *SchemaDesc) Features {
	var ft Features
	ft.Vars = len(d.Vars)
	uses := map[string]int{}
	var walk func(s *SelSet, typ string, depth int)
	walk = func(s *SelSet, typ string, depth int) {
		if depth > ft.Depth {
			ft.Depth = depth
		}
		seen := map[string]bool{}
		for _, it := range s.Items {
			if it.Field != nil {
				f := it.Field
				if seen[f.Key()] {
					ft.DupAlias++
				}
				seen[f.Key()] = true
				ft.Dirs += len(f.Dirs)
				if len(f.Args) > 0 {
					ft.Args++
				}
				if f.Name == "__typename" {
					ft.Typename++
					continue
				}
				t := sd.Types[typ]
				if t == nil || t.IsUnion {
					continue
				}
				fd := t.Fields[f.Name]
				if fd == nil {
					continue
				}
				if fd.Ret.Kind == KList {
					ft.List++
				}
				if fd.Ret.Base().Kind == KUnion {
					ft.Union++
				}
				if f.Sub != nil {
					walk(f.Sub, fd.Ret.Base().Name, depth+1)
				}
			} else {
				ft.Dirs += len(it.Frag.Dirs)
				if it.Frag.Named != "" {
					ft.NamedFrag++
					uses[it.Frag.Named]++
					if uses[it.Frag.Named] == 2 {
						ft.NamedFragReuse++
					}
				} else {
					ft.InlineFrag++
				}
				walk(it.Frag.Set, it.Frag.On, depth)
			}
		}
	}
	walk(d.Root, d.RootType(), 1)
	return ft
}

func sortedKeys(m map[string]interface{}) []string {
	ks := make([]string, 0, len(m))
	for k := range m {
		ks = append(ks, k)
	}
	sort.Strings(ks)
	return ks
}
