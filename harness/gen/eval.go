package gen

import (
	"encoding/base64"
	"fmt"
	"reflect"
)

// Eval is the naive sequential reference evaluator: CollectFields /
// ExecuteSelectionSet over the AST and the data graph. It never touches
// thunder's parser, Flatten or executor. The result is in the form
// thunder's executor produces before key stripping (objects with a key field
// carry "__key").
func Eval(sd *SchemaDesc, d *Doc, w *World) (result interface{}, err error) {
	defer func() {
		if p := recover(); p != nil {
			err = fmt.Errorf("reference evaluator: %v", p)
		}
	}()
	e := &evaluator{sd: sd, d: d, w: w, applyForeign: true}
	return e.object(d.RootType(), nil, []*SelSet{d.Root}, nil, false), nil
}

// EvalForeign is Eval with an explicit choice for a fragment that sits in an
// object's selection set but is typed on another object type (Doc.Foreign):
// apply=true is thunder's rule (such a fragment is validated against, and
// applied to, the object it sits in; Eval's default), apply=false is GraphQL's
// (it does not apply). Directly inside a union's selection set a fragment
// always applies to its own member only.
func EvalForeign(sd *SchemaDesc, d *Doc, w *World, apply bool) (result interface{}, err error) {
	defer func() {
		if p := recover(); p != nil {
			err = fmt.Errorf("reference evaluator: %v", p)
		}
	}()
	e := &evaluator{sd: sd, d: d, w: w, applyForeign: apply}
	return e.object(d.RootType(), nil, []*SelSet{d.Root}, nil, false), nil
}

// Resolution is one field resolution a sequential evaluation performs.
type Resolution struct {
	Type  string
	ID    int64
	Field string
	Path  []string // response path: aliases and list indices, outermost first
}

// EvalTrace is Eval that also reports every field resolution with its
// response path.
func EvalTrace(sd *SchemaDesc, d *Doc, w *World, on func(Resolution)) (result interface{}, err error) {
	defer func() {
		if p := recover(); p != nil {
			err = fmt.Errorf("reference evaluator: %v", p)
		}
	}()
	e := &evaluator{sd: sd, d: d, w: w, on: on, applyForeign: true}
	return e.object(d.RootType(), nil, []*SelSet{d.Root}, nil, false), nil
}

type evaluator struct {
	sd *SchemaDesc
	d  *Doc
	w  *World
	on func(Resolution)
	// applyForeign: see EvalForeign
	applyForeign bool
}

type group struct {
	key    string
	fields []*Field
}

// collect gathers the fields that apply to an object of concrete type typ.
// unionLevel: sets is the selection set of a union-typed field (its fragments
// dispatch on the member type); otherwise that of an object-typed field.
func (e *evaluator) collect(typ string, sets []*SelSet, unionLevel bool) []*group {
	var order []*group
	byKey := map[string]*group{}
	var visit func(s *SelSet, unionLevel bool)
	visit = func(s *SelSet, unionLevel bool) {
		for _, it := range s.Items {
			switch {
			case it.Field != nil:
				if !e.d.Included(it.Field.Dirs) {
					continue
				}
				k := it.Field.Key()
				g := byKey[k]
				if g == nil {
					g = &group{key: k}
					byKey[k] = g
					order = append(order, g)
				}
				g.fields = append(g.fields, it.Field)
			default:
				if !e.d.Included(it.Frag.Dirs) {
					continue
				}
				switch {
				case it.Frag.On == typ:
					visit(it.Frag.Set, false)
				case e.unionHas(it.Frag.On, typ):
					visit(it.Frag.Set, unionLevel)
				case !unionLevel && e.applyForeign:
					visit(it.Frag.Set, false)
				}
			}
		}
	}
	for _, s := range sets {
		if s != nil {
			visit(s, unionLevel)
		}
	}
	return order
}

func (e *evaluator) object(typ string, src interface{}, sets []*SelSet, path []string, unionLevel bool) interface{} {
	t := e.sd.Types[typ]
	out := map[string]interface{}{}
	for _, g := range e.collect(typ, sets, unionLevel) {
		f := g.fields[0]
		if f.Name == "__typename" {
			out[g.key] = typ
			continue
		}
		fd := t.Fields[f.Name]
		if fd == nil {
			panic(fmt.Sprintf("unknown field %s.%s", typ, f.Name))
		}
		raw := map[string]interface{}{}
		for _, a := range f.Args {
			if v := e.d.Resolve(a.Val); v != nil {
				raw[a.Name] = v
			}
		}
		fpath := append(append([]string{}, path...), g.key)
		if e.on != nil && !fd.StructField {
			var id int64
			if fd.SrcID != nil && src != nil {
				id = fd.SrcID(src)
			}
			e.on(Resolution{Type: typ, ID: id, Field: fd.Name, Path: fpath})
		}
		v, err := fd.Call(e.w, src, raw)
		if err != nil {
			panic(err)
		}
		var subs []*SelSet
		for _, x := range g.fields {
			if x.Sub != nil {
				subs = append(subs, x.Sub)
			}
		}
		out[g.key] = e.complete(v, fd.Ret, subs, fpath)
	}
	if t.KeyField != "" {
		v, _ := t.Fields[t.KeyField].Call(e.w, src, nil)
		out["__key"] = v
	}
	return out
}

func isNil(v interface{}) bool {
	if v == nil {
		return true
	}
	rv := reflect.ValueOf(v)
	switch rv.Kind() {
	case reflect.Ptr, reflect.Slice, reflect.Map, reflect.Interface:
		return rv.IsNil()
	}
	return false
}

func (e *evaluator) complete(v interface{}, tr TypeRef, subs []*SelSet, path []string) interface{} {
	switch tr.Kind {
	case KList:
		out := []interface{}{}
		if isNil(v) {
			return out
		}
		rv := reflect.ValueOf(v)
		for i := 0; i < rv.Len(); i++ {
			out = append(out, e.complete(rv.Index(i).Interface(), *tr.Elem, subs, append(append([]string{}, path...), fmt.Sprint(i))))
		}
		return out
	case KScalar:
		if b, ok := v.([]byte); ok {
			// a byte string is rendered in base64; a nil one is the empty string
			return base64.StdEncoding.EncodeToString(b)
		}
		return v
	case KEnum:
		return ColorNames[v.(Color)]
	case KObject:
		if isNil(v) {
			return nil
		}
		return e.object(tr.Name, v, subs, path, false)
	case KUnion:
		if so, ok := v.(*Solo); ok {
			if so == nil || so.Leaf == nil {
				return nil
			}
			return e.object("Leaf", so.Leaf, subs, path, true)
		}
		th, _ := v.(*Thing)
		if th == nil {
			return nil
		}
		switch {
		case th.Node != nil:
			return e.object("Node", th.Node, subs, path, true)
		case th.Leaf != nil:
			return e.object("Leaf", th.Leaf, subs, path, true)
		}
		return nil
	}
	panic("bad type ref")
}

// unionHas reports whether name is a union type with member typ (a fragment
// on the union type itself applies to every member).
func (e *evaluator) unionHas(name, typ string) bool {
	t := e.sd.Types[name]
	if t == nil || !t.IsUnion {
		return false
	}
	for _, m := range t.Members {
		if m == typ {
			return true
		}
	}
	return false
}
