package gen

import (
	"context"
	"encoding/base64"
	"encoding/json"
	"fmt"
	"reflect"
	"sort"

	"github.com/samsarahq/thunder/batch"
	"github.com/samsarahq/thunder/graphql/schemabuilder"
)

type Kind int

const (
	KScalar Kind = iota
	KEnum
	KObject
	KUnion
	KList
)

// TypeRef describes a field's result type for the generator and the reference
// evaluator (nullability is irrelevant to both: nil renders as null).
type TypeRef struct {
	Kind Kind
	Name string
	Elem *TypeRef
}

func Scalar(n string) TypeRef { return TypeRef{Kind: KScalar, Name: n} }
func Obj(n string) TypeRef    { return TypeRef{Kind: KObject, Name: n} }
func Uni(n string) TypeRef    { return TypeRef{Kind: KUnion, Name: n} }
func Enum(n string) TypeRef   { return TypeRef{Kind: KEnum, Name: n} }
func ListOf(t TypeRef) TypeRef {
	return TypeRef{Kind: KList, Elem: &t}
}

// Base strips list wrappers.
func (t TypeRef) Base() TypeRef {
	for t.Kind == KList {
		t = *t.Elem
	}
	return t
}

// ArgDesc describes one argument: Type is the GraphQL type text used for
// variable declarations ("Int", "String", "Boolean", "[Int!]").
type ArgDesc struct {
	Name     string
	Type     string
	Required bool
}

type ModeKind int

const (
	MPlain ModeKind = iota
	MExpensive
	MBatch
	MBatchFallback // flag read from the context (WithUseBatch)
	MParallel      // plain with NumParallelInvocationsFunc = K
	MBatchParallel // batch with NumParallelInvocationsFunc = K
	MBatchExpensive
)

var modeNames = []string{"plain", "expensive", "batch", "batch+fallback", "parallel", "batch-parallel", "batch-expensive"}

type Mode struct {
	Kind ModeKind
	K    int
}

func (m Mode) String() string {
	if m.Kind == MParallel || m.Kind == MBatchParallel {
		return fmt.Sprintf("%s(%d)", modeNames[m.Kind], m.K)
	}
	return modeNames[m.Kind]
}

// Env is what resolvers of one built schema consult at run time.
type Env struct {
	// Pause is called at the start of every resolver invocation (schedule
	// perturbation); may be nil.
	Pause func()
	// Fail decides whether resolving field on (typ,id) fails; a non-nil
	// error is returned from the resolver; it may also panic. May be nil.
	Fail func(ctx context.Context, typ string, id int64, field string, inBatch bool) error
	// OnResolve observes every (typ,id,field) resolution; may be nil.
	OnResolve func(typ string, id int64, field string, inBatch bool)
}

func (e *Env) pause() {
	if e != nil && e.Pause != nil {
		e.Pause()
	}
}
func (e *Env) fail(ctx context.Context, typ string, id int64, field string, inBatch bool) error {
	if e != nil && e.OnResolve != nil {
		e.OnResolve(typ, id, field, inBatch)
	}
	if e != nil && e.Fail != nil {
		return e.Fail(ctx, typ, id, field, inBatch)
	}
	return nil
}

type worldKey struct{}
type useBatchKey struct{}

// WithWorld attaches the data graph root resolvers read.
func WithWorld(ctx context.Context, w *World) context.Context {
	return context.WithValue(ctx, worldKey{}, w)
}
func worldOf(ctx context.Context) *World { return ctx.Value(worldKey{}).(*World) }

// WithUseBatch sets the flag batch-with-fallback fields read.
func WithUseBatch(ctx context.Context, use bool) context.Context {
	return context.WithValue(ctx, useBatchKey{}, use)
}
func useBatch(ctx context.Context) bool {
	b, _ := ctx.Value(useBatchKey{}).(bool)
	return b
}

// FieldDesc is one field of the zoo schema.
type FieldDesc struct {
	Owner, Name string
	Args        []ArgDesc
	Ret         TypeRef
	StructField bool // plain struct field: resolved inline, has no mode
	Root        bool
	// Call evaluates the field for the reference evaluator.
	Call     func(w *World, src interface{}, raw map[string]interface{}) (interface{}, error)
	register func(obj *schemabuilder.Object, mode Mode, env *Env)
	// SrcID extracts the id of a source object (for failure plans).
	SrcID func(src interface{}) int64
}

func (f *FieldDesc) IsLeaf() bool { b := f.Ret.Base(); return b.Kind == KScalar || b.Kind == KEnum }
func (f *FieldDesc) Key() string  { return f.Owner + "." + f.Name }

type TypeDesc struct {
	Name     string
	Fields   map[string]*FieldDesc
	Order    []string
	KeyField string
	Members  []string // union members
	IsUnion  bool
}

type SchemaDesc struct {
	Types map[string]*TypeDesc
}

func (sd *SchemaDesc) typ(name string) *TypeDesc {
	t := sd.Types[name]
	if t == nil {
		t = &TypeDesc{Name: name, Fields: map[string]*FieldDesc{}}
		sd.Types[name] = t
	}
	return t
}

func (sd *SchemaDesc) add(f *FieldDesc) {
	t := sd.typ(f.Owner)
	t.Fields[f.Name] = f
	t.Order = append(t.Order, f.Name)
}

// AllFields lists "Type.field" keys of fields that have an execution mode.
func (sd *SchemaDesc) ModalFields() []string {
	var out []string
	for _, t := range sd.Types {
		if t.Name == "Mutation" {
			continue // see MutationFields
		}
		for _, f := range t.Fields {
			if !f.StructField {
				out = append(out, f.Key())
			}
		}
	}
	sort.Strings(out)
	return out
}

// MutationFields lists the "Mutation.field" keys.
func (sd *SchemaDesc) MutationFields() []string {
	var out []string
	if t := sd.Types["Mutation"]; t != nil {
		for _, f := range t.Fields {
			out = append(out, f.Key())
		}
	}
	sort.Strings(out)
	return out
}

func convArgs(raw map[string]interface{}, into interface{}) error {
	if len(raw) == 0 {
		return nil
	}
	b, err := json.Marshal(raw)
	if err != nil {
		return err
	}
	return json.Unmarshal(b, into)
}

func isNoArgs[A any]() bool {
	var a A
	_, ok := any(a).(NoArgs)
	return ok
}

// objField declares a field on an object type with source *S.
func objField[S any, A any, R any](sd *SchemaDesc, owner, name string, args []ArgDesc, ret TypeRef, id func(*S) int64, fn func(*S, A) R) {
	toPtr := func(src interface{}) *S {
		switch v := src.(type) {
		case *S:
			return v
		case S:
			return &v
		}
		panic(fmt.Sprintf("gen: %s.%s called with source %T", owner, name, src))
	}
	f := &FieldDesc{Owner: owner, Name: name, Args: args, Ret: ret}
	f.SrcID = func(src interface{}) int64 { return id(toPtr(src)) }
	f.Call = func(w *World, src interface{}, raw map[string]interface{}) (interface{}, error) {
		var a A
		if err := convArgs(raw, &a); err != nil {
			return nil, err
		}
		return fn(toPtr(src), a), nil
	}
	f.register = func(obj *schemabuilder.Object, mode Mode, env *Env) {
		one := func(ctx context.Context, s *S, a A) (R, error) {
			env.pause()
			if err := env.fail(ctx, owner, id(s), name, false); err != nil {
				var z R
				return z, err
			}
			return fn(s, a), nil
		}
		many := func(ctx context.Context, m map[batch.Index]*S, a A) (map[batch.Index]R, error) {
			env.pause()
			out := make(map[batch.Index]R, len(m))
			// iterate in a fixed order so failure plans are deterministic
			for k, s := range m {
				if err := env.fail(ctx, owner, id(s), name, true); err != nil {
					return nil, err
				}
				out[k] = fn(s, a)
			}
			return out, nil
		}
		var oneF, manyF interface{} = one, many
		if isNoArgs[A]() {
			oneF = func(ctx context.Context, s *S) (R, error) { var a A; return one(ctx, s, a) }
			manyF = func(ctx context.Context, m map[batch.Index]*S) (map[batch.Index]R, error) {
				var a A
				return many(ctx, m, a)
			}
		}
		par := schemabuilder.NumParallelInvocationsFunc(func(ctx context.Context, n int) int {
			if mode.K >= 1000 {
				return n + (mode.K - 1000)
			}
			return mode.K
		})
		switch mode.Kind {
		case MPlain:
			obj.FieldFunc(name, oneF)
		case MExpensive:
			obj.FieldFunc(name, oneF, schemabuilder.Expensive)
		case MParallel:
			obj.FieldFunc(name, oneF, par)
		case MBatch:
			obj.BatchFieldFunc(name, manyF)
		case MBatchExpensive:
			obj.BatchFieldFunc(name, manyF, schemabuilder.Expensive)
		case MBatchParallel:
			obj.BatchFieldFunc(name, manyF, par)
		case MBatchFallback:
			// thunder requires the batch and fallback GraphQL types to match: a
			// batch function's non-pointer, non-list result is nullable unless
			// marked NonNullable.
			var z R
			rt := reflect.TypeOf(&z).Elem()
			if k := rt.Kind(); (k != reflect.Ptr && k != reflect.Slice) || rt == reflect.TypeOf([]byte(nil)) {
				obj.BatchFieldFuncWithFallback(name, manyF, oneF, useBatch, schemabuilder.NonNullable)
			} else {
				obj.BatchFieldFuncWithFallback(name, manyF, oneF, useBatch)
			}
		default:
			panic("gen: unknown mode")
		}
	}
	sd.add(f)
}

// rootField declares a field on Query.
func rootField[A any, R any](sd *SchemaDesc, name string, args []ArgDesc, ret TypeRef, fn func(*World, A) R) {
	rootFieldOn(sd, "Query", name, args, ret, fn)
}

// rootFieldOn declares a field of the Query or Mutation root.
func rootFieldOn[A any, R any](sd *SchemaDesc, owner, name string, args []ArgDesc, ret TypeRef, fn func(*World, A) R) {
	f := &FieldDesc{Owner: owner, Name: name, Args: args, Ret: ret, Root: true}
	f.SrcID = func(interface{}) int64 { return 0 }
	f.Call = func(w *World, src interface{}, raw map[string]interface{}) (interface{}, error) {
		var a A
		if err := convArgs(raw, &a); err != nil {
			return nil, err
		}
		return fn(w, a), nil
	}
	f.register = func(obj *schemabuilder.Object, mode Mode, env *Env) {
		one := func(ctx context.Context, a A) (R, error) {
			env.pause()
			if err := env.fail(ctx, owner, 0, name, false); err != nil {
				var z R
				return z, err
			}
			return fn(worldOf(ctx), a), nil
		}
		var oneF interface{} = one
		if isNoArgs[A]() {
			oneF = func(ctx context.Context) (R, error) { var a A; return one(ctx, a) }
		}
		if mode.Kind == MExpensive {
			obj.FieldFunc(name, oneF, schemabuilder.Expensive)
		} else {
			obj.FieldFunc(name, oneF)
		}
	}
	sd.add(f)
}

func structField(sd *SchemaDesc, owner, name string, ret TypeRef, get func(src interface{}) interface{}) {
	f := &FieldDesc{Owner: owner, Name: name, Ret: ret, StructField: true}
	f.Call = func(w *World, src interface{}, raw map[string]interface{}) (interface{}, error) {
		return get(src), nil
	}
	sd.add(f)
}

var (
	argSuffix = []ArgDesc{{Name: "suffix", Type: "String"}}
	argMul    = []ArgDesc{{Name: "mul", Type: "Int"}}
	argFirst  = []ArgDesc{{Name: "first", Type: "Int"}}
	argX      = []ArgDesc{{Name: "x", Type: "Int"}, {Name: "loud", Type: "Boolean"}}
	argID     = []ArgDesc{{Name: "id", Type: "Int", Required: true}}
	argIDs    = []ArgDesc{{Name: "ids", Type: "[Int!]", Required: true}}
	argA      = []ArgDesc{{Name: "a", Type: "Int", Required: true}}
)

// Zoo returns the description of the zoo schema.
func Zoo() *SchemaDesc {
	sd := &SchemaDesc{Types: map[string]*TypeDesc{}}
	nid := func(n *Node) int64 { return n.Id }
	lid := func(l *Leaf) int64 { return l.Id }
	iid := func(i *Item) int64 { return i.A }

	structField(sd, "Node", "id", Scalar("Int"), func(src interface{}) interface{} {
		switch v := src.(type) {
		case *Node:
			return v.Id
		case Node:
			return v.Id
		}
		panic("bad Node source")
	})
	structField(sd, "Node", "grp", Scalar("Int"), func(src interface{}) interface{} {
		switch v := src.(type) {
		case *Node:
			return v.Grp
		case Node:
			return v.Grp
		}
		panic("bad Node source")
	})
	objField(sd, "Node", "name", argSuffix, Scalar("String"), nid, NodeName)
	objField(sd, "Node", "score", nil, Scalar("Float"), nid, NodeScore)
	objField(sd, "Node", "flag", nil, Scalar("Boolean"), nid, NodeFlag)
	objField(sd, "Node", "color", nil, Enum("Color"), nid, NodeColor)
	objField(sd, "Node", "rank", argMul, Scalar("Int"), nid, NodeRank)
	objField(sd, "Node", "tags", nil, ListOf(Scalar("String")), nid, NodeTags)
	objField(sd, "Node", "parent", nil, Obj("Node"), nid, NodeParent)
	objField(sd, "Node", "children", argFirst, ListOf(Obj("Node")), nid, NodeChildren)
	objField(sd, "Node", "leaf", nil, Obj("Leaf"), nid, NodeLeaf)
	objField(sd, "Node", "leaves", nil, ListOf(Obj("Leaf")), nid, NodeLeaves)
	objField(sd, "Node", "thing", nil, Uni("Thing"), nid, NodeThing)
	objField(sd, "Node", "things", nil, ListOf(Uni("Thing")), nid, NodeThings)
	objField(sd, "Node", "solo", nil, Uni("Solo"), nid, NodeSolo)
	objField(sd, "Node", "blob", nil, Scalar("String"), nid, NodeBlob)
	objField(sd, "Node", "rings", nil, ListOf(ListOf(Obj("Leaf"))), nid, NodeRings)
	objField(sd, "Node", "item", nil, Obj("Item"), nid, NodeItem)
	objField(sd, "Node", "bags", nil, ListOf(Obj("Bag")), nid, NodeBags)
	sd.Types["Node"].KeyField = "id"

	structField(sd, "Leaf", "id", Scalar("Int"), func(src interface{}) interface{} {
		switch v := src.(type) {
		case *Leaf:
			return v.Id
		case Leaf:
			return v.Id
		}
		panic("bad Leaf source")
	})
	leafOf := func(src interface{}) *Leaf {
		switch v := src.(type) {
		case *Leaf:
			return v
		case Leaf:
			return &v
		}
		panic("bad Leaf source")
	}
	structField(sd, "Leaf", "pos", Obj("Pt"), func(src interface{}) interface{} { return leafOf(src).Pos })
	structField(sd, "Leaf", "trail", ListOf(Obj("Pt")), func(src interface{}) interface{} { return leafOf(src).Trail })
	structField(sd, "Leaf", "grid", ListOf(ListOf(Obj("Pt"))), func(src interface{}) interface{} { return leafOf(src).Grid })
	ptOf := func(src interface{}) Pt {
		switch v := src.(type) {
		case *Pt:
			return *v
		case Pt:
			return v
		}
		panic("bad Pt source")
	}
	structField(sd, "Pt", "x", Scalar("Int"), func(src interface{}) interface{} { return ptOf(src).X })
	structField(sd, "Pt", "y", Scalar("Int"), func(src interface{}) interface{} { return ptOf(src).Y })
	objField(sd, "Leaf", "label", argX, Scalar("String"), lid, LeafLabel)
	objField(sd, "Leaf", "weight", nil, Scalar("Float"), lid, LeafWeight)
	objField(sd, "Leaf", "owner", nil, Obj("Node"), lid, LeafOwner)
	objField(sd, "Leaf", "siblings", nil, ListOf(Obj("Leaf")), lid, LeafSiblings)
	objField(sd, "Leaf", "color", nil, Enum("Color"), lid, LeafColor)
	sd.Types["Leaf"].KeyField = "id"

	structField(sd, "Item", "a", Scalar("Int"), func(src interface{}) interface{} {
		switch v := src.(type) {
		case *Item:
			return v.A
		case Item:
			return v.A
		}
		panic("bad Item source")
	})
	objField(sd, "Item", "b", nil, Scalar("String"), iid, ItemB)
	objField(sd, "Item", "node", nil, Obj("Node"), iid, ItemNode)
	objField(sd, "Item", "next", nil, Obj("Item"), iid, ItemNext)

	bid := func(b *Bag) int64 { return b.A }
	structField(sd, "Bag", "a", Scalar("Int"), func(src interface{}) interface{} {
		switch v := src.(type) {
		case *Bag:
			return v.A
		case Bag:
			return v.A
		}
		panic("bad Bag source")
	})
	structField(sd, "Bag", "tags", ListOf(Scalar("String")), func(src interface{}) interface{} {
		switch v := src.(type) {
		case *Bag:
			return v.Tags
		case Bag:
			return v.Tags
		}
		panic("bad Bag source")
	})
	structField(sd, "Bag", "sig", ListOf(Scalar("Int")), func(src interface{}) interface{} {
		var d Digest
		switch v := src.(type) {
		case *Bag:
			d = v.Sig
		case Bag:
			d = v.Sig
		default:
			panic("bad Bag source")
		}
		out := make([]int64, len(d))
		for i, x := range d {
			out[i] = int64(x)
		}
		return out
	})
	structField(sd, "Bag", "chunks", ListOf(Scalar("String")), func(src interface{}) interface{} {
		var c [][]byte
		switch v := src.(type) {
		case *Bag:
			c = v.Chunks
		case Bag:
			c = v.Chunks
		default:
			panic("bad Bag source")
		}
		out := make([]string, len(c))
		for i, x := range c {
			out[i] = base64.StdEncoding.EncodeToString(x)
		}
		return out
	})
	objField(sd, "Bag", "total", nil, Scalar("Int"), bid, BagTotal)
	objField(sd, "Bag", "node", nil, Obj("Node"), bid, BagNode)

	solo := sd.typ("Solo")
	solo.IsUnion = true
	solo.Members = []string{"Leaf"}
	u := sd.typ("Thing")
	u.IsUnion = true
	u.Members = []string{"Node", "Leaf"}

	rootField(sd, "node", argID, Obj("Node"), RootNode)
	rootField(sd, "nodes", argIDs, ListOf(Obj("Node")), RootNodes)
	rootField(sd, "all", nil, ListOf(Obj("Node")), RootAll)
	rootField(sd, "leaf", argID, Obj("Leaf"), RootLeaf)
	rootField(sd, "leaves", nil, ListOf(Obj("Leaf")), RootLeaves)
	rootField(sd, "thing", argID, Uni("Thing"), RootThing)
	rootField(sd, "things", nil, ListOf(Uni("Thing")), RootThings)
	rootField(sd, "item", argA, Obj("Item"), RootItem)
	rootField(sd, "color", nil, Enum("Color"), RootColor)
	rootField(sd, "count", nil, Scalar("Int"), RootCount)
	// mutations (pure: what matters is how the operation kind is routed); only
	// registered under Config.Mutations
	rootFieldOn(sd, "Mutation", "touch", argID, Obj("Node"), RootNode)
	rootFieldOn(sd, "Mutation", "pick", argID, Obj("Leaf"), RootLeaf)
	rootFieldOn(sd, "Mutation", "poke", argID, Uni("Thing"), RootThing)
	return sd
}

// Config selects an execution mode per field ("Type.field"; default plain)
// and optionally a subset of fields.
type Config struct {
	Modes   map[string]Mode
	Include func(typ, field string) bool // nil = everything
	// Service, when non-empty, builds a federated service schema: named
	// schema, every object registered with FetchObjectFromKeys.
	Service string
	// NodeKeys selects the federated key set this service declares for Node:
	// "id" = {id}, anything else = {id, grp}.
	NodeKeys string
	// Mutations registers the Mutation root (fields subject to Include).
	Mutations bool
}

// Build registers the zoo with schemabuilder under cfg.
func Build(sd *SchemaDesc, cfg Config, env *Env) *schemabuilder.Schema {
	s := schemabuilder.NewSchema()
	if cfg.Service != "" {
		s = schemabuilder.NewSchemaWithName(cfg.Service)
	}
	RegisterInto(s, sd, cfg, env)
	return s
}

// RegisterInto registers the zoo's objects and fields into s.
func RegisterInto(s *schemabuilder.Schema, sd *SchemaDesc, cfg Config, env *Env) {
	s.Enum(Color(0), map[string]Color{"RED": Red, "GREEN": Green, "BLUE": Blue})
	var nodeOpts, leafOpts, itemOpts []schemabuilder.ObjectOption
	if cfg.Service != "" {
		// shadow objects are rebuilt from their federated keys (all struct
		// fields) and re-attached to the request's world
		// services declare one of two key sets for Node: {id} or {id, grp}; the
		// shadow object is rebuilt from exactly the keys received
		switch cfg.NodeKeys {
		case "id":
			nodeOpts = append(nodeOpts, schemabuilder.FetchObjectFromKeys(func(ctx context.Context, args struct{ Keys []*NodeKeyID }) []*Node {
				out := make([]*Node, len(args.Keys))
				for i, k := range args.Keys {
					out[i] = &Node{Id: k.Id, Grp: GrpOf(k.Id), W: worldOf(ctx)}
				}
				return out
			}))
		default:
			nodeOpts = append(nodeOpts, schemabuilder.FetchObjectFromKeys(func(ctx context.Context, args struct{ Keys []*NodeKeyFull }) []*Node {
				out := make([]*Node, len(args.Keys))
				for i, k := range args.Keys {
					out[i] = &Node{Id: k.Id, Grp: k.Grp, W: worldOf(ctx)}
				}
				return out
			}))
		}
		leafOpts = append(leafOpts, schemabuilder.FetchObjectFromKeys(func(ctx context.Context, args struct{ Keys []*Leaf }) []*Leaf {
			out := make([]*Leaf, len(args.Keys))
			for i, k := range args.Keys {
				out[i] = &Leaf{Id: k.Id, Pos: k.Pos, Trail: k.Trail, Grid: k.Grid, W: worldOf(ctx)}
			}
			return out
		}))
		itemOpts = append(itemOpts, schemabuilder.FetchObjectFromKeys(func(ctx context.Context, args struct{ Keys []*Item }) []*Item {
			out := make([]*Item, len(args.Keys))
			for i, k := range args.Keys {
				out[i] = &Item{A: k.A, W: worldOf(ctx)}
			}
			return out
		}))
	}
	objs := map[string]*schemabuilder.Object{
		"Query": s.Query(),
		"Node":  s.Object("Node", Node{}, nodeOpts...),
		"Leaf":  s.Object("Leaf", Leaf{}, leafOpts...),
		"Item":  s.Object("Item", Item{}, itemOpts...),
	}
	if cfg.Service != "" {
		// an object used inside another object's federated key has to be a
		// federated object itself (see federation/planner_helpers.go)
		s.Object("Pt", Pt{}, schemabuilder.FetchObjectFromKeys(func(args struct{ Keys []*Pt }) []*Pt { return args.Keys }))
	} else {
		s.Object("Pt", Pt{})
	}
	types := []string{"Query", "Node", "Leaf", "Item"}
	if cfg.Mutations {
		objs["Mutation"] = s.Mutation()
		types = append(types, "Mutation")
	}
	if cfg.Service == "" {
		// Bag (a non-comparable value object) is not federated
		objs["Bag"] = s.Object("Bag", Bag{})
		types = append(types, "Bag")
	}
	objs["Leaf"].Key("id")
	for _, tn := range types {
		t := sd.Types[tn]
		for _, fn := range t.Order {
			f := t.Fields[fn]
			if f.StructField {
				continue
			}
			if cfg.Service != "" && f.Ret.Base().Name == "Bag" {
				continue
			}
			if cfg.Include != nil && !cfg.Include(tn, fn) {
				continue
			}
			f.register(objs[tn], cfg.Modes[f.Key()], env)
		}
	}
}
