package gen

import (
	"math/rand"
	"runtime"
	"sync"

	"github.com/samsarahq/thunder/graphql"
)

// Schedulers returns named WorkScheduler factories: thunder's own plus
// harness schedulers that traverse the execution graph in other orders.
func Schedulers() []struct {
	Name string
	New  func(seed int64) graphql.WorkScheduler
} {
	return []struct {
		Name string
		New  func(seed int64) graphql.WorkScheduler
	}{
		{"immediate-goroutine", func(int64) graphql.WorkScheduler { return graphql.NewImmediateGoroutineScheduler() }},
		{"fifo", func(int64) graphql.WorkScheduler { return &queueScheduler{mode: 0} }},
		{"lifo", func(int64) graphql.WorkScheduler { return &queueScheduler{mode: 1} }},
		{"random", func(seed int64) graphql.WorkScheduler {
			return &queueScheduler{mode: 2, r: rand.New(rand.NewSource(seed))}
		}},
		{"pool3", func(int64) graphql.WorkScheduler { return &poolScheduler{workers: 3} }},
		{"goroutine-yield", func(int64) graphql.WorkScheduler { return &yieldScheduler{} }},
	}
}

// queueScheduler runs all units on the calling goroutine, in FIFO, LIFO or
// seeded-random order.
type queueScheduler struct {
	mode int
	r    *rand.Rand
}

func (q *queueScheduler) Run(resolver graphql.UnitResolver, units ...*graphql.WorkUnit) {
	queue := append([]*graphql.WorkUnit{}, units...)
	for len(queue) > 0 {
		var i int
		switch q.mode {
		case 0:
			i = 0
		case 1:
			i = len(queue) - 1
		default:
			i = q.r.Intn(len(queue))
		}
		u := queue[i]
		queue = append(queue[:i], queue[i+1:]...)
		queue = append(queue, resolver(u)...)
	}
}

// poolScheduler runs units on a fixed number of workers.
type poolScheduler struct{ workers int }

func (p *poolScheduler) Run(resolver graphql.UnitResolver, units ...*graphql.WorkUnit) {
	var mu sync.Mutex
	cond := sync.NewCond(&mu)
	queue := append([]*graphql.WorkUnit{}, units...)
	inflight := 0
	var wg sync.WaitGroup
	for w := 0; w < p.workers; w++ {
		wg.Add(1)
		go func() {
			defer wg.Done()
			for {
				mu.Lock()
				for len(queue) == 0 && inflight > 0 {
					cond.Wait()
				}
				if len(queue) == 0 && inflight == 0 {
					mu.Unlock()
					cond.Broadcast()
					return
				}
				u := queue[0]
				queue = queue[1:]
				inflight++
				mu.Unlock()
				more := resolver(u)
				mu.Lock()
				queue = append(queue, more...)
				inflight--
				mu.Unlock()
				cond.Broadcast()
			}
		}()
	}
	wg.Wait()
}

// yieldScheduler is goroutine-per-unit with a Gosched before each unit.
type yieldScheduler struct{}

func (y *yieldScheduler) Run(resolver graphql.UnitResolver, units ...*graphql.WorkUnit) {
	var wg sync.WaitGroup
	var enqueue func(us []*graphql.WorkUnit)
	enqueue = func(us []*graphql.WorkUnit) {
		for _, u := range us {
			wg.Add(1)
			go func(u *graphql.WorkUnit) {
				defer wg.Done()
				runtime.Gosched()
				enqueue(resolver(u))
			}(u)
		}
	}
	enqueue(units)
	wg.Wait()
}
