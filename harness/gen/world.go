// Package gen holds the shared workload generators and reference models of the
// harness: a deterministic data graph ("world"), a schema description with one
// thunder registration per execution mode, a query AST with generator, printer
// and pruner, and a naive sequential reference evaluator.
package gen

import (
	"fmt"

	"github.com/samsarahq/thunder/graphql/schemabuilder"
)

// Color is the zoo's enum.
type Color int32

const (
	Red   Color = 1
	Green Color = 2
	Blue  Color = 3
)

var ColorNames = map[Color]string{Red: "RED", Green: "GREEN", Blue: "BLUE"}

// World is a deterministic data graph: every resolvable value is a pure
// function of (seed, version, type, id, field, args), so any mis-pairing of
// object and value shows up in the output.
type World struct {
	Seed    uint64
	Version uint64 // bumped by mutable-data harnesses; part of every value
	bumps   map[bumpKey]uint64 // see Bump
	N       int    // nodes have ids 1..N
	M       int    // leaves have ids 1..M
	nodes   []*Node
	leaves  []*Leaf
}

// Node is a keyed object (key field via struct tag).
type Node struct {
	Id int64 `graphql:"id,key"`
	// Grp is a second plain field (always GrpOf(Id)); federated services may
	// declare it as part of their key set.
	Grp int64  `graphql:"grp"`
	W   *World `graphql:"-"`
}

// GrpOf is the value of Node.Grp for a node id.
func GrpOf(id int64) int64 { return id%3 + 10 }

// NodeKeyID and NodeKeyFull are the two federated key sets services may
// declare for Node.
type NodeKeyID struct {
	Id int64
}
type NodeKeyFull struct {
	Id  int64
	Grp int64
}

// Leaf is an object keyed through Object.Key("id"). Besides the id it carries
// an object, a list of objects and a list of lists of objects as plain struct
// fields: a federated service receives the whole struct as the object's key
// ("object pass-through") and rebuilds its shadow object from it.
type Leaf struct {
	Id    int64  `graphql:"id"`
	Pos   Pt     `graphql:"pos"`
	Trail []Pt   `graphql:"trail"`
	Grid  [][]Pt `graphql:"grid"`
	W     *World `graphql:"-"`
}

// Pt is a small unkeyed value object.
type Pt struct {
	X int64 `graphql:"x"`
	Y int64 `graphql:"y"`
}

// leafShape derives a leaf's struct fields from its id.
func (w *World) leafShape(l *Leaf) {
	h := w.H("Leaf", l.Id, "shape", 0)
	pt := func(k uint) Pt { return Pt{X: int64(h >> k % 7), Y: int64(h >> (k + 3) % 5)} }
	l.Pos = pt(0)
	for j := 0; j < int(h>>8%4); j++ {
		l.Trail = append(l.Trail, pt(10+4*uint(j)))
	}
	for j := 0; j < int(h>>28%3); j++ {
		var ring []Pt
		for k := 0; k < int(h>>(30+2*uint(j))%3); k++ {
			ring = append(ring, pt(36+5*uint(j)+2*uint(k)))
		}
		l.Grid = append(l.Grid, ring)
	}
}

// Item is an unkeyed object that is passed around by value.
type Item struct {
	A int64  `graphql:"a"`
	W *World `graphql:"-"`
}

// Bag is an unkeyed object passed by value whose Go type is NOT comparable (it
// holds a slice): the executor cannot use it as a cache key.
type Bag struct {
	A    int64    `graphql:"a"`
	Tags []string `graphql:"tags"`
	// scalar lists whose Go value does not marshal like the list of its
	// elements: a named byte slice is a list of small integers, a list of byte
	// strings has base64 entries ("" for a nil one)
	Sig    Digest   `graphql:"sig"`
	Chunks [][]byte `graphql:"chunks"`
	W      *World   `graphql:"-"`
}

// Digest is a named slice of bytes: to GraphQL a list of integers.
type Digest []uint8

// Thing is a union of Node and Leaf.
type Thing struct {
	schemabuilder.Union
	*Node
	*Leaf
}

// Solo is a union with a single member.
type Solo struct {
	schemabuilder.Union
	*Leaf
}

func NewWorld(seed uint64, n, m int) *World {
	w := &World{Seed: seed, N: n, M: m}
	w.nodes = make([]*Node, n+1)
	for i := 1; i <= n; i++ {
		w.nodes[i] = &Node{Id: int64(i), Grp: GrpOf(int64(i)), W: w}
	}
	w.leaves = make([]*Leaf, m+1)
	for i := 1; i <= m; i++ {
		w.leaves[i] = &Leaf{Id: int64(i), W: w}
		w.leafShape(w.leaves[i])
	}
	return w
}

func mix(x uint64) uint64 {
	x += 0x9e3779b97f4a7c15
	x = (x ^ (x >> 30)) * 0xbf58476d1ce4e5b9
	x = (x ^ (x >> 27)) * 0x94d049bb133111eb
	return x ^ (x >> 31)
}

type bumpKey struct {
	typ   string
	id    int64
	field string
}

// Bump changes every value derived from H(typ, id, field, *) and nothing else:
// a fine-grained data change for harnesses whose resolvers depend on one
// resource per (type, id, field). Not safe concurrently with readers.
func (w *World) Bump(typ string, id int64, field string) {
	if w.bumps == nil {
		w.bumps = map[bumpKey]uint64{}
	}
	w.bumps[bumpKey{typ, id, field}]++
}

// Clone returns an independent world holding the same data.
func (w *World) Clone() *World {
	c := NewWorld(w.Seed, w.N, w.M)
	c.Version = w.Version
	for k, v := range w.bumps {
		if c.bumps == nil {
			c.bumps = map[bumpKey]uint64{}
		}
		c.bumps[k] = v
	}
	return c
}

// H hashes (seed, version, typ, id, field, extra).
func (w *World) H(typ string, id int64, field string, extra int64) uint64 {
	h := mix(w.Seed ^ 0x1234)
	h = mix(h ^ w.Version)
	if len(w.bumps) > 0 {
		if b := w.bumps[bumpKey{typ, id, field}]; b != 0 {
			h = mix(h ^ (b * 0x9e3779b97f4a7c15))
		}
	}
	for _, c := range []byte(typ) {
		h = mix(h ^ uint64(c))
	}
	h = mix(h ^ uint64(id))
	for _, c := range []byte(field) {
		h = mix(h ^ uint64(c))
	}
	return mix(h ^ uint64(extra))
}

// NodeByID returns the canonical node (nil when out of range).
func (w *World) NodeByID(id int64) *Node {
	if id < 1 || int(id) > w.N {
		return nil
	}
	return w.nodes[id]
}

func (w *World) LeafByID(id int64) *Leaf {
	if id < 1 || int(id) > w.M {
		return nil
	}
	return w.leaves[id]
}

func (w *World) pickNode(h uint64) *Node { return w.nodes[1+int(h%uint64(w.N))] }
func (w *World) pickLeaf(h uint64) *Leaf { return w.leaves[1+int(h%uint64(w.M))] }

func (w *World) thingFrom(h uint64) *Thing {
	switch h % 5 {
	case 0:
		return nil
	case 1, 2:
		return &Thing{Node: w.pickNode(h >> 8)}
	default:
		return &Thing{Leaf: w.pickLeaf(h >> 8)}
	}
}

// ---- argument structs (json tags = GraphQL argument names) ----

type NoArgs struct{}
type SuffixArgs struct {
	Suffix *string `json:"suffix"`
}
type MulArgs struct {
	Mul *int64 `json:"mul"`
}
type FirstArgs struct {
	First *int64 `json:"first"`
}
type XArgs struct {
	X    *int64 `json:"x"`
	Loud *bool  `json:"loud"`
}
type IdArgs struct {
	Id int64 `json:"id"`
}
type IdsArgs struct {
	Ids []int64 `json:"ids"`
}
type AArgs struct {
	A int64 `json:"a"`
}

// ---- Node fields ----

func NodeName(n *Node, a SuffixArgs) string {
	s := fmt.Sprintf("n%d.%d", n.Id, n.W.H("Node", n.Id, "name", 0)%97)
	if a.Suffix != nil {
		s += "-" + *a.Suffix
	}
	return s
}
func NodeScore(n *Node, _ NoArgs) float64 { return float64(n.W.H("Node", n.Id, "score", 0)%1000) / 8 }
func NodeFlag(n *Node, _ NoArgs) bool     { return n.W.H("Node", n.Id, "flag", 0)%2 == 0 }
func NodeColor(n *Node, _ NoArgs) Color   { return Color(1 + n.W.H("Node", n.Id, "color", 0)%3) }
func NodeRank(n *Node, a MulArgs) int64 {
	m := int64(1)
	if a.Mul != nil {
		m = *a.Mul
	}
	return n.Id*m + int64(n.W.H("Node", n.Id, "rank", 0)%7)
}
func NodeTags(n *Node, _ NoArgs) []string {
	h := n.W.H("Node", n.Id, "tags", 0)
	k := int(h % 4)
	if k == 0 {
		if (h>>8)%2 == 0 {
			return nil
		}
		return []string{}
	}
	out := make([]string, k)
	for i := range out {
		out[i] = fmt.Sprintf("t%d", (h>>(8+4*uint(i)))%5)
	}
	return out
}
func NodeParent(n *Node, _ NoArgs) *Node {
	h := n.W.H("Node", n.Id, "parent", 0)
	if h%4 == 0 {
		return nil
	}
	return n.W.pickNode(h >> 8)
}
func NodeChildren(n *Node, a FirstArgs) []*Node {
	h := n.W.H("Node", n.Id, "children", 0)
	k := int(h % 6)
	out := make([]*Node, 0, k)
	for i := 0; i < k; i++ {
		hh := n.W.H("Node", n.Id, "children", int64(i+1))
		if hh%7 == 0 {
			out = append(out, nil)
		} else {
			out = append(out, n.W.pickNode(hh>>8))
		}
	}
	if a.First != nil && *a.First >= 0 && int(*a.First) < len(out) {
		out = out[:*a.First]
	}
	return out
}
func NodeLeaf(n *Node, _ NoArgs) *Leaf {
	h := n.W.H("Node", n.Id, "leaf", 0)
	if h%4 == 0 {
		return nil
	}
	return n.W.pickLeaf(h >> 8)
}
func NodeLeaves(n *Node, _ NoArgs) []Leaf {
	h := n.W.H("Node", n.Id, "leaves", 0)
	k := int(h % 4)
	out := make([]Leaf, 0, k)
	for i := 0; i < k; i++ {
		out = append(out, *n.W.pickLeaf(n.W.H("Node", n.Id, "leaves", int64(i+1))))
	}
	return out
}
func NodeThing(n *Node, _ NoArgs) *Thing { return n.W.thingFrom(n.W.H("Node", n.Id, "thing", 0)) }

// NodeRings is a list of lists of leaves (with nil entries and empty inner lists).
func NodeRings(n *Node, _ NoArgs) [][]*Leaf {
	h := n.W.H("Node", n.Id, "rings", 0)
	out := make([][]*Leaf, 0, 3)
	for i := 0; i < int(h%4); i++ {
		hh := n.W.H("Node", n.Id, "rings", int64(i+1))
		ring := make([]*Leaf, 0, 3)
		for j := 0; j < int(hh%4); j++ {
			if (hh>>(4+2*uint(j)))%5 == 0 {
				ring = append(ring, nil)
			} else {
				ring = append(ring, n.W.pickLeaf(hh>>(12+6*uint(j))))
			}
		}
		out = append(out, ring)
	}
	return out
}

// NodeBlob is a byte string; for some nodes a nil one, for some an empty one.
func NodeBlob(n *Node, _ NoArgs) []byte {
	h := n.W.H("Node", n.Id, "blob", 0)
	switch h % 4 {
	case 0:
		return nil
	case 1:
		return []byte{}
	}
	return []byte(fmt.Sprintf("b%d", h>>8%9))
}
func NodeSolo(n *Node, _ NoArgs) *Solo {
	h := n.W.H("Node", n.Id, "solo", 0)
	if h%4 == 0 {
		return nil
	}
	return &Solo{Leaf: n.W.pickLeaf(h >> 8)}
}
func NodeThings(n *Node, _ NoArgs) []*Thing {
	h := n.W.H("Node", n.Id, "things", 0)
	k := int(h % 5)
	out := make([]*Thing, 0, k)
	for i := 0; i < k; i++ {
		out = append(out, n.W.thingFrom(n.W.H("Node", n.Id, "things", int64(i+1))))
	}
	return out
}
func NodeItem(n *Node, _ NoArgs) Item {
	return Item{A: int64(n.W.H("Node", n.Id, "item", 0) % 40), W: n.W}
}

func NodeBags(n *Node, _ NoArgs) []Bag {
	h := n.W.H("Node", n.Id, "bags", 0)
	k := int(h % 4)
	out := make([]Bag, 0, k)
	for i := 0; i < k; i++ {
		hh := n.W.H("Node", n.Id, "bags", int64(i+1))
		b := Bag{A: int64(hh % 50), W: n.W}
		for j := 0; j < int(hh>>8%3); j++ {
			b.Tags = append(b.Tags, fmt.Sprintf("g%d", (hh>>(12+4*uint(j)))%6))
		}
		for j := 0; j < int(hh>>24%4); j++ {
			b.Sig = append(b.Sig, uint8(hh>>(28+3*uint(j))))
		}
		for j := 0; j < int(hh>>40%4); j++ {
			switch (hh >> (44 + 2*uint(j))) % 4 {
			case 0:
				b.Chunks = append(b.Chunks, nil)
			case 1:
				b.Chunks = append(b.Chunks, []byte{})
			default:
				b.Chunks = append(b.Chunks, []byte(fmt.Sprintf("c%d", hh>>(50+uint(j))%7)))
			}
		}
		out = append(out, b)
	}
	return out
}

// ---- Bag fields ----

func BagTotal(b *Bag, _ NoArgs) int64 {
	return b.A*3 + int64(len(b.Tags)) + int64(b.W.H("Bag", b.A, "total", 0)%5)
}
func BagNode(b *Bag, _ NoArgs) *Node {
	h := b.W.H("Bag", b.A, "node", int64(len(b.Tags)))
	if h%3 == 0 {
		return nil
	}
	return b.W.pickNode(h >> 8)
}

// ---- Leaf fields ----

func LeafLabel(l *Leaf, a XArgs) string {
	s := fmt.Sprintf("l%d.%d", l.Id, l.W.H("Leaf", l.Id, "label", 0)%89)
	if a.X != nil {
		s += fmt.Sprintf("x%d", *a.X)
	}
	if a.Loud != nil && *a.Loud {
		s += "!"
	}
	return s
}
func LeafWeight(l *Leaf, _ NoArgs) float64 { return float64(l.W.H("Leaf", l.Id, "weight", 0)%500) / 4 }
func LeafOwner(l *Leaf, _ NoArgs) *Node {
	h := l.W.H("Leaf", l.Id, "owner", 0)
	if h%3 == 0 {
		return nil
	}
	return l.W.pickNode(h >> 8)
}
func LeafSiblings(l *Leaf, _ NoArgs) []*Leaf {
	h := l.W.H("Leaf", l.Id, "siblings", 0)
	k := int(h % 4)
	out := make([]*Leaf, 0, k)
	for i := 0; i < k; i++ {
		out = append(out, l.W.pickLeaf(l.W.H("Leaf", l.Id, "siblings", int64(i+1))))
	}
	return out
}
func LeafColor(l *Leaf, _ NoArgs) Color { return Color(1 + l.W.H("Leaf", l.Id, "color", 0)%3) }

// ---- Item fields ----

func ItemB(it *Item, _ NoArgs) string {
	return fmt.Sprintf("i%d.%d", it.A, it.W.H("Item", it.A, "b", 0)%83)
}
func ItemNode(it *Item, _ NoArgs) *Node {
	h := it.W.H("Item", it.A, "node", 0)
	if h%3 == 0 {
		return nil
	}
	return it.W.pickNode(h >> 8)
}
func ItemNext(it *Item, _ NoArgs) *Item {
	if it.A <= 1 || it.A%3 == 0 {
		return nil
	}
	return &Item{A: it.A / 2, W: it.W}
}

// ---- root fields ----

func RootNode(w *World, a IdArgs) *Node { return w.NodeByID(a.Id) }
func RootNodes(w *World, a IdsArgs) []*Node {
	out := make([]*Node, 0, len(a.Ids))
	for _, id := range a.Ids {
		out = append(out, w.NodeByID(id))
	}
	return out
}
func RootAll(w *World, _ NoArgs) []*Node {
	k := w.N
	if k > 9 && w.N <= 1000 { // a world of more than 1000 nodes lists them all
		k = 9
	}
	out := make([]*Node, 0, k)
	for i := 1; i <= k; i++ {
		out = append(out, w.nodes[i])
	}
	return out
}
func RootLeaf(w *World, a IdArgs) *Leaf   { return w.LeafByID(a.Id) }
func RootThing(w *World, a IdArgs) *Thing { return w.thingFrom(w.H("Query", a.Id, "thing", 0)) }
func RootThings(w *World, _ NoArgs) []*Thing {
	out := make([]*Thing, 0, 6)
	for i := 0; i < 6; i++ {
		out = append(out, w.thingFrom(w.H("Query", 0, "things", int64(i))))
	}
	return out
}
func RootItem(w *World, a AArgs) Item    { return Item{A: a.A, W: w} }
func RootColor(w *World, _ NoArgs) Color { return Color(1 + w.H("Query", 0, "color", 0)%3) }
func RootCount(w *World, _ NoArgs) int64 { return int64(w.N) }
func RootLeaves(w *World, _ NoArgs) []*Leaf {
	k := w.M
	if k > 7 {
		k = 7
	}
	out := make([]*Leaf, 0, k)
	for i := 1; i <= k; i++ {
		out = append(out, w.leaves[i])
	}
	return out
}
