package c15

import (
	"context"
	"encoding/json"
	"errors"
	"fmt"
	"net/http"
	"net/http/httptest"
	"os"
	"strconv"
	"strings"
	"sync"
	"sync/atomic"
	"time"

	"github.com/samsarahq/thunder/batch"
	"github.com/samsarahq/thunder/graphql"
	"github.com/samsarahq/thunder/graphql/schemabuilder"
	"github.com/samsarahq/thunder/verifharness/vlib"
)

// ---------------------------------------------------------------------------
// Monitor 5: panics in every kind of resolver function.
//
// Monitor 3 places panics in field resolvers of a subscription. The property
// speaks of "a resolver that panics": a function that computes the value of a
// field (or of a sort / filter field) for an object. A schema hands thunder
// many kinds of those: FieldFuncs (plain, context-taking, Expensive), batch
// field funcs and both sides of a batch-with-fallback, paginated resolvers
// (thunder- and externally managed, plain and Expensive), the sort / filter
// fields of paginated fields (plain, context-taking, Expensive, batch, both
// sides of batch-with-fallback, all filter fields at once, an Expensive sort
// after a filter), the FieldFunc used as an object's key, FetchObjectFromKeys
// of federated objects, mutation resolvers. Those are the DECIDING placements.
//
// Other user / host code that thunder calls (rollout flag functions,
// NumParallelInvocationsFunc, custom FilterFunc tokenisers and matchers,
// UnmarshalText / MarshalText of user types, enum / union conversion,
// middlewares, MakeCtx, loggers) is outside the property's statement. Those
// placements exist as NON-deciding observations: they run only with
// C15_NONRESOLVER=1, are counted in the evidence, and never produce a
// violation. (On the tree of 2026-09-26 nine of them end the process; see
// FINDINGS.md, "out-of-scope robustness notes".)
//
// One placement = one of those functions panics; the
// client reaches it with an ordinary query (sortBy / filterText / arguments
// name it). Each placement is driven through Execute, HTTPHandler and
// ServeJSONSocket in a child process, like monitor 1, so that a panic on a
// goroutine thunder spawned ends the child and is attributed by the parent.
// Oracle: the request fails with an error; nothing panics or crashes; the
// websocket connection and its other subscription keep working.

type PItem struct {
	Id   int64
	Text string
	Num  int64
}

type PArg struct{ V string }

type PText struct{ S string }

type PColor int32

type PUnion struct {
	schemabuilder.Union
	*PItem
	*PText2
}

type PText2 struct{ S string }

type FUser struct {
	Id   int64
	Name string
}

// ufState says which user function panics.
type ufState struct {
	place   string
	panics  int64
	entries int64
}

var ufCurrent atomic.Value // *ufState (methods with fixed receivers need a global)

func ufMaybe(where string) {
	st, _ := ufCurrent.Load().(*ufState)
	if st == nil {
		return
	}
	atomic.AddInt64(&st.entries, 1)
	if st.place == where || st.place == where+"_in_list" {
		atomic.AddInt64(&st.panics, 1)
		panic(secretMarker + " user function " + where)
	}
}

func (a *PArg) UnmarshalText(b []byte) error {
	ufMaybe("arg_unmarshal_text")
	a.V = string(b)
	return nil
}

func (t PText) MarshalText() ([]byte, error) {
	ufMaybe("result_marshal_text")
	return []byte(t.S), nil
}

type ufPlacement struct {
	Name        string
	Query       string
	WSOnly      bool
	NonResolver bool // not a resolver function: observation only, never a verdict
}

var ufPlacements = []ufPlacement{
	{Name: "paginated_resolver", Query: `{ conn { totalCount } }`},
	{Name: "paginated_resolver_expensive", Query: `{ connExp { totalCount } }`},
	{Name: "paginated_external_resolver", Query: `{ connManual(first: 2, additional: "x") { totalCount edges { node { id } } } }`},
	{Name: "paginated_external_filter", Query: `{ connManual(filterText: "a", filterTextFields: ["fManual"], additional: "x") { edges { node { id } } } }`},
	{Name: "sort_plain", Query: `{ conn(sortBy: "sPlain", sortOrder: asc, first: 2) { edges { node { id } } totalCount } }`},
	{Name: "sort_ctx", Query: `{ conn(sortBy: "sCtx", sortOrder: desc) { edges { node { id } } } }`},
	{Name: "sort_expensive", Query: `{ conn(sortBy: "sExp", sortOrder: asc) { edges { node { id } } } }`},
	{Name: "sort_batch", Query: `{ conn(sortBy: "sBatch", sortOrder: asc) { edges { node { id } } } }`},
	{Name: "sort_fallback_batch_side", Query: `{ conn(sortBy: "sFbBatch", sortOrder: asc) { edges { node { id } } } }`},
	{Name: "sort_fallback_plain_side", Query: `{ conn(sortBy: "sFbPlain", sortOrder: asc) { edges { node { id } } } }`},
	{Name: "sort_fallback_flag", Query: `{ conn(sortBy: "sFbFlag", sortOrder: asc) { edges { node { id } } } }`, NonResolver: true},
	{Name: "filter_plain", Query: `{ conn(filterText: "a", filterTextFields: ["fPlain"]) { edges { node { id } } } }`},
	{Name: "filter_ctx", Query: `{ conn(filterText: "a", filterTextFields: ["fCtx"]) { edges { node { id } } } }`},
	{Name: "filter_expensive", Query: `{ conn(filterText: "a", filterTextFields: ["fExp"]) { edges { node { id } } } }`},
	{Name: "filter_batch", Query: `{ conn(filterText: "a", filterTextFields: ["fBatch"]) { edges { node { id } } } }`},
	{Name: "filter_fallback_batch_side", Query: `{ conn(filterText: "a", filterTextFields: ["fFbBatch"]) { edges { node { id } } } }`},
	{Name: "filter_fallback_plain_side", Query: `{ conn(filterText: "a", filterTextFields: ["fFbPlain"]) { edges { node { id } } } }`},
	{Name: "filter_fallback_flag", Query: `{ conn(filterText: "a", filterTextFields: ["fFbFlag"]) { edges { node { id } } } }`, NonResolver: true},
	{Name: "filter_all_fields", Query: `{ conn(filterText: "a") { totalCount } }`}, // no filterTextFields: every filter runs; the batch one panics
	{Name: "filterfunc_tokenize", Query: `{ conn(filterText: "a b", filterType: "custom", filterTextFields: ["fOk"]) { totalCount } }`, NonResolver: true},
	{Name: "filterfunc_match", Query: `{ conn(filterText: "a b", filterType: "custom", filterTextFields: ["fOk"]) { totalCount } }`, NonResolver: true},
	{Name: "sort_and_filter_expensive", Query: `{ conn(filterText: "a", filterTextFields: ["fOk"], sortBy: "sExp2", sortOrder: asc, first: 1) { edges { node { id } } } }`},
	{Name: "batch_field", Query: `{ pitems { id bf } }`},
	{Name: "batch_fallback_batch_side", Query: `{ pitems { id bffBatch } }`},
	{Name: "batch_fallback_plain_side", Query: `{ pitems { id bffPlain } }`},
	{Name: "batch_fallback_flag", Query: `{ pitems { id bffFlag } }`, NonResolver: true},
	{Name: "num_parallel_func", Query: `{ pitems { id par } }`, NonResolver: true},
	{Name: "key_field", Query: `{ keyed { name } }`},
	{Name: "fetch_object_from_keys", Query: `{ _federation { svc_FUser(keys: [{id: 1, name: "a"}, {id: 2, name: "b"}]) { id name } } }`},
	{Name: "arg_unmarshal_text", Query: `{ argText(a: "x") }`, NonResolver: true},
	{Name: "arg_unmarshal_text_in_list", Query: `{ argTexts(as: ["x", "y"]) }`, NonResolver: true},
	{Name: "result_marshal_text", Query: `{ resText }`, NonResolver: true},
	{Name: "result_marshal_text_in_list", Query: `{ resTexts }`, NonResolver: true},
	{Name: "enum_value_outside_map", Query: `{ badEnum }`, NonResolver: true},
	{Name: "union_two_members", Query: `{ badUnion { __typename ... on PItem { id } } }`, NonResolver: true},
	{Name: "mutation_resolver", Query: `mutation { pmut }`},
	// functions of the host application that run inside a request's computation
	{Name: "middleware", Query: `{ ok pitems { id } }`, NonResolver: true},
	{Name: "make_ctx", Query: `{ ok }`, WSOnly: true, NonResolver: true},
	{Name: "execution_logger", Query: `{ ok }`, WSOnly: true, NonResolver: true},
	{Name: "subscription_logger", Query: `{ ok }`, WSOnly: true, NonResolver: true},
}

// host hooks that panic under their placement
func ufMiddleware(in *graphql.ComputationInput, next graphql.MiddlewareNextFunc) *graphql.ComputationOutput {
	if in.Id != "h" && in.Id != "h2" { // the healthy subscriptions of the scenario are not the request under test
		ufMaybe("middleware")
	}
	return next(in)
}

type ufExecLogger struct{}

func (ufExecLogger) StartExecution(ctx context.Context, tags map[string]string, initial bool) {
	if tags["id"] == "p" {
		ufMaybe("execution_logger")
	}
}
func (ufExecLogger) FinishExecution(ctx context.Context, tags map[string]string, delay time.Duration) {
}
func (ufExecLogger) Error(ctx context.Context, err error, tags map[string]string) {}

type ufSubLogger struct{}

func (ufSubLogger) Subscribe(ctx context.Context, id string, tags map[string]string) {
	if id == "p" {
		ufMaybe("subscription_logger")
	}
}
func (ufSubLogger) Unsubscribe(ctx context.Context, id string) {}

type ufCtxKey struct{}

// ufActive lists the placements of this run: the resolver placements, plus —
// only with C15_NONRESOLVER=1 — the non-deciding observations. Indices into
// ufPlacements are stable.
func ufActive() []int {
	var out []int
	for i, p := range ufPlacements {
		if !p.NonResolver {
			out = append(out, i)
		}
	}
	if os.Getenv("C15_NONRESOLVER") != "" {
		for i, p := range ufPlacements {
			if p.NonResolver {
				out = append(out, i)
			}
		}
	}
	return out
}

type PKeyed struct{ Name string }

func buildUFSchema() *graphql.Schema {
	s := schemabuilder.NewSchemaWithName("svc")
	s.Enum(PColor(1), map[string]PColor{"RED": 1, "BLUE": 2})
	items := func() []PItem {
		return []PItem{{Id: 1, Text: "a1", Num: 3}, {Id: 2, Text: "a2", Num: 1}, {Id: 3, Text: "b3", Num: 2}}
	}
	num := func(where string) func(i PItem) int64 {
		return func(i PItem) int64 { ufMaybe(where); return i.Num }
	}
	numCtx := func(where string) func(ctx context.Context, i PItem) int64 {
		return func(ctx context.Context, i PItem) int64 { ufMaybe(where); return i.Num }
	}
	numCtxErr := func(where string) func(ctx context.Context, i PItem) (int64, error) {
		return func(ctx context.Context, i PItem) (int64, error) { ufMaybe(where); return i.Num, nil }
	}
	txtCtxErr := func(where string) func(ctx context.Context, i PItem) (string, error) {
		return func(ctx context.Context, i PItem) (string, error) { ufMaybe(where); return i.Text, nil }
	}
	numBatch := func(where string) func(ctx context.Context, in map[batch.Index]PItem) (map[batch.Index]int64, error) {
		return func(ctx context.Context, in map[batch.Index]PItem) (map[batch.Index]int64, error) {
			ufMaybe(where)
			out := map[batch.Index]int64{}
			for k, v := range in {
				out[k] = v.Num
			}
			return out, nil
		}
	}
	txt := func(where string) func(i PItem) string {
		return func(i PItem) string { ufMaybe(where); return i.Text }
	}
	txtCtx := func(where string) func(ctx context.Context, i PItem) string {
		return func(ctx context.Context, i PItem) string { ufMaybe(where); return i.Text }
	}
	txtBatch := func(where string) func(ctx context.Context, in map[batch.Index]PItem) (map[batch.Index]string, error) {
		return func(ctx context.Context, in map[batch.Index]PItem) (map[batch.Index]string, error) {
			ufMaybe(where)
			out := map[batch.Index]string{}
			for k, v := range in {
				out[k] = v.Text
			}
			return out, nil
		}
	}
	flag := func(where string, v bool) func(context.Context) bool {
		return func(context.Context) bool { ufMaybe(where); return v }
	}
	q := s.Query()
	q.FieldFunc("ok", func() string { return "fine" })
	connOpts := []schemabuilder.FieldFuncOption{schemabuilder.Paginated,
		schemabuilder.SortField("sPlain", num("sort_plain")),
		schemabuilder.SortField("sCtx", numCtx("sort_ctx")),
		schemabuilder.SortField("sExp", numCtx("sort_expensive"), schemabuilder.Expensive),
		schemabuilder.SortField("sExp2", numCtx("sort_and_filter_expensive"), schemabuilder.Expensive),
		schemabuilder.BatchSortField("sBatch", numBatch("sort_batch")),
		schemabuilder.BatchSortFieldWithFallback("sFbBatch", numBatch("sort_fallback_batch_side"), numCtxErr("-"), flag("-", true)),
		schemabuilder.BatchSortFieldWithFallback("sFbPlain", numBatch("-"), numCtxErr("sort_fallback_plain_side"), flag("-", false)),
		schemabuilder.BatchSortFieldWithFallback("sFbFlag", numBatch("-"), numCtxErr("-"), flag("sort_fallback_flag", true)),
		schemabuilder.FilterField("fOk", txt("-")),
		schemabuilder.FilterField("fPlain", txt("filter_plain")),
		schemabuilder.FilterField("fCtx", txtCtx("filter_ctx")),
		schemabuilder.FilterField("fExp", txtCtx("filter_expensive"), schemabuilder.Expensive),
		schemabuilder.BatchFilterField("fBatch", txtBatch("filter_batch")),
		schemabuilder.BatchFilterField("fBatchAll", txtBatch("filter_all_fields")),
		schemabuilder.BatchFilterFieldWithFallback("fFbBatch", txtBatch("filter_fallback_batch_side"), txtCtxErr("-"), flag("-", true)),
		schemabuilder.BatchFilterFieldWithFallback("fFbPlain", txtBatch("-"), txtCtxErr("filter_fallback_plain_side"), flag("-", false)),
		schemabuilder.BatchFilterFieldWithFallback("fFbFlag", txtBatch("-"), txtCtxErr("-"), flag("filter_fallback_flag", true)),
		schemabuilder.FilterFunc("custom", func(search string) []string { ufMaybe("filterfunc_tokenize"); return strings.Fields(search) },
			func(field string, tokens []string) bool {
				ufMaybe("filterfunc_match")
				return len(tokens) > 0 && strings.HasPrefix(field, tokens[0])
			}),
	}
	q.FieldFunc("conn", func(ctx context.Context) ([]PItem, error) { ufMaybe("paginated_resolver"); return items(), nil }, connOpts...)
	q.FieldFunc("connExp", func(ctx context.Context) ([]PItem, error) {
		ufMaybe("paginated_resolver_expensive")
		return items(), nil
	},
		schemabuilder.Paginated, schemabuilder.Expensive)
	// externally managed pagination: the resolver pages by itself and asks thunder to apply the text filter
	q.FieldFunc("connManual", func(ctx context.Context, args struct {
		schemabuilder.PaginationArgs
		Additional string
	}) ([]PItem, schemabuilder.PaginationInfo, schemabuilder.PostProcessOptions, error) {
		ufMaybe("paginated_external_resolver")
		return items(), schemabuilder.PaginationInfo{TotalCountFunc: func() int64 { return 3 }}, schemabuilder.PostProcessOptions{ApplyTextFilter: true, SetPageInfo: true}, nil
	}, schemabuilder.Paginated, schemabuilder.FilterField("fManual", txtCtx("paginated_external_filter")))
	q.FieldFunc("pitems", func() []*PItem { return []*PItem{{Id: 1, Text: "a"}, {Id: 2, Text: "b"}, {Id: 3, Text: "c"}} })
	pi := s.Object("PItem", PItem{})
	pi.Key("id")
	strBatch := func(where string) func(ctx context.Context, in map[batch.Index]*PItem) (map[batch.Index]string, error) {
		return func(ctx context.Context, in map[batch.Index]*PItem) (map[batch.Index]string, error) {
			ufMaybe(where)
			out := map[batch.Index]string{}
			for k, v := range in {
				out[k] = v.Text
			}
			return out, nil
		}
	}
	strOne := func(where string) func(ctx context.Context, i *PItem) (*string, error) {
		return func(ctx context.Context, i *PItem) (*string, error) { ufMaybe(where); return &i.Text, nil }
	}
	pi.BatchFieldFunc("bf", strBatch("batch_field"))
	pi.BatchFieldFuncWithFallback("bffBatch", strBatch("batch_fallback_batch_side"), strOne("-"), schemabuilder.UseFallbackFlag(flag("-", true)))
	pi.BatchFieldFuncWithFallback("bffPlain", strBatch("-"), strOne("batch_fallback_plain_side"), schemabuilder.UseFallbackFlag(flag("-", false)))
	pi.BatchFieldFuncWithFallback("bffFlag", strBatch("-"), strOne("-"), schemabuilder.UseFallbackFlag(flag("batch_fallback_flag", false)))
	pi.BatchFieldFunc("par", strBatch("-"), schemabuilder.NumParallelInvocationsFunc(func(ctx context.Context, n int) int { ufMaybe("num_parallel_func"); return 2 }))

	keyed := s.Object("PKeyed", PKeyed{})
	keyed.FieldFunc("kid", func(k *PKeyed) string { ufMaybe("key_field"); return k.Name })
	keyed.Key("kid")
	q.FieldFunc("keyed", func() []*PKeyed { return []*PKeyed{{Name: "k1"}, {Name: "k2"}} })

	fu := s.Object("FUser", FUser{}, schemabuilder.FetchObjectFromKeys(func(args struct{ Keys []*FUser }) []*FUser {
		ufMaybe("fetch_object_from_keys")
		return args.Keys
	}))
	fu.Key("id")

	q.FieldFunc("argText", func(args struct{ A PArg }) string { return args.A.V })
	q.FieldFunc("argTexts", func(args struct{ As []PArg }) int64 { return int64(len(args.As)) })
	q.FieldFunc("resText", func() PText { return PText{S: "t"} })
	q.FieldFunc("resTexts", func() []PText { return []PText{{S: "t"}, {S: "u"}} })
	q.FieldFunc("badEnum", func() PColor {
		if st, _ := ufCurrent.Load().(*ufState); st != nil && st.place == "enum_value_outside_map" {
			atomic.AddInt64(&st.panics, 1) // not a panic: a hostile result; must be an error too
			return PColor(77)
		}
		return PColor(1)
	})
	s.Object("PText2", PText2{})
	q.FieldFunc("badUnion", func() *PUnion {
		if st, _ := ufCurrent.Load().(*ufState); st != nil && st.place == "union_two_members" {
			atomic.AddInt64(&st.panics, 1)
			return &PUnion{PItem: &PItem{Id: 1}, PText2: &PText2{S: "x"}}
		}
		return &PUnion{PItem: &PItem{Id: 1}}
	})
	s.Mutation().FieldFunc("pmut", func() bool { ufMaybe("mutation_resolver"); return true })
	return s.MustBuild()
}

type ufResult struct {
	I        int        `json:"i"`
	Place    string     `json:"place"`
	Outcomes []string   `json:"outcomes"`
	Panics   []panicRec `json:"panics,omitempty"`
	Hangs    []string   `json:"hangs,omitempty"`
	Stacks   []string   `json:"hang_stacks,omitempty"`
	Undec    []string   `json:"undecided,omitempty"`
	NoError  []string   `json:"no_error,omitempty"` // targets where the function panicked but the request reported no error
	Entered  int64      `json:"function_entered"`
	Leak     []string   `json:"leak,omitempty"`
	WSBroken []string   `json:"ws_broken,omitempty"`
}

// runUFCase drives one placement through the three entry points (child side).
func runUFCase(i int, schema *graphql.Schema) *ufResult {
	pl := ufPlacements[i]
	res := &ufResult{I: i, Place: pl.Name}
	st := &ufState{place: pl.Name}
	ufCurrent.Store(st)
	defer ufCurrent.Store((*ufState)(nil))
	activity := func() int64 { return atomic.LoadInt64(&st.entries) }
	guard := func(target string, act func() int64, f func()) bool {
		fmt.Println("TARGET", target)
		s, rec := callGuarded(target, act, 2*time.Second, 20*time.Second, 0, f)
		switch s {
		case callPanicked:
			res.Panics = append(res.Panics, *rec)
			res.Outcomes = append(res.Outcomes, target+":PANIC")
		case callHung:
			res.Hangs = append(res.Hangs, target)
			res.Stacks = append(res.Stacks, hangStacks()...)
			res.Outcomes = append(res.Outcomes, target+":HANG")
		case callUndecided:
			res.Undec = append(res.Undec, target)
		}
		return s == callReturned
	}
	entered := func() int64 { return atomic.LoadInt64(&st.panics) }
	ctx := context.Background()
	isMutation := strings.HasPrefix(pl.Query, "mutation")
	root := schema.Query
	if isMutation {
		root = schema.Mutation
	}

	// Execute (Parse, PrepareQuery, Execute), as every entry point does
	before := entered()
	var execErr error
	if !pl.WSOnly && pl.Name != "middleware" && guard("Execute", activity, func() {
		q, err := graphql.Parse(pl.Query, nil)
		if err == nil {
			err = graphql.PrepareQuery(ctx, root, q.SelectionSet)
		}
		if err == nil {
			var v interface{}
			v, err = graphql.NewExecutor(graphql.NewImmediateGoroutineScheduler()).Execute(batch.WithBatching(ctx), root, nil, q)
			if err == nil {
				_, err = json.Marshal(v)
			}
		}
		execErr = err
	}) {
		res.Outcomes = append(res.Outcomes, "execute:"+errOutcome(execErr))
		if entered() > before && execErr == nil {
			res.NoError = append(res.NoError, "Execute")
		}
	}
	if len(res.Hangs) > 0 {
		return res
	}

	// HTTP
	before = entered()
	var body string
	if !pl.WSOnly && guard("HTTPHandler.ServeHTTP", activity, func() {
		req := httptest.NewRequest("POST", "/graphql", strings.NewReader(`{"query":`+jsonString(pl.Query)+`,"variables":{}}`))
		rr := httptest.NewRecorder()
		graphql.HTTPHandler(schema, ufMiddleware).ServeHTTP(rr, req)
		body = rr.Body.String()
	}) {
		var b struct {
			Errors []string `json:"errors"`
		}
		hasErr := json.Unmarshal([]byte(body), &b) != nil || len(b.Errors) > 0
		res.Outcomes = append(res.Outcomes, "http:"+map[bool]string{true: "err", false: "ok"}[hasErr])
		if entered() > before && !hasErr {
			res.NoError = append(res.NoError, "HTTPHandler.ServeHTTP")
		}
		if strings.Contains(body, secretMarker) {
			// HTTP reports the raw error text by design (no sanitising): not judged here
			res.Outcomes = append(res.Outcomes, "http:raw_error_text")
		}
	}
	if len(res.Hangs) > 0 {
		return res
	}

	// websocket: a healthy subscription, then the request with the panicking function
	before = entered()
	sock := &chanSocket{in: make(chan string, 16)}
	wsAct := func() int64 { return activity() + atomic.LoadInt64(&sock.writes) }
	var closeOnce sync.Once
	typ := "subscribe"
	if isMutation {
		typ = "mutate"
	}
	wsCtx, wsCancel := context.WithCancel(ctx)
	defer wsCancel()
	sock.end.cancel = wsCancel
	if guard("ServeJSONSocket", wsAct, func() {
		pending := "p" // MakeCtx does not learn which request it serves: it panics for the first computation after p was sent
		var pSent int32
		conn := graphql.CreateConnection(wsCtx, sock, schema, graphql.WithMinRerunInterval(time.Millisecond),
			graphql.WithExecutionLogger(ufExecLogger{}), graphql.WithSubscriptionLogger(ufSubLogger{}),
			graphql.WithMakeCtx(func(ctx context.Context) context.Context {
				if atomic.LoadInt32(&pSent) == 1 && pending != "" {
					ufMaybe("make_ctx")
				}
				return context.WithValue(ctx, ufCtxKey{}, 1)
			}))
		conn.Use(ufMiddleware)
		served := make(chan struct{})
		var inner interface{}
		go func() {
			defer close(served)
			defer func() { inner = recover() }()
			conn.ServeJSONSocket()
		}()
		isServed := func() bool {
			select {
			case <-served:
				return true
			default:
				return false
			}
		}
		waitFor := func(what string, cond func() bool) bool {
			switch out, stacks := waitEntry(func() bool { return cond() || isServed() }, wsAct, "(*conn).ServeJSONSocket", 2*time.Second, 15*time.Second); out {
			case waitReached:
				if cond() {
					return true
				}
				if inner != nil {
					panic(inner) // ServeJSONSocket itself panicked (in a real server: on the connection's read loop, unrecovered)
				}
				res.WSBroken = append(res.WSBroken, "ServeJSONSocket returned before: "+what)
			case waitStuck:
				res.WSBroken = append(res.WSBroken, "connection went quiet before: "+what)
				res.Stacks = append(res.Stacks, stacks...)
			default:
				res.Undec = append(res.Undec, "ServeJSONSocket: "+what)
			}
			return false
		}
		count := func(id, t string) int { _, c, _, _ := sock.fold(id); return c[t] }
		sock.in <- subscribeFrame("h", "subscribe", `{ ok }`)
		ok := waitFor("healthy subscription h gets its first update", func() bool { return count("h", "update") >= 1 })
		if ok {
			atomic.StoreInt32(&pSent, 1)
			sock.in <- subscribeFrame("p", typ, pl.Query)
			ok = waitFor("request p gets an envelope", func() bool { return count("p", "error")+count("p", "update")+count("p", "result") >= 1 })
		}
		if ok {
			if entered() > before && count("p", "error") == 0 {
				res.NoError = append(res.NoError, "ServeJSONSocket")
			}
			sock.in <- `{"id":"ping","type":"echo"}`
			ok = waitFor("echo answered", func() bool { return count("ping", "echo") >= 1 })
		}
		if ok {
			sock.in <- subscribeFrame("h2", "subscribe", `{ ok pitems { id } }`)
			ok = waitFor("a new subscription h2 delivers data", func() bool { return count("h2", "update") >= 1 })
		}
		closeOnce.Do(func() { close(sock.in) })
		switch out, stacks := waitEntry(isServed, wsAct, "(*conn).ServeJSONSocket", 2*time.Second, 15*time.Second); out {
		case waitStuck:
			res.WSBroken = append(res.WSBroken, "ServeJSONSocket did not return after the socket closed")
			res.Stacks = append(res.Stacks, stacks...)
		case waitNoVerdict:
			res.Undec = append(res.Undec, "ServeJSONSocket: return after the socket closed")
		}
		if isServed() && inner != nil {
			panic(inner)
		}
		sock.mu.Lock()
		raw := strings.Join(sock.raw, "\n")
		sock.mu.Unlock()
		if strings.Contains(raw, secretMarker) {
			res.WSBroken = append(res.WSBroken, "panic details reached the websocket client")
		}
		if n := sock.end.excessReads(); n > 0 {
			res.WSBroken = append(res.WSBroken, fmt.Sprintf("the read loop kept reading after a permanent non-close read error (%d reads)", n))
		}
	}) {
		res.Outcomes = append(res.Outcomes, "ws:done")
	}
	closeOnce.Do(func() { close(sock.in) })
	res.Entered = entered()
	if left := vlib.WaitNoThunderGoroutines(100); len(left) > 0 {
		for _, g := range left {
			res.Leak = append(res.Leak, truncMiddle(g, 800, 1500))
		}
	}
	return res
}

func ufChild(list string) {
	schema := buildUFSchema()
	path := currentInputPath(os.Getenv("C15_TAG"))
	for _, is := range strings.Split(list, ",") {
		i, err := strconv.Atoi(is)
		if err != nil || i < 0 || i >= len(ufPlacements) {
			fmt.Println("CHILD-BROKEN bad placement index", is)
			os.Exit(3)
		}
		_ = os.WriteFile(path, []byte(fmt.Sprintf("monitor 5 placement %d %s\nquery: %s\n", i, ufPlacements[i].Name, ufPlacements[i].Query)), 0o644)
		fmt.Println("CASE", i, ufPlacements[i].Name)
		res := runUFCase(i, schema)
		b, _ := json.Marshal(res)
		fmt.Println("UFRES " + string(b))
		if spinning(res.Stacks) || len(res.Hangs) > 0 {
			fmt.Println("CHILD-RESTART")
			os.Exit(0)
		}
	}
	fmt.Println("BATCH-DONE")
}

// ---------------------------------------------------------------------------
// parent side

func runM5(run *vlib.Run) {
	active := ufActive()
	var mine []int
	section(run, offM5, len(active), 1, func(k int) { mine = append(mine, active[k]) })
	attempt := 0
	for len(mine) > 0 {
		strs := make([]string, len(mine))
		for i, k := range mine {
			strs[i] = strconv.Itoa(k)
		}
		tag := fmt.Sprintf("m5.%d.%d", mine[0], attempt)
		attempt++
		oc := runChild(tag, []string{"C15_CHILD=m5", "C15_LIST=" + strings.Join(strs, ",")}, 10*time.Minute)
		done := map[int]bool{}
		for _, r := range oc.uf {
			done[r.I] = true
			recordUF(run, r)
		}
		if oc.done {
			return
		}
		cur := oc.lastCase
		if cur < 0 {
			run.Broken(fmt.Sprintf("m5 child %s produced no case (err=%v, log %s)", tag, oc.err, oc.logPath))
			return
		}
		if !done[cur] {
			pl := ufPlacements[cur]
			switch {
			case pl.NonResolver:
				run.Count("m5:observation:"+pl.Name+":process_ended_in_"+oc.target, 1)
				run.Count("m5:observations_uncontained_panic_of_non_resolver_code", 1)
			case oc.timedOut || oc.crash == "":
				run.Case("m5|"+pl.Name+"|stopped", true)
				run.Inconclusive(fmt.Sprintf("m5 child %s stopped without a verdict at placement %s target %s (timeout=%v err=%v, log %s)", tag, pl.Name, oc.target, oc.timedOut, oc.err, oc.logPath))
			default:
				run.Case("m5|"+pl.Name+"|crash", true)
				run.Count("m5:placements", 1)
				run.Count("m5:fatal_crashes", 1)
				run.Violation(offM5+cur, "", map[string]interface{}{
					"monitor": "5 panics in resolver functions", "placement": pl.Name, "query": pl.Query, "what": "fatal crash of the process inside " + oc.target,
					"crash": vlib.Trunc(oc.crash, 5000), "top_thunder_frame": topThunderFrame(oc.crash),
					"expected": "the request fails with an error; the process, the connection and other subscriptions live on"})
			}
		}
		var rest []int
		seen := false
		for _, k := range mine {
			if seen {
				rest = append(rest, k)
			}
			if k == cur {
				seen = true
			}
		}
		mine = rest
	}
}

func recordUF(run *vlib.Run, r *ufResult) {
	pl := ufPlacements[r.I]
	if pl.NonResolver {
		// observation only: outside the property's statement
		for _, o := range r.Outcomes {
			run.Count("m5:observation:"+pl.Name+":"+o, 1)
		}
		if len(r.Panics)+len(r.Hangs)+len(r.WSBroken) > 0 {
			run.Count("m5:observations_uncontained_panic_of_non_resolver_code", 1)
		}
		return
	}
	run.Case("m5|"+pl.Name+"|"+strings.Join(r.Outcomes, ","), true)
	run.Count("m5:placements", 1)
	for _, o := range r.Outcomes {
		run.Count("m5:outcome:"+o, 1)
	}
	wit := func(what string) map[string]interface{} {
		return map[string]interface{}{"monitor": "5 panics in resolver functions", "placement": pl.Name, "query": pl.Query, "what": what, "outcomes": r.Outcomes,
			"function_entered": r.Entered, "expected": "the request fails with an error; the process, the connection and other subscriptions live on"}
	}
	for _, p := range r.Panics {
		w := wit("a panic escaped " + p.Target)
		w["panic"], w["top_thunder_frame"], w["stack"] = p.Value, p.TopFrame, p.Stack
		run.Violation(offM5+r.I, "", w)
	}
	for _, h := range r.Hangs {
		w := wit("call neither returned nor failed and the process went quiet: " + h)
		w["stacks"] = r.Stacks
		run.Violation(offM5+r.I, "", w)
	}
	for _, t := range r.NoError {
		run.Violation(offM5+r.I, "", wit("the user function panicked (or returned a hostile value) but "+t+" reported no error"))
	}
	for _, b := range r.WSBroken {
		run.Violation(offM5+r.I, "", wit("websocket connection not working after the panic: "+b))
	}
	if len(r.Leak) > 0 {
		w := wit(fmt.Sprintf("%d goroutine(s) with a thunder frame left after the three requests", len(r.Leak)))
		w["leaked_goroutines"] = r.Leak
		run.Violation(offM5+r.I, "", w)
	}
	for _, u := range r.Undec {
		run.Inconclusive(fmt.Sprintf("m5 placement %s: %s still busy at the hard deadline", pl.Name, u))
	}
	if r.Entered == 0 && len(r.Panics) == 0 && len(r.Hangs) == 0 {
		run.Inconclusive(fmt.Sprintf("m5 placement %s: the function was never entered", pl.Name))
	}
	if run.WantSample() && r.I%11 == 3 {
		run.Sample(map[string]interface{}{"monitor": 5, "placement": pl.Name, "query": pl.Query, "outcomes": r.Outcomes, "function_entered": r.Entered})
	}
}

var _ = errors.New
var _ http.Handler
