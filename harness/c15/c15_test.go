// Package c15 monitors property C15: untrusted input never crashes the
// server (monitor 1), resolver panics stay contained (monitor 3), cancelled
// requests return and leak no goroutine (monitor 4). The CPU-time ladders of
// monitor 2 live in package c15cpu (built without -race).
package c15

import (
	"fmt"
	"io"
	"log"
	"os"
	"strings"
	"sync"
	"testing"
	"time"

	"github.com/samsarahq/thunder/reactive"
	"github.com/samsarahq/thunder/verifharness/vlib"
)

// Case index space (what a replay file's "case" refers to).
const (
	offM1   = 0      // batch index of monitor 1
	offDeep = 100000 // deep input index
	offM3   = 200000 // containment scenario
	offM4   = 300000 // cancellation scenario
	offM5   = 400000 // user-function placement (monitor 5)
	m1Batch = 200    // cases per child process
	maxPar  = 6      // child processes in flight per shard
	deepPar = 4
)

// section runs f(k) for k in [0,n) as case indices off+k of this shard.
func section(run *vlib.Run, off, n, par int, f func(k int)) {
	run.Each(off+n, par, func(i int) {
		if i < off {
			return
		}
		f(i - off)
	})
}

func onlySection(run *vlib.Run, off int) bool {
	i, ok := run.Only()
	if !ok {
		return true
	}
	return i >= off && i < off+100000
}

func TestCheck(t *testing.T) {
	run := vlib.Start(t, "C15", "exploration")
	defer run.Finish()
	log.SetOutput(io.Discard)
	reactive.WriteThenReadDelay = time.Millisecond

	run.Rule("monitor 1 (no panic): documents from a grammar over the schema under test (zoo monolith or 2-service gateway) that is biased to syntactically valid GraphQL thunder does not support or mishandles " +
		"(subscriptions, inline fragments with and without type condition, directives everywhere incl. unknown, repeated, @skip/@include with missing / wrong-typed / variable `if`, variables in argument, directive and default positions, undefined variables, " +
		"type-system definitions, nested list/object literals, huge ints/floats, odd names, duplicate operation/fragment names, fragment cycles, unused and undefined fragments), 35% of them byte-mutated; " +
		"14% valid documents around one same-alias conflict below the root; 12% valid documents around one mergeable repeat (a response key selected 2-3 times with EQUAL arguments of every JSON shape - scalars, lists of scalars, input objects, lists of input objects, lists of lists - " +
		"given as literals, JSON variables or one of each, at the root or 1-3 fields below it, side by side or through inline / named fragments, optionally one copy differing deep inside the value); random JSON variable documents; HTTP bodies and websocket frames with wrong JSON types / missing fields; " +
		"each driven through Parse, PrepareQuery, Execute, HTTPHandler.ServeHTTP, ServeJSONSocket, federation.Executor.Execute and federation.Server.Execute in a child process. Non-trivial = thunder's conversion code was reached (Parse returned a *Query); distinct = feature set x outcome vector. " +
		"Deep inputs (fragment cycles, nesting 1e3..1e5, thorough up to 3e6) each run in a child of their own; non-trivial = any; distinct = input name. " +
		"monitor 3 (containment): scenario = (placement of the panicking resolver, panic value kind, subscribe/mutate, order) on one websocket connection with healthy subscriptions; all are non-trivial; distinct = scenario coordinates. " +
		"monitor 4 (cancellation, fault enumeration): scenario = (target entry point, cancellation point, resolver behaviour), incl. requests cancelled while a batch is gathering and websocket subscribe / mutate requests whose client goes away (unsubscribe, socket closed, connection context ended) while their resolver is running; all are non-trivial; distinct = scenario coordinates.")
	run.Assume("the fake JSONSocket decodes frames like gorilla/websocket's ReadJSON (json.Decoder.Decode into the server's envelope)")
	run.Assume("a panic recovered by the harness wrapper around a thunder entry point, or a fatal crash of the child process with a thunder frame, is a panic of thunder; resolvers of the zoo schema never panic in monitors 1 and 4")
	run.Assume("vlib.WaitCond's quiescence (no resolver entry, sub-query, socket write for 450 ms after a 2-3 s soft deadline) means stuck, not slow")

	zoo := buildZoo(nil)
	zooDesc := describe(zoo)
	gw, err := buildGateway(nil)
	if err != nil {
		run.Broken("cannot build gateway: " + err.Error())
		return
	}
	gwDesc := describe(gw.schemas["s1"], gw.schemas["s2"])
	gw.cancel()

	// Monitors 3 and 4 judge liveness in this process (stuck versus slow): they
	// run first, on a quiet process, before the child processes of monitor 1
	// load the machine.
	if os.Getenv("C15_SKIP_M3") == "" && onlySection(run, offM3) {
		runM3(run)
	}
	if os.Getenv("C15_SKIP_M4") == "" && onlySection(run, offM4) {
		runM4(run)
	}
	var wg sync.WaitGroup
	if os.Getenv("C15_SKIP_M5") == "" && onlySection(run, offM5) {
		wg.Add(1)
		go func() {
			defer wg.Done()
			runM5(run)
		}()
	}
	if os.Getenv("C15_SKIP_M1") == "" {
		wg.Add(1)
		go func() {
			defer wg.Done()
			// monitor 1, generated cases
			if onlySection(run, offM1) {
				n := run.N(2400, 120000)
				nb := (n + m1Batch - 1) / m1Batch
				section(run, offM1, nb, run.N(maxPar, 2), func(b int) { // thorough: the driver's shards provide the parallelism
					from, to := b*m1Batch, (b+1)*m1Batch
					if to > n {
						to = n
					}
					runM1Batch(run, offM1+b, from, to, zooDesc, gwDesc)
				})
			}
		}()
		wg.Add(1)
		go func() {
			defer wg.Done()
			// monitor 1, deep inputs: small ones share a child, deep ones get a process each
			if onlySection(run, offDeep) {
				ins := deepInputs(run.Thorough())
				var groups [][]int
				var shared []int
				for k, in := range ins {
					if in.Solo {
						groups = append(groups, []int{k})
					} else {
						shared = append(shared, k)
					}
				}
				groups = append([][]int{shared}, groups...)
				section(run, offDeep, len(groups), run.N(deepPar, 1), func(gi int) { runDeepGroup(run, gi, groups[gi], ins) })
			}
		}()
	}
	wg.Wait()
}

// runDeepGroup runs the deep inputs ks in one child, restarting after a
// crash so that every input gets its verdict.
func runDeepGroup(run *vlib.Run, gi int, ks []int, ins []deepInput) {
	attempt := 0
	for len(ks) > 0 {
		tag := fmt.Sprintf("deep%d.%d", gi, attempt)
		attempt++
		strs := make([]string, len(ks))
		for i, k := range ks {
			strs[i] = fmt.Sprint(k)
		}
		oc := runChild(tag, []string{"C15_CHILD=deep", "C15_DEEP=" + strings.Join(strs, ",")}, 6*time.Minute)
		doneIdx := map[int]bool{}
		for _, r := range oc.results {
			doneIdx[r.I] = true
			recordDeepResult(run, gi, ins[r.I], r, oc)
		}
		if oc.done {
			return
		}
		// the input that was running when the child stopped
		cur := oc.lastCase
		if cur < 0 || doneIdx[cur] && !oc.restart {
			run.Broken(fmt.Sprintf("deep child %s stopped outside a case (err=%v, log %s)", tag, oc.err, oc.logPath))
			return
		}
		if !doneIdx[cur] {
			recordDeepCrash(run, gi, ins[cur], oc)
		}
		var rest []int
		seen := false
		for _, k := range ks {
			if seen {
				rest = append(rest, k)
			}
			if k == cur {
				seen = true
			}
		}
		ks = rest
	}
}

func deepWitness(in deepInput, oc *childOutcome) map[string]interface{} {
	return map[string]interface{}{"monitor": "1 no-panic (deep input)", "input_name": in.Name, "how_to_regenerate": in.How,
		"query_bytes": len(in.Query), "query_head": vlib.Trunc(in.Query, 300), "variables_bytes": len(in.VarsJSON), "child_log": oc.logPath}
}

func recordDeepResult(run *vlib.Run, gi int, in deepInput, r *caseResult, oc *childOutcome) {
	run.Count("deep:inputs", 1)
	run.Case("deep|"+in.Name, true)
	for _, o := range r.Outcomes {
		run.Count("deep:outcome:"+o, 1)
	}
	for _, p := range r.Panics {
		w := deepWitness(in, oc)
		w["what"] = "a panic escaped " + p.Target
		w["panic"], w["top_thunder_frame"], w["stack"] = p.Value, p.TopFrame, p.Stack
		run.Violation(offDeep+gi, classifyPanic(in.Query, p.Value, p.TopFrame), w)
	}
	for _, h := range r.Hangs {
		w := deepWitness(in, oc)
		w["what"] = "call neither returned nor failed and the process went quiet: " + h
		w["stacks"] = r.HangStacks
		run.Violation(offDeep+gi, classifyHang(h, r.HangStacks), w)
	}
	for _, u := range r.Undecided {
		run.Inconclusive(fmt.Sprintf("deep input %s: %s still busy at the hard deadline", in.Name, u))
	}
}

func recordDeepCrash(run *vlib.Run, gi int, in deepInput, oc *childOutcome) {
	run.Count("deep:inputs", 1)
	run.Case("deep|"+in.Name+"|crash", true)
	if oc.crash != "" && !oc.timedOut {
		w := deepWitness(in, oc)
		w["what"] = "fatal crash of the process inside " + oc.target
		w["crash"] = vlib.Trunc(oc.crash, 3000)
		w["top_thunder_frame"] = topThunderFrame(oc.crash)
		w["expected"] = "the call returns an error or a value"
		class := classifyPanic(in.Query, oc.crash, topThunderFrame(oc.crash))
		if strings.Contains(oc.crash, "stack overflow") || strings.Contains(oc.crash, "goroutine stack exceeds") {
			w["kind"] = "stack overflow"
			class = classifyOverflow(in, oc)
		}
		run.Count("deep:fatal_crashes", 1)
		run.Violation(offDeep+gi, class, w)
		return
	}
	run.Inconclusive(fmt.Sprintf("deep input %s: child stopped without a verdict (timeout=%v err=%v target=%s log=%s)", in.Name, oc.timedOut, oc.err, oc.target, oc.logPath))
}

// classifyOverflow: a stack overflow of the recursive-descent parse on an
// input whose only remarkable feature is its nesting depth.
func classifyOverflow(in deepInput, oc *childOutcome) string {
	if strings.HasPrefix(in.Name, "nest_") && strings.HasPrefix(oc.target, "Parse") &&
		(strings.Contains(oc.crash, "graphql/language/parser.parse") || strings.Contains(oc.crash, "thunder/graphql.parseSelectionSet") || strings.Contains(oc.crash, "thunder/graphql.valueToJson")) {
		return "parse-deep-nesting-stack-overflow"
	}
	return ""
}
