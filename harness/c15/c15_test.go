// Package c15 monitors property C15: untrusted input never crashes the
// server (monitor 1), resolver panics stay contained (monitor 3), cancelled
// requests return and leak no goroutine (monitor 4). The CPU-time ladders of
// monitor 2 live in package c15cpu (built without -race).
package c15

import (
	"fmt"
	"io"
	"log"
	"os"
	"strings"
	"sync"
	"testing"
	"time"

	"github.com/samsarahq/thunder/reactive"
	"github.com/samsarahq/thunder/verifharness/vlib"
)

// Case index space (what a replay file's "case" refers to).
const (
	offM1   = 0      // batch index of monitor 1
	offDeep = 100000 // deep input index
	offM3   = 200000 // containment scenario
	offM4   = 300000 // cancellation scenario
	m1Batch = 200    // cases per child process
	maxPar  = 6      // child processes in flight per shard
	deepPar = 4
)

// section runs f(k) for k in [0,n) as case indices off+k of this shard.
func section(run *vlib.Run, off, n, par int, f func(k int)) {
	run.Each(off+n, par, func(i int) {
		if i < off {
			return
		}
		f(i - off)
	})
}

func onlySection(run *vlib.Run, off int) bool {
	i, ok := run.Only()
	if !ok {
		return true
	}
	return i >= off && i < off+100000
}

func TestCheck(t *testing.T) {
	run := vlib.Start(t, "C15", "exploration")
	defer run.Finish()
	log.SetOutput(io.Discard)
	reactive.WriteThenReadDelay = time.Millisecond

	run.Rule("monitor 1 (no panic): documents from a grammar over the schema under test (zoo monolith or 2-service gateway) that is biased to syntactically valid GraphQL thunder does not support or mishandles " +
		"(subscriptions, inline fragments with and without type condition, directives everywhere incl. unknown, repeated, @skip/@include with missing / wrong-typed / variable `if`, variables in argument, directive and default positions, undefined variables, " +
		"type-system definitions, nested list/object literals, huge ints/floats, odd names, duplicate operation/fragment names, fragment cycles, unused and undefined fragments), 35% of them byte-mutated; random JSON variable documents; HTTP bodies and websocket frames with wrong JSON types / missing fields; " +
		"each driven through Parse, PrepareQuery, Execute, HTTPHandler.ServeHTTP, ServeJSONSocket, federation.Executor.Execute and federation.Server.Execute in a child process. Non-trivial = thunder's conversion code was reached (Parse returned a *Query); distinct = feature set x outcome vector. " +
		"Deep inputs (fragment cycles, nesting 1e3..1e5, thorough up to 3e6) each run in a child of their own; non-trivial = any; distinct = input name. " +
		"monitor 3 (containment): scenario = (placement of the panicking resolver, panic value kind, subscribe/mutate, order) on one websocket connection with healthy subscriptions; all are non-trivial; distinct = scenario coordinates. " +
		"monitor 4 (cancellation, fault enumeration): scenario = (target entry point, cancellation point, resolver behaviour); all are non-trivial; distinct = scenario coordinates.")
	run.Assume("the fake JSONSocket decodes frames like gorilla/websocket's ReadJSON (json.Decoder.Decode into the server's envelope)")
	run.Assume("a panic recovered by the harness wrapper around a thunder entry point, or a fatal crash of the child process with a thunder frame, is a panic of thunder; resolvers of the zoo schema never panic in monitors 1 and 4")
	run.Assume("vlib.WaitCond's quiescence (no resolver entry, sub-query, socket write for 450 ms after a 2-3 s soft deadline) means stuck, not slow")

	zoo := buildZoo(nil)
	zooDesc := describe(zoo)
	gw, err := buildGateway(nil)
	if err != nil {
		run.Broken("cannot build gateway: " + err.Error())
		return
	}
	gwDesc := describe(gw.schemas["s1"], gw.schemas["s2"])
	gw.cancel()

	var wg sync.WaitGroup
	if os.Getenv("C15_SKIP_M1") == "" {
		wg.Add(1)
		go func() {
			defer wg.Done()
			// monitor 1, generated cases
			if onlySection(run, offM1) {
				n := run.N(2400, 120000)
				nb := (n + m1Batch - 1) / m1Batch
				section(run, offM1, nb, maxPar, func(b int) {
					from, to := b*m1Batch, (b+1)*m1Batch
					if to > n {
						to = n
					}
					runM1Batch(run, offM1+b, from, to, zooDesc, gwDesc)
				})
			}
			// monitor 1, deep inputs
			if onlySection(run, offDeep) {
				ins := deepInputs(run.Thorough())
				section(run, offDeep, len(ins), deepPar, func(k int) { runDeep(run, k, ins[k]) })
			}
		}()
	}
	if os.Getenv("C15_SKIP_M3") == "" && onlySection(run, offM3) {
		runM3(run)
	}
	if os.Getenv("C15_SKIP_M4") == "" && onlySection(run, offM4) {
		runM4(run)
	}
	wg.Wait()
}

// runDeep runs one stack-overflow-prone input in its own child.
func runDeep(run *vlib.Run, k int, in deepInput) {
	tag := fmt.Sprintf("deep%d", k)
	oc := runChild(tag, []string{"C15_CHILD=deep", fmt.Sprintf("C15_DEEP=%d", k)}, 5*time.Minute)
	run.Count("deep:inputs", 1)
	wit := func() map[string]interface{} {
		return map[string]interface{}{"monitor": "1 no-panic (deep input in its own process)", "input_name": in.Name, "how_to_regenerate": in.How,
			"query_bytes": len(in.Query), "query_head": vlib.Trunc(in.Query, 300), "variables_bytes": len(in.VarsJSON), "child_log": oc.logPath}
	}
	if oc.done && len(oc.results) == 1 {
		r := oc.results[0]
		run.Case("deep|"+in.Name, true)
		for _, o := range r.Outcomes {
			run.Count("deep:outcome:"+o, 1)
		}
		for _, p := range r.Panics {
			w := wit()
			w["what"] = "a panic escaped " + p.Target
			w["panic"], w["top_thunder_frame"], w["stack"] = p.Value, p.TopFrame, p.Stack
			run.Violation(offDeep+k, classifyPanic(in.Query, p.Value, p.TopFrame), w)
		}
		for _, h := range r.Hangs {
			w := wit()
			w["what"] = "call neither returned nor failed and the process went quiet: " + h
			w["stacks"] = r.HangStacks
			run.Violation(offDeep+k, "", w)
		}
		for _, u := range r.Undecided {
			run.Inconclusive(fmt.Sprintf("deep input %s: %s still busy at the hard deadline", in.Name, u))
		}
		return
	}
	run.Case("deep|"+in.Name+"|crash", true)
	if oc.crash != "" && !oc.timedOut {
		w := wit()
		w["what"] = "fatal crash of the process inside " + oc.target
		w["crash"] = vlib.Trunc(oc.crash, 3000)
		w["top_thunder_frame"] = topThunderFrame(oc.crash)
		w["expected"] = "the call returns an error or a value"
		class := ""
		if strings.Contains(oc.crash, "stack overflow") || strings.Contains(oc.crash, "goroutine stack exceeds") {
			w["kind"] = "stack overflow"
			class = classifyOverflow(in, oc)
		}
		run.Violation(offDeep+k, class, w)
		return
	}
	run.Inconclusive(fmt.Sprintf("deep input %s: child stopped without a verdict (timeout=%v err=%v target=%s log=%s)", in.Name, oc.timedOut, oc.err, oc.target, oc.logPath))
}

// classifyOverflow names nothing yet: every stack overflow is unclassified.
func classifyOverflow(in deepInput, oc *childOutcome) string { return "" }
