package c15

import (
	"context"
	"encoding/json"
	"fmt"
	"math/rand"
	"os"
	"sort"
	"strconv"
	"strings"
	"testing"

	"github.com/samsarahq/thunder/batch"
	"github.com/samsarahq/thunder/graphql"
)

// ---------------------------------------------------------------------------
// Mergeable repeats: one response key selected several times with the SAME
// arguments.
//
// GraphQL allows a client to select a field more than once under one response
// key as long as name and arguments agree; the server merges the selection
// sets. thunder decides "agree" by comparing the decoded argument values of
// the copies - in Parse (top level), in Flatten (every level, during
// execution) and in the gateway's normaliser. The hostile grammar and the
// alias-conflict family only ever produce copies whose arguments DIFFER or are
// scalars; this family drives the comparison with EQUAL arguments of every
// JSON shape a client can send:
//
//	shape    scalar, enum, list of scalars, input object, list of input
//	         objects, list of lists, objects holding such lists; declared
//	         arguments of the schema (valid: execution is reached) and an
//	         undeclared argument of arbitrary shape (Parse's top-level check)
//	origin   literal in the document, a JSON variable, or one copy each
//	         (equal as values, not as text: object fields and arguments in
//	         another order, other separators)
//	level    at the query root (Parse) or 1..3 fields below it (Flatten), also
//	         under a union member
//	wrapper  copies side by side, through inline fragments, named fragments,
//	         nested inline fragments
//	copies   2 or 3; optionally the copies' own selection sets repeat a field
//	         again (merged only after the outer copies were merged)
//	differ   optionally one copy differs from the others deep inside the value
//	         (a scalar, a list's length, an element's shape, a missing key):
//	         a legitimate "different arguments" refusal, never a panic

// enumLit is an enum value: bare name in a document, string in JSON.
type enumLit string

type repeatArg struct {
	name   string
	typ    graphql.Type // nil for an undeclared argument
	val    interface{}
	varNam string // "" = never sent through a variable
}

type repeatBuilder struct {
	*conflictBuilder
	varDefs []string
	nvar    int
}

// tree generates a value fitting t: float64, string, bool, enumLit,
// []interface{} or map[string]interface{} (what valueToJson / encoding/json
// produce).
func (b *repeatBuilder) tree(t graphql.Type, depth int) interface{} {
	r := b.g.r
	switch x := t.(type) {
	case *graphql.NonNull:
		return b.tree(x.Type, depth)
	case *graphql.List:
		k := 1 + r.Intn(3)
		if r.Intn(100) < 8 {
			k = 0
		}
		out := make([]interface{}, k)
		for i := range out {
			out[i] = b.tree(x.Type, depth-1)
		}
		return out
	case *graphql.InputObject:
		names := make([]string, 0, len(x.InputFields))
		for n := range x.InputFields {
			names = append(names, n)
		}
		sort.Strings(names)
		out := map[string]interface{}{}
		for _, n := range names {
			_, required := x.InputFields[n].(*graphql.NonNull)
			if required || depth > 0 && r.Intn(100) < 70 {
				out[n] = b.tree(x.InputFields[n], depth-1)
			}
		}
		return out
	case *graphql.Enum:
		if len(x.Values) > 0 {
			return enumLit(x.Values[r.Intn(len(x.Values))])
		}
		return enumLit("NOPE")
	case *graphql.Scalar:
		switch {
		case strings.HasPrefix(x.Type, "uint"):
			return float64(r.Intn(200))
		case strings.HasPrefix(x.Type, "int"):
			return float64(r.Intn(200) - 20)
		case strings.HasPrefix(x.Type, "float"):
			if r.Intn(2) == 0 {
				return float64(r.Intn(50))
			}
			return float64(r.Intn(4000)) / 16
		case x.Type == "bool":
			return r.Intn(2) == 0
		case x.Type == "Time":
			return "2020-01-02T03:04:05Z"
		case x.Type == "bytes":
			return []string{"MQ==", "", "QUJD"}[r.Intn(3)]
		default:
			return []string{"a", "x y", "item1", "", "id"}[r.Intn(5)]
		}
	}
	return b.anyTree(2, false)
}

// anyTree generates a value of arbitrary shape; composite forces a list or an
// object at the top.
func (b *repeatBuilder) anyTree(depth int, composite bool) interface{} {
	r := b.g.r
	roll := r.Intn(10)
	if composite {
		roll = 5 + r.Intn(5)
	} else if depth <= 0 {
		roll = r.Intn(5)
	}
	switch roll {
	case 0:
		return float64(r.Intn(100) - 10)
	case 1:
		return float64(r.Intn(1000)) / 8
	case 2:
		return []string{"a", "", "x y"}[r.Intn(3)]
	case 3:
		return r.Intn(2) == 0
	case 4:
		return enumLit([]string{"ALPHA", "BETA", "asc"}[r.Intn(3)])
	case 5, 6: // homogeneous list: elements of one shape (objects, lists, scalars)
		k := 1 + r.Intn(3)
		out := make([]interface{}, k)
		switch r.Intn(3) {
		case 0:
			for i := range out {
				out[i] = b.anyObject(depth - 1)
			}
		case 1:
			for i := range out {
				out[i] = b.anyTree(depth-1, true)
			}
		default:
			for i := range out {
				out[i] = b.anyTree(0, false)
			}
		}
		return out
	case 7: // heterogeneous list
		k := r.Intn(4)
		out := make([]interface{}, k)
		for i := range out {
			out[i] = b.anyTree(depth-1, false)
		}
		return out
	default:
		return b.anyObject(depth - 1)
	}
}

func (b *repeatBuilder) anyObject(depth int) interface{} {
	r := b.g.r
	out := map[string]interface{}{}
	for _, n := range []string{"a", "b", "kind", "lo"} {
		if r.Intn(100) < 50 {
			out[n] = b.anyTree(depth, false)
		}
	}
	return out
}

// lit renders v as a GraphQL literal; object fields in sorted, reverse or
// shuffled order (equal as a value, different as text).
func (b *repeatBuilder) lit(v interface{}, order int) string {
	switch x := v.(type) {
	case float64:
		if x == float64(int64(x)) {
			return strconv.FormatInt(int64(x), 10)
		}
		return strconv.FormatFloat(x, 'f', -1, 64)
	case string:
		return `"` + x + `"`
	case bool:
		return strconv.FormatBool(x)
	case enumLit:
		return string(x)
	case []interface{}:
		parts := make([]string, len(x))
		for i, e := range x {
			parts[i] = b.lit(e, order)
		}
		return "[" + strings.Join(parts, []string{", ", " ", ","}[order%3]) + "]"
	case map[string]interface{}:
		names := make([]string, 0, len(x))
		for n := range x {
			names = append(names, n)
		}
		sort.Strings(names)
		switch order % 3 {
		case 1:
			for i, j := 0, len(names)-1; i < j; i, j = i+1, j-1 {
				names[i], names[j] = names[j], names[i]
			}
		case 2:
			b.g.r.Shuffle(len(names), func(i, j int) { names[i], names[j] = names[j], names[i] })
		}
		parts := make([]string, len(names))
		for i, n := range names {
			parts[i] = n + ": " + b.lit(x[n], order)
		}
		return "{" + strings.Join(parts, []string{", ", " "}[order%2]) + "}"
	}
	return "null"
}

func jsonForm(v interface{}) interface{} {
	switch x := v.(type) {
	case enumLit:
		return string(x)
	case []interface{}:
		out := make([]interface{}, len(x))
		for i, e := range x {
			out[i] = jsonForm(e)
		}
		return out
	case map[string]interface{}:
		out := make(map[string]interface{}, len(x))
		for k, e := range x {
			out[k] = jsonForm(e)
		}
		return out
	}
	return v
}

func copyTree(v interface{}) interface{} {
	switch x := v.(type) {
	case []interface{}:
		out := make([]interface{}, len(x))
		for i, e := range x {
			out[i] = copyTree(e)
		}
		return out
	case map[string]interface{}:
		out := make(map[string]interface{}, len(x))
		for k, e := range x {
			out[k] = copyTree(e)
		}
		return out
	}
	return v
}

// shapeOf names the JSON shape of an argument value (feature histogram).
func shapeOf(v interface{}) string {
	switch x := v.(type) {
	case []interface{}:
		if len(x) == 0 {
			return "empty_list"
		}
		objs, lists := 0, 0
		for _, e := range x {
			switch e.(type) {
			case map[string]interface{}:
				objs++
			case []interface{}:
				lists++
			}
		}
		switch {
		case objs == len(x):
			return "list_of_objects"
		case lists == len(x):
			return "list_of_lists"
		case objs+lists > 0:
			return "list_mixed"
		}
		return "list_of_scalars"
	case map[string]interface{}:
		for _, e := range x {
			if s := shapeOf(e); s == "list_of_objects" || s == "list_of_lists" || s == "list_mixed" {
				return "object_holding_composite_list"
			}
		}
		return "object"
	case enumLit:
		return "enum"
	}
	return "scalar"
}

// differ returns a copy of v that differs from it somewhere inside, or false
// when v offers no place for the chosen kind of difference.
func (b *repeatBuilder) differ(v interface{}, kind int) (interface{}, bool) {
	r := b.g.r
	switch x := v.(type) {
	case []interface{}:
		if len(x) == 0 {
			return []interface{}{float64(1)}, true
		}
		out := copyTree(x).([]interface{})
		i := r.Intn(len(x))
		switch kind {
		case 1: // another length
			return out[:len(out)-1], true
		case 2: // an element of another shape
			switch out[i].(type) {
			case map[string]interface{}:
				out[i] = []interface{}{out[i]}
			case []interface{}:
				out[i] = map[string]interface{}{"a": out[i]}
			default:
				out[i] = []interface{}{out[i]}
			}
			return out, true
		}
		if d, ok := b.differ(out[i], kind); ok {
			out[i] = d
			return out, true
		}
		return nil, false
	case map[string]interface{}:
		if len(x) == 0 {
			return map[string]interface{}{"a": float64(1)}, true
		}
		names := make([]string, 0, len(x))
		for n := range x {
			names = append(names, n)
		}
		sort.Strings(names)
		out := copyTree(x).(map[string]interface{})
		n := names[r.Intn(len(names))]
		if kind == 3 { // a missing key
			delete(out, n)
			return out, true
		}
		if d, ok := b.differ(out[n], kind); ok {
			out[n] = d
			return out, true
		}
		return nil, false
	case float64:
		return x + 1, true
	case string:
		return x + "z", true
	case bool:
		return !x, true
	case enumLit:
		return enumLit(string(x) + "X"), true
	}
	return nil, false
}

func isComposite(t graphql.Type) bool {
	if nn, ok := t.(*graphql.NonNull); ok {
		t = nn.Type
	}
	switch t.(type) {
	case *graphql.List, *graphql.InputObject:
		return true
	}
	return false
}

// argWeight: 1 for a field without arguments, 3 with scalar arguments only,
// 12 with a composite (list / input object) argument.
func (b *repeatBuilder) argWeight(f *fieldDesc) int {
	w := 1
	for _, a := range f.Args {
		if isComposite(a.Type) {
			return 12
		}
		w = 3
	}
	return w
}

// typeWeight is the best argWeight among the fields of typ (of its members
// for a union): how much a walk gains by going there.
func (b *repeatBuilder) typeWeight(typ string) int {
	td := b.g.d.Types[typ]
	if td == nil {
		return 1
	}
	best := 1
	if td.Union {
		for _, m := range td.Members {
			if w := b.typeWeight(m); w > best {
				best = w
			}
		}
		return best
	}
	objs, leaves := b.usableFields(typ)
	for _, f := range append(append([]*fieldDesc{}, objs...), leaves...) {
		if w := b.argWeight(f); w > best {
			best = w
		}
	}
	return best
}

// pickField chooses the field to repeat on typ: fields with composite
// arguments are preferred, then fields with any argument.
func (b *repeatBuilder) pickField(typ string) *fieldDesc {
	objs, leaves := b.usableFields(typ)
	var pool []*fieldDesc
	for _, f := range append(append([]*fieldDesc{}, objs...), leaves...) {
		w := b.argWeight(f)
		for k := 0; k < w; k++ {
			pool = append(pool, f)
		}
	}
	if len(pool) == 0 {
		return nil
	}
	return pool[b.g.r.Intn(len(pool))]
}

// arguments decides the (equal) argument values of the copies of f.
func (b *repeatBuilder) arguments(f *fieldDesc, allowUnknown bool) []*repeatArg {
	r := b.g.r
	var args []*repeatArg
	for _, a := range f.Args {
		_, required := a.Type.(*graphql.NonNull)
		pct := 35
		if isComposite(a.Type) {
			pct = 60
		}
		if required || r.Intn(100) < pct {
			args = append(args, &repeatArg{name: a.Name, typ: a.Type, val: b.tree(a.Type, 3)})
		}
	}
	if len(args) == 0 && len(f.Args) > 0 && r.Intn(100) < 85 {
		a := f.Args[r.Intn(len(f.Args))]
		for k := 0; k < 3 && !isComposite(a.Type); k++ {
			a = f.Args[r.Intn(len(f.Args))]
		}
		args = append(args, &repeatArg{name: a.Name, typ: a.Type, val: b.tree(a.Type, 3)})
	}
	if allowUnknown && r.Intn(100) < 20 {
		b.feat("repeat:undeclared_arg")
		args = append(args, &repeatArg{name: []string{"where", "matrix", "opts"}[r.Intn(3)], val: b.anyTree(3, true)})
	}
	for _, a := range args {
		b.feat("repeat:arg_" + shapeOf(a.val))
		if r.Intn(100) < 30 {
			a.varNam = fmt.Sprintf("rv%d", b.nvar)
			b.nvar++
			typ := "[Int]"
			if a.typ != nil {
				typ = a.typ.String()
			}
			b.varDefs = append(b.varDefs, "$"+a.varNam+": "+typ)
			js, _ := json.Marshal(jsonForm(a.val))
			b.g.fixedVars = append(b.g.fixedVars, [2]string{a.varNam, string(js)})
			b.g.vars = append(b.g.vars, a.varNam)
		}
	}
	if len(args) == 0 {
		b.feat("repeat:no_args")
	}
	return args
}

// render writes one copy's argument list. differAt >= 0: that argument is
// replaced by the value `other`.
func (b *repeatBuilder) render(args []*repeatArg, differAt int, other interface{}) string {
	r := b.g.r
	if len(args) == 0 {
		return ""
	}
	idx := r.Perm(len(args))
	if r.Intn(2) == 0 {
		sort.Ints(idx)
	}
	parts := make([]string, 0, len(args))
	for _, i := range idx {
		a := args[i]
		switch {
		case i == differAt:
			parts = append(parts, a.name+": "+b.lit(other, r.Intn(6)))
		case a.varNam != "" && r.Intn(100) < 60:
			b.feat("repeat:arg_from_variable")
			parts = append(parts, a.name+": $"+a.varNam)
		default:
			if a.varNam != "" {
				b.feat("repeat:variable_and_literal_copies")
			}
			parts = append(parts, a.name+": "+b.lit(a.val, r.Intn(6)))
		}
	}
	return "(" + strings.Join(parts, []string{", ", " ", ","}[r.Intn(3)]) + ")"
}

// members builds the copies of one repeated selection on typ.
func (b *repeatBuilder) members(typ string, atRoot bool, nest int) ([]string, bool) {
	r := b.g.r
	f := b.pickField(typ)
	if f == nil {
		return nil, false
	}
	key := f.Name
	if r.Intn(100) < 50 {
		key = []string{"x", "a", "r", "id", "name"}[r.Intn(5)]
	}
	args := b.arguments(f, atRoot || r.Intn(100) < 15)
	n := 2
	if r.Intn(100) < 30 {
		n = 3
	}
	b.feat(fmt.Sprintf("repeat:copies_%d", n))
	differCopy, differAt := -1, -1
	var other interface{}
	if len(args) > 0 && r.Intn(100) < 20 {
		differAt = r.Intn(len(args))
		kind := r.Intn(4)
		if o, ok := b.differ(args[differAt].val, kind); ok {
			other, differCopy = o, r.Intn(n)
			b.feat([]string{"repeat:one_copy_differs_in_a_scalar", "repeat:one_copy_differs_in_a_list_length", "repeat:one_copy_differs_in_an_element_shape", "repeat:one_copy_differs_in_a_missing_key"}[kind])
		} else {
			differAt = -1
		}
	}
	// the copies' own selection sets; optionally they repeat a field again
	var inner []string
	if f.Type != "" && nest > 0 && r.Intn(100) < 30 {
		if td := b.g.d.Types[f.Type]; td != nil && !td.Union {
			if in, ok := b.members(f.Type, false, nest-1); ok {
				inner = in
				b.feat("repeat:nested_repeat")
			}
		}
	}
	out := make([]string, n)
	for c := 0; c < n; c++ {
		s := f.Name
		if key != f.Name {
			s = key + ": " + f.Name
		}
		if c == differCopy {
			s += b.render(args, differAt, other)
		} else {
			s += b.render(args, -1, nil)
		}
		if f.Type != "" {
			sub := b.leafSet(f.Type)
			if len(inner) > 0 {
				sub = "{ " + inner[c%len(inner)] + " " + strings.TrimPrefix(sub, "{ ")
			}
			s += " " + sub
		}
		out[c] = s
	}
	return out, true
}

// repeatDoc returns an otherwise valid document around one mergeable repeat.
func repeatDoc(g *qgen) (string, bool) {
	sub := &qgen{r: g.r, d: g.d, feats: g.feats, usedVars: map[string]bool{}, budget: 1000, on: map[string]bool{}, curFrag: -1}
	b := &repeatBuilder{conflictBuilder: &conflictBuilder{g: sub, ns: "repeat"}}
	r := g.r

	depth := r.Intn(4) // 0: the copies sit at the query root
	cur := g.d.Query
	var opens []string
	for step := 0; step < depth; step++ {
		objs, _ := b.usableFields(cur)
		if len(objs) == 0 {
			break
		}
		var pool []*fieldDesc // towards types whose fields take (composite) arguments
		for _, f := range objs {
			for k := b.typeWeight(f.Type); k > 0; k -= 3 {
				pool = append(pool, f)
			}
		}
		f := pool[r.Intn(len(pool))]
		opens = append(opens, f.Name+b.g.args(f)+" {")
		next := f.Type
		if td := g.d.Types[next]; td != nil && td.Union {
			if len(td.Members) == 0 {
				return "", false
			}
			m := td.Members[r.Intn(len(td.Members))]
			for k := 0; k < 3 && b.typeWeight(m) < b.typeWeight(next); k++ {
				m = td.Members[r.Intn(len(td.Members))]
			}
			b.feat("repeat:under_union_member_fragment")
			opens = append(opens, "... on "+m+" {")
			next = m
		}
		cur = next
	}
	ms, ok := b.members(cur, cur == g.d.Query, 1)
	if !ok {
		return "", false
	}
	if cur == g.d.Query {
		b.feat("repeat:at_root")
	} else {
		b.feat(fmt.Sprintf("repeat:depth_%d", len(opens)))
	}
	parts := make([]string, len(ms))
	for i, m := range ms {
		parts[i] = b.wrap(m, cur, r.Intn(4))
	}
	body := strings.Join(parts, " ")
	if strings.HasPrefix(parts[0], "...CF") && r.Intn(100) < 30 {
		b.feat("repeat:named_fragment_reused")
		body += " " + parts[0]
	}
	op := ""
	if len(b.varDefs) > 0 {
		op = "query Q(" + strings.Join(b.varDefs, ", ") + ") "
	} else if r.Intn(100) < 40 {
		op = "query Q "
	}
	g.fixedVars, g.vars = sub.fixedVars, append(g.vars, sub.vars...)
	doc := op + "{ " + strings.Join(opens, " ") + " " + body + strings.Repeat(" }", len(opens)) + " }"
	if len(b.defs) > 0 {
		doc += "\n" + strings.Join(b.defs, "\n")
	}
	return doc, true
}

// TestRepeatFamily (not run by the driver) prints what the family generates
// and how far thunder lets each document get: C15_REPEAT_DUMP=1 go test -run TestRepeatFamily.
func TestRepeatFamily(t *testing.T) {
	if os.Getenv("C15_REPEAT_DUMP") == "" {
		t.Skip("set C15_REPEAT_DUMP=1")
	}
	zoo := buildZoo(nil)
	zooDesc := describe(zoo)
	gw, err := buildGateway(nil)
	if err != nil {
		t.Fatal(err)
	}
	defer gw.cancel()
	gwDesc := describe(gw.schemas["s1"], gw.schemas["s2"])
	stats := map[string]int{}
	shown := 0
	for i := 100; i < 2500; i++ {
		c := genCase(rand.New(rand.NewSource(int64(i))), i, zooDesc, gwDesc)
		rep := false
		for _, f := range c.Feats {
			if strings.HasPrefix(f, "repeat:") {
				rep = true
				stats[f]++
			}
		}
		if !rep {
			continue
		}
		stats["cases"]++
		schema := zoo
		if c.Schema == "gw" {
			schema = gw.schemas["s1"]
		}
		q, err := graphql.Parse(c.Query, c.Vars)
		stage := "parse_err"
		if err == nil {
			stage = "prepare_err"
			if err = graphql.PrepareQuery(context.Background(), schema.Query, q.SelectionSet); err == nil {
				stage = "execute_err"
				ex := graphql.NewExecutor(graphql.NewImmediateGoroutineScheduler())
				if _, err = ex.Execute(batch.WithBatching(context.Background()), schema.Query, nil, q); err == nil {
					stage = "ok"
				}
			}
		}
		stats["stage:"+stage]++
		if shown < 40 {
			shown++
			fmt.Printf("--- %d %s [%s] %v\n%s\nvars %s\n", i, c.Schema, stage, err, c.Query, c.VarsJSON)
		}
	}
	keys := make([]string, 0, len(stats))
	for k := range stats {
		keys = append(keys, k)
	}
	sort.Strings(keys)
	for _, k := range keys {
		fmt.Println(k, stats[k])
	}
}
