package c15

import (
	"context"
	"errors"
	"fmt"
	"sync"
	"sync/atomic"
	"time"

	"github.com/samsarahq/thunder/graphql"
	"github.com/samsarahq/thunder/graphql/schemabuilder"
	"github.com/samsarahq/thunder/verifharness/vlib"
)

// ---------------------------------------------------------------------------
// Monitor 4, dimension "the client goes away while a resolver of a websocket
// request is running".
//
// The cancellation point "during execution" of the HTTP / executor /
// federation targets, for the websocket entry point: a `subscribe` or a
// `mutate` is sent, and when its (slow) resolver has been entered the client
// goes away - an `unsubscribe` for that id, the socket closing, or the
// connection's context ending. The resolver is a backend call that is under
// way: it comes back once its context is cancelled and then
//
//	honour  returns the context's error,
//	ignore  returns its value (the write had already been committed; a
//	        resolver that does not block need not look at its context),
//	fail    returns an error of its own.
//
// It sits at the top of the operation, below a list, or is Expensive; for
// mutations at the top or below the object a mutation returns.
// Oracle (no timing): the resolver's context IS cancelled (parked for good
// otherwise), the connection keeps answering (echo; a new subscription after
// an unsubscribe), ServeJSONSocket returns once the socket is closed, and no
// goroutine with a thunder frame is left.

type WRow struct{ Id int64 }

type wsCancelEnv struct {
	schema    *graphql.Schema
	behaviour string
	enters    int64
	exits     int64
	ctxSeen   int64 // resolver returns that had observed their context cancelled
	release   chan struct{}
	relOnce   sync.Once
}

func (e *wsCancelEnv) free() { e.relOnce.Do(func() { close(e.release) }) }

func (e *wsCancelEnv) slow(ctx context.Context) (int64, error) {
	atomic.AddInt64(&e.enters, 1)
	defer atomic.AddInt64(&e.exits, 1)
	select {
	case <-ctx.Done():
		atomic.AddInt64(&e.ctxSeen, 1)
	case <-e.release: // the scenario is over: never leave a resolver behind
		return 0, errors.New("harness: released")
	}
	switch e.behaviour {
	case "honour":
		return 0, ctx.Err()
	case "fail":
		return 0, errors.New("backend call failed")
	}
	return 7, nil
}

func buildWSCancelEnv(behaviour string) *wsCancelEnv {
	e := &wsCancelEnv{behaviour: behaviour, release: make(chan struct{})}
	s := schemabuilder.NewSchema()
	q := s.Query()
	q.FieldFunc("plain", func() string { return "ok" })
	q.FieldFunc("slow", func(ctx context.Context) (int64, error) { return e.slow(ctx) })
	q.FieldFunc("wrows", func() []*WRow { return []*WRow{{Id: 1}} })
	row := s.Object("WRow", WRow{})
	row.FieldFunc("slow", func(ctx context.Context, r *WRow) (int64, error) { return e.slow(ctx) })
	row.FieldFunc("slowExpensive", func(ctx context.Context, r *WRow) (int64, error) { return e.slow(ctx) }, schemabuilder.Expensive)
	m := s.Mutation()
	m.FieldFunc("slowMut", func(ctx context.Context) (int64, error) { return e.slow(ctx) })
	m.FieldFunc("makeRow", func() *WRow { return &WRow{Id: 2} })
	m.FieldFunc("noop", func() bool { return true })
	e.schema = s.MustBuild()
	return e
}

type wsCancelScenario struct {
	Type      string // subscribe | mutate
	Query     string
	Behaviour string // honour | ignore | fail
	Gone      string // ws_unsubscribe | ws_close | ws_ctx
}

func (s wsCancelScenario) String() string {
	return fmt.Sprintf("%s|client_gone_in_resolver|%s|%s|%s", s.Gone, s.Type, s.Behaviour, s.Query)
}

func wsCancelScenarios() []wsCancelScenario {
	var out []wsCancelScenario
	for _, gone := range []string{"ws_unsubscribe", "ws_close", "ws_ctx"} {
		for _, b := range []string{"honour", "ignore", "fail"} {
			for _, q := range []string{`{ slow }`, `{ plain wrows { id slow } }`, `{ wrows { slowExpensive } }`} {
				out = append(out, wsCancelScenario{Type: "subscribe", Query: q, Behaviour: b, Gone: gone})
			}
			for _, q := range []string{`mutation { slowMut }`, `mutation { makeRow { id slow } }`} {
				out = append(out, wsCancelScenario{Type: "mutate", Query: q, Behaviour: b, Gone: gone})
			}
		}
	}
	return out
}

func (e *m4Env) runWSCancelScenario(run *vlib.Run, caseIdx int, sc wsCancelScenario) {
	fmt.Println("CASE", caseIdx, "m4", sc.String())
	run.Case("m4|"+sc.String(), true)
	run.Count("m4:scenarios", 1)
	run.Count("m4:target:"+sc.Gone, 1)
	run.Count("m4:point:client_gone_in_resolver", 1)
	m4Current.Store((*m4Ctl)(nil))

	we := buildWSCancelEnv(sc.Behaviour)
	defer we.free()
	base := append(goroutineIDs(), e.ignore...)
	ctx, cancel := context.WithCancel(context.Background())
	defer cancel()
	var steps []string
	var stepMu sync.Mutex
	step := func(s string) { stepMu.Lock(); steps = append(steps, s); stepMu.Unlock() }
	wit := func(what string) map[string]interface{} {
		stepMu.Lock()
		defer stepMu.Unlock()
		return map[string]interface{}{"monitor": "4 cancellation and leaks (client gone while a websocket request's resolver is running)", "scenario": sc.String(),
			"request": sc.Type, "query": sc.Query, "resolver_behaviour": sc.Behaviour, "client_gone_by": sc.Gone, "what": what, "steps": append([]string{}, steps...),
			"resolver_entries": atomic.LoadInt64(&we.enters), "resolver_returns": atomic.LoadInt64(&we.exits), "resolver_saw_context_cancelled": atomic.LoadInt64(&we.ctxSeen),
			"expected": "the request's context is cancelled, the connection keeps working, ServeJSONSocket returns when the socket closes, no goroutine is left behind"}
	}
	remember := func() {
		for _, g := range vlib.ThunderGoroutines(base...) {
			if m := goroutineHeader.FindStringSubmatch(g); m != nil {
				e.ignore = append(e.ignore, "goroutine "+m[1]+" [")
			}
		}
	}

	sock := &chanSocket{in: make(chan string, 16)}
	var closeOnce sync.Once
	closeSock := func() { closeOnce.Do(func() { close(sock.in) }) }
	sock.end.cancel = cancel
	conn := graphql.CreateConnection(ctx, sock, we.schema, graphql.WithMinRerunInterval(time.Millisecond))
	var served int32
	go func() {
		defer atomic.StoreInt32(&served, 1)
		defer func() { _ = recover() }()
		conn.ServeJSONSocket()
	}()
	activity := func() int64 {
		return atomic.LoadInt64(&we.enters) + atomic.LoadInt64(&we.exits) + atomic.LoadInt64(&sock.writes)
	}
	giveUp := func() {
		cancel()
		closeSock()
		we.free()
	}
	wait := func(what string, cond func() bool) bool {
		step("wait: " + what)
		switch out, stacks := waitEntry(cond, activity, "(*conn).ServeJSONSocket", time.Second, 10*time.Second); out {
		case waitReached:
			return true
		case waitStuck:
			w := wit("the connection went quiet before: " + what)
			w["stacks"] = stacks
			run.Count("m4:hangs", 1)
			run.Violation(caseIdx, "", w)
			giveUp()
			remember()
		default:
			run.Inconclusive(fmt.Sprintf("m4 case %d (%s): still busy while waiting for: %s", caseIdx, sc.String(), what))
			giveUp()
		}
		return false
	}

	step(sc.Type + " b: " + sc.Query)
	sock.in <- subscribeFrame("b", sc.Type, sc.Query)
	if !wait("the slow resolver is entered", func() bool { return atomic.LoadInt64(&we.enters) >= 1 }) {
		return
	}
	switch sc.Gone {
	case "ws_unsubscribe":
		step("send unsubscribe b")
		sock.in <- `{"id":"b","type":"unsubscribe"}`
	case "ws_close":
		step("close the socket")
		closeSock()
	case "ws_ctx":
		step("cancel the connection's context")
		cancel()
	}
	if !wait("the running resolver sees its context cancelled and returns", func() bool {
		return atomic.LoadInt64(&we.exits) >= 1 && atomic.LoadInt64(&we.exits) == atomic.LoadInt64(&we.enters)
	}) {
		return
	}
	if sc.Gone != "ws_close" {
		step("send echo")
		sock.in <- `{"id":"ping","type":"echo"}`
		if !wait("echo answered after the client withdrew the request", func() bool { _, c, _, _ := sock.fold("ping"); return c["echo"] >= 1 }) {
			return
		}
		if sc.Gone == "ws_unsubscribe" {
			step("subscribe h: { plain }")
			sock.in <- subscribeFrame("h", "subscribe", `{ plain }`)
			if !wait("a new subscription delivers data", func() bool { _, c, _, _ := sock.fold("h"); return c["update"] >= 1 }) {
				return
			}
			step("mutate n: mutation { noop }")
			sock.in <- subscribeFrame("n", "mutate", `mutation { noop }`)
			if !wait("a new mutation delivers its result", func() bool { _, c, _, _ := sock.fold("n"); return c["result"]+c["error"] >= 1 }) {
				return
			}
			if _, c, msgs, _ := sock.fold("n"); c["result"] == 0 {
				run.Violation(caseIdx, "", wit(fmt.Sprintf("a mutation sent after the unsubscribe failed: %v", msgs)))
			}
		}
	}
	closeSock()
	if !wait("ServeJSONSocket returns after the socket closed", func() bool { return atomic.LoadInt32(&served) == 1 }) {
		return
	}
	if n := sock.end.excessReads(); n > 0 {
		run.Violation(caseIdx, "", wit(fmt.Sprintf("the read loop kept reading after a permanent non-close read error (%d reads)", n)))
		return
	}
	run.Count("m4:cancellation_point_reached", 1)
	cancel()
	we.free()
	if left := vlib.WaitNoThunderGoroutines(100, base...); len(left) > 0 {
		w := wit(fmt.Sprintf("%d goroutine(s) with a thunder frame are still alive 100 settle polls after the call returned", len(left)))
		for i := range left {
			left[i] = vlib.Trunc(left[i], 2500)
		}
		if len(left) > 8 {
			left = left[:8]
		}
		w["leaked_goroutines"] = left
		run.Violation(caseIdx, "", w)
		remember()
	}
}
