package c15

import (
	"context"
	"fmt"
	"testing"

	"github.com/samsarahq/thunder/graphql"
)

func TestDbgFedRace(t *testing.T) {
	gw, err := buildGateway(nil)
	if err != nil {
		t.Fatal(err)
	}
	defer gw.cancel()
	for _, qs := range []string{
		`{ users { _federation { secret } email } }`,
	} {
		for k := 0; k < 50; k++ {
			q, err := graphql.Parse(qs, nil)
			if err != nil {
				t.Fatal(err)
			}
			v, _, err := gw.exec.Execute(context.Background(), q, nil)
			if k == 0 {
				fmt.Printf("%s -> %s %v\n", qs, js(v), err)
			}
		}
	}
}
