package c15

import (
	"fmt"
	"math/rand"
	"sort"
	"testing"
	"regexp"

	"github.com/samsarahq/thunder/graphql"
)

func TestDbgGen(t *testing.T) {
	zoo := buildZoo(nil)
	zd := describe(zoo)
	gw, _ := buildGateway(nil)
	gd := describe(gw.schemas["s1"], gw.schemas["s2"])
	hist := map[string]int{}
	ex := map[string]string{}
	num := regexp.MustCompile(`[0-9]+`)
	for i := 0; i < 3000; i++ {
		c := genCase(rand.New(rand.NewSource(int64(i))), i, zd, gd)
		func() {
			defer func() {
				if recover() != nil {
					hist["PANIC"]++
				}
			}()
			mut := ""
			for _, f := range c.Feats { if f == "bytes:mutated_query" { mut = "MUT " } }
			_, err := graphql.Parse(c.Query, c.Vars)
			k := mut+"ok"
			if err != nil {
				k = mut+num.ReplaceAllString(err.Error(), "N")
				if len(k) > 90 {
					k = k[:90]
				}
			}
			hist[k]++
			if _, ok := ex[k]; !ok {
				ex[k] = c.Query
			}
		}()
	}
	var ks []string
	for k := range hist {
		ks = append(ks, k)
	}
	sort.Slice(ks, func(i, j int) bool { return hist[ks[i]] > hist[ks[j]] })
	for _, k := range ks[:40] {
		fmt.Printf("%5d %q\n      %.300q\n", hist[k], k, ex[k])
	}
}
