package c15

import (
	"context"
	"fmt"
	"os"
	"github.com/samsarahq/thunder/batch"
	"math/rand"
	"regexp"
	"sort"
	"testing"

	"github.com/samsarahq/thunder/graphql"
)

func TestDbgGen(t *testing.T) {
	zoo := buildZoo(nil)
	zd := describe(zoo)
	gw, _ := buildGateway(nil)
	gd := describe(gw.schemas["s1"], gw.schemas["s2"])
	hist := map[string]int{}
	ex := map[string]string{}
	num := regexp.MustCompile(`[0-9]+`)
	for i := 0; i < 3000; i++ {
		c := genCase(rand.New(rand.NewSource(int64(i))), i, zd, gd)
		func() {
			defer func() {
				if recover() != nil {
					hist["PANIC"]++
				}
			}()
			mut := ""
			for _, f := range c.Feats {
				if f == "bytes:mutated_query" {
					mut = "MUT "
				}
			}
			os.WriteFile("/tmp/c15w/dbg-cur.txt", []byte(c.Query), 0o644)
			q, err := graphql.Parse(c.Query, c.Vars)
			k := mut + "ok"
			if err == nil {
				sch := zoo
				if c.Schema == "gw" {
					sch = gw.schemas["s1"]
				}
				typ := sch.Query
				if q.Kind == "mutation" {
					typ = sch.Mutation
				}
				if perr := graphql.PrepareQuery(context.Background(), typ, q.SelectionSet); perr != nil {
					k = mut + "PREP " + num.ReplaceAllString(perr.Error(), "N")
					if len(k) > 90 {
						k = k[:90]
					}
				} else {
					_, xerr := graphql.NewExecutor(graphql.NewImmediateGoroutineScheduler()).Execute(batch.WithBatching(context.Background()), typ, nil, q)
					if xerr != nil {
						k = mut + "EXEC " + num.ReplaceAllString(xerr.Error(), "N")
						if len(k) > 90 {
							k = k[:90]
						}
					}
				}
				if false {
					q2, _ := graphql.Parse(c.Query, c.Vars)
					_, _, gerr := gw.exec.Execute(context.Background(), q2, nil)
					if gerr != nil {
						k2 := "GW " + num.ReplaceAllString(gerr.Error(), "N")
						if len(k2) > 90 {
							k2 = k2[:90]
						}
						hist[k2]++
						if _, ok := ex[k2]; !ok {
							ex[k2] = c.Query
						}
					} else {
						hist["GW ok"]++
					}
				}
			}
			if err != nil {
				k = mut + num.ReplaceAllString(err.Error(), "N")
				if len(k) > 90 {
					k = k[:90]
				}
			}
			hist[k]++
			if _, ok := ex[k]; !ok {
				ex[k] = c.Query
			}
		}()
	}
	var ks []string
	for k := range hist {
		ks = append(ks, k)
	}
	sort.Slice(ks, func(i, j int) bool { return hist[ks[i]] > hist[ks[j]] })
	for _, k := range ks[:60] {
		fmt.Printf("%5d %q\n      %.300q\n", hist[k], k, ex[k])
	}
}
