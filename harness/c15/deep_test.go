package c15

import (
	"fmt"
	"strings"
)

// deepInput is an input that may overflow the stack (fragment cycles, very
// deep nesting). Each runs in a child process of its own.
type deepInput struct {
	Name     string
	How      string // how to regenerate it (the text itself can be megabytes)
	Query    string
	VarsJSON string
	Solo     bool // deep enough to risk the stack: gets a process of its own
}

func nest(open, leaf, close string, n int) string {
	return strings.Repeat(open, n) + leaf + strings.Repeat(close, n)
}

func deepInputs(thorough bool) []deepInput {
	ins := []deepInput{
		{Name: "cycle_direct", Query: `{ ...F } fragment F on Query { ...F }`},
		{Name: "cycle_direct_with_field", Query: `{ items { ...F } } fragment F on Item { id ...F }`},
		{Name: "cycle_mutual", Query: `{ ...F } fragment F on Query { kind ...G } fragment G on Query { ...F }`},
		{Name: "cycle_mutual_through_fields", Query: `{ items { ...F } } fragment F on Item { parent { ...G } } fragment G on Item { children { ...H } } fragment H on Item { id parent { ...F } }`},
		{Name: "cycle_among_unreachable_fragments", Query: `{ kind } fragment F on Query { ...G } fragment G on Query { ...F }`},
		{Name: "cycle_reachable_plus_unreachable", Query: `{ ...A } fragment A on Query { kind } fragment F on Query { ...G } fragment G on Query { ...F ...A }`},
		{Name: "cycle_through_inline_fragment", Query: `{ ...F } fragment F on Query { ... on Query { ...F } }`},
		{Name: "cycle_with_directives", Query: `{ ...F @skip(if: true) } fragment F on Query { kind ...F @include(if: false) }`},
		{Name: "cycle_in_union", Query: `{ things { ...T } } fragment T on Thing { ... on Item { related { ...T } } }`},
		{Name: "cycle_in_mutation", Query: `mutation { setName(id: 1, name: "x") { ...F } } fragment F on Item { parent { ...F } }`},
		{Name: "cycle_same_alias_merge", Query: `{ a: items { ...F } a: items { ...F } } fragment F on Item { a: parent { ...F } a: parent { id ...F } }`},
	}
	// quick: 1e3 (shared child), 3e4 and two 1e6 inputs; thorough: 1e3, 1e4, 1e5, 1e6, 3e6
	depths := []int{1000, 30000}
	if thorough {
		depths = []int{1000, 10000, 100000, 1000000, 3000000}
	}
	for _, n := range depths {
		how := fmt.Sprintf("n=%d", n)
		ins = append(ins,
			deepInput{Name: fmt.Sprintf("nest_valid_selection_%d", n), How: how + ": '{ item(id: 1) ' + '{ parent '*n + '{ id }' + '}'*n + '}'",
				Query: "{ item(id: 1) " + nest("{ parent ", "{ id }", " }", n) + " }"},
			deepInput{Name: fmt.Sprintf("nest_unknown_selection_%d", n), How: how + ": '{a'*n + '}'*n", Query: nest("{a", "", "}", n)},
			deepInput{Name: fmt.Sprintf("nest_list_value_%d", n), How: how + ": '{ echo(s: ' + '['*n + ']'*n + ') }'", Query: "{ echo(s: " + nest("[", "", "]", n) + ") }"},
			deepInput{Name: fmt.Sprintf("nest_object_value_%d", n), How: how + ": '{ echo(s: ' + '{a:'*n + '1' + '}'*n + ') }'", Query: "{ echo(s: " + nest("{a:", "1", "}", n) + ") }"},
			deepInput{Name: fmt.Sprintf("nest_inline_fragment_%d", n), How: how + ": '{ ' + '... on Query { '*n + 'kind' + ' }'*n + ' }'",
				Query: "{ " + nest("... on Query { ", "kind", " }", n) + " }"},
			deepInput{Name: fmt.Sprintf("nest_variable_type_%d", n), How: how + ": 'query($a: ' + '['*n + 'Int' + ']'*n + ') { kind }'",
				Query: "query($a: " + nest("[", "Int", "]", n) + ") { kind }"},
			deepInput{Name: fmt.Sprintf("nest_variables_json_%d", n), How: how + ": variables {\"a\": '['*n + ']'*n}",
				Query: `query($a: [Int]) { echo(s: "x", n: $a) }`, VarsJSON: `{"a":` + nest("[", "", "]", n) + `}`},
			deepInput{Name: fmt.Sprintf("nest_directive_object_%d", n), How: how + ": '{ kind @skip(if: ' + '{a:'*n + 'true' + '}'*n + ') }'",
				Query: "{ kind @skip(if: " + nest("{a:", "true", "}", n) + ") }"},
		)
		// long acyclic fragment chain: recursion depth n in cycle detection, conflict detection, PrepareQuery, Flatten
		var sb strings.Builder
		sb.WriteString("{ ...F0 }")
		for i := 0; i < n/10; i++ {
			fmt.Fprintf(&sb, " fragment F%d on Query { ...F%d }", i, i+1)
		}
		fmt.Fprintf(&sb, " fragment F%d on Query { kind }", n/10)
		ins = append(ins, deepInput{Name: fmt.Sprintf("fragment_chain_%d", n/10), How: fmt.Sprintf("chain of %d fragments F_i { ...F_i+1 }", n/10), Query: sb.String()})
		// very wide selection
		var wb strings.Builder
		wb.WriteString("{")
		for i := 0; i < n/10; i++ {
			fmt.Fprintf(&wb, " a%d: kind", i)
		}
		wb.WriteString(" }")
		ins = append(ins, deepInput{Name: fmt.Sprintf("wide_aliases_%d", n/10), How: fmt.Sprintf("%d aliases of kind", n/10), Query: wb.String()})
	}
	if !thorough {
		n := 1000000
		ins = append(ins,
			deepInput{Name: fmt.Sprintf("nest_unknown_selection_%d", n), How: fmt.Sprintf("n=%d: '{a'*n + '}'*n", n), Query: nest("{a", "", "}", n)},
			deepInput{Name: fmt.Sprintf("nest_list_value_%d", n), How: fmt.Sprintf("n=%d: '{ echo(s: ' + '['*n + ']'*n + ') }'", n), Query: "{ echo(s: " + nest("[", "", "]", n) + ") }"})
	}
	for i := range ins {
		ins[i].Solo = len(ins[i].Query)+len(ins[i].VarsJSON) > 20000
	}
	return ins
}
