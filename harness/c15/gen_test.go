package c15

import (
	"encoding/json"
	"fmt"
	"math/rand"
	"sort"
	"strconv"
	"strings"

	"github.com/samsarahq/thunder/graphql"
)

// gcase is one generated hostile input: a GraphQL document, a variables
// document, an HTTP request and a sequence of websocket envelopes around them.
type gcase struct {
	Index      int
	Schema     string // "zoo" or "gw": which schema the grammar walked
	Query      string
	VarsJSON   string
	Vars       map[string]interface{} // VarsJSON decoded as the servers do; nil if it is not a JSON object
	HTTPMethod string
	HTTPBody   string // "" with HTTPNoBody = request without body
	HTTPNoBody bool
	WS         []string // raw websocket frames
	Feats      []string
}

func (c *gcase) text() string {
	var sb strings.Builder
	fmt.Fprintf(&sb, "case %d schema=%s\n--- query (%d bytes, go-quoted)\n%s\n--- variables\n%s\n--- http %s nobody=%v\n%s\n--- websocket frames\n",
		c.Index, c.Schema, len(c.Query), strconv.Quote(c.Query), c.VarsJSON, c.HTTPMethod, c.HTTPNoBody, c.HTTPBody)
	for _, f := range c.WS {
		sb.WriteString(f)
		sb.WriteString("\n")
	}
	return sb.String()
}

// allText is everything the case sends: the document as such and as embedded
// (possibly mutated) in the HTTP body and the websocket frames.
func (c *gcase) allText() string {
	return c.Query + "\n" + c.HTTPBody + "\n" + strings.Join(c.WS, "\n")
}

func (c *gcase) witness() map[string]interface{} {
	return map[string]interface{}{
		"schema": c.Schema, "query": c.Query, "query_quoted": strconv.Quote(c.Query), "variables_json": c.VarsJSON,
		"http_method": c.HTTPMethod, "http_body": c.HTTPBody, "http_no_body": c.HTTPNoBody, "ws_frames": c.WS, "features": c.Feats,
	}
}

type qgen struct {
	r        *rand.Rand
	d        *schemaDesc
	feats    map[string]bool
	frags    []string // fragment names that will be defined
	fragOn   map[string]string
	vars     []string // variable names in scope
	usedVars map[string]bool
	budget   int
	on       map[string]bool // hostile families enabled for this case
	aliasSeq int
	curFrag  int  // index of the fragment whose body is being generated, -1 in operations
	forceAl  bool // alias every field (fragment bodies), avoids accidental conflicts with the spreading selection set
	// variables whose JSON value the document's generator decided itself (name, JSON text)
	fixedVars [][2]string
}

// families of hostile constructs; a case enables a few of them so that most
// documents get past the first check and reach the deeper code.
var families = []string{"huge", "strings", "undef_var", "wrong_arg", "vars", "bad_directive", "empty_set", "undef_fragment", "inline_no_type",
	"unknown_field", "bad_selection", "alias_conflict", "bad_args", "var_defaults", "dup_fragment", "cycle", "unused_fragment", "multi_op",
	"type_system", "subscription", "frag_wrong_type", "odd_names", "directives", "fragments", "inline_fragments"}

// h reports whether a hostile choice of family fam is taken (pct percent of
// the time when the family is enabled).
func (g *qgen) h(fam string, pct int) bool {
	if !g.on[fam] {
		return false
	}
	g.feat("fam:" + fam)
	return g.r.Intn(100) < pct
}

func (g *qgen) feat(f string) { g.feats[f] = true }

func (g *qgen) pick(xs ...string) string { return xs[g.r.Intn(len(xs))] }

func (g *qgen) chance(pct int) bool { return g.r.Intn(100) < pct }

var oddNames = []string{"_", "__", "__x", "on", "fragment", "query", "mutation", "subscription", "true", "false", "null",
	"type", "schema", "a1", "A", "zzzzzzzzzzzzzzzzzzzzzzzzzzzzzzzzzzzzzzzzzzzzzzzzzzzzzzzzzzzzzzzz", "__typename", "__schema", "__type", "_federation", "if"}

func (g *qgen) name() string {
	if !g.h("odd_names", 40) {
		return g.pick("a", "b", "x", "id", "name", "items", "nope", "f")
	}
	return oddNames[g.r.Intn(len(oddNames))]
}

func (g *qgen) intLit() string {
	if !g.on["huge"] {
		return strconv.Itoa(g.r.Intn(300) - 20)
	}
	switch g.r.Intn(8) {
	case 0:
		g.feat("val:huge_int")
		return g.pick("9223372036854775807", "9223372036854775808", "-9223372036854775809", "99999999999999999999999999999999", "18446744073709551616")
	case 1:
		return "-0"
	case 2:
		return "0"
	case 3:
		return "-1"
	case 4:
		g.feat("val:huge_int")
		return "1" + strings.Repeat("0", 10+g.r.Intn(400))
	default:
		return strconv.Itoa(g.r.Intn(300) - 20)
	}
}

func (g *qgen) floatLit() string {
	if !g.on["huge"] {
		return strconv.FormatFloat(g.r.Float64()*100-10, 'f', 1+g.r.Intn(4), 64)
	}
	switch g.r.Intn(4) {
	case 0:
		g.feat("val:huge_float")
		return g.pick("1e400", "-1E400", "1.7976931348623159e308", "123456789e999999999", "1.5e-400", "0.0e99999")
	case 1:
		return g.pick("1.0", "-0.0", "0.5", "1e2", "1E+2", "1.25e-2")
	default:
		return strconv.FormatFloat(g.r.Float64()*100-10, 'f', 1+g.r.Intn(4), 64)
	}
}

func (g *qgen) stringLit() string {
	if !g.on["strings"] {
		return `"` + g.pick("a", "x y", "item1", "id", "MQ==") + `"`
	}
	switch g.r.Intn(8) {
	case 0:
		return `""`
	case 1:
		g.feat("val:string_escapes")
		return g.pick(`"Aé"`, `"\ud800"`, `"\n\t\r\b\f\/\\\""`, `"\u0000"`, `"￿􏿿"`)
	case 2:
		g.feat("val:string_unicode")
		return g.pick("\"héllo ☃ \U0001F600\"", "\"‮\ufeff\"")
	case 3:
		g.feat("val:string_long")
		return `"` + strings.Repeat(g.pick("a", "ab", "é"), 200+g.r.Intn(2000)) + `"`
	case 4:
		return g.pick(`"MQ=="`, `"!!!notbase64"`, `"2020-01-02T03:04:05Z"`, `"2020-13-45"`, `"ALPHA"`, `"1"`, `"true"`)
	default:
		return `"` + g.pick("a", "x y", "item1", "id", "{}", "$v", "...") + `"`
	}
}

func (g *qgen) varRef() string {
	if len(g.vars) > 0 && !g.h("undef_var", 50) {
		v := g.vars[g.r.Intn(len(g.vars))]
		g.usedVars[v] = true
		return "$" + v
	}
	g.feat("var:undefined")
	return "$" + g.pick("undef", "x", "if", "on", "_")
}

// anyValue produces an arbitrary GraphQL value literal.
func (g *qgen) anyValue(depth int) string {
	g.budget--
	n := 12
	if depth <= 0 || g.budget <= 0 {
		n = 8
	}
	switch g.r.Intn(n) {
	case 0:
		return g.intLit()
	case 1:
		return g.floatLit()
	case 2, 3:
		return g.stringLit()
	case 4:
		return g.pick("true", "false")
	case 5:
		g.feat("val:enum")
		return g.pick("ALPHA", "BETA", "GAMMA", "null", "asc", "desc", "NOPE", "on", "_")
	case 6, 7:
		g.feat("val:variable")
		return g.varRef()
	case 8, 9:
		g.feat("val:list")
		k := g.r.Intn(4)
		parts := make([]string, k)
		for i := range parts {
			parts[i] = g.anyValue(depth - 1)
		}
		return "[" + strings.Join(parts, g.pick(", ", " ", ",")) + "]"
	default:
		g.feat("val:object")
		k := g.r.Intn(4)
		parts := make([]string, k)
		for i := range parts {
			parts[i] = g.name() + ": " + g.anyValue(depth-1)
		}
		if k >= 2 && g.chance(10) {
			g.feat("val:object_dup_field")
			parts[1] = strings.SplitN(parts[0], ":", 2)[0] + ": " + g.anyValue(depth-1)
		}
		return "{" + strings.Join(parts, g.pick(", ", " ")) + "}"
	}
}

// valueFor produces a literal that fits the declared argument type (most of
// the time), so that PrepareQuery and Execute are reached.
func (g *qgen) valueFor(t graphql.Type, depth int) string {
	if g.h("wrong_arg", 25) {
		g.feat("arg:wrong_type")
		return g.anyValue(2)
	}
	if (len(g.vars) > 0 || g.on["undef_var"]) && g.h("vars", 30) {
		g.feat("val:variable")
		return g.varRef()
	}
	switch x := t.(type) {
	case *graphql.NonNull:
		return g.valueFor(x.Type, depth)
	case *graphql.List:
		k := g.r.Intn(4)
		parts := make([]string, k)
		for i := range parts {
			parts[i] = g.valueFor(x.Type, depth-1)
		}
		g.feat("val:list")
		return "[" + strings.Join(parts, ", ") + "]"
	case *graphql.InputObject:
		g.feat("val:object")
		names := make([]string, 0, len(x.InputFields))
		for n := range x.InputFields {
			names = append(names, n)
		}
		sort.Strings(names)
		var parts []string
		for _, n := range names {
			_, required := x.InputFields[n].(*graphql.NonNull)
			if required && !g.on["bad_args"] || g.chance(55) && depth > 0 {
				parts = append(parts, n+": "+g.valueFor(x.InputFields[n], depth-1))
			}
		}
		if g.h("wrong_arg", 15) {
			parts = append(parts, g.name()+": "+g.anyValue(1))
		}
		return "{" + strings.Join(parts, ", ") + "}"
	case *graphql.Enum:
		g.feat("val:enum")
		if len(x.Values) > 0 && !g.h("wrong_arg", 15) {
			return x.Values[g.r.Intn(len(x.Values))]
		}
		return g.pick("NOPE", "null", "alpha")
	case *graphql.Scalar:
		switch {
		case strings.HasPrefix(x.Type, "int") || strings.HasPrefix(x.Type, "uint"):
			return g.intLit()
		case strings.HasPrefix(x.Type, "float"):
			if g.chance(50) {
				return g.intLit()
			}
			return g.floatLit()
		case x.Type == "bool":
			return g.pick("true", "false")
		case x.Type == "Time":
			if g.h("wrong_arg", 30) {
				return g.pick(`"yesterday"`, `"0000-00-00T00:00:00Z"`, `"2020-13-45T00:00:00Z"`)
			}
			return g.pick(`"2020-01-02T03:04:05Z"`, `"2020-01-02T03:04:05.999999999+07:00"`)
		case x.Type == "bytes":
			if g.h("wrong_arg", 30) {
				return g.pick(`"****"`, `"M"`, `"MQ="`)
			}
			return g.pick(`"MQ=="`, `""`, `"QUJD"`)
		default:
			return g.stringLit()
		}
	}
	return g.anyValue(2)
}

func (g *qgen) directive() string {
	if !g.on["bad_directive"] {
		if len(g.vars) > 0 && g.on["vars"] && g.chance(30) {
			g.feat("dir:if_variable")
			return "@" + g.pick("skip", "include") + "(if: " + g.varRef() + ")"
		}
		g.feat("dir:skip_include_bool")
		return "@" + g.pick("skip", "include") + "(if: " + g.pick("true", "false") + ")"
	}
	g.feat("fam:bad_directive")
	switch g.r.Intn(14) {
	case 0, 1, 2:
		g.feat("dir:skip_include_bool")
		return "@" + g.pick("skip", "include") + "(if: " + g.pick("true", "false") + ")"
	case 3, 4:
		g.feat("dir:if_variable")
		return "@" + g.pick("skip", "include") + "(if: " + g.varRef() + ")"
	case 5:
		g.feat("dir:if_missing")
		return "@" + g.pick("skip", "include") + g.pick("", "()", "(unless: true)", "(IF: true)")
	case 6, 7:
		g.feat("dir:if_wrong_type")
		return "@" + g.pick("skip", "include") + "(if: " + g.pick(`"true"`, "1", "0", "1.5", "[true]", "{if: true}", "TRUE", "null", `""`) + ")"
	case 8:
		g.feat("dir:if_dup_arg")
		return "@" + g.pick("skip", "include") + "(if: true, if: false)"
	case 9:
		g.feat("dir:both")
		return "@skip(if: " + g.pick("true", "false") + ") @include(if: " + g.pick("true", "false", "3") + ")"
	case 10:
		g.feat("dir:repeated")
		return "@skip(if: false) @skip(if: true)"
	default:
		g.feat("dir:unknown")
		d := "@" + g.pick("deprecated", "nope", "live", "defer", "stream", "on", "_", "include2", "SKIP")
		if g.chance(50) {
			d += "(" + g.name() + ": " + g.anyValue(2) + ")"
		}
		return d
	}
}

func (g *qgen) directives(pct int) string {
	if !(g.on["directives"] || g.on["bad_directive"]) || !g.chance(pct) {
		return ""
	}
	out := " " + g.directive()
	if g.h("bad_directive", 15) {
		out += " " + g.directive()
	}
	return out
}

func (g *qgen) typeNameFor(parent string) string {
	if !g.h("frag_wrong_type", 50) && parent != "" {
		if td := g.d.Types[parent]; td != nil && td.Union && len(td.Members) > 0 && g.chance(80) {
			return td.Members[g.r.Intn(len(td.Members))]
		}
		return parent
	}
	if g.chance(70) {
		return g.d.Names[g.r.Intn(len(g.d.Names))]
	}
	g.feat("frag:unknown_type")
	return g.pick("Nope", "String", "int64", "Query", "on", "_")
}

func (g *qgen) args(fd *fieldDesc) string {
	var parts []string
	if fd != nil {
		for _, a := range fd.Args {
			_, required := a.Type.(*graphql.NonNull)
			if required && !g.h("bad_args", 15) || !required && g.chance(30) {
				parts = append(parts, a.Name+": "+g.valueFor(a.Type, 3))
			}
		}
	}
	if g.h("bad_args", 20) {
		g.feat("arg:unknown")
		parts = append(parts, g.name()+": "+g.anyValue(3))
	}
	if len(parts) > 0 && g.h("bad_args", 15) {
		g.feat("arg:duplicate")
		parts = append(parts, parts[0])
	}
	if len(parts) == 0 {
		if g.h("bad_args", 10) {
			g.feat("arg:empty_parens")
			return "()"
		}
		return ""
	}
	return "(" + strings.Join(parts, g.pick(", ", " ", ",")) + ")"
}

func (g *qgen) selectionSet(typ string, depth int) string {
	if depth < -1 || g.budget < -10 {
		return "{ " + g.leaf(typ) + " }"
	}
	td := g.d.Types[typ]
	n := 1 + g.r.Intn(4)
	if g.h("empty_set", 25) {
		g.feat("sel:empty_set")
		n = 0
	}
	var parts []string
	usedNames := map[string]bool{}
	for i := 0; i < n; i++ {
		g.budget--
		roll := g.r.Intn(100)
		switch {
		case td != nil && td.Union && (roll < 75 || !g.on["bad_selection"]):
			if roll >= 75 {
				g.feat("sel:__typename")
				parts = append(parts, "__typename")
				continue
			}
			on := g.typeNameFor(typ)
			g.feat("sel:inline_fragment")
			parts = append(parts, "... on "+on+g.directives(15)+" "+g.selectionSet(on, depth-1))
		case roll < 12 && len(g.spreadable(typ)) > 0:
			g.feat("sel:fragment_spread")
			sp := g.spreadable(typ)
			parts = append(parts, "..."+sp[g.r.Intn(len(sp))]+g.directives(25))
		case roll < 18 && g.h("undef_fragment", 60):
			g.feat("sel:spread_undefined_fragment")
			parts = append(parts, "..."+g.pick("Missing", "F9", "_")+g.directives(10))
		case roll < 30 && g.on["inline_fragments"]:
			on := g.typeNameFor(typ)
			g.feat("sel:inline_fragment")
			parts = append(parts, "... on "+on+g.directives(25)+" "+g.selectionSet(on, depth-1))
		case roll < 45 && g.h("inline_no_type", 60):
			g.feat("sel:inline_fragment_no_type_condition")
			parts = append(parts, "..."+g.directives(50)+" "+g.selectionSet(typ, depth-1))
		case roll < 50 && (!g.isRoot(typ) || g.on["bad_selection"]):
			g.feat("sel:__typename")
			parts = append(parts, g.aliasPrefix(usedNames, "__typename")+"__typename"+g.directives(15))
		default:
			var fd *fieldDesc
			if td != nil && len(td.Fields) > 0 && !g.h("unknown_field", 25) {
				fd = &td.Fields[g.r.Intn(len(td.Fields))]
			}
			name := g.name()
			sub := ""
			if fd != nil {
				name = fd.Name
				sub = fd.Type
			} else {
				g.feat("sel:unknown_field")
				if g.chance(30) {
					sub = g.d.Names[g.r.Intn(len(g.d.Names))]
				}
			}
			ap := g.aliasPrefix(usedNames, name)
			if ap == "" && usedNames[name] && !g.on["alias_conflict"] {
				continue // a second unaliased use with other arguments would be a (legitimate) conflict error
			}
			usedNames[name] = true
			s := ap + name + g.args(fd) + g.directives(22)
			switch {
			case sub != "" && (depth <= 0 || g.budget <= 0):
				if !g.h("bad_selection", 30) {
					s += " { " + g.leaf(sub) + " }"
				} else {
					g.feat("sel:object_without_selection")
				}
			case sub != "" && !g.h("bad_selection", 15):
				s += " " + g.selectionSet(sub, depth-1)
			case sub == "" && g.h("bad_selection", 15):
				g.feat("sel:scalar_with_selection")
				s += " { " + g.name() + " }"
			case sub != "":
				g.feat("sel:object_without_selection")
			}
			parts = append(parts, s)
		}
	}
	if len(parts) == 0 && !g.on["empty_set"] {
		parts = append(parts, g.leaf(typ))
	}
	return "{ " + strings.Join(parts, g.pick(" ", "\n", ", ", " ")) + " }"
}

func (g *qgen) isRoot(typ string) bool { return typ == g.d.Query || typ == g.d.Mutation }

// leaf is a selection that is valid on typ and needs nothing below it.
// (`__typename` is not accepted by thunder's executor at the root: that is
// property C14's finding, not this one's.)
func (g *qgen) leaf(typ string) string {
	if !g.isRoot(typ) {
		return "__typename"
	}
	td := g.d.Types[typ]
	for _, f := range td.Fields {
		ok := f.Type == ""
		for _, a := range f.Args {
			if _, req := a.Type.(*graphql.NonNull); req {
				ok = false
			}
		}
		if ok && !strings.HasPrefix(f.Name, "fail") {
			return f.Name
		}
	}
	return "__typename"
}

// spreadable lists the fragments a selection set on typ may spread without
// creating a cycle or a type mismatch (unless those families are enabled).
func (g *qgen) spreadable(typ string) []string {
	var out []string
	for j, n := range g.frags {
		if j <= g.curFrag && !g.on["cycle"] {
			continue
		}
		if g.fragOn[n] != typ && !g.on["frag_wrong_type"] {
			continue
		}
		out = append(out, n)
	}
	return out
}

func (g *qgen) aliasPrefix(used map[string]bool, name string) string {
	if g.h("alias_conflict", 40) {
		g.feat("sel:alias_from_small_pool")
		return g.pick("a", "b", "id", "x", "__key", "_federation", "__typename", "name") + ": "
	}
	if g.chance(18) || used[name] || g.forceAl {
		g.feat("sel:alias")
		g.aliasSeq++
		a := fmt.Sprintf("al%d", g.aliasSeq)
		return a + ": "
	}
	return ""
}

var varTypes = []string{"Int", "Float", "String", "Boolean", "ID", "[Int]", "[String!]!", "Int!", "Boolean!", "Kind", "[Kind!]",
	"Filter_InputObject", "Nope", "[[[[Int]]]]", "int64", "bool", "[[Int!]!]!"}

func (g *qgen) varDefs() string {
	if !(g.on["vars"] || g.on["var_defaults"] || g.on["bad_directive"]) {
		return ""
	}
	n := 1 + g.r.Intn(3)
	var parts []string
	seen := map[string]bool{}
	for i := 0; i < n; i++ {
		name := g.pick("a", "b", "v", "flag", "id", "if", "on")
		if seen[name] && !g.on["var_defaults"] {
			continue
		}
		seen[name] = true
		typ := varTypes[g.r.Intn(len(varTypes))]
		p := "$" + name + ": " + typ
		if g.h("var_defaults", 60) {
			g.feat("var:default")
			if g.chance(15) {
				g.feat("var:default_is_variable")
				p += " = " + g.varRef()
			} else {
				p += " = " + g.anyValue(3)
			}
			if strings.HasSuffix(typ, "!") {
				g.feat("var:default_on_nonnull")
			}
		}
		g.vars = append(g.vars, name)
		parts = append(parts, p)
	}
	g.feat("var:definitions")
	return "(" + strings.Join(parts, g.pick(", ", " ")) + ")"
}

var typeSystemDefs = []string{
	"type Extra { a: Int b(x: [String!] = [\"q\"]): Extra! }",
	"schema { query: Query mutation: Mutation }",
	"enum Color { RED GREEN }",
	"input In { a: Int = 1 b: [In!] }",
	"extend type Query { extra: Int }",
	"scalar Date",
	"interface Node { id: ID! }",
	"union U = Item | Gadget",
	"directive @live(if: Boolean = true) on FIELD | QUERY",
	"type Query { items: [Item] }",
}

// document generates one GraphQL document.
func (g *qgen) document() string {
	opKind := ""
	switch r := g.r.Intn(100); {
	case r < 55:
		opKind = "query"
	case r < 75:
		opKind = "mutation"
	default:
		g.feat("op:anonymous")
	}
	if g.h("subscription", 80) {
		opKind = "subscription"
		g.feat("op:subscription")
	}
	root := g.d.Query
	if opKind == "mutation" && g.d.Mutation != "" {
		root = g.d.Mutation
		g.feat("op:mutation")
	}
	// fragments: decide names and types first so that spreads can refer to them
	nfr := 0
	if g.on["fragments"] || g.on["cycle"] || g.on["dup_fragment"] {
		nfr = 1 + g.r.Intn(3)
	}
	pool := []string{"F", "G", "H", "I"}
	if g.on["odd_names"] {
		pool = append(pool, "on", "query", "_")
	}
	g.fragOn = map[string]string{}
	for i := 0; i < nfr; i++ {
		n := pool[g.r.Intn(len(pool))]
		if _, dup := g.fragOn[n]; dup {
			if !g.on["dup_fragment"] {
				continue
			}
			g.feat("frag:duplicate_name")
		}
		on := root
		if g.on["frag_wrong_type"] {
			on = g.typeNameFor(root)
		}
		g.fragOn[n] = on
		g.frags = append(g.frags, n)
	}
	var defs []string
	op := ""
	if opKind != "" {
		op = opKind
		if g.chance(60) {
			op += " " + g.pick("Op", "Q", "Op2")
			if g.h("odd_names", 50) {
				op = opKind + " " + g.pick("on", "query", "_", "fragment", "true")
			}
		}
		op += g.varDefs()
		if g.h("bad_directive", 20) {
			g.feat("dir:on_operation")
			op += g.directives(100)
		}
		op += " "
	}
	body := g.selectionSet(root, 1+g.r.Intn(4))
	// make sure every defined fragment is used at least once unless the case is about unused fragments
	if len(g.frags) > 0 && !g.on["unused_fragment"] {
		var spreads []string
		for _, n := range g.frags {
			if g.fragOn[n] == root || g.on["frag_wrong_type"] {
				spreads = append(spreads, "..."+n+g.directives(20))
			}
		}
		body = "{ " + strings.Join(spreads, " ") + " " + strings.TrimPrefix(body, "{ ")
	}
	op += body
	defs = append(defs, op)
	emitted := map[string]bool{}
	for j, n := range g.frags {
		on := g.fragOn[n]
		g.curFrag, g.forceAl = j, true
		fb := g.selectionSet(on, 1+g.r.Intn(3))
		g.curFrag, g.forceAl = -1, false
		if g.h("cycle", 70) {
			g.feat("frag:cycle")
			other := g.frags[g.r.Intn(len(g.frags))]
			fb = "{ ..." + other + " " + strings.TrimPrefix(fb, "{ ")
		}
		f := "fragment " + n + " on " + on + g.directives(8) + " " + fb
		if !emitted[n] || g.on["dup_fragment"] {
			defs = append(defs, f)
		}
		emitted[n] = true
	}
	if g.h("unused_fragment", 70) {
		g.feat("frag:unused")
		defs = append(defs, "fragment Unused on "+g.typeNameFor(root)+" "+g.selectionSet(root, 1))
	}
	if g.h("multi_op", 80) {
		g.feat("op:multiple")
		second := g.pick("query", "mutation", "subscription", "query Op", "")
		if second == "query Op" {
			g.feat("op:duplicate_name")
		}
		defs = append(defs, second+" "+g.selectionSet(root, 1))
	}
	if g.h("type_system", 85) {
		g.feat("doc:type_system_definition")
		defs = append(defs, typeSystemDefs[g.r.Intn(len(typeSystemDefs))])
	}
	g.r.Shuffle(len(defs), func(i, j int) { defs[i], defs[j] = defs[j], defs[i] })
	doc := strings.Join(defs, g.pick("\n", " ", "\n\n# comment { ... }\n", ",,,"))
	if g.h("odd_names", 10) {
		g.feat("doc:bom_or_comment")
		doc = g.pick("\ufeff", "# only a comment\n", "\n\n\t , ") + doc
	}
	return doc
}

var mutTokens = []string{"{", "}", "(", ")", "[", "]", "...", "... {", "... on", "@", "@skip(if:", "@include(if: $", "$", ":", "!", "=", "|",
	"\"", "\"\"\"", "\\u", "\\", "#", "on", "fragment", "query", "mutation", "subscription", "null", "true", "-", ".", "e", "1e999", "0x10",
	"\x00", "\xff", "\xc3", "\xef\xbb\xbf", " ", "\r", " ", ",", "{a{a{a{a", "}}}}", "[[[[", "99999999999999999999"}

// mutateBytes applies 1..4 byte-level edits.
func mutateBytes(r *rand.Rand, s string) string {
	b := []byte(s)
	ops := 1 + r.Intn(4)
	for o := 0; o < ops; o++ {
		pos := 0
		if len(b) > 0 {
			pos = r.Intn(len(b) + 1)
		}
		switch r.Intn(9) {
		case 0: // flip a byte
			if len(b) > 0 {
				b[r.Intn(len(b))] = byte(r.Intn(256))
			}
		case 1, 2: // insert a token
			t := mutTokens[r.Intn(len(mutTokens))]
			b = append(b[:pos], append([]byte(t), b[pos:]...)...)
		case 3: // delete a range
			if len(b) > 0 {
				from := r.Intn(len(b))
				to := from + 1 + r.Intn(1+minInt(12, len(b)-from-1))
				b = append(b[:from], b[to:]...)
			}
		case 4: // duplicate a range
			if len(b) > 0 {
				from := r.Intn(len(b))
				to := from + 1 + r.Intn(1+minInt(30, len(b)-from-1))
				dup := append([]byte{}, b[from:to]...)
				b = append(b[:to], append(dup, b[to:]...)...)
			}
		case 5: // truncate
			b = b[:pos]
		case 6: // delete one structural character
			idx := []int{}
			for i, c := range b {
				if strings.IndexByte("{}()[]\":$@", c) >= 0 {
					idx = append(idx, i)
				}
			}
			if len(idx) > 0 {
				k := idx[r.Intn(len(idx))]
				b = append(b[:k], b[k+1:]...)
			}
		case 7: // swap two halves
			b = append(append([]byte{}, b[pos:]...), b[:pos]...)
		case 8: // blow up a digit
			for i, c := range b {
				if c >= '0' && c <= '9' {
					b = append(b[:i], append([]byte(strings.Repeat("9", 25)), b[i:]...)...)
					break
				}
			}
		}
	}
	return string(b)
}

func minInt(a, b int) int {
	if a < b {
		return a
	}
	return b
}

// jsonValue generates an arbitrary JSON text.
func jsonValue(r *rand.Rand, depth int) string {
	n := 10
	if depth <= 0 {
		n = 7
	}
	switch r.Intn(n) {
	case 0:
		return "null"
	case 1:
		return []string{"true", "false"}[r.Intn(2)]
	case 2:
		return []string{"0", "-1", "3", "1.5", "1e3", "9223372036854775808", "1e308", "-0", "123456789012345678901234567890", "1E400"}[r.Intn(10)]
	case 3, 4:
		return strconv.Itoa(r.Intn(50))
	case 5, 6:
		return []string{`""`, `"a"`, `"ALPHA"`, `"true"`, `"\u0000"`, `"\ud800"`, `"MQ=="`, `"2020-01-02T03:04:05Z"`, `"item1"`}[r.Intn(9)]
	case 7, 8:
		k := r.Intn(4)
		parts := make([]string, k)
		for i := range parts {
			parts[i] = jsonValue(r, depth-1)
		}
		return "[" + strings.Join(parts, ",") + "]"
	default:
		k := r.Intn(4)
		parts := make([]string, k)
		for i := range parts {
			parts[i] = strconv.Quote([]string{"a", "b", "if", "name", "lo", "hi", "kinds", "range", ""}[r.Intn(9)]) + ":" + jsonValue(r, depth-1)
		}
		return "{" + strings.Join(parts, ",") + "}"
	}
}

// jsonString encodes s as a JSON string keeping bytes >= 0x80 raw (invalid
// UTF-8 included), so that hostile bytes reach the server's decoder.
func jsonString(s string) string {
	var sb strings.Builder
	sb.WriteByte('"')
	for i := 0; i < len(s); i++ {
		c := s[i]
		switch {
		case c == '"' || c == '\\':
			sb.WriteByte('\\')
			sb.WriteByte(c)
		case c < 0x20:
			fmt.Fprintf(&sb, "\\u%04x", c)
		default:
			sb.WriteByte(c)
		}
	}
	sb.WriteByte('"')
	return sb.String()
}

func wrongTyped(r *rand.Rand) string {
	return []string{"null", "1", "1.5", "true", `"str"`, "[]", "{}", `[1,"a"]`, `{"a":1}`, "-0", `""`}[r.Intn(11)]
}

// pinnedQueries are reproducers of the defects found so far (and near
// misses of them); they are cases 0..len-1 of every run.
var pinnedQueries = []string{
	`{ ... { kind } }`,
	`{ items { ... @include(if: true) { id } } }`,
	`{f(a:[[?]])}`,
	"{ echo(s: [1, [\"x\n]]) }",
	`query($a: Int = [[1.]]) { kind }`,
	`{ item(id: 1) { a: parent { id } a: id } }`,
	`{ item(id: 1) { a: id a: parent { id } } }`,
	`{ things { ... on Item { a: related { __typename } } ... on Item { a: __typename } } }`,
	`{ users { id secret } s2root s1echo(s: 1) }`,
	`{ __typename }`,
	`{ everyone { ... on Everyone { ... on User { id } } } }`,
	// same alias below the root: different object fields (different types), nested-merged form, through
	// fragments, under union members / the union itself, leaf fields, different arguments
	`{ item(id: 1) { x: owner { name } x: box { size } } }`,
	`{ item(id: 1) { x: parent { y: owner { name } } x: parent { y: box { size } } } }`,
	`{ items { ... on Item { x: box { label } } ...F ...F } } fragment F on Item { x: owner { rank } }`,
	`{ things { ... on Item { x: owner { name } } ... on Thing { ... on Item { x: box { size } } } ... on Gadget { x: maker { name } x: crate { size } } } }`,
	`{ itemsPaged { x: edges { cursor } x: pageInfo { hasNextPage } } }`,
	`{ item(id: 1) { x: id x: name } }`,
	`{ item(id: 1) { x: children(first: 1) { id } x: children(first: 2) { id } x: isKind(k: ALPHA) } }`,
	`{ users { x: device { isOn } x: peer { __typename } } }`,
	`{ users { x: secret x: greet a: greet(salute: "a") a: greet(salute: "b") } }`,
	`{ everyone { ... on User { x: device { id } } ... on Everyone { ... on User { x: peer { __typename } } } } }`,
	// parallelism hints (0, 1, 2, 5, more than the sources, negative) on objects reached through a null parent,
	// a list of only nulls, an empty list, a single object, a list, a null deep below, a union member
	`{ noItem { parB0 parB1 parB2 parB5 parBBig parBNeg parP0 parP1 parP2 parP5 parPBig parPNeg } }`,
	`{ item(id: -1) { parB2 parP2 parB0 parPNeg } }`,
	`{ nullItems { parB0 parB1 parB2 parB5 parBBig parBNeg parP0 parP1 parP2 parP5 parPBig parPNeg } }`,
	`{ noItems { parB0 parB1 parB2 parB5 parBBig parBNeg parP0 parP1 parP2 parP5 parPBig parPNeg } }`,
	`{ item(id: 1) { parB0 parB1 parB2 parB5 parBBig parBNeg parP0 parP1 parP2 parP5 parPBig parPNeg } }`,
	`{ items { parB0 parB1 parB2 parB5 parBBig parBNeg parP0 parP1 parP2 parP5 parPBig parPNeg } }`,
	`{ item(id: 1) { parent { parent { parent { parent { parB2 parP5 parB0 } children { parB5 parPBig } } } } } }`,
	`{ things { ... on Item { parB2 parP2 parBNeg related { ... on Item { parB5 parP0 } } } } nullItems { children { parB1 } } }`,
}

func pinnedCase(i int) *gcase {
	q := pinnedQueries[i]
	c := &gcase{Index: i, Schema: "zoo", Query: q, VarsJSON: "{}", Vars: map[string]interface{}{}, HTTPMethod: "POST", Feats: []string{fmt.Sprintf("pinned:%d", i)}}
	if strings.Contains(q, "users") || strings.Contains(q, "everyone") {
		c.Schema = "gw"
	}
	c.HTTPBody = `{"query":` + jsonString(q) + `,"variables":{}}`
	c.WS = []string{`{"id":"p1","type":"subscribe","message":` + c.HTTPBody + `}`, `{"id":"e","type":"echo"}`, `{"id":"p2","type":"mutate","message":` + c.HTTPBody + `}`}
	return c
}

// genCase builds case i for the given schema descriptions.
func genCase(r *rand.Rand, i int, zoo, gw *schemaDesc) *gcase {
	if i < len(pinnedQueries) {
		return pinnedCase(i)
	}
	c := &gcase{Index: i, Schema: "zoo"}
	d := zoo
	if r.Intn(100) < 35 {
		c.Schema, d = "gw", gw
	}
	g := &qgen{r: r, d: d, feats: map[string]bool{}, usedVars: map[string]bool{}, budget: 60, on: map[string]bool{}, curFrag: -1}
	nOn := 0
	switch roll := r.Intn(100); {
	case roll < 10:
		nOn = 0
	case roll < 50:
		nOn = 1
	case roll < 75:
		nOn = 2
	case roll < 90:
		nOn = 4
	default:
		nOn = len(families)
	}
	for k := 0; k < nOn; k++ {
		g.on[families[r.Intn(len(families))]] = true
	}
	for _, benign := range []string{"directives", "fragments", "inline_fragments", "vars"} {
		if r.Intn(100) < 35 {
			g.on[benign] = true
		}
	}
	conflict := false
	if r.Intn(100) < 14 {
		// a valid document around one same-alias conflict below the root
		if doc, ok := conflictDoc(g); ok {
			c.Query, conflict = doc, true
			if r.Intn(100) < 8 {
				g.feat("bytes:mutated_query")
				c.Query = mutateBytes(r, c.Query)
			}
		}
	}
	if !conflict && r.Intn(100) < 12 {
		// a valid document around one mergeable repeat: a response key selected
		// several times with equal arguments of composite JSON shapes
		if doc, ok := repeatDoc(g); ok {
			c.Query, conflict = doc, true
			if r.Intn(100) < 5 {
				g.feat("bytes:mutated_query")
				c.Query = mutateBytes(r, c.Query)
			}
		}
	}
	if !conflict {
		c.Query = g.document()
		if r.Intn(100) < 25 {
			g.feat("bytes:mutated_query")
			c.Query = mutateBytes(r, c.Query)
		}
	}

	// variables
	switch roll := r.Intn(100); {
	case len(g.fixedVars) > 0 && roll < 85:
		var parts []string
		for _, kv := range g.fixedVars {
			parts = append(parts, strconv.Quote(kv[0])+":"+kv[1])
		}
		c.VarsJSON = "{" + strings.Join(parts, ",") + "}"
		g.feat("vars:supplied")
	case roll < 25:
		c.VarsJSON = "null"
		if r.Intn(2) == 0 {
			c.VarsJSON = "{}"
		}
	default:
		var parts []string
		seen := map[string]bool{}
		names := append([]string{}, g.vars...)
		if r.Intn(3) == 0 {
			names = append(names, "undef", "x", "extra")
		}
		for _, n := range names {
			if seen[n] || r.Intn(100) < 25 {
				continue
			}
			seen[n] = true
			parts = append(parts, strconv.Quote(n)+":"+jsonValue(r, 3))
		}
		c.VarsJSON = "{" + strings.Join(parts, ",") + "}"
		if len(parts) > 0 {
			g.feat("vars:supplied")
		}
	}
	if r.Intn(100) < 6 {
		g.feat("bytes:mutated_variables")
		c.VarsJSON = mutateBytes(r, c.VarsJSON)
	}
	var vars map[string]interface{}
	if err := json.Unmarshal([]byte(c.VarsJSON), &vars); err == nil {
		c.Vars = vars
	} else {
		g.feat("vars:undecodable_as_object")
	}

	// HTTP request
	c.HTTPMethod = "POST"
	qField, vField := jsonString(c.Query), c.VarsJSON
	switch roll := r.Intn(100); {
	case roll < 70:
		c.HTTPBody = `{"query":` + qField + `,"variables":` + vField + `}`
	case roll < 75:
		g.feat("http:query_wrong_type")
		c.HTTPBody = `{"query":` + wrongTyped(r) + `,"variables":` + vField + `}`
	case roll < 81:
		g.feat("http:variables_wrong_type")
		c.HTTPBody = `{"query":` + qField + `,"variables":` + wrongTyped(r) + `}`
	case roll < 85:
		g.feat("http:missing_field")
		c.HTTPBody = []string{`{"variables":` + vField + `}`, `{"query":` + qField + `}`, `{}`, `{"Query":` + qField + `,"VARIABLES":{}}`}[r.Intn(4)]
	case roll < 89:
		g.feat("http:extra_or_duplicate_fields")
		c.HTTPBody = `{"operationName":1,"query":"{ kind }","query":` + qField + `,"variables":` + vField + `,"extensions":[]}`
	case roll < 93:
		g.feat("http:body_not_object")
		c.HTTPBody = []string{"", "null", "[]", "1", `"query"`, "{", `{"query":`, "\x00\xff", qField}[r.Intn(9)]
	case roll < 96:
		g.feat("http:body_mutated")
		c.HTTPBody = mutateBytes(r, `{"query":`+qField+`,"variables":`+vField+`}`)
	case roll < 98:
		g.feat("http:wrong_method")
		c.HTTPMethod = []string{"GET", "PUT", "DELETE", "OPTIONS"}[r.Intn(4)]
		c.HTTPBody = `{"query":` + qField + `}`
	default:
		g.feat("http:no_body")
		c.HTTPNoBody = true
	}

	// websocket frames
	msg := `{"query":` + qField + `,"variables":` + vField + `}`
	nf := 2 + r.Intn(4)
	ids := 0
	newID := func() string { ids++; return fmt.Sprintf("s%d", ids) }
	lastID := ""
	for k := 0; k < nf; k++ {
		roll := r.Intn(100)
		switch {
		case roll < 40 || k == 0:
			lastID = newID()
			t := "subscribe"
			if r.Intn(100) < 25 {
				t = "mutate"
			}
			g.feat("ws:" + t)
			ext := ""
			if r.Intn(10) == 0 {
				ext = `,"extensions":{"k":[1,{"x":null}]}`
			}
			c.WS = append(c.WS, `{"id":`+strconv.Quote(lastID)+`,"type":"`+t+`","message":`+msg+ext+`}`)
		case roll < 46:
			g.feat("ws:duplicate_id")
			if lastID == "" {
				lastID = newID()
			}
			c.WS = append(c.WS, `{"id":`+strconv.Quote(lastID)+`,"type":"`+[]string{"subscribe", "mutate"}[r.Intn(2)]+`","message":`+msg+`}`)
		case roll < 52:
			g.feat("ws:echo")
			c.WS = append(c.WS, `{"id":"e`+strconv.Itoa(k)+`","type":"echo"}`)
		case roll < 58:
			g.feat("ws:unsubscribe")
			c.WS = append(c.WS, `{"id":`+strconv.Quote([]string{lastID, "nope", ""}[r.Intn(3)])+`,"type":"unsubscribe"}`)
		case roll < 62:
			g.feat("ws:url")
			c.WS = append(c.WS, `{"type":"url","message":`+[]string{`"http://x/"`, "1", "null", "{}", `["a"]`}[r.Intn(5)]+`}`)
		case roll < 66:
			g.feat("ws:unknown_type")
			c.WS = append(c.WS, `{"id":"u","type":`+strconv.Quote([]string{"", "SUBSCRIBE", "ping", "subscribe ", "\u0000"}[r.Intn(5)])+`,"message":`+msg+`}`)
		case roll < 74:
			g.feat("ws:message_wrong_type")
			c.WS = append(c.WS, `{"id":`+strconv.Quote(newID())+`,"type":"`+[]string{"subscribe", "mutate"}[r.Intn(2)]+`","message":`+wrongTyped(r)+`}`)
		case roll < 79:
			g.feat("ws:message_missing")
			c.WS = append(c.WS, `{"id":`+strconv.Quote(newID())+`,"type":"`+[]string{"subscribe", "mutate", "url"}[r.Intn(3)]+`"}`)
		case roll < 85:
			g.feat("ws:inner_field_wrong_type")
			inner := []string{`{"query":` + wrongTyped(r) + `,"variables":` + vField + `}`, `{"query":` + qField + `,"variables":` + wrongTyped(r) + `}`,
				`{"variables":{}}`, `{"query":` + qField + `,"variables":{"a":` + jsonValue(r, 4) + `}}`}[r.Intn(4)]
			c.WS = append(c.WS, `{"id":`+strconv.Quote(newID())+`,"type":"subscribe","message":`+inner+`}`)
		case roll < 90:
			g.feat("ws:envelope_field_wrong_type")
			c.WS = append(c.WS, []string{
				`{"id":` + wrongTyped(r) + `,"type":"subscribe","message":` + msg + `}`,
				`{"id":"w","type":` + wrongTyped(r) + `,"message":` + msg + `}`,
				`{"id":"w","type":"subscribe","message":` + msg + `,"extensions":` + wrongTyped(r) + `}`,
			}[r.Intn(3)])
		case roll < 95:
			g.feat("ws:frame_not_object")
			c.WS = append(c.WS, []string{"null", "[]", "1", `"subscribe"`, "", "{", "\xff\xfe", `{"id":"a","type":"echo"}{"id":"b","type":"echo"}`}[r.Intn(8)])
		default:
			g.feat("ws:frame_mutated")
			c.WS = append(c.WS, mutateBytes(r, `{"id":"m","type":"subscribe","message":`+msg+`}`))
		}
	}
	for f := range g.feats {
		c.Feats = append(c.Feats, f)
	}
	sort.Strings(c.Feats)
	return c
}
