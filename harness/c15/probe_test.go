package c15

import (
	"context"
	"fmt"
	"testing"

	"github.com/samsarahq/thunder/batch"
	"github.com/samsarahq/thunder/graphql"
)

func TestProbe(t *testing.T) {
	zoo := buildZoo(nil)
	d := describe(zoo)
	for _, n := range d.Names {
		fmt.Printf("%s union=%v members=%v\n", n, d.Types[n].Union, d.Types[n].Members)
		for _, f := range d.Types[n].Fields {
			fmt.Printf("   %s -> %q args=%v\n", f.Name, f.Type, f.Args)
		}
	}
	ex := graphql.NewExecutor(graphql.NewImmediateGoroutineScheduler())
	for _, qs := range []string{
		`{ items(first: 2) { id name upper costly parent { id } related { __typename ... on Item { id } ... on Gadget { label } } } kind }`,
		`{ itemsPaged(first: 1) { edges { node { id } cursor } pageInfo { hasNextPage } } }`,
		`mutation { setName(id: 1, name: "x") { id name } }`,
	} {
		q, err := graphql.Parse(qs, nil)
		if err != nil {
			t.Fatal(err)
		}
		typ := zoo.Query
		if q.Kind == "mutation" {
			typ = zoo.Mutation
		}
		if err := graphql.PrepareQuery(context.Background(), typ, q.SelectionSet); err != nil {
			t.Fatal(err)
		}
		v, err := ex.Execute(batch.WithBatching(context.Background()), typ, nil, q)
		fmt.Printf("%v %v\n", js(v), err)
	}
	gw, err := buildGateway(nil)
	if err != nil {
		t.Fatal(err)
	}
	defer gw.cancel()
	gd := describe(gw.schemas["s1"], gw.schemas["s2"])
	for _, n := range gd.Names {
		fmt.Printf("%s union=%v members=%v\n", n, gd.Types[n].Union, gd.Types[n].Members)
		for _, f := range gd.Types[n].Fields {
			fmt.Printf("   %s -> %q args=%d\n", f.Name, f.Type, len(f.Args))
		}
	}
	for _, qs := range []string{
		`{ users { id name secret greet device { id isOn } peer { ... on User { id secret } } } s2root }`,
		`{ everyone { ... on User { id secret } ... on Admin { power } } }`,
		`mutation { s1rename(name: "z") { id name } }`,
	} {
		q, err := graphql.Parse(qs, nil)
		if err != nil {
			t.Fatal(err)
		}
		v, _, err := gw.exec.Execute(context.Background(), q, nil)
		fmt.Printf("%v %v calls=%d\n", js(v), err, gw.calls)
	}
}
