package c15

import (
	"context"
	"errors"
	"fmt"
	"sort"
	"strings"
	"sync"
	"sync/atomic"
	"time"

	"github.com/samsarahq/thunder/batch"
	"github.com/samsarahq/thunder/federation"
	"github.com/samsarahq/thunder/graphql"
	"github.com/samsarahq/thunder/graphql/schemabuilder"
)

// ---------------------------------------------------------------------------
// The "zoo" schema: a small monolith with arguments of many Go types, lists,
// an enum, a union, a keyed object, plain / Expensive / batch / paginated
// fields and a recursive object type. Resolvers never panic and never block,
// so every panic or hang observed by monitor 1 is thunder's own.

type Kind int32

const (
	KindAlpha Kind = iota + 1
	KindBeta
	KindGamma
)

type Item struct {
	Id    int64
	Name  string
	Score float64
	Tags  []string
	Kind  Kind
	Blob  []byte
	When  time.Time
	Opt   *string
	depth int
}

type Gadget struct {
	Id    int64
	Label string
}

// Owner and Box give Item (and Gadget) object-typed fields of different
// types, so that same-alias conflicts below the root merge selection sets
// that do not fit the first field's type.
type Owner struct {
	Name string
	Rank int64
}

type Box struct {
	Label string
	Size  int64
	depth int
}

type Thing struct {
	schemabuilder.Union
	*Item
	*Gadget
}

type Range struct {
	Lo, Hi float64
}

type Filter struct {
	Name   *string
	Kinds  []Kind
	Range  *Range
	Matrix [][]int64
	Ranges []Range
}

// SearchArgs gives a field BELOW the root arguments of every composite
// shape: an input object, a list of input objects, a list of lists, lists of
// scalars and enums (the root field `items` has them only inside Filter).
type SearchArgs struct {
	Filter  *Filter
	Filters *[]Filter
	Matrix  *[][]int64
	Ids     *[]int64
	Kinds   *[]Kind
	Name    *string
}

type ItemsArgs struct {
	First  *int64
	Ids    *[]int64
	Filter *Filter
	Flag   *bool
	F32    *float32
	U8     *uint8
	I16    *int16
	When   *time.Time
	Blob   *[]byte
	Id     *string
	Kind   *Kind
	Kinds  *[]Kind
}

func mkItem(id int64, depth int) *Item {
	s := fmt.Sprintf("opt%d", id)
	return &Item{Id: id, Name: fmt.Sprintf("item%d", id), Score: float64(id) / 2, Tags: []string{"t", fmt.Sprint(id)},
		Kind: Kind(id%3 + 1), Blob: []byte{byte(id)}, When: time.Unix(1600000000+id, 0).UTC(), Opt: &s, depth: depth}
}

func zooItems() []*Item {
	return []*Item{mkItem(1, 0), mkItem(2, 0), mkItem(3, 0)}
}

// buildZoo builds the monolith schema. hook (may be nil) is invoked at every
// resolver entry with the context and the resolver's name; a non-nil error it
// returns is returned by the resolver (used by monitor 4; nil for monitor 1).
func buildZoo(hook func(ctx context.Context, name string) error) *graphql.Schema {
	enter := func(ctx context.Context, name string) error {
		if hook == nil {
			return nil
		}
		return hook(ctx, name)
	}
	s := schemabuilder.NewSchema()
	s.Enum(KindAlpha, map[string]Kind{"ALPHA": KindAlpha, "BETA": KindBeta, "GAMMA": KindGamma})

	q := s.Query()
	q.FieldFunc("items", func(ctx context.Context, args ItemsArgs) ([]*Item, error) {
		if err := enter(ctx, "items"); err != nil {
			return nil, err
		}
		out := zooItems()
		if args.First != nil && *args.First >= 0 && int(*args.First) < len(out) {
			out = out[:*args.First]
		}
		return out, nil
	})
	q.FieldFunc("item", func(ctx context.Context, args struct{ Id int64 }) (*Item, error) {
		if err := enter(ctx, "item"); err != nil {
			return nil, err
		}
		if args.Id < 0 {
			return nil, nil
		}
		return mkItem(args.Id%7, 0), nil
	})
	q.FieldFunc("nullItems", func() []*Item { return []*Item{nil, nil, nil} }) // a list of only nulls
	q.FieldFunc("noItems", func() []*Item { return []*Item{} })                // an empty list
	q.FieldFunc("noItem", func() *Item { return nil })                         // a null object
	q.FieldFunc("things", func(ctx context.Context) ([]*Thing, error) {
		if err := enter(ctx, "things"); err != nil {
			return nil, err
		}
		return []*Thing{{Item: mkItem(1, 0)}, {Gadget: &Gadget{Id: 9, Label: "g9"}}, nil}, nil
	})
	q.FieldFunc("thing", func(ctx context.Context, args struct{ Kind *Kind }) (*Thing, error) {
		if err := enter(ctx, "thing"); err != nil {
			return nil, err
		}
		if args.Kind != nil && *args.Kind == KindBeta {
			return &Thing{Gadget: &Gadget{Id: 4, Label: "g4"}}, nil
		}
		return &Thing{Item: mkItem(2, 0)}, nil
	})
	q.FieldFunc("echo", func(ctx context.Context, args struct {
		S string
		N *int64
	}) (string, error) {
		if err := enter(ctx, "echo"); err != nil {
			return "", err
		}
		return args.S, nil
	})
	q.FieldFunc("kind", func() Kind { return KindGamma })
	q.FieldFunc("itemsExpensive", func(ctx context.Context) ([]*Item, error) {
		if err := enter(ctx, "itemsExpensive"); err != nil {
			return nil, err
		}
		return zooItems(), nil
	}, schemabuilder.Expensive)
	q.FieldFunc("itemsPaged", func(ctx context.Context, args struct{ Prefix *string }) ([]*Item, error) {
		if err := enter(ctx, "itemsPaged"); err != nil {
			return nil, err
		}
		return zooItems(), nil
	}, schemabuilder.Paginated)
	q.FieldFunc("fail", func(ctx context.Context) (string, error) {
		if err := enter(ctx, "fail"); err != nil {
			return "", err
		}
		return "", errors.New("zoo failure")
	})
	q.FieldFunc("failSafe", func() (string, error) { return "", graphql.NewSafeError("zoo safe failure") })

	item := s.Object("Item", Item{})
	item.Key("id")
	item.FieldFunc("parent", func(ctx context.Context, it *Item) (*Item, error) {
		if err := enter(ctx, "parent"); err != nil {
			return nil, err
		}
		if it.depth >= 3 {
			return nil, nil
		}
		return mkItem(it.Id+10, it.depth+1), nil
	})
	item.FieldFunc("children", func(ctx context.Context, it *Item, args struct{ First *int64 }) ([]*Item, error) {
		if err := enter(ctx, "children"); err != nil {
			return nil, err
		}
		if it.depth >= 3 {
			return nil, nil
		}
		return []*Item{mkItem(it.Id*2, it.depth+1), mkItem(it.Id*2+1, it.depth+1)}, nil
	})
	item.BatchFieldFunc("upper", func(ctx context.Context, in map[batch.Index]*Item) (map[batch.Index]string, error) {
		if err := enter(ctx, "upper"); err != nil {
			return nil, err
		}
		out := make(map[batch.Index]string, len(in))
		for i, it := range in {
			out[i] = strings.ToUpper(it.Name)
		}
		return out, nil
	})
	item.FieldFunc("costly", func(ctx context.Context, it *Item) (int64, error) {
		if err := enter(ctx, "costly"); err != nil {
			return 0, err
		}
		return it.Id * 100, nil
	}, schemabuilder.Expensive)
	item.FieldFunc("related", func(ctx context.Context, it *Item) (*Thing, error) {
		if err := enter(ctx, "related"); err != nil {
			return nil, err
		}
		if it.Id%2 == 0 {
			return &Thing{Gadget: &Gadget{Id: it.Id, Label: "rel"}}, nil
		}
		if it.depth >= 3 {
			return nil, nil
		}
		return &Thing{Item: mkItem(it.Id+1, it.depth+1)}, nil
	})
	item.FieldFunc("isKind", func(it *Item, args struct{ K Kind }) bool { return it.Kind == args.K })
	item.FieldFunc("search", func(ctx context.Context, it *Item, args SearchArgs) ([]*Item, error) {
		if err := enter(ctx, "search"); err != nil {
			return nil, err
		}
		if it.depth >= 3 {
			return nil, nil
		}
		return []*Item{mkItem(it.Id+3, it.depth+1)}, nil
	})
	item.FieldFunc("matches", func(it *Item, args struct {
		Filters *[]Filter
		Matrix  *[][]int64
	}) bool {
		return args.Filters != nil || args.Matrix != nil
	})
	// fields with a parallelism hint (schemabuilder.NumParallelInvocationsFunc): the executor splits the
	// sources of such a field over that many work units, whatever the function returns and however many
	// sources there are (none, when every parent object is null). parB*: batch field funcs; parP*: plain
	// context-taking field funcs.
	for _, h := range []struct {
		suffix string
		n      int
	}{{"0", 0}, {"1", 1}, {"2", 2}, {"5", 5}, {"Big", 1000}, {"Neg", -3}} {
		n := h.n
		hint := schemabuilder.NumParallelInvocationsFunc(func(ctx context.Context, numNodes int) int { return n })
		item.BatchFieldFunc("parB"+h.suffix, func(ctx context.Context, in map[batch.Index]*Item) (map[batch.Index]int64, error) {
			if err := enter(ctx, "parB"); err != nil {
				return nil, err
			}
			out := make(map[batch.Index]int64, len(in))
			for i, it := range in {
				out[i] = it.Id
			}
			return out, nil
		}, hint)
		item.FieldFunc("parP"+h.suffix, func(ctx context.Context, it *Item) (int64, error) {
			if err := enter(ctx, "parP"); err != nil {
				return 0, err
			}
			return it.Id, nil
		}, hint)
	}
	item.FieldFunc("owner", func(ctx context.Context, it *Item) (*Owner, error) {
		if err := enter(ctx, "owner"); err != nil {
			return nil, err
		}
		return &Owner{Name: fmt.Sprintf("owner%d", it.Id), Rank: it.Id}, nil
	})
	item.FieldFunc("box", func(ctx context.Context, it *Item, args struct{ Size *int64 }) (*Box, error) {
		if err := enter(ctx, "box"); err != nil {
			return nil, err
		}
		return &Box{Label: "box", Size: it.Id}, nil
	})
	box := s.Object("Box", Box{})
	box.FieldFunc("inner", func(b *Box) *Box {
		if b.depth >= 3 {
			return nil
		}
		return &Box{Label: b.Label + "i", Size: b.Size + 1, depth: b.depth + 1}
	})
	box.FieldFunc("owner", func(b *Box) *Owner { return &Owner{Name: "boxowner", Rank: b.Size} })
	box.FieldFunc("items", func(b *Box, args struct{ First *int64 }) []*Item { return []*Item{mkItem(b.Size%5+1, 2)} })
	s.Object("Owner", Owner{})

	gadget := s.Object("Gadget", Gadget{})
	gadget.FieldFunc("maker", func(g *Gadget) *Owner { return &Owner{Name: "maker", Rank: g.Id} })
	gadget.FieldFunc("crate", func(g *Gadget) *Box { return &Box{Label: "crate", Size: g.Id} })

	m := s.Mutation()
	m.FieldFunc("setName", func(ctx context.Context, args struct {
		Id   int64
		Name string
	}) (*Item, error) {
		if err := enter(ctx, "setName"); err != nil {
			return nil, err
		}
		it := mkItem(args.Id%7, 0)
		it.Name = args.Name
		return it, nil
	})
	m.FieldFunc("noop", func() bool { return true })
	m.FieldFunc("failMut", func() (bool, error) { return false, errors.New("mutation failure") })
	return s.MustBuild()
}

// ---------------------------------------------------------------------------
// Two-service gateway built in process (after federation/executor_test.go).

type User struct {
	Id    int64
	OrgId int64
	Name  string
}

type Admin struct {
	Id    int64
	Power string
}

type Everyone struct {
	schemabuilder.Union
	*User
	*Admin
}

type UserS2 struct {
	Id    int64
	OrgId int64
	Name  string
	Email string
}

type Device struct {
	Id   int64
	IsOn bool
}

// UserFilter / Tag: composite argument shapes for the gateway's services.
type Tag struct {
	Key    string
	Values []string
}

type UserFilter struct {
	Name *string
	Ids  []int64
	Tags []Tag
	Grid [][]int64
}

// clientHook observes / perturbs one federated sub-query. It is called before
// the sub-query is forwarded; a non-nil error is returned instead of
// forwarding.
type clientHook func(ctx context.Context, service string, req *federation.QueryRequest) error

type hookedClient struct {
	service string
	inner   federation.ExecutorClient
	gw      *gateway
}

func (c *hookedClient) Execute(ctx context.Context, req *federation.QueryRequest) (*federation.QueryResponse, error) {
	atomic.AddInt64(&c.gw.calls, 1)
	c.gw.mu.Lock()
	h := c.gw.hook
	c.gw.mu.Unlock()
	if h != nil {
		if err := h(ctx, c.service, req); err != nil {
			return nil, err
		}
	}
	resp, err := c.inner.Execute(ctx, req)
	c.gw.mu.Lock()
	a := c.gw.after
	c.gw.mu.Unlock()
	if a != nil {
		a(ctx, c.service)
	}
	return resp, err
}

type gateway struct {
	exec    *federation.Executor
	schemas map[string]*graphql.Schema
	servers map[string]*federation.Server
	cancel  context.CancelFunc
	calls   int64

	mu    sync.Mutex
	hook  clientHook
	after func(ctx context.Context, service string)
}

func (g *gateway) setHooks(h clientHook, after func(ctx context.Context, service string)) {
	g.mu.Lock()
	g.hook, g.after = h, after
	g.mu.Unlock()
}

// buildGateway builds services s1 and s2 and a federation.Executor over them.
// resolverHook as in buildZoo.
func buildGateway(resolverHook func(ctx context.Context, name string) error) (*gateway, error) {
	enter := func(ctx context.Context, name string) error {
		if resolverHook == nil {
			return nil
		}
		return resolverHook(ctx, name)
	}
	s1 := schemabuilder.NewSchemaWithName("s1")
	user := s1.Object("User", User{}, schemabuilder.FetchObjectFromKeys(func(args struct{ Keys []*User }) []*User {
		return args.Keys
	}))
	user.Key("id")
	s1.Query().FieldFunc("users", func(ctx context.Context) ([]*User, error) {
		if err := enter(ctx, "s1.users"); err != nil {
			return nil, err
		}
		return []*User{{Id: 1, OrgId: 1, Name: "u1"}, {Id: 2, OrgId: 2, Name: "u2"}}, nil
	})
	s1.Query().FieldFunc("usersWithArgs", func(ctx context.Context, args struct {
		Name string
		Ids  []int64
		Opt  *float64
	}) ([]*User, error) {
		if err := enter(ctx, "s1.usersWithArgs"); err != nil {
			return nil, err
		}
		return []*User{{Id: 1, OrgId: 1, Name: args.Name}}, nil
	})
	s1.Query().FieldFunc("usersFiltered", func(ctx context.Context, args struct {
		Filters *[]UserFilter
		Where   *UserFilter
		Grid    *[][]int64
	}) ([]*User, error) {
		if err := enter(ctx, "s1.usersFiltered"); err != nil {
			return nil, err
		}
		return []*User{{Id: 3, OrgId: 1, Name: "u3"}}, nil
	})
	s1.Query().FieldFunc("s1echo", func(ctx context.Context, args struct{ S string }) (string, error) {
		if err := enter(ctx, "s1.s1echo"); err != nil {
			return "", err
		}
		return args.S, nil
	})
	admin := s1.Object("Admin", Admin{}, schemabuilder.FetchObjectFromKeys(func(args struct{ Keys []*Admin }) []*Admin {
		return args.Keys
	}))
	admin.Key("id")
	s1.Query().FieldFunc("everyone", func(ctx context.Context) ([]*Everyone, error) {
		if err := enter(ctx, "s1.everyone"); err != nil {
			return nil, err
		}
		return []*Everyone{{Admin: &Admin{Id: 1, Power: "fly"}}, {User: &User{Id: 2, OrgId: 2, Name: "u2"}}}, nil
	})
	device := s1.Object("Device", Device{}, schemabuilder.FetchObjectFromKeys(func(args struct{ Keys []*Device }) []*Device {
		return args.Keys
	}))
	device.Key("id")
	user.FieldFunc("nearby", func(ctx context.Context, u *User, args struct {
		Where *[]UserFilter
		Grid  *[][]int64
	}) (bool, error) {
		if err := enter(ctx, "s1.nearby"); err != nil {
			return false, err
		}
		return args.Where != nil, nil
	})
	user.FieldFunc("device", func(ctx context.Context, u *User) (*Device, error) {
		if err := enter(ctx, "s1.device"); err != nil {
			return nil, err
		}
		return &Device{Id: u.Id + 100, IsOn: true}, nil
	})
	user.FieldFunc("peer", func(ctx context.Context, u *User) (*Everyone, error) {
		if err := enter(ctx, "s1.peer"); err != nil {
			return nil, err
		}
		if u.Id > 3 {
			return nil, nil
		}
		return &Everyone{User: &User{Id: u.Id + 1, OrgId: u.OrgId, Name: "peer"}}, nil
	})
	s1.Mutation().FieldFunc("s1rename", func(ctx context.Context, args struct{ Name string }) (*User, error) {
		if err := enter(ctx, "s1.s1rename"); err != nil {
			return nil, err
		}
		return &User{Id: 1, OrgId: 1, Name: args.Name}, nil
	})

	s2 := schemabuilder.NewSchemaWithName("s2")
	user2 := s2.Object("User", UserS2{}, schemabuilder.FetchObjectFromKeys(func(args struct{ Keys []*User }) []*UserS2 {
		out := make([]*UserS2, 0, len(args.Keys))
		for _, k := range args.Keys {
			out = append(out, &UserS2{Id: k.Id, OrgId: k.OrgId, Name: k.Name, Email: fmt.Sprintf("e%d", k.Id)})
		}
		return out
	}))
	user2.Key("id")
	user2.FieldFunc("secret", func(ctx context.Context, u *UserS2) (string, error) {
		if err := enter(ctx, "s2.secret"); err != nil {
			return "", err
		}
		return fmt.Sprintf("secret%d", u.Id), nil
	})
	user2.FieldFunc("greet", func(ctx context.Context, u *UserS2, args struct{ Salute *string }) (string, error) {
		if err := enter(ctx, "s2.greet"); err != nil {
			return "", err
		}
		return "hi " + u.Name, nil
	})
	user2.FieldFunc("tagged", func(ctx context.Context, u *UserS2, args struct {
		Tags *[]Tag
		Grid *[][]int64
	}) (bool, error) {
		if err := enter(ctx, "s2.tagged"); err != nil {
			return false, err
		}
		return args.Tags != nil, nil
	})
	s2.Query().FieldFunc("s2root", func(ctx context.Context) (string, error) {
		if err := enter(ctx, "s2.s2root"); err != nil {
			return "", err
		}
		return "root2", nil
	})
	s2.Query().FieldFunc("s2users", func(ctx context.Context) ([]*UserS2, error) {
		if err := enter(ctx, "s2.s2users"); err != nil {
			return nil, err
		}
		return []*UserS2{{Id: 5, OrgId: 5, Name: "u5", Email: "e5"}}, nil
	})
	s2.Mutation().FieldFunc("s2touch", func(ctx context.Context) (bool, error) {
		if err := enter(ctx, "s2.s2touch"); err != nil {
			return false, err
		}
		return true, nil
	})

	g := &gateway{schemas: map[string]*graphql.Schema{}, servers: map[string]*federation.Server{}}
	clients := map[string]federation.ExecutorClient{}
	for name, sb := range map[string]*schemabuilder.Schema{"s1": s1, "s2": s2} {
		built := sb.MustBuild()
		srv, err := federation.NewServer(built)
		if err != nil {
			return nil, err
		}
		g.schemas[name] = built
		g.servers[name] = srv
		clients[name] = &hookedClient{service: name, inner: &federation.DirectExecutorClient{Client: srv}, gw: g}
	}
	ctx, cancel := context.WithCancel(context.Background())
	g.cancel = cancel
	e, err := federation.NewExecutor(ctx, clients, &federation.SchemaSyncerConfig{
		SchemaSyncer: federation.NewIntrospectionSchemaSyncer(ctx, clients, nil)})
	if err != nil {
		cancel()
		return nil, err
	}
	g.exec = e
	return g, nil
}

// ---------------------------------------------------------------------------
// Schema description derived from a built graphql.Schema (public fields
// only): what the grammar generator walks to produce mostly-valid queries.

type fieldDesc struct {
	Name string
	Args []argDesc
	Type string // name of the object / union the field returns, "" for leaves
}

type argDesc struct {
	Name string
	Type graphql.Type
}

type typeDesc struct {
	Name    string
	Union   bool
	Members []string
	Fields  []fieldDesc
}

type schemaDesc struct {
	Types    map[string]*typeDesc
	Names    []string
	Query    string
	Mutation string
}

func namedType(t graphql.Type) graphql.Type {
	for {
		switch x := t.(type) {
		case *graphql.NonNull:
			t = x.Type
		case *graphql.List:
			t = x.Type
		default:
			return t
		}
	}
}

func describe(schemas ...*graphql.Schema) *schemaDesc {
	d := &schemaDesc{Types: map[string]*typeDesc{}}
	var walk func(t graphql.Type)
	walk = func(t graphql.Type) {
		switch x := namedType(t).(type) {
		case *graphql.Object:
			td, seen := d.Types[x.Name]
			if !seen {
				td = &typeDesc{Name: x.Name}
				d.Types[x.Name] = td
			}
			have := map[string]bool{}
			for _, f := range td.Fields {
				have[f.Name] = true
			}
			names := make([]string, 0, len(x.Fields))
			for n := range x.Fields {
				names = append(names, n)
			}
			sort.Strings(names)
			var todo []graphql.Type
			for _, n := range names {
				if have[n] || strings.HasPrefix(n, "__") {
					continue
				}
				f := x.Fields[n]
				fd := fieldDesc{Name: n}
				an := make([]string, 0, len(f.Args))
				for a := range f.Args {
					an = append(an, a)
				}
				sort.Strings(an)
				for _, a := range an {
					fd.Args = append(fd.Args, argDesc{Name: a, Type: f.Args[a]})
				}
				switch y := namedType(f.Type).(type) {
				case *graphql.Object:
					fd.Type = y.Name
					todo = append(todo, y)
				case *graphql.Union:
					fd.Type = y.Name
					todo = append(todo, y)
				}
				td.Fields = append(td.Fields, fd)
			}
			for _, t := range todo {
				walk(t)
			}
		case *graphql.Union:
			if _, seen := d.Types[x.Name]; seen {
				return
			}
			td := &typeDesc{Name: x.Name, Union: true}
			d.Types[x.Name] = td
			for n := range x.Types {
				td.Members = append(td.Members, n)
			}
			sort.Strings(td.Members)
			for _, n := range td.Members {
				walk(x.Types[n])
			}
		}
	}
	for _, s := range schemas {
		if o, ok := s.Query.(*graphql.Object); ok {
			d.Query = o.Name
			walk(o)
		}
		if o, ok := s.Mutation.(*graphql.Object); ok {
			d.Mutation = o.Name
			walk(o)
		}
	}
	for n := range d.Types {
		d.Names = append(d.Names, n)
	}
	sort.Strings(d.Names)
	return d
}
