package c15

import (
	"context"
	"encoding/json"
	"errors"
	"fmt"
	"strings"
	"sync"
	"sync/atomic"
	"time"

	"github.com/samsarahq/thunder/batch"
	"github.com/samsarahq/thunder/graphql"
	"github.com/samsarahq/thunder/graphql/schemabuilder"
	"github.com/samsarahq/thunder/reactive"
	"github.com/samsarahq/thunder/verifharness/vlib"
)

// ---------------------------------------------------------------------------
// Monitor 3: panic containment. One websocket connection carries healthy
// subscriptions whose data the harness changes (reactive.Resource) and one
// request whose resolver panics. Oracle: the panicking request gets exactly
// one `error` envelope with the generic text, nothing of the panic value
// reaches the client, the healthy subscriptions keep converging to the
// current data, `echo` answers, and the id is free for a new subscription.

const secretMarker = "SECRET-9f3a"

type Row struct {
	Id int64
	V  int64
}

type Other struct {
	Name string
}

type RowOrOther struct {
	schemabuilder.Union
	*Row
	*Other
}

type Holder struct{}

type m3State struct {
	mu      sync.Mutex
	version int64
	res     *reactive.Resource

	kind      string // panic value kind
	placement string
	armed     int64 // number of computations of the panicking resolver that still panic (-1 = always)
	entries   int64
	panics    int64

	single *Row // one object handed out by every `single` resolver (same source for the executor's cache)
}

type m3CacheKey struct{ name string }

// load is the usual thunder idiom: a fetch shared by several resolvers of one
// request through the rerunner's reactive cache. Under placement
// cache_shared* the fetch itself panics inside the cache's compute function.
func (st *m3State) load(ctx context.Context, where string) (int64, error) {
	v, err := reactive.Cache(ctx, m3CacheKey{"shared"}, func(ctx context.Context) (interface{}, error) {
		v := st.dep(ctx)
		st.maybePanic(where)
		return v, nil
	})
	if err != nil {
		return 0, err
	}
	return v.(int64), nil
}

func (st *m3State) dep(ctx context.Context) int64 {
	atomic.AddInt64(&st.entries, 1)
	st.mu.Lock()
	defer st.mu.Unlock()
	reactive.AddDependency(ctx, st.res, nil)
	return st.version
}

func (st *m3State) bump() int64 {
	st.mu.Lock()
	st.version++
	v := st.version
	old := st.res
	st.res = reactive.NewResource()
	st.mu.Unlock()
	old.Invalidate()
	return v
}

type customPanic struct{ S string }

// maybePanic panics when the resolver at `where` is the armed placement.
func (st *m3State) maybePanic(where string) {
	atomic.AddInt64(&st.entries, 1)
	if where != st.placement {
		return
	}
	for {
		a := atomic.LoadInt64(&st.armed)
		if a == 0 {
			return
		}
		if a < 0 || atomic.CompareAndSwapInt64(&st.armed, a, a-1) {
			break
		}
	}
	atomic.AddInt64(&st.panics, 1)
	switch st.kind {
	case "string":
		panic(secretMarker + " boom")
	case "error":
		panic(errors.New(secretMarker + " error value"))
	case "runtime_nil":
		var p *Row
		_ = p.Id
	case "runtime_index":
		var a []int
		i := 3
		_ = a[i]
	case "custom":
		panic(customPanic{S: secretMarker})
	case "nil":
		panic(nil)
	case "client_error": // a panic whose value is a sanitised error must not be trusted either
		panic(graphql.NewClientError(secretMarker + " client error"))
	}
	panic(secretMarker)
}

func buildM3Schema(st *m3State) *graphql.Schema {
	s := schemabuilder.NewSchema()
	q := s.Query()
	q.FieldFunc("counter", func(ctx context.Context) int64 { return st.dep(ctx) })
	q.FieldFunc("rows", func(ctx context.Context) []*Row {
		v := st.dep(ctx)
		return []*Row{{Id: 1, V: v}, {Id: 2, V: v}, {Id: 3, V: v}}
	})
	q.FieldFunc("boom", func(ctx context.Context) string { st.dep(ctx); st.maybePanic("plain_top"); return "ok" })
	q.FieldFunc("boomExpensive", func(ctx context.Context) string { st.dep(ctx); st.maybePanic("expensive_top"); return "ok" }, schemabuilder.Expensive)
	q.FieldFunc("holder", func() *Holder { return &Holder{} })
	q.FieldFunc("cachedA", func(ctx context.Context) (int64, error) { return st.load(ctx, "cache_shared") })
	q.FieldFunc("cachedB", func(ctx context.Context) (int64, error) { return st.load(ctx, "cache_shared") })
	q.FieldFunc("single", func(ctx context.Context) *Row { st.dep(ctx); return st.single })
	q.FieldFunc("uni", func(ctx context.Context) []*RowOrOther {
		v := st.dep(ctx)
		return []*RowOrOther{{Row: &Row{Id: 1, V: v}}, {Other: &Other{Name: "o"}}, {Row: &Row{Id: 2, V: v}}}
	})
	h := s.Object("Holder", Holder{})
	h.FieldFunc("boom", func(ctx context.Context) string { st.dep(ctx); st.maybePanic("plain_nested"); return "ok" })
	h.FieldFunc("boomExpensive", func(ctx context.Context) string { st.dep(ctx); st.maybePanic("expensive_nested"); return "ok" }, schemabuilder.Expensive)
	h.FieldFunc("cached", func(ctx context.Context) (int64, error) { return st.load(ctx, "cache_shared_aliases") })
	h.FieldFunc("cachedExpensive", func(ctx context.Context) (int64, error) { return st.load(ctx, "cache_shared_expensive") }, schemabuilder.Expensive)
	row := s.Object("Row", Row{})
	row.Key("id")
	row.BatchFieldFunc("boomBatch", func(ctx context.Context, in map[batch.Index]*Row) (map[batch.Index]string, error) {
		st.maybePanic("batch_nested")
		out := map[batch.Index]string{}
		for i := range in {
			out[i] = "ok"
		}
		return out, nil
	})
	row.FieldFunc("boomAt", func(r *Row) string {
		if r.Id == 2 {
			st.maybePanic("list_element")
			st.maybePanic("union_member")
		}
		return "ok"
	})
	// an Expensive field reached twice for one source object through one
	// *Selection (a named fragment spread under two aliases of `single`): both
	// uses share the executor's cache key (field, source, selection)
	row.FieldFunc("boomX", func(ctx context.Context, r *Row) string {
		st.dep(ctx)
		st.maybePanic("expensive_same_key")
		return "ok"
	}, schemabuilder.Expensive)
	s.Object("Other", Other{})
	m := s.Mutation()
	m.FieldFunc("boomMut", func() bool { st.maybePanic("mutation"); return true })
	m.FieldFunc("touch", func() bool { return true })
	return s.MustBuild()
}

// chanSocket is a JSONSocket driven frame by frame by the scenario.
type chanSocket struct {
	in     chan string
	mu     sync.Mutex
	outs   []map[string]interface{}
	raw    []string
	writes int64
	end    endGuard
}

func (s *chanSocket) ReadJSON(v interface{}) error {
	f, ok := <-s.in
	if !ok {
		return s.end.ended()
	}
	return json.NewDecoder(strings.NewReader(f)).Decode(v)
}

func (s *chanSocket) WriteJSON(v interface{}) error {
	b, err := json.Marshal(v)
	if err != nil {
		return err
	}
	var m map[string]interface{}
	if err := json.Unmarshal(b, &m); err != nil {
		return err
	}
	s.mu.Lock()
	s.outs = append(s.outs, m)
	s.raw = append(s.raw, string(b))
	s.mu.Unlock()
	atomic.AddInt64(&s.writes, 1)
	return nil
}

func (s *chanSocket) Close() error { return nil }

// fold returns, for id, the client state after merging all `update`
// envelopes (documented client algorithm), the number of envelopes per type,
// and the messages of its error envelopes.
func (s *chanSocket) fold(id string) (state interface{}, counts map[string]int, errMsgs []interface{}, mergeErr error) {
	s.mu.Lock()
	outs := append([]map[string]interface{}{}, s.outs...)
	s.mu.Unlock()
	counts = map[string]int{}
	for _, o := range outs {
		oid, _ := o["id"].(string)
		if oid != id {
			continue
		}
		t, _ := o["type"].(string)
		counts[t]++
		switch t {
		case "update", "result":
			st, err := vlib.MergeTS(state, vlib.DeepCopyJSON(o["message"]))
			if err != nil {
				return state, counts, errMsgs, err
			}
			state = st
		case "error":
			errMsgs = append(errMsgs, o["message"])
		}
	}
	return state, counts, errMsgs, nil
}

type subLogger struct {
	mu    sync.Mutex
	ended map[string]int
}

func (l *subLogger) Subscribe(ctx context.Context, id string, tags map[string]string) {}
func (l *subLogger) Unsubscribe(ctx context.Context, id string) {
	l.mu.Lock()
	l.ended[id]++
	l.mu.Unlock()
}
func (l *subLogger) count(id string) int {
	l.mu.Lock()
	defer l.mu.Unlock()
	return l.ended[id]
}

type m3Scenario struct {
	Placement string
	Kind      string
	Order     string // panic_first | panic_last | panic_between
	When      string // initial | rerun
}

var m3Placements = []string{"plain_top", "plain_nested", "expensive_top", "expensive_nested", "batch_nested", "list_element", "union_member", "mutation",
	"cache_shared", "cache_shared_aliases", "cache_shared_expensive", "expensive_same_key"}
var m3Kinds = []string{"string", "error", "runtime_nil", "runtime_index", "custom", "nil", "client_error"}
var m3Orders = []string{"panic_last", "panic_first", "panic_between"}

func m3Query(placement string) string {
	switch placement {
	case "plain_top":
		return `{ counter boom }`
	case "plain_nested":
		return `{ counter holder { boom } }`
	case "expensive_top":
		return `{ counter boomExpensive }`
	case "expensive_nested":
		return `{ counter holder { boomExpensive } }`
	case "batch_nested":
		return `{ counter rows { id boomBatch } }`
	case "list_element":
		return `{ counter rows { id boomAt } }`
	case "union_member":
		return `{ counter uni { ... on Row { id boomAt } ... on Other { name } } }`
	case "mutation":
		return `mutation { boomMut }`
	case "cache_shared": // two resolvers of one request share a fetch that panics inside reactive.Cache
		return `{ counter cachedA cachedB }`
	case "cache_shared_aliases":
		return `{ counter a: holder { cached } b: holder { cached } c: holder { x: cached y: cached } }`
	case "cache_shared_expensive":
		return `{ counter a: holder { cachedExpensive } b: holder { cachedExpensive } }`
	case "expensive_same_key":
		return `{ counter a: single { ...G } b: single { ...G } } fragment G on Row { boomX }`
	}
	return `{ counter }`
}

// m3Expected is the healed result of m3Query at version v.
func m3Expected(placement string, v int64) interface{} {
	fv := float64(v)
	rows := func(field string) []interface{} {
		var out []interface{}
		for id := 1; id <= 3; id++ {
			out = append(out, map[string]interface{}{"id": float64(id), field: "ok"})
		}
		return out
	}
	switch placement {
	case "plain_top":
		return map[string]interface{}{"counter": fv, "boom": "ok"}
	case "plain_nested":
		return map[string]interface{}{"counter": fv, "holder": map[string]interface{}{"boom": "ok"}}
	case "expensive_top":
		return map[string]interface{}{"counter": fv, "boomExpensive": "ok"}
	case "expensive_nested":
		return map[string]interface{}{"counter": fv, "holder": map[string]interface{}{"boomExpensive": "ok"}}
	case "batch_nested":
		return map[string]interface{}{"counter": fv, "rows": rows("boomBatch")}
	case "list_element":
		return map[string]interface{}{"counter": fv, "rows": rows("boomAt")}
	case "union_member":
		return map[string]interface{}{"counter": fv, "uni": []interface{}{
			map[string]interface{}{"id": 1.0, "boomAt": "ok"}, map[string]interface{}{"name": "o"}, map[string]interface{}{"id": 2.0, "boomAt": "ok"}}}
	case "cache_shared":
		return map[string]interface{}{"counter": fv, "cachedA": fv, "cachedB": fv}
	case "cache_shared_aliases":
		return map[string]interface{}{"counter": fv, "a": map[string]interface{}{"cached": fv}, "b": map[string]interface{}{"cached": fv},
			"c": map[string]interface{}{"x": fv, "y": fv}}
	case "cache_shared_expensive":
		return map[string]interface{}{"counter": fv, "a": map[string]interface{}{"cachedExpensive": fv}, "b": map[string]interface{}{"cachedExpensive": fv}}
	case "expensive_same_key":
		return map[string]interface{}{"counter": fv, "a": map[string]interface{}{"boomX": "ok"}, "b": map[string]interface{}{"boomX": "ok"}}
	}
	return nil
}

func expectedH1(v int64) interface{} { return map[string]interface{}{"counter": float64(v)} }
func expectedH2(v int64) interface{} {
	var rows []interface{}
	for id := 1; id <= 3; id++ {
		rows = append(rows, map[string]interface{}{"id": float64(id), "v": float64(v)})
	}
	return map[string]interface{}{"rows": rows}
}

func subscribeFrame(id, typ, query string) string {
	return fmt.Sprintf(`{"id":%q,"type":%q,"message":{"query":%q,"variables":{}}}`, id, typ, query)
}

func runM3(run *vlib.Run) {
	var scenarios []m3Scenario
	for _, pl := range m3Placements {
		for ki, k := range m3Kinds {
			for oi, o := range m3Orders {
				// quick: every placement x kind once, order rotating; thorough: the full product
				if !run.Thorough() && (ki+oi)%len(m3Orders) != 0 {
					continue
				}
				scenarios = append(scenarios, m3Scenario{Placement: pl, Kind: k, Order: o, When: "initial"})
				if pl != "mutation" && (run.Thorough() || ki%3 == 0) {
					scenarios = append(scenarios, m3Scenario{Placement: pl, Kind: k, Order: o, When: "rerun"})
				}
			}
		}
	}
	section(run, offM3, len(scenarios), 4, func(k int) { runM3Scenario(run, offM3+k, scenarios[k]) })
}

func runM3Scenario(run *vlib.Run, caseIdx int, sc m3Scenario) {
	fmt.Println("CASE", caseIdx, "m3", sc.Placement, sc.Kind, sc.Order, sc.When)
	run.Case(fmt.Sprintf("m3|%s|%s|%s|%s", sc.Placement, sc.Kind, sc.Order, sc.When), true)
	run.Count("m3:scenarios", 1)
	run.Count("m3:placement:"+sc.Placement, 1)
	run.Count("m3:panic_kind:"+sc.Kind, 1)
	run.Count("m3:when:"+sc.When, 1)

	st := &m3State{res: reactive.NewResource(), kind: sc.Kind, placement: sc.Placement, version: 1, single: &Row{Id: 7}}
	if sc.When == "initial" {
		st.armed = -1
	}
	schema := buildM3Schema(st)
	sock := &chanSocket{in: make(chan string, 16)}
	ctx, cancel := context.WithCancel(context.Background())
	defer cancel()
	lg := &subLogger{ended: map[string]int{}}
	sock.end.cancel = cancel
	conn := graphql.CreateConnection(ctx, sock, schema, graphql.WithMinRerunInterval(time.Millisecond), graphql.WithSubscriptionLogger(lg))
	var served int32
	var escaped *panicRec
	go func() {
		defer atomic.StoreInt32(&served, 1)
		defer func() {
			if p := recover(); p != nil {
				escaped = &panicRec{Target: "ServeJSONSocket", Value: fmt.Sprint(p)}
			}
		}()
		conn.ServeJSONSocket()
	}()
	activity := func() int64 { return atomic.LoadInt64(&sock.writes) + atomic.LoadInt64(&st.entries) }
	var steps []string
	failed := false
	violate := func(what string, extra map[string]interface{}) {
		failed = true
		sock.mu.Lock()
		raw := append([]string{}, sock.raw...)
		sock.mu.Unlock()
		if len(raw) > 60 {
			raw = raw[len(raw)-60:]
		}
		w := map[string]interface{}{"monitor": "3 panic containment", "scenario": sc, "panicking_query": m3Query(sc.Placement), "what": what,
			"steps": steps, "out_envelopes": raw, "version": atomic.LoadInt64(&st.version), "resolver_panics": atomic.LoadInt64(&st.panics)}
		for k, v := range extra {
			w[k] = v
		}
		run.Violation(caseIdx, "", w)
	}
	// wait waits for cond; false = scenario cannot continue
	wait := func(what string, cond func() bool) bool {
		steps = append(steps, "wait: "+what)
		switch out, stacks := waitEntry(cond, activity, "(*conn).ServeJSONSocket", 2*time.Second, 12*time.Second); out {
		case waitReached:
			return true
		case waitStuck:
			violate("connection went quiet before: "+what, map[string]interface{}{"stacks": stacks})
		default:
			run.Inconclusive(fmt.Sprintf("m3 case %d: still busy while waiting for: %s", caseIdx, what))
			failed = true
		}
		return false
	}
	send := func(f string) { steps = append(steps, "send: "+f); sock.in <- f }
	converged := func(id string, want interface{}) func() bool {
		return func() bool {
			state, _, _, err := sock.fold(id)
			return err == nil && vlib.Canon(state) == vlib.Canon(want)
		}
	}
	healthy := func(v int64) bool {
		return wait(fmt.Sprintf("h1 and h2 show version %d", v), func() bool {
			return converged("h1", expectedH1(v))() && converged("h2", expectedH2(v))()
		})
	}
	subH := func(which int) {
		if which == 1 {
			send(subscribeFrame("h1", "subscribe", `{ counter }`))
		} else {
			send(subscribeFrame("h2", "subscribe", `{ rows { id v } }`))
		}
	}
	typ := "subscribe"
	if sc.Placement == "mutation" {
		typ = "mutate"
	}
	subP := func() { send(subscribeFrame("p", typ, m3Query(sc.Placement))) }
	switch sc.Order {
	case "panic_first":
		subP()
		subH(1)
		subH(2)
	case "panic_between":
		subH(1)
		subP()
		subH(2)
	default:
		subH(1)
		subH(2)
		subP()
	}
	v := int64(1)
	ok := healthy(v)
	errorsOf := func(id string) (int, int, []interface{}) {
		_, counts, msgs, _ := sock.fold(id)
		return counts["error"], counts["update"] + counts["result"], msgs
	}
	if ok && sc.When == "initial" {
		ok = wait("error envelope for p", func() bool { n, _, _ := errorsOf("p"); return n >= 1 })
	}
	if ok && sc.When == "rerun" {
		ok = wait("p shows its healthy initial result", converged("p", m3Expected(sc.Placement, v)))
		if ok {
			atomic.StoreInt64(&st.armed, 2) // the next two computations of the resolver panic, then it heals
		}
	}
	// data changes while the failed / failing request is around
	for round := 0; ok && round < 2; round++ {
		v = st.bump()
		steps = append(steps, fmt.Sprintf("bump to version %d", v))
		ok = healthy(v)
	}
	if ok && sc.When == "rerun" {
		ok = wait("p converges after its resolver stopped panicking", converged("p", m3Expected(sc.Placement, v)))
		if ok && atomic.LoadInt64(&st.panics) == 0 {
			run.Inconclusive(fmt.Sprintf("m3 case %d: the armed resolver was never re-entered", caseIdx))
		}
	}
	if ok {
		send(`{"id":"ping","type":"echo"}`)
		ok = wait("echo answered", func() bool { _, c, _, _ := sock.fold("ping"); return c["echo"] >= 1 })
	}
	if ok && sc.When == "initial" {
		// the id must become free again (thunder tears the failed request down
		// asynchronously; the harness waits for that, re-use races are property
		// C17's business): a healthy subscription under the same id works
		ok = wait("failed request p is torn down", func() bool { return lg.count("p") >= 1 })
	}
	if ok && sc.When == "initial" {
		atomic.StoreInt64(&st.armed, 0)
		send(subscribeFrame("p", "subscribe", `{ counter }`))
		ok = wait("re-subscription under id p delivers data", func() bool {
			_, upd, _ := errorsOf("p")
			return upd >= 1
		})
		if ok {
			v = st.bump()
			steps = append(steps, fmt.Sprintf("bump to version %d", v))
			ok = healthy(v) && wait("re-subscribed p follows", converged("p", expectedH1(v)))
		}
	}
	close(sock.in)
	if !wait("ServeJSONSocket returns after the socket closed", func() bool { return atomic.LoadInt32(&served) == 1 }) {
		return
	}
	if escaped != nil {
		violate("a panic escaped ServeJSONSocket", map[string]interface{}{"panic": escaped.Value})
		return
	}
	if n := sock.end.excessReads(); n > 0 {
		violate(fmt.Sprintf("the read loop kept reading after a permanent non-close read error (%d reads)", n), nil)
		return
	}
	if failed {
		return
	}
	// final accounting
	nerr, _, msgs := errorsOf("p")
	if sc.When == "initial" {
		if nerr != 1 {
			violate(fmt.Sprintf("request p got %d error envelopes, want exactly 1", nerr), nil)
		} else if s, _ := msgs[0].(string); s != "Internal server error" {
			violate("the error envelope of the panicking request does not carry the generic message", map[string]interface{}{"message": msgs[0], "expected": "Internal server error"})
		}
	} else if nerr != 0 {
		violate(fmt.Sprintf("subscription p got %d error envelopes although only re-computations panicked (thunder retries those)", nerr), nil)
	}
	for _, id := range []string{"h1", "h2", "ping"} {
		if n, _, _ := errorsOf(id); n != 0 {
			violate("an unrelated request got an error envelope: "+id, nil)
		}
	}
	sock.mu.Lock()
	raw := strings.Join(sock.raw, "\n")
	sock.mu.Unlock()
	for _, leak := range []string{secretMarker, "goroutine ", "runtime error", "graphql: panic"} {
		if strings.Contains(raw, leak) {
			violate("panic details reached the client: "+leak, nil)
			break
		}
	}
	if run.WantSample() && caseIdx%9 == 0 {
		run.Sample(map[string]interface{}{"monitor": 3, "scenario": sc, "query": m3Query(sc.Placement), "steps": len(steps), "resolver_panics": atomic.LoadInt64(&st.panics)})
	}
}
