package c15

import "github.com/samsarahq/thunder/verifharness/vlib"

func runM3(run *vlib.Run) {}
