package c15

import (
	"fmt"
	"strings"

	"github.com/samsarahq/thunder/graphql"
)

// ---------------------------------------------------------------------------
// Same-alias conflicts below the root.
//
// graphql.Parse's detectConflicts only looks at the top-level selection set,
// so two selections with one alias that cannot be merged (different field
// names, different arguments, one with and one without a selection set) can
// reach PrepareQuery, Flatten, the executor and the gateway's own flattener
// at any depth. conflictDoc builds otherwise valid documents around exactly
// one such conflict:
//
//	kind     what conflicts: two object fields (of different or equal types),
//	         two leaf fields, an object and a leaf field, one field with
//	         different arguments, or the nested-merged form
//	         x: self { y: f1 {..} } x: self { y: f2 {..} }
//	wrapper  how each of the two selections is brought to the same level:
//	         directly, through an inline fragment, through a named fragment
//	         (that is also spread a second time elsewhere), through two
//	         fragments on a union member, or through a fragment on the union
//	         itself
//	depth    how many fields lie between the root and the conflict (1..4)

type conflictBuilder struct {
	g     *qgen // benign generator for arguments and leaf selections
	defs  []string
	nfrag int
	ns    string // feature namespace when the builder serves another family ("" = conflict)
}

func (b *conflictBuilder) feat(f string) {
	if b.ns != "" && strings.HasPrefix(f, "conflict:") {
		f = b.ns + ":" + strings.TrimPrefix(f, "conflict:")
	}
	b.g.feat(f)
}

// usableFields lists the fields of typ the walk may use: no federation
// plumbing, no resolvers that fail on purpose.
func (b *conflictBuilder) usableFields(typ string) (objs, leaves []*fieldDesc) {
	td := b.g.d.Types[typ]
	if td == nil || td.Union {
		return nil, nil
	}
	for i := range td.Fields {
		f := &td.Fields[i]
		if strings.HasPrefix(f.Name, "_") || strings.HasPrefix(f.Name, "fail") || strings.Contains(f.Name, "_") {
			continue
		}
		if f.Type != "" {
			objs = append(objs, f)
		} else {
			leaves = append(leaves, f)
		}
	}
	return
}

// leafSet is a small valid selection set on typ (object or union).
func (b *conflictBuilder) leafSet(typ string) string {
	td := b.g.d.Types[typ]
	if td == nil {
		return "{ __typename }"
	}
	if td.Union {
		parts := []string{"__typename"}
		for _, m := range td.Members {
			if b.g.chance(60) {
				parts = append(parts, "... on "+m+" "+b.leafSet(m))
			}
		}
		return "{ " + strings.Join(parts, " ") + " }"
	}
	_, leaves := b.usableFields(typ)
	var parts []string
	for _, f := range leaves {
		if len(f.Args) == 0 && b.g.chance(40) && len(parts) < 2 {
			parts = append(parts, f.Name)
		}
	}
	if len(parts) == 0 {
		parts = append(parts, "__typename")
	}
	return "{ " + strings.Join(parts, " ") + " }"
}

// sel renders `alias: field(args) { ... }` with benign arguments.
func (b *conflictBuilder) sel(alias string, f *fieldDesc) string {
	s := f.Name + b.g.args(f)
	if alias != "" && alias != f.Name {
		s = alias + ": " + s
	}
	if f.Type != "" {
		s += " " + b.leafSet(f.Type)
	}
	return s
}

// wrap brings one member of the conflict to the level of typ.
func (b *conflictBuilder) wrap(member, typ string, mode int) string {
	switch mode {
	case 1:
		b.feat("conflict:via_inline_fragment")
		return "... on " + typ + " { " + member + " }"
	case 2:
		b.feat("conflict:via_named_fragment")
		name := fmt.Sprintf("CF%d", b.nfrag)
		b.nfrag++
		b.defs = append(b.defs, "fragment "+name+" on "+typ+" { "+member+" }")
		return "..." + name
	case 3:
		b.feat("conflict:via_nested_inline_fragments")
		return "... on " + typ + " { ... on " + typ + " { " + member + " } }"
	}
	b.feat("conflict:direct")
	return member
}

// conflictDoc returns a document with one same-alias conflict below the
// root, or false when the walk did not find a suitable place.
func conflictDoc(g *qgen) (string, bool) {
	b := &conflictBuilder{g: &qgen{r: g.r, d: g.d, feats: g.feats, usedVars: map[string]bool{}, budget: 1000, on: map[string]bool{}, curFrag: -1}}
	r := g.r
	root, op := g.d.Query, ""
	if g.d.Mutation != "" && r.Intn(100) < 10 {
		if objs, _ := b.usableFields(g.d.Mutation); len(objs) > 0 {
			root, op = g.d.Mutation, "mutation "
		}
	}
	if op == "" && r.Intn(100) < 40 {
		op = "query Q "
	}

	// walk down
	depth := 1 + r.Intn(4)
	cur := root
	var opens []string
	lastUnion := ""    // union through which cur was reached in the last hop ("" if none)
	unionWrapOpen := 0 // how many of the trailing opens belong to that union hop
	for step := 0; step < depth; step++ {
		objs, _ := b.usableFields(cur)
		if len(objs) == 0 {
			break
		}
		f := objs[r.Intn(len(objs))]
		opens = append(opens, f.Name+b.g.args(f)+" {")
		if r.Intn(100) < 20 {
			opens[len(opens)-1] = fmt.Sprintf("p%d: %s", step, opens[len(opens)-1])
		}
		lastUnion, unionWrapOpen = "", 0
		next := f.Type
		if td := g.d.Types[next]; td != nil && td.Union {
			if len(td.Members) == 0 {
				return "", false
			}
			m := td.Members[r.Intn(len(td.Members))]
			lastUnion = next
			if r.Intn(100) < 35 {
				b.feat("conflict:under_union_self_fragment")
				opens = append(opens, "... on "+next+" {", "... on "+m+" {")
				unionWrapOpen = 2
			} else {
				b.feat("conflict:under_union_member_fragment")
				opens = append(opens, "... on "+m+" {")
				unionWrapOpen = 1
			}
			next = m
		}
		cur = next
	}
	if cur == root {
		return "", false
	}
	objs, leaves := b.usableFields(cur)
	alias := []string{"x", "a", "id", "name", "x"}[r.Intn(5)]

	// the two conflicting selections
	var m1, m2 string
	kinds := []string{}
	if len(objs) >= 2 {
		kinds = append(kinds, "two_object_fields", "two_object_fields", "two_object_fields")
	}
	if len(leaves) >= 2 {
		kinds = append(kinds, "two_leaf_fields")
	}
	if len(objs) >= 1 && len(leaves) >= 1 {
		kinds = append(kinds, "object_and_leaf")
	}
	var withArgs []*fieldDesc
	for _, f := range append(append([]*fieldDesc{}, objs...), leaves...) {
		if len(f.Args) > 0 {
			withArgs = append(withArgs, f)
		}
	}
	if len(withArgs) > 0 {
		kinds = append(kinds, "same_field_different_args", "same_field_different_args")
	}
	var selfs []*fieldDesc // object fields whose type has two object fields itself
	for _, f := range objs {
		if o2, _ := b.usableFields(f.Type); len(o2) >= 2 {
			selfs = append(selfs, f)
		}
	}
	if len(selfs) > 0 {
		kinds = append(kinds, "nested_merged", "nested_merged")
	}
	if len(kinds) == 0 {
		return "", false
	}
	kind := kinds[r.Intn(len(kinds))]
	pickTwo := func(fs []*fieldDesc, preferDifferentTypes bool) (*fieldDesc, *fieldDesc) {
		i := r.Intn(len(fs))
		j := (i + 1 + r.Intn(len(fs)-1)) % len(fs)
		if preferDifferentTypes {
			for k := 0; k < len(fs) && fs[i].Type == fs[j].Type; k++ {
				j = (j + 1) % len(fs)
				if j == i {
					j = (j + 1) % len(fs)
				}
			}
		}
		return fs[i], fs[j]
	}
	switch kind {
	case "two_object_fields":
		f1, f2 := pickTwo(objs, r.Intn(100) < 75)
		if f1.Type != f2.Type {
			b.feat("conflict:object_fields_of_different_types")
		} else {
			b.feat("conflict:object_fields_of_one_type")
		}
		m1, m2 = b.sel(alias, f1), b.sel(alias, f2)
	case "two_leaf_fields":
		f1, f2 := pickTwo(leaves, false)
		m1, m2 = b.sel(alias, f1), b.sel(alias, f2)
	case "object_and_leaf":
		f1, f2 := objs[r.Intn(len(objs))], leaves[r.Intn(len(leaves))]
		m1, m2 = b.sel(alias, f1), b.sel(alias, f2)
		if r.Intn(2) == 0 {
			m1, m2 = m2, m1
		}
	case "same_field_different_args":
		f := withArgs[r.Intn(len(withArgs))]
		a := f.Args[r.Intn(len(f.Args))]
		sub := ""
		if f.Type != "" {
			sub = " " + b.leafSet(f.Type)
		}
		// the other required arguments are identical in both selections
		var others []string
		for _, o := range f.Args {
			if _, req := o.Type.(*graphql.NonNull); req && o.Name != a.Name {
				others = append(others, o.Name+": "+b.g.valueFor(o.Type, 2))
			}
		}
		render := func(v string) string {
			parts := append([]string{}, others...)
			if v != "" {
				parts = append(parts, a.Name+": "+v)
			}
			s := alias + ": " + f.Name
			if len(parts) > 0 {
				s += "(" + strings.Join(parts, ", ") + ")"
			}
			return s + sub
		}
		v1 := b.g.valueFor(a.Type, 2)
		v2 := v1
		for k := 0; k < 8 && v2 == v1; k++ {
			v2 = b.g.valueFor(a.Type, 2)
		}
		if v2 == v1 {
			if _, req := a.Type.(*graphql.NonNull); req {
				return "", false
			}
			v2 = "" // argument given once, omitted once
		}
		m1, m2 = render(v1), render(v2)
	case "nested_merged":
		self := selfs[r.Intn(len(selfs))]
		o2, _ := b.usableFields(self.Type)
		f1, f2 := pickTwo(o2, r.Intn(100) < 75)
		inner := []string{"y", "x", "id"}[r.Intn(3)]
		head := alias + ": " + self.Name + b.g.args(self)
		m1 = head + " { " + b.sel(inner, f1) + " }"
		m2 = head + " { " + b.sel(inner, f2) + " }"
	}
	b.feat("conflict:" + kind)
	b.feat(fmt.Sprintf("conflict:depth_%d", len(opens)))

	// bring the two to one level
	var body string
	split := false
	w1, w2 := r.Intn(4), r.Intn(4)
	if lastUnion != "" && r.Intn(100) < 45 {
		// split at the union: the two selections sit in two different fragments
		// that both apply to the member
		b.feat("conflict:split_across_union_fragments")
		split = true
		opens = opens[:len(opens)-unionWrapOpen]
		member := cur
		uw := func(m string, mode int) string {
			switch mode {
			case 0:
				return "... on " + member + " { " + m + " }"
			case 1:
				b.feat("conflict:under_union_self_fragment")
				return "... on " + lastUnion + " { ... on " + member + " { " + m + " } }"
			case 2:
				b.feat("conflict:via_named_fragment")
				name := fmt.Sprintf("CF%d", b.nfrag)
				b.nfrag++
				b.defs = append(b.defs, "fragment "+name+" on "+member+" { "+m+" }")
				return "..." + name
			default:
				b.feat("conflict:via_named_fragment")
				b.feat("conflict:under_union_self_fragment")
				name := fmt.Sprintf("CF%d", b.nfrag)
				b.nfrag++
				b.defs = append(b.defs, "fragment "+name+" on "+lastUnion+" { ... on "+member+" { "+m+" } }")
				return "..." + name
			}
		}
		body = "__typename " + uw(m1, w1) + " " + uw(m2, w2)
	} else {
		p1, p2 := b.wrap(m1, cur, w1), b.wrap(m2, cur, w2)
		body = p1 + " " + p2
		if strings.HasPrefix(p1, "...CF") && r.Intn(100) < 50 {
			// the named fragment is reused a second time at the same level
			b.feat("conflict:named_fragment_reused")
			body += " " + p1
		}
	}
	// benign neighbours
	if !split && r.Intn(100) < 50 && len(leaves) > 0 { // (at a union only fragments and __typename are valid)
		if f := leaves[r.Intn(len(leaves))]; len(f.Args) == 0 && f.Name != alias {
			body = f.Name + " " + body
		}
	}
	doc := op + "{ " + strings.Join(opens, " ") + " " + body + strings.Repeat(" }", len(opens)) + " }"
	if len(b.defs) > 0 {
		doc += "\n" + strings.Join(b.defs, "\n")
	}
	return doc, true
}
