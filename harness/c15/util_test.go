package c15

import (
	"encoding/json"
	"fmt"
	"io"
	"os"
	"path/filepath"
	"regexp"
	"runtime"
	"runtime/debug"
	"strings"
	"sync"
	"sync/atomic"
	"syscall"
	"time"

	"github.com/samsarahq/thunder/verifharness/vlib"
)

func js(v interface{}) string {
	b, err := json.Marshal(v)
	if err != nil {
		return fmt.Sprintf("<<%v>>", err)
	}
	return vlib.Trunc(string(b), 2000)
}

// workDir is where current-input files and child logs go: $VERIF_WORK under
// the driver, a per-test temp dir otherwise.
var (
	workDirOnce sync.Once
	workDirPath string
)

func workDir() string {
	workDirOnce.Do(func() {
		workDirPath = os.Getenv("VERIF_WORK")
		if workDirPath == "" {
			workDirPath = os.Getenv("C15_WORK")
		}
		if workDirPath == "" {
			d, err := os.MkdirTemp("", "c15-work-")
			if err != nil {
				d = "."
			}
			workDirPath = d
		}
	})
	return workDirPath
}

// currentInputPath names the file that holds the input of the call in
// progress, so that a fatal crash (stack overflow, panic in a goroutine
// thunder spawned) leaves its input on disk. One file per shard and child.
func currentInputPath(tag string) string {
	shard := os.Getenv("VERIF_SHARD")
	if shard == "" {
		shard = "0"
	}
	return filepath.Join(workDir(), fmt.Sprintf("c15-current-input.s%s.%s.txt", shard, tag))
}

// panicRec is a panic that escaped a thunder entry point and was recovered by
// the harness wrapper: a violation of "never panic".
type panicRec struct {
	Target   string `json:"target"`
	Value    string `json:"panic"`
	TopFrame string `json:"top_thunder_frame"`
	Stack    string `json:"stack"`
}

// topThunderFrame returns the innermost function of thunder (not of the
// harness) on a stack printed by debug.Stack / a crash report, starting after
// the panic frames.
func topThunderFrame(stack string) string {
	for _, ln := range strings.Split(stack, "\n") {
		if !strings.HasPrefix(ln, "github.com/samsarahq/thunder/") || strings.HasPrefix(ln, "github.com/samsarahq/thunder/verifharness") {
			continue
		}
		if i := strings.LastIndex(ln, "("); i > 0 {
			fn := ln[:i]
			fn = strings.TrimPrefix(fn, "github.com/samsarahq/thunder/")
			return fn
		}
	}
	return ""
}

type callStatus int

const (
	callReturned callStatus = iota
	callPanicked
	callHung      // quiescent and not returned
	callUndecided // still busy at the hard deadline
)

func (s callStatus) String() string {
	return [...]string{"returned", "panicked", "hung", "undecided"}[s]
}

func processCPU() time.Duration {
	var ru syscall.Rusage
	if err := syscall.Getrusage(syscall.RUSAGE_SELF, &ru); err != nil {
		return 0
	}
	return time.Duration(ru.Utime.Nano() + ru.Stime.Nano())
}

// curGoroutineMarker returns the "goroutine N [" marker of the calling goroutine.
func curGoroutineMarker() string {
	buf := make([]byte, 64)
	buf = buf[:runtime.Stack(buf, false)]
	if m := goroutineHeader.FindSubmatch(buf); m != nil {
		return "goroutine " + string(m[1]) + " ["
	}
	return ""
}

// goroutineState describes one goroutine of a dump.
//
// parked: blocked on a channel, a select, a mutex, a wait group, a condition
// variable or network I/O — the states the runtime only uses for operations
// of the program itself. "semacquire" also labels waits inside the allocator
// and the collector, so it only counts when the innermost frame is package
// sync's. Running, runnable, sleeping (a timer is outstanding), in a syscall,
// "GC assist wait" and the like are NOT parked: such a goroutine is working
// or waiting for the machine, not for an event that will never come.
// inThunder: has a frame of thunder itself (not of the harness).
func goroutineState(g string) (parked, inThunder bool) {
	lines := strings.Split(g, "\n")
	head := lines[0]
	state := ""
	if i := strings.Index(head, "["); i >= 0 {
		state = head[i+1:]
		if j := strings.IndexAny(state, ",]"); j >= 0 {
			state = state[:j]
		}
	}
	top := ""
	if len(lines) > 1 {
		top = lines[1]
	}
	switch {
	case state == "chan receive", state == "chan send", state == "select", state == "IO wait",
		strings.HasPrefix(state, "sync.Mutex"), strings.HasPrefix(state, "sync.RWMutex"), strings.HasPrefix(state, "sync.WaitGroup"), strings.HasPrefix(state, "sync.Cond"),
		strings.HasPrefix(state, "chan receive (nil"), strings.HasPrefix(state, "select (no cases"):
		parked = true
	case state == "semacquire":
		parked = strings.HasPrefix(top, "sync.")
	}
	for _, ln := range lines {
		if strings.HasPrefix(ln, "github.com/samsarahq/thunder/") && !strings.HasPrefix(ln, "github.com/samsarahq/thunder/verifharness") {
			inThunder = true
			break
		}
	}
	return
}

// stackBody is a goroutine's stack without its header line (the header
// carries the waiting time, which changes).
func stackBody(g string) string {
	if i := strings.Index(g, "\n"); i >= 0 {
		return g[i+1:]
	}
	return ""
}

// parkedSample takes one goroutine dump and reports the stack of the
// goroutine matching `want` if (a) it is present, inside thunder and parked
// and (b) every other goroutine with a thunder frame is parked too. The
// calling goroutine itself (a wait that runs on the entry point's own
// goroutine, e.g. inside the fake socket's ReadJSON) counts as parked.
func parkedSample(want string) (body string, all []string, ok bool) {
	self := curGoroutineMarker()
	for _, g := range strings.Split(vlib.Stacks(), "\n\n") {
		parked, inThunder := goroutineState(g)
		if !inThunder {
			continue
		}
		isSelf := self != "" && strings.HasPrefix(g, self)
		if isSelf {
			parked = true
		}
		if !parked {
			return "", nil, false
		}
		all = append(all, truncMiddle(g, 1200, 4000))
		if strings.Contains(g, want) {
			if isSelf {
				body = "(the waiting goroutine itself)" // its stack shows this very check, at differing lines
			} else {
				body = stackBody(g)
			}
		}
	}
	return body, all, body != ""
}

// stuckEvidence decides whether "not finished" may be called stuck (design
// section 2.5): the goroutine executing the call (or a frame of the entry
// point, such as "(*conn).ServeJSONSocket") is present, inside thunder and
// parked on a blocking operation of the program; every goroutine with a
// thunder frame is parked; the same holds, with the identical stack, in a
// second dump a quarter of a second later; and the condition is STILL false
// when re-read after both dumps (a call that returned in between is not a
// hang). Anything else is "no evidence": the caller keeps waiting and finally
// reports inconclusive, never a violation.
func stuckEvidence(want string, finished func() bool) (stuck bool, stacks []string) {
	b1, _, ok := parkedSample(want)
	if !ok || finished() {
		return false, nil
	}
	time.Sleep(250 * time.Millisecond)
	b2, all, ok := parkedSample(want)
	if !ok || b1 != b2 || finished() {
		return false, nil
	}
	if len(all) > 12 {
		all = all[:12]
	}
	return true, all
}

// busyInThunder reports whether the goroutine marked `marker` is, in one
// dump, inside thunder and not parked (working or waiting for the machine).
func busyInThunder(marker string) (bool, string) {
	for _, g := range strings.Split(vlib.Stacks(), "\n\n") {
		if strings.HasPrefix(g, marker) {
			parked, inThunder := goroutineState(g)
			return inThunder && !parked, truncMiddle(g, 1200, 4000)
		}
	}
	return false, ""
}

// lastStuckStacks keeps the dump on which the last hang verdict of this
// process was based (for the witness).
var lastStuckStacks atomic.Value // []string

// callGuarded runs f on its own goroutine behind a recover wrapper and waits
// for it with the stuck-versus-slow classifier. activity is a monotone
// counter of everything that moves in the scenario. Verdicts:
//   - callHung (parked): vlib.WaitCond found the counters stable and its
//     scheduler-lag probe clean, AND the goroutine executing the call is
//     present in a goroutine dump, inside a thunder frame, in a waiting state,
//     AND no thunder goroutine is runnable, AND the call is still not done
//     when the done flag is read after that dump;
//   - callHung (spinning): the process burnt more than cpuBudget of CPU time
//     since the call started (CPU time, not wall-clock time; 0 = no budget)
//     and then, five times in a row with at least another half budget of CPU
//     in between, the call's goroutine was found working inside thunder and
//     the call still had not returned;
//   - callUndecided: anything else at the hard deadline (reported as
//     inconclusive, never as a violation).
func callGuarded(target string, activity func() int64, soft, hard, cpuBudget time.Duration, f func()) (callStatus, *panicRec) {
	var done int32
	var rec *panicRec
	var mu sync.Mutex
	var marker atomic.Value // string
	cpu0 := processCPU()
	go func() {
		defer atomic.StoreInt32(&done, 1)
		defer func() {
			if p := recover(); p != nil {
				st := string(debug.Stack())
				mu.Lock()
				rec = &panicRec{Target: target, Value: vlib.Trunc(fmt.Sprint(p), 400), TopFrame: topThunderFrame(st), Stack: vlib.Trunc(st, 6000)}
				mu.Unlock()
			}
		}()
		marker.Store(curGoroutineMarker())
		f()
	}()
	isDone := func() bool { return atomic.LoadInt32(&done) == 1 }
	overBudget := func() bool { return cpuBudget > 0 && processCPU()-cpu0 > cpuBudget }
	start := time.Now()
	status := callUndecided
	const spinSamples = 5
	spins := 0
	for {
		left := hard - time.Since(start)
		if left < time.Second {
			left = time.Second
		}
		out := vlib.WaitCond(func() bool { return isDone() || overBudget() }, activity, soft, left)
		soft = 0
		if isDone() {
			status = callReturned
			break
		}
		m, _ := marker.Load().(string)
		if m != "" && out == vlib.QuiescentNot {
			if stuck, stacks := stuckEvidence(m, isDone); stuck {
				lastStuckStacks.Store(stacks)
				status = callHung
				break
			}
		}
		if m != "" && out == vlib.Reached && !isDone() {
			// The CPU budget is exhausted without a return. Process CPU time also
			// counts the collector and the race detector, which burn CPU when the
			// machine is oversubscribed, so this alone decides nothing: the call's
			// goroutine must be found working inside thunder in spinSamples
			// consecutive looks, each after at least another half budget of CPU.
			if busy, st := busyInThunder(m); busy && !isDone() {
				spins++
				if spins >= spinSamples {
					lastStuckStacks.Store([]string{st})
					status = callHung
					break
				}
			} else {
				spins = 0
			}
			cpu0 = processCPU() - cpuBudget/2 // look again after another half budget of CPU
		}
		if isDone() {
			status = callReturned
			break
		}
		if time.Since(start) > hard {
			// a last look: the result may just not have been noticed yet
			for k := 0; k < 20 && !isDone(); k++ {
				time.Sleep(100 * time.Millisecond)
			}
			if isDone() {
				status = callReturned
			}
			break
		}
	}
	mu.Lock()
	defer mu.Unlock()
	if status == callReturned && rec != nil {
		return callPanicked, rec
	}
	return status, nil
}

// hangStacks returns the dump the last hang verdict was based on.
func hangStacks() []string {
	st, _ := lastStuckStacks.Load().([]string)
	return st
}

// waitOutcome is what a "wait for the connection to do X" step may conclude.
type waitOutcome int

const (
	waitReached   waitOutcome = iota
	waitStuck                 // parked with evidence: a verdict
	waitNoVerdict             // anything else: inconclusive
)

// waitEntry waits for cond on a live entry point (frame names a function of
// it that must be on the stack of a waiting goroutine, e.g. "ServeJSONSocket").
func waitEntry(cond func() bool, activity func() int64, frame string, soft, hard time.Duration) (waitOutcome, []string) {
	start := time.Now()
	for {
		left := hard - time.Since(start)
		if left < time.Second {
			left = time.Second
		}
		out := vlib.WaitCond(cond, activity, soft, left)
		soft = 0
		if out == vlib.Reached || cond() {
			return waitReached, nil
		}
		if out == vlib.QuiescentNot {
			if stuck, stacks := stuckEvidence(frame, cond); stuck {
				return waitStuck, stacks
			}
		}
		if cond() {
			return waitReached, nil
		}
		if time.Since(start) > hard {
			return waitNoVerdict, nil
		}
	}
}

var goroutineHeader = regexp.MustCompile(`(?m)^goroutine (\d+) \[`)

// goroutineIDs returns "goroutine N [" markers of all live goroutines, usable
// as ignore substrings for vlib.ThunderGoroutines (baseline).
func goroutineIDs() []string {
	var out []string
	for _, m := range goroutineHeader.FindAllStringSubmatch(vlib.Stacks(), -1) {
		out = append(out, "goroutine "+m[1]+" [")
	}
	return out
}

// thunderStacks returns the stacks of goroutines with a thunder frame that
// are not in the baseline, truncated for a witness.
func thunderStacks(ignore []string) []string {
	gs := vlib.ThunderGoroutines(ignore...)
	for i := range gs {
		gs[i] = truncMiddle(gs[i], 1200, 4000)
	}
	if len(gs) > 12 {
		gs = gs[:12]
	}
	return gs
}

// truncMiddle keeps the innermost and the outermost frames of a long stack.
func truncMiddle(s string, head, tail int) string {
	if len(s) <= head+tail+20 {
		return s
	}
	return s[:head] + "\n\t[...]\n" + s[len(s)-tail:]
}

// endGuard watches what a server does after its socket reported a permanent,
// non-close read error (the end of the script / a closed channel: io.EOF, as
// gorilla/websocket keeps returning its read error on every further read). A
// correct read loop stops reading. readsAfterEndLimit further reads are a
// verdict by count, not by time; the guard then cancels the connection's
// context so that a loop which at least honours that ends, and parks a loop
// that does not after 10000 reads (it is then found parked).
type endGuard struct {
	postEnd int64
	cancel  func()
}

const readsAfterEndLimit = 3

func (g *endGuard) ended() error {
	n := atomic.AddInt64(&g.postEnd, 1)
	if n > readsAfterEndLimit && g.cancel != nil {
		g.cancel()
	}
	if n > 10000 {
		select {}
	}
	return io.EOF
}

// excessReads is the number of reads after the permanent error when it is
// beyond the limit (the first read is the one that reports the error).
func (g *endGuard) excessReads() int64 {
	if n := atomic.LoadInt64(&g.postEnd); n > readsAfterEndLimit {
		return n
	}
	return 0
}
