package c15

import (
	"encoding/json"
	"fmt"
	"os"
	"path/filepath"
	"regexp"
	"runtime/debug"
	"strings"
	"sync"
	"sync/atomic"
	"time"

	"github.com/samsarahq/thunder/verifharness/vlib"
)

func js(v interface{}) string {
	b, err := json.Marshal(v)
	if err != nil {
		return fmt.Sprintf("<<%v>>", err)
	}
	return vlib.Trunc(string(b), 2000)
}

// workDir is where current-input files and child logs go: $VERIF_WORK under
// the driver, a per-test temp dir otherwise.
var (
	workDirOnce sync.Once
	workDirPath string
)

func workDir() string {
	workDirOnce.Do(func() {
		workDirPath = os.Getenv("VERIF_WORK")
		if workDirPath == "" {
			workDirPath = os.Getenv("C15_WORK")
		}
		if workDirPath == "" {
			d, err := os.MkdirTemp("", "c15-work-")
			if err != nil {
				d = "."
			}
			workDirPath = d
		}
	})
	return workDirPath
}

// currentInputPath names the file that holds the input of the call in
// progress, so that a fatal crash (stack overflow, panic in a goroutine
// thunder spawned) leaves its input on disk. One file per shard and child.
func currentInputPath(tag string) string {
	shard := os.Getenv("VERIF_SHARD")
	if shard == "" {
		shard = "0"
	}
	return filepath.Join(workDir(), fmt.Sprintf("c15-current-input.s%s.%s.txt", shard, tag))
}

// panicRec is a panic that escaped a thunder entry point and was recovered by
// the harness wrapper: a violation of "never panic".
type panicRec struct {
	Target   string `json:"target"`
	Value    string `json:"panic"`
	TopFrame string `json:"top_thunder_frame"`
	Stack    string `json:"stack"`
}

// topThunderFrame returns the innermost function of thunder (not of the
// harness) on a stack printed by debug.Stack / a crash report, starting after
// the panic frames.
func topThunderFrame(stack string) string {
	for _, ln := range strings.Split(stack, "\n") {
		if !strings.HasPrefix(ln, "github.com/samsarahq/thunder/") || strings.HasPrefix(ln, "github.com/samsarahq/thunder/verifharness") {
			continue
		}
		if i := strings.LastIndex(ln, "("); i > 0 {
			fn := ln[:i]
			fn = strings.TrimPrefix(fn, "github.com/samsarahq/thunder/")
			return fn
		}
	}
	return ""
}

type callStatus int

const (
	callReturned callStatus = iota
	callPanicked
	callHung      // quiescent and not returned
	callUndecided // still busy at the hard deadline
)

func (s callStatus) String() string {
	return [...]string{"returned", "panicked", "hung", "undecided"}[s]
}

// callGuarded runs f on its own goroutine behind a recover wrapper and waits
// for it with the stuck-versus-slow classifier. activity is a monotone
// counter of everything that moves in the scenario.
func callGuarded(target string, activity func() int64, soft, hard time.Duration, f func()) (callStatus, *panicRec) {
	var done int32
	var rec *panicRec
	var mu sync.Mutex
	go func() {
		defer atomic.StoreInt32(&done, 1)
		defer func() {
			if p := recover(); p != nil {
				st := string(debug.Stack())
				mu.Lock()
				rec = &panicRec{Target: target, Value: vlib.Trunc(fmt.Sprint(p), 400), TopFrame: topThunderFrame(st), Stack: vlib.Trunc(st, 6000)}
				mu.Unlock()
			}
		}()
		f()
	}()
	out := vlib.WaitCond(func() bool { return atomic.LoadInt32(&done) == 1 }, activity, soft, hard)
	mu.Lock()
	defer mu.Unlock()
	switch {
	case out == vlib.Reached && rec != nil:
		return callPanicked, rec
	case out == vlib.Reached:
		return callReturned, nil
	case out == vlib.QuiescentNot:
		return callHung, nil
	default:
		return callUndecided, nil
	}
}

var goroutineHeader = regexp.MustCompile(`(?m)^goroutine (\d+) \[`)

// goroutineIDs returns "goroutine N [" markers of all live goroutines, usable
// as ignore substrings for vlib.ThunderGoroutines (baseline).
func goroutineIDs() []string {
	var out []string
	for _, m := range goroutineHeader.FindAllStringSubmatch(vlib.Stacks(), -1) {
		out = append(out, "goroutine "+m[1]+" [")
	}
	return out
}

// thunderStacks returns the stacks of goroutines with a thunder frame that
// are not in the baseline, truncated for a witness.
func thunderStacks(ignore []string) []string {
	gs := vlib.ThunderGoroutines(ignore...)
	for i := range gs {
		gs[i] = truncMiddle(gs[i], 1200, 4000)
	}
	if len(gs) > 12 {
		gs = gs[:12]
	}
	return gs
}

// truncMiddle keeps the innermost and the outermost frames of a long stack.
func truncMiddle(s string, head, tail int) string {
	if len(s) <= head+tail+20 {
		return s
	}
	return s[:head] + "\n\t[...]\n" + s[len(s)-tail:]
}
