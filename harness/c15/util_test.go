package c15

import (
	"encoding/json"
	"fmt"
	"io"
	"os"
	"path/filepath"
	"regexp"
	"runtime/debug"
	"strings"
	"sync"
	"sync/atomic"
	"syscall"
	"time"

	"github.com/samsarahq/thunder/verifharness/vlib"
)

func js(v interface{}) string {
	b, err := json.Marshal(v)
	if err != nil {
		return fmt.Sprintf("<<%v>>", err)
	}
	return vlib.Trunc(string(b), 2000)
}

// workDir is where current-input files and child logs go: $VERIF_WORK under
// the driver, a per-test temp dir otherwise.
var (
	workDirOnce sync.Once
	workDirPath string
)

func workDir() string {
	workDirOnce.Do(func() {
		workDirPath = os.Getenv("VERIF_WORK")
		if workDirPath == "" {
			workDirPath = os.Getenv("C15_WORK")
		}
		if workDirPath == "" {
			d, err := os.MkdirTemp("", "c15-work-")
			if err != nil {
				d = "."
			}
			workDirPath = d
		}
	})
	return workDirPath
}

// currentInputPath names the file that holds the input of the call in
// progress, so that a fatal crash (stack overflow, panic in a goroutine
// thunder spawned) leaves its input on disk. One file per shard and child.
func currentInputPath(tag string) string {
	shard := os.Getenv("VERIF_SHARD")
	if shard == "" {
		shard = "0"
	}
	return filepath.Join(workDir(), fmt.Sprintf("c15-current-input.s%s.%s.txt", shard, tag))
}

// panicRec is a panic that escaped a thunder entry point and was recovered by
// the harness wrapper: a violation of "never panic".
type panicRec struct {
	Target   string `json:"target"`
	Value    string `json:"panic"`
	TopFrame string `json:"top_thunder_frame"`
	Stack    string `json:"stack"`
}

// topThunderFrame returns the innermost function of thunder (not of the
// harness) on a stack printed by debug.Stack / a crash report, starting after
// the panic frames.
func topThunderFrame(stack string) string {
	for _, ln := range strings.Split(stack, "\n") {
		if !strings.HasPrefix(ln, "github.com/samsarahq/thunder/") || strings.HasPrefix(ln, "github.com/samsarahq/thunder/verifharness") {
			continue
		}
		if i := strings.LastIndex(ln, "("); i > 0 {
			fn := ln[:i]
			fn = strings.TrimPrefix(fn, "github.com/samsarahq/thunder/")
			return fn
		}
	}
	return ""
}

type callStatus int

const (
	callReturned callStatus = iota
	callPanicked
	callHung      // quiescent and not returned
	callUndecided // still busy at the hard deadline
)

func (s callStatus) String() string {
	return [...]string{"returned", "panicked", "hung", "undecided"}[s]
}

func processCPU() time.Duration {
	var ru syscall.Rusage
	if err := syscall.Getrusage(syscall.RUSAGE_SELF, &ru); err != nil {
		return 0
	}
	return time.Duration(ru.Utime.Nano() + ru.Stime.Nano())
}

// anyRunnable reports whether a goroutine with a thunder frame (outside the
// baseline) is running or runnable, i.e. not parked: the system is then not
// quiescent, however long nothing observable happened (it may be starved of
// CPU, or spinning).
func anyRunnable(base []string) bool {
	for _, g := range vlib.ThunderGoroutines(base...) {
		head := strings.SplitN(g, "\n", 2)[0]
		if strings.Contains(head, "[running") || strings.Contains(head, "[runnable") {
			return true
		}
	}
	return false
}

// callGuarded runs f on its own goroutine behind a recover wrapper and waits
// for it with the stuck-versus-slow classifier. activity is a monotone
// counter of everything that moves in the scenario. Verdicts:
//   - callHung (parked): no activity over three samples and every goroutine
//     with a thunder frame is parked;
//   - callHung (spinning): the call has not returned although the process
//     burnt more than cpuBudget of CPU time since it started (CPU time, not
//     wall-clock time: a starved process does not accumulate it; 0 = no budget);
//   - callUndecided: anything else at the hard deadline.
func callGuarded(target string, activity func() int64, soft, hard, cpuBudget time.Duration, f func()) (callStatus, *panicRec) {
	var done int32
	var rec *panicRec
	var mu sync.Mutex
	cpu0 := processCPU()
	go func() {
		defer atomic.StoreInt32(&done, 1)
		defer func() {
			if p := recover(); p != nil {
				st := string(debug.Stack())
				mu.Lock()
				rec = &panicRec{Target: target, Value: vlib.Trunc(fmt.Sprint(p), 400), TopFrame: topThunderFrame(st), Stack: vlib.Trunc(st, 6000)}
				mu.Unlock()
			}
		}()
		f()
	}()
	isDone := func() bool { return atomic.LoadInt32(&done) == 1 }
	overBudget := func() bool { return cpuBudget > 0 && processCPU()-cpu0 > cpuBudget }
	start := time.Now()
	status := callUndecided
	for {
		left := hard - time.Since(start)
		if left < time.Second {
			left = time.Second
		}
		out := vlib.WaitCond(func() bool { return isDone() || overBudget() }, activity, soft, left)
		soft = 0
		if isDone() {
			status = callReturned
			break
		}
		if out == vlib.Reached { // CPU budget exhausted without returning
			status = callHung
			break
		}
		if out == vlib.QuiescentNot && !anyRunnable(nil) {
			status = callHung
			break
		}
		if time.Since(start) > hard {
			break
		}
	}
	mu.Lock()
	defer mu.Unlock()
	if status == callReturned && rec != nil {
		return callPanicked, rec
	}
	return status, nil
}

var goroutineHeader = regexp.MustCompile(`(?m)^goroutine (\d+) \[`)

// goroutineIDs returns "goroutine N [" markers of all live goroutines, usable
// as ignore substrings for vlib.ThunderGoroutines (baseline).
func goroutineIDs() []string {
	var out []string
	for _, m := range goroutineHeader.FindAllStringSubmatch(vlib.Stacks(), -1) {
		out = append(out, "goroutine "+m[1]+" [")
	}
	return out
}

// thunderStacks returns the stacks of goroutines with a thunder frame that
// are not in the baseline, truncated for a witness.
func thunderStacks(ignore []string) []string {
	gs := vlib.ThunderGoroutines(ignore...)
	for i := range gs {
		gs[i] = truncMiddle(gs[i], 1200, 4000)
	}
	if len(gs) > 12 {
		gs = gs[:12]
	}
	return gs
}

// truncMiddle keeps the innermost and the outermost frames of a long stack.
func truncMiddle(s string, head, tail int) string {
	if len(s) <= head+tail+20 {
		return s
	}
	return s[:head] + "\n\t[...]\n" + s[len(s)-tail:]
}

// endGuard watches what a server does after its socket reported a permanent,
// non-close read error (the end of the script / a closed channel: io.EOF, as
// gorilla/websocket keeps returning its read error on every further read). A
// correct read loop stops reading. readsAfterEndLimit further reads are a
// verdict by count, not by time; the guard then cancels the connection's
// context so that a loop which at least honours that ends, and parks a loop
// that does not after 10000 reads (it is then found parked).
type endGuard struct {
	postEnd int64
	cancel  func()
}

const readsAfterEndLimit = 3

func (g *endGuard) ended() error {
	n := atomic.AddInt64(&g.postEnd, 1)
	if n > readsAfterEndLimit && g.cancel != nil {
		g.cancel()
	}
	if n > 10000 {
		select {}
	}
	return io.EOF
}

// excessReads is the number of reads after the permanent error when it is
// beyond the limit (the first read is the one that reports the error).
func (g *endGuard) excessReads() int64 {
	if n := atomic.LoadInt64(&g.postEnd); n > readsAfterEndLimit {
		return n
	}
	return 0
}
