package c15

import "github.com/samsarahq/thunder/verifharness/vlib"

func runM4(run *vlib.Run) {}
