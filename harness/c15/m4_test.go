package c15

import (
	"context"
	"encoding/json"
	"errors"
	"fmt"
	"io"
	"net/http"
	"net/http/httptest"
	"strings"
	"sync"
	"sync/atomic"
	"time"

	"github.com/samsarahq/thunder/batch"
	"github.com/samsarahq/thunder/federation"
	"github.com/samsarahq/thunder/graphql"
	"github.com/samsarahq/thunder/reactive"
	"github.com/samsarahq/thunder/thunderpb"
	"github.com/samsarahq/thunder/verifharness/vlib"
)

// ---------------------------------------------------------------------------
// Monitor 4: cancellation and leaks (fault enumeration). The request context
// is cancelled at each of an enumerated set of points; resolvers and
// sub-query clients honour the context. Oracle: the call returns (quiescent
// and not returned = violation with the stacks as witness); afterwards no
// goroutine with a thunder frame is left beyond the baseline.

// m4Ctl is the per-scenario fault plan consulted by resolver and client hooks.
type m4Ctl struct {
	cancel     context.CancelFunc
	once       sync.Once
	cancelled  chan struct{}
	cancelAt   int64  // resolver entry number at which to cancel (0 = never)
	behaviour  string // sync | block | ignore
	entries    int64
	subqueries int64
	events     int64

	subCancelBefore int64  // cancel before forwarding sub-query j
	subCancelAfter  int64  // cancel after sub-query j returned
	subForward      bool   // after cancelling before sub-query j: forward anyway (true) or return ctx.Err() (false)
	failService     string // this service fails immediately ("sibling failed")
	blockOthers     bool   // the other services wait for the context to be cancelled before they continue
	othersForward   bool   // ... and then forward anyway (true) or return ctx.Err()
}

func (c *m4Ctl) fire() {
	c.once.Do(func() {
		if c.cancel != nil {
			c.cancel()
		}
		close(c.cancelled)
	})
}

var m4Current atomic.Value // *m4Ctl

func m4ctl() *m4Ctl {
	c, _ := m4Current.Load().(*m4Ctl)
	return c
}

// m4ResolverHook is installed in every resolver of the schemas under test.
func m4ResolverHook(ctx context.Context, name string) error {
	c := m4ctl()
	if c == nil {
		return nil
	}
	n := atomic.AddInt64(&c.entries, 1)
	atomic.AddInt64(&c.events, 1)
	if c.cancelAt != 0 && n == c.cancelAt {
		switch c.behaviour {
		case "sync":
			c.fire()
		case "block": // a slow backend call that honours its context
			go c.fire()
			select {
			case <-ctx.Done():
				return ctx.Err()
			case <-c.cancelled:
				select {
				case <-ctx.Done():
					return ctx.Err()
				case <-time.After(50 * time.Millisecond): // ctx is not derived from the request: still give up
					return context.Canceled
				}
			}
		case "ignore": // returns its value; it does not block, so it need not look at ctx
			c.fire()
			return nil
		}
	}
	if err := ctx.Err(); err != nil {
		return err
	}
	return nil
}

// m4ClientHook runs before a federated sub-query is forwarded.
func m4ClientHook(ctx context.Context, service string, req *federation.QueryRequest) error {
	c := m4ctl()
	if c == nil {
		return nil
	}
	j := atomic.AddInt64(&c.subqueries, 1)
	atomic.AddInt64(&c.events, 1)
	if c.failService != "" {
		if service == c.failService {
			return errors.New("injected sub-query failure")
		}
		if c.blockOthers {
			select {
			case <-ctx.Done():
			case <-time.After(20 * time.Second): // never expected: errgroup cancels ctx when the sibling fails
				return errors.New("harness: context was not cancelled after the sibling failed")
			}
			if !c.othersForward {
				return ctx.Err()
			}
		}
		return nil
	}
	if c.subCancelBefore != 0 && j == c.subCancelBefore {
		c.fire()
		if !c.subForward {
			return ctx.Err()
		}
		return nil
	}
	if err := ctx.Err(); err != nil && !c.subForward {
		return err
	}
	return nil
}

func m4ClientAfter(ctx context.Context, service string) {
	c := m4ctl()
	if c == nil {
		return
	}
	atomic.AddInt64(&c.events, 1)
	if c.subCancelAfter != 0 && atomic.LoadInt64(&c.subqueries) == c.subCancelAfter {
		c.fire()
	}
}

type m4Scenario struct {
	Target    string // http | executor | fedserver | gateway
	Point     string
	K         int64  // resolver entry / sub-query number
	Behaviour string // resolver behaviour at the cancellation point
	Forward   bool
}

func (s m4Scenario) String() string {
	return fmt.Sprintf("%s|%s|k=%d|%s|forward=%v", s.Target, s.Point, s.K, s.Behaviour, s.Forward)
}

const (
	m4ZooQuery = `{ items { id upper costly parent { id costly } related { ... on Item { id } ... on Gadget { label } } } itemsExpensive { id costly } echo(s: "x") }`
	m4S1Query  = `{ users { id name device { id } peer { ... on User { id } } } s1echo(s: "a") }`
	m4GwQuery  = `{ users { id name secret greet device { id isOn } } s2root s1echo(s: "x") s2users { id } }`
)

type m4Env struct {
	zoo      *graphql.Schema
	gw       *gateway
	ignore   []string // goroutines that are not this scenario's business
	zooE     int64    // resolver entries of an undisturbed run
	s1E      int64
	gwE      int64
	gwJ      int64 // sub-queries of an undisturbed gateway run
	bodyRead int64
}

// cancelBody cancels the request context when the body has been read fully:
// the client goes away between sending the request and the first run.
type cancelBody struct {
	r    *strings.Reader
	ctl  *m4Ctl
	fire bool
}

func (b *cancelBody) Read(p []byte) (int, error) {
	n, err := b.r.Read(p)
	if (err == io.EOF || b.r.Len() == 0) && b.fire {
		atomic.AddInt64(&b.ctl.events, 1)
		b.ctl.fire()
	}
	return n, err
}
func (b *cancelBody) Close() error { return nil }

// m4Call performs the target call of sc under ctl and returns when it does.
func (e *m4Env) call(sc m4Scenario, ctx context.Context, ctl *m4Ctl) func() {
	switch sc.Target {
	case "http":
		var mws []graphql.MiddlewareFunc
		switch sc.Point {
		case "middleware_before_execute":
			mws = append(mws, func(in *graphql.ComputationInput, next graphql.MiddlewareNextFunc) *graphql.ComputationOutput {
				atomic.AddInt64(&ctl.events, 1)
				ctl.fire()
				return next(in)
			})
		case "middleware_after_execute":
			mws = append(mws, func(in *graphql.ComputationInput, next graphql.MiddlewareNextFunc) *graphql.ComputationOutput {
				out := next(in)
				atomic.AddInt64(&ctl.events, 1)
				ctl.fire()
				return out
			})
		}
		h := graphql.HTTPHandler(e.zoo, mws...)
		return func() {
			body := &cancelBody{r: strings.NewReader(`{"query":` + jsonString(m4ZooQuery) + `,"variables":{}}`), ctl: ctl, fire: sc.Point == "during_body_read"}
			req, _ := http.NewRequest("POST", "/graphql", body)
			req = req.WithContext(ctx)
			h.ServeHTTP(httptest.NewRecorder(), req)
		}
	case "executor":
		q, err := graphql.Parse(m4ZooQuery, nil)
		if err == nil {
			err = graphql.PrepareQuery(ctx, e.zoo.Query, q.SelectionSet)
		}
		if err != nil {
			panic("harness: " + err.Error())
		}
		if sc.Point == "after_parse" {
			ctl.fire()
		}
		ex := graphql.NewExecutor(graphql.NewImmediateGoroutineScheduler())
		return func() { _, _ = ex.Execute(batch.WithBatching(ctx), e.zoo.Query, nil, q) }
	case "fedserver":
		q, err := graphql.Parse(m4S1Query, nil)
		if err != nil {
			panic("harness: " + err.Error())
		}
		m, err := federation.MarshalQuery(q)
		if err != nil {
			panic("harness: " + err.Error())
		}
		if sc.Point == "after_parse" {
			ctl.fire()
		}
		if sc.Forward { // package-level entry point instead of the method
			ex := graphql.NewExecutor(graphql.NewImmediateGoroutineScheduler())
			return func() {
				_, _ = federation.ExecuteRequest(ctx, &thunderpb.ExecuteRequest{Query: m}, e.gw.schemas["s1"], ex)
			}
		}
		return func() { _, _ = e.gw.servers["s1"].Execute(ctx, &thunderpb.ExecuteRequest{Query: m}) }
	case "gateway":
		q, err := graphql.Parse(m4GwQuery, nil)
		if err != nil {
			panic("harness: " + err.Error())
		}
		if sc.Point == "after_parse" {
			ctl.fire()
		}
		return func() { _, _, _ = e.gw.exec.Execute(ctx, q, nil) }
	}
	panic("harness: unknown target " + sc.Target)
}

func newCtl(sc m4Scenario, cancel context.CancelFunc) *m4Ctl {
	ctl := &m4Ctl{cancel: cancel, cancelled: make(chan struct{}), behaviour: sc.Behaviour}
	switch sc.Point {
	case "resolver_entry":
		ctl.cancelAt = sc.K
	case "before_subquery":
		ctl.subCancelBefore, ctl.subForward = sc.K, sc.Forward
	case "after_subquery":
		ctl.subCancelAfter, ctl.subForward = sc.K, true
	case "sibling_failed":
		ctl.failService = []string{"s1", "s2"}[sc.K%2]
		ctl.blockOthers = sc.Behaviour == "block"
		ctl.othersForward = sc.Forward
		ctl.cancel = nil // no outside cancellation: errgroup cancels the siblings' context
	}
	return ctl
}

func runM4(run *vlib.Run) {
	env := &m4Env{zoo: buildZoo(m4ResolverHook)}
	gw, err := buildGateway(m4ResolverHook)
	if err != nil {
		run.Broken("m4: cannot build gateway: " + err.Error())
		return
	}
	defer gw.cancel()
	gw.setHooks(m4ClientHook, m4ClientAfter)
	env.gw = gw
	env.ignore = []string{"federation.(*Executor).poll"}

	// undisturbed runs: count resolver entries and sub-queries
	for _, t := range []string{"http", "fedserver", "gateway"} {
		ctl := newCtl(m4Scenario{Target: t, Point: "none"}, nil)
		m4Current.Store(ctl)
		ctx, cancel := context.WithCancel(context.Background())
		env.call(m4Scenario{Target: t, Point: "none"}, ctx, ctl)()
		cancel()
		switch t {
		case "http":
			env.zooE = atomic.LoadInt64(&ctl.entries)
		case "fedserver":
			env.s1E = atomic.LoadInt64(&ctl.entries)
		case "gateway":
			env.gwE, env.gwJ = atomic.LoadInt64(&ctl.entries), atomic.LoadInt64(&ctl.subqueries)
		}
	}
	m4Current.Store((*m4Ctl)(nil))
	run.Set("m4_undisturbed", map[string]interface{}{"zoo_resolver_entries": env.zooE, "s1_resolver_entries": env.s1E, "gateway_resolver_entries": env.gwE, "gateway_subqueries": env.gwJ})
	if env.zooE < 10 || env.gwJ < 3 || env.s1E < 3 {
		run.Broken(fmt.Sprintf("m4: undisturbed runs too small: zooE=%d s1E=%d gwE=%d gwJ=%d", env.zooE, env.s1E, env.gwE, env.gwJ))
		return
	}

	var scs []m4Scenario
	behaviours := []string{"sync", "block", "ignore"}
	ks := func(max int64, quickStep int64) []int64 {
		var out []int64
		step := int64(1)
		if !run.Thorough() {
			step = quickStep
		}
		for k := int64(1); k <= max; k += step {
			out = append(out, k)
		}
		if out[len(out)-1] != max {
			out = append(out, max)
		}
		return out
	}
	for _, t := range []string{"http", "executor", "fedserver", "gateway"} {
		scs = append(scs, m4Scenario{Target: t, Point: "before_call"})
		if t != "http" {
			scs = append(scs, m4Scenario{Target: t, Point: "after_parse"})
		}
	}
	scs = append(scs, m4Scenario{Target: "fedserver", Point: "before_call", Forward: true},
		m4Scenario{Target: "http", Point: "during_body_read"},
		m4Scenario{Target: "http", Point: "middleware_before_execute"},
		m4Scenario{Target: "http", Point: "middleware_after_execute"})
	for bi, b := range behaviours {
		for _, k := range ks(env.zooE, 3) {
			scs = append(scs, m4Scenario{Target: []string{"http", "executor"}[int(k+int64(bi))%2], Point: "resolver_entry", K: k, Behaviour: b})
			if run.Thorough() {
				scs = append(scs, m4Scenario{Target: []string{"executor", "http"}[int(k+int64(bi))%2], Point: "resolver_entry", K: k, Behaviour: b})
			}
		}
		for _, k := range ks(env.s1E, 2) {
			scs = append(scs, m4Scenario{Target: "fedserver", Point: "resolver_entry", K: k, Behaviour: b, Forward: k%2 == 0})
		}
		for _, k := range ks(env.gwE, 3) {
			scs = append(scs, m4Scenario{Target: "gateway", Point: "resolver_entry", K: k, Behaviour: b})
		}
	}
	for j := int64(1); j <= env.gwJ; j++ {
		scs = append(scs, m4Scenario{Target: "gateway", Point: "before_subquery", K: j, Forward: false},
			m4Scenario{Target: "gateway", Point: "before_subquery", K: j, Forward: true},
			m4Scenario{Target: "gateway", Point: "after_subquery", K: j})
	}
	for k := int64(0); k < 2; k++ {
		scs = append(scs, m4Scenario{Target: "gateway", Point: "sibling_failed", K: k, Behaviour: "none"},
			m4Scenario{Target: "gateway", Point: "sibling_failed", K: k, Behaviour: "block", Forward: false},
			m4Scenario{Target: "gateway", Point: "sibling_failed", K: k, Behaviour: "block", Forward: true})
	}
	// no cancellation at all: a fetch shared through reactive.Cache panics inside
	// the cache's compute function (or an Expensive resolver panics under a key
	// that a second place of the request uses too). The request must fail with
	// an error and return; nothing may stay parked.
	for _, t := range []string{"http", "fedserver", "rerunner_execute"} {
		for _, pl := range []string{"cache_shared", "cache_shared_aliases", "cache_shared_expensive", "expensive_same_key"} {
			scs = append(scs, m4Scenario{Target: t, Point: "panic_in_shared_cache", Behaviour: pl})
		}
	}
	bscs := batchScenarios()
	wscs := wsCancelScenarios()
	run.Set("m4_scenarios", len(scs)+len(bscs)+len(wscs))
	section(run, offM4, len(scs)+len(bscs)+len(wscs), 1, func(k int) {
		if k >= len(scs)+len(bscs) {
			e := env
			e.runWSCancelScenario(run, offM4+k, wscs[k-len(scs)-len(bscs)])
			return
		}
		if k >= len(scs) {
			env.runBatchScenario(run, offM4+k, bscs[k-len(scs)])
			return
		}
		if scs[k].Point == "panic_in_shared_cache" {
			env.runPanicScenario(run, offM4+k, scs[k])
			return
		}
		env.runScenario(run, offM4+k, scs[k])
	})
	m4Current.Store((*m4Ctl)(nil))
}

// runPanicScenario: entry points other than the websocket with a resolver
// that panics under a cache key the same request uses twice.
func (e *m4Env) runPanicScenario(run *vlib.Run, caseIdx int, sc m4Scenario) {
	fmt.Println("CASE", caseIdx, "m4", sc.String())
	run.Case("m4|"+sc.String(), true)
	run.Count("m4:scenarios", 1)
	run.Count("m4:target:"+sc.Target, 1)
	run.Count("m4:point:"+sc.Point, 1)
	m4Current.Store((*m4Ctl)(nil))

	st := &m3State{res: reactive.NewResource(), kind: []string{"string", "runtime_nil", "error"}[caseIdx%3], placement: sc.Behaviour, version: 1, armed: -1, single: &Row{Id: 7}}
	schema := buildM3Schema(st)
	query := m3Query(sc.Behaviour)
	base := append(goroutineIDs(), e.ignore...)
	ctx, cancel := context.WithCancel(context.Background())
	defer cancel()
	var failed int32 // 1 = the call reported an error, as it must
	var detail atomic.Value
	var f func()
	switch sc.Target {
	case "http":
		h := graphql.HTTPHandler(schema)
		f = func() {
			req, _ := http.NewRequest("POST", "/graphql", strings.NewReader(`{"query":`+jsonString(query)+`,"variables":{}}`))
			rr := httptest.NewRecorder()
			h.ServeHTTP(rr, req.WithContext(ctx))
			var body struct {
				Errors []string `json:"errors"`
			}
			if json.Unmarshal(rr.Body.Bytes(), &body) == nil && len(body.Errors) > 0 {
				atomic.StoreInt32(&failed, 1)
			}
			detail.Store(vlib.Trunc(rr.Body.String(), 300))
		}
	case "fedserver":
		q, err := graphql.Parse(query, nil)
		if err != nil {
			run.Broken("m4: " + err.Error())
			return
		}
		m, err := federation.MarshalQuery(q)
		if err != nil {
			run.Broken("m4: " + err.Error())
			return
		}
		ex := graphql.NewExecutor(graphql.NewImmediateGoroutineScheduler())
		f = func() {
			resp, err := federation.ExecuteRequest(ctx, &thunderpb.ExecuteRequest{Query: m}, schema, ex)
			if err != nil {
				atomic.StoreInt32(&failed, 1)
				detail.Store(vlib.Trunc(err.Error(), 300))
			} else {
				detail.Store(vlib.Trunc(string(resp.Result), 300))
			}
		}
	case "rerunner_execute": // the bare executor under a rerunner, as every entry point runs it
		q, err := graphql.Parse(query, nil)
		if err == nil {
			err = graphql.PrepareQuery(ctx, schema.Query, q.SelectionSet)
		}
		if err != nil {
			run.Broken("m4: " + err.Error())
			return
		}
		ex := graphql.NewExecutor(graphql.NewImmediateGoroutineScheduler())
		f = func() {
			done := make(chan error, 1)
			var once sync.Once
			r := reactive.NewRerunner(ctx, func(ctx context.Context) (interface{}, error) {
				v, err := ex.Execute(batch.WithBatching(ctx), schema.Query, nil, q)
				once.Do(func() { done <- err })
				if err != nil {
					return nil, err
				}
				return v, nil
			}, time.Hour, false)
			err := <-done
			r.Stop()
			if err != nil {
				atomic.StoreInt32(&failed, 1)
				detail.Store(vlib.Trunc(err.Error(), 300))
			}
		}
	}
	activity := func() int64 { return atomic.LoadInt64(&st.entries) }
	status, rec := callGuarded(sc.Target, activity, time.Second, 10*time.Second, 0, f)
	wit := func(what string) map[string]interface{} {
		d, _ := detail.Load().(string)
		return map[string]interface{}{"monitor": "4 cancellation and leaks (panic under a shared cache key, no cancellation)", "scenario": sc.String(), "target": sc.Target,
			"query": query, "panic_kind": st.kind, "what": what, "resolver_entries": atomic.LoadInt64(&st.entries), "resolver_panics": atomic.LoadInt64(&st.panics),
			"observed": d, "expected": "the request fails with an error, returns, and leaves no goroutine behind"}
	}
	remember := func() {
		for _, g := range vlib.ThunderGoroutines(base...) {
			if m := goroutineHeader.FindStringSubmatch(g); m != nil {
				e.ignore = append(e.ignore, "goroutine "+m[1]+" [")
			}
		}
	}
	switch status {
	case callPanicked:
		w := wit("a panic escaped the call")
		w["panic"], w["stack"] = rec.Value, rec.Stack
		run.Violation(caseIdx, "", w)
		return
	case callHung:
		w := wit("the call did not return and the process went quiet")
		w["stacks"] = hangStacks()
		run.Count("m4:hangs", 1)
		run.Violation(caseIdx, "", w)
		remember()
		return
	case callUndecided:
		run.Inconclusive(fmt.Sprintf("m4 case %d (%s): still busy at the hard deadline", caseIdx, sc.String()))
		return
	}
	if atomic.LoadInt64(&st.panics) == 0 {
		run.Inconclusive(fmt.Sprintf("m4 case %d (%s): the panicking resolver was never entered", caseIdx, sc.String()))
	} else if atomic.LoadInt32(&failed) == 0 {
		run.Violation(caseIdx, "", wit("a resolver panicked but the request did not fail with an error"))
	}
	if left := vlib.WaitNoThunderGoroutines(100, base...); len(left) > 0 {
		w := wit(fmt.Sprintf("%d goroutine(s) with a thunder frame are still alive 100 settle polls after the call returned", len(left)))
		for i := range left {
			left[i] = vlib.Trunc(left[i], 2500)
		}
		if len(left) > 8 {
			left = left[:8]
		}
		w["leaked_goroutines"] = left
		run.Violation(caseIdx, "", w)
		remember()
	}
}

func (e *m4Env) runScenario(run *vlib.Run, caseIdx int, sc m4Scenario) {
	fmt.Println("CASE", caseIdx, "m4", sc.String())
	run.Case("m4|"+sc.String(), true)
	run.Count("m4:scenarios", 1)
	run.Count("m4:target:"+sc.Target, 1)
	run.Count("m4:point:"+sc.Point, 1)

	base := append(goroutineIDs(), e.ignore...)
	ctx, cancel := context.WithCancel(context.Background())
	defer cancel()
	ctl := newCtl(sc, cancel)
	m4Current.Store(ctl)
	if sc.Point == "before_call" {
		ctl.fire()
	}
	f := e.call(sc, ctx, ctl)
	activity := func() int64 { return atomic.LoadInt64(&ctl.events) + atomic.LoadInt64(&e.gw.calls) }
	status, rec := callGuarded(sc.Target, activity, time.Second, 10*time.Second, 0, f)
	wit := func(what string) map[string]interface{} {
		select {
		case <-ctl.cancelled:
		default:
			if sc.Point != "sibling_failed" {
				what += " (note: the planned cancellation point was never reached)"
			}
		}
		return map[string]interface{}{"monitor": "4 cancellation and leaks", "scenario": sc.String(), "target": sc.Target, "cancellation_point": sc.Point, "k": sc.K,
			"resolver_behaviour": sc.Behaviour, "what": what, "resolver_entries": atomic.LoadInt64(&ctl.entries), "subqueries": atomic.LoadInt64(&ctl.subqueries),
			"expected": "the call returns promptly and leaves no goroutine behind"}
	}
	switch status {
	case callPanicked:
		w := wit("a panic escaped the call")
		w["panic"], w["stack"] = rec.Value, rec.Stack
		run.Violation(caseIdx, classifyPanic("", rec.Value, rec.TopFrame), w)
		return
	case callHung:
		stacks := hangStacks()
		w := wit("the call did not return and the process went quiet")
		w["stacks"] = stacks
		run.Count("m4:hangs", 1)
		run.Violation(caseIdx, classifyHang(sc.Target, stacks), w)
		// the stuck goroutines stay for the rest of the run: not the next scenario's business
		for _, g := range vlib.ThunderGoroutines(base...) {
			if m := goroutineHeader.FindStringSubmatch(g); m != nil {
				e.ignore = append(e.ignore, "goroutine "+m[1]+" [")
			}
		}
		return
	case callUndecided:
		run.Inconclusive(fmt.Sprintf("m4 case %d (%s): still busy at the hard deadline", caseIdx, sc.String()))
		return
	}
	select {
	case <-ctl.cancelled:
		run.Count("m4:cancellation_point_reached", 1)
	default:
		if sc.Point != "sibling_failed" && sc.Point != "none" {
			run.Count("m4:cancellation_point_not_reached", 1)
		}
	}
	if left := vlib.WaitNoThunderGoroutines(100, base...); len(left) > 0 {
		w := wit(fmt.Sprintf("%d goroutine(s) with a thunder frame are still alive 100 settle polls after the call returned", len(left)))
		for i := range left {
			left[i] = vlib.Trunc(left[i], 2500)
		}
		if len(left) > 8 {
			left = left[:8]
		}
		w["leaked_goroutines"] = left
		run.Violation(caseIdx, classifyHang(sc.Target, left), w)
		for _, g := range vlib.ThunderGoroutines(base...) {
			if m := goroutineHeader.FindStringSubmatch(g); m != nil {
				e.ignore = append(e.ignore, "goroutine "+m[1]+" [")
			}
		}
	}
	if run.WantSample() && caseIdx%11 == 0 {
		run.Sample(map[string]interface{}{"monitor": 4, "scenario": sc.String(), "resolver_entries": atomic.LoadInt64(&ctl.entries), "subqueries": atomic.LoadInt64(&ctl.subqueries)})
	}
}
