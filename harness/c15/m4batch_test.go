package c15

import (
	"context"
	"fmt"
	"net/http"
	"net/http/httptest"
	"strings"
	"sync"
	"sync/atomic"
	"time"

	"github.com/samsarahq/thunder/batch"
	"github.com/samsarahq/thunder/graphql"
	"github.com/samsarahq/thunder/graphql/schemabuilder"
	"github.com/samsarahq/thunder/verifharness/vlib"
)

// ---------------------------------------------------------------------------
// Monitor 4, dimension "cancelled while a batch is being gathered".
//
// Several resolvers of one request call Invoke on one batch.Func (an
// Expensive field on a list, parallel top-level fields, both). The Func's
// WaitInterval / MaxDuration are a minute, so the batch is still gathering
// whenever the harness acts: the request is cancelled exactly when the k-th
// Invoke has registered with the batch (hook point batch.invoke.registered,
// k = 1 .. number of Invoke calls), i.e. with k-1 followers parked on the
// creator. Cancellation is the client going away (Execute / HTTP context), an
// `unsubscribe`, the socket closing, or the connection context ending.
// Oracle: the call returns (parked and not returned = violation), the
// websocket connection keeps answering, no goroutine with a thunder frame
// (package batch included) is left.

type BRow struct{ Id int64 }

type batchEnv struct {
	schema *graphql.Schema
	many   int64 // calls of Func.Many
	enters int64 // resolver entries
}

func buildBatchEnv() *batchEnv {
	e := &batchEnv{}
	fn := &batch.Func{
		Many: func(ctx context.Context, args []interface{}) ([]interface{}, error) {
			atomic.AddInt64(&e.many, 1)
			out := make([]interface{}, len(args))
			for i, a := range args {
				out[i] = a.(int64) * 2
			}
			return out, nil
		},
		WaitInterval: time.Minute,
		MaxDuration:  time.Minute,
	}
	invoke := func(ctx context.Context, arg int64) (int64, error) {
		atomic.AddInt64(&e.enters, 1)
		v, err := fn.Invoke(ctx, arg)
		if err != nil {
			return 0, err
		}
		return v.(int64), nil
	}
	s := schemabuilder.NewSchema()
	q := s.Query()
	q.FieldFunc("plain", func() string { return "ok" })
	q.FieldFunc("brows", func() []*BRow { return []*BRow{{Id: 1}, {Id: 2}, {Id: 3}, {Id: 4}} })
	q.FieldFunc("fa", func(ctx context.Context) (int64, error) { return invoke(ctx, 10) })
	q.FieldFunc("fb", func(ctx context.Context) (int64, error) { return invoke(ctx, 20) })
	q.FieldFunc("fc", func(ctx context.Context) (int64, error) { return invoke(ctx, 30) })
	row := s.Object("BRow", BRow{})
	row.FieldFunc("viaFunc", func(ctx context.Context, r *BRow) (int64, error) { return invoke(ctx, r.Id) }, schemabuilder.Expensive)
	s.Mutation().FieldFunc("noop", func() bool { return true })
	e.schema = s.MustBuild()
	return e
}

type batchScenario struct {
	Target string // executor | http | ws_unsubscribe | ws_close | ws_ctx
	Query  string
	K      int // cancel when the K-th Invoke has registered with the batch
}

func (s batchScenario) String() string {
	return fmt.Sprintf("%s|cancel_in_batch_gathering|k=%d|%s", s.Target, s.K, s.Query)
}

var batchQueries = []struct {
	q string
	n int // number of Invoke calls
}{
	{`{ brows { id viaFunc } }`, 4},
	{`{ fa fb fc }`, 3},
	{`{ fa brows { viaFunc } plain }`, 5},
}

func batchScenarios() []batchScenario {
	var out []batchScenario
	for _, t := range []string{"executor", "http", "ws_unsubscribe", "ws_close", "ws_ctx"} {
		for _, bq := range batchQueries {
			for k := 1; k <= bq.n; k++ {
				out = append(out, batchScenario{Target: t, Query: bq.q, K: k})
			}
		}
	}
	return out
}

func (e *m4Env) runBatchScenario(run *vlib.Run, caseIdx int, sc batchScenario) {
	fmt.Println("CASE", caseIdx, "m4", sc.String())
	run.Case("m4|"+sc.String(), true)
	run.Count("m4:scenarios", 1)
	run.Count("m4:target:"+sc.Target, 1)
	run.Count("m4:point:cancel_in_batch_gathering", 1)
	m4Current.Store((*m4Ctl)(nil))

	be := buildBatchEnv()
	base := append(goroutineIDs(), e.ignore...)
	ctx, cancel := context.WithCancel(context.Background())
	defer cancel()
	y := vlib.NewYielder(run.Seed(), 0)
	activity := func() int64 { return y.Events() + atomic.LoadInt64(&be.enters) + atomic.LoadInt64(&be.many) }
	var steps []string
	var stepMu sync.Mutex
	step := func(s string) { stepMu.Lock(); steps = append(steps, s); stepMu.Unlock() }
	wit := func(what string) map[string]interface{} {
		stepMu.Lock()
		defer stepMu.Unlock()
		return map[string]interface{}{"monitor": "4 cancellation and leaks (cancelled while a batch is being gathered)", "scenario": sc.String(), "target": sc.Target,
			"query": sc.Query, "cancel_after_registered_invokes": sc.K, "what": what, "steps": append([]string{}, steps...), "hook_hits": y.Hits(),
			"many_calls": atomic.LoadInt64(&be.many), "expected": "the request returns promptly after the cancellation, the connection keeps working, no goroutine is left behind"}
	}
	remember := func() {
		for _, g := range vlib.ThunderGoroutines(base...) {
			if m := goroutineHeader.FindStringSubmatch(g); m != nil {
				e.ignore = append(e.ignore, "goroutine "+m[1]+" [")
			}
		}
	}
	hung := func(what string, stacks []string) {
		w := wit(what)
		w["stacks"] = stacks
		run.Count("m4:hangs", 1)
		run.Violation(caseIdx, "", w)
		remember()
	}
	leakCheck := func() {
		if left := vlib.WaitNoThunderGoroutines(100, base...); len(left) > 0 {
			w := wit(fmt.Sprintf("%d goroutine(s) with a thunder frame are still alive 100 settle polls after the call returned", len(left)))
			for i := range left {
				left[i] = vlib.Trunc(left[i], 2500)
			}
			if len(left) > 8 {
				left = left[:8]
			}
			w["leaked_goroutines"] = left
			run.Violation(caseIdx, "", w)
			remember()
		}
	}

	var act func()
	inj := &vlib.Injection{Point: "batch.invoke.registered", Visit: sc.K, Timeout: 100 * time.Millisecond}
	var acted int32 // set once the cancellation has been issued (orders the harness' later socket operations after it)
	inj.Act = func() {
		step(fmt.Sprintf("invoke #%d registered: cancel", sc.K))
		act()
		atomic.StoreInt32(&acted, 1)
	}
	y.Inject(inj)
	y.Install()
	defer vlib.Uninstall()
	notReached := func() bool {
		if inj.Fired() {
			return false
		}
		cancel() // never leave a request waiting for its one-minute batch timer
		run.Inconclusive(fmt.Sprintf("m4 case %d (%s): the %d-th Invoke never registered", caseIdx, sc.String(), sc.K))
		return true
	}

	switch sc.Target {
	case "executor", "http":
		act = cancel
		var f func()
		if sc.Target == "executor" {
			q, err := graphql.Parse(sc.Query, nil)
			if err == nil {
				err = graphql.PrepareQuery(ctx, be.schema.Query, q.SelectionSet)
			}
			if err != nil {
				run.Broken("m4 batch: " + err.Error())
				return
			}
			ex := graphql.NewExecutor(graphql.NewImmediateGoroutineScheduler())
			f = func() { _, _ = ex.Execute(batch.WithBatching(ctx), be.schema.Query, nil, q) }
		} else {
			h := graphql.HTTPHandler(be.schema)
			f = func() {
				req, _ := http.NewRequest("POST", "/graphql", strings.NewReader(`{"query":`+jsonString(sc.Query)+`,"variables":{}}`))
				h.ServeHTTP(httptest.NewRecorder(), req.WithContext(ctx))
			}
		}
		status, rec := callGuarded(sc.Target, activity, time.Second, 10*time.Second, 0, f)
		if notReached() {
			return
		}
		switch status {
		case callPanicked:
			w := wit("a panic escaped the call")
			w["panic"], w["stack"] = rec.Value, rec.Stack
			run.Violation(caseIdx, "", w)
		case callHung:
			hung("the call did not return after the cancellation and the process went quiet", hangStacks())
		case callUndecided:
			run.Inconclusive(fmt.Sprintf("m4 case %d (%s): still busy at the hard deadline", caseIdx, sc.String()))
		default:
			run.Count("m4:cancellation_point_reached", 1)
			leakCheck()
		}
		return
	}

	// websocket
	sock := &chanSocket{in: make(chan string, 16)}
	var closeOnce sync.Once
	closeSock := func() { closeOnce.Do(func() { close(sock.in) }) }
	sock.end.cancel = cancel
	conn := graphql.CreateConnection(ctx, sock, be.schema, graphql.WithMinRerunInterval(time.Millisecond))
	var served int32
	go func() {
		defer atomic.StoreInt32(&served, 1)
		defer func() { _ = recover() }()
		conn.ServeJSONSocket()
	}()
	wsActivity := func() int64 { return activity() + atomic.LoadInt64(&sock.writes) }
	wait := func(what string, cond func() bool) bool {
		step("wait: " + what)
		switch out, stacks := waitEntry(cond, wsActivity, "(*conn).ServeJSONSocket", time.Second, 10*time.Second); out {
		case waitReached:
			return true
		case waitStuck:
			hung("the connection went quiet before: "+what, stacks)
		default:
			run.Inconclusive(fmt.Sprintf("m4 case %d (%s): still busy while waiting for: %s", caseIdx, sc.String(), what))
		}
		return false
	}
	switch sc.Target {
	case "ws_unsubscribe":
		act = func() { sock.in <- `{"id":"b","type":"unsubscribe"}` }
	case "ws_close":
		act = closeSock
	case "ws_ctx":
		act = cancel
	}
	step("subscribe b: " + sc.Query)
	sock.in <- subscribeFrame("b", "subscribe", sc.Query)
	if !wait(fmt.Sprintf("invoke #%d registers", sc.K), func() bool { return inj.Fired() && atomic.LoadInt32(&acted) == 1 }) {
		cancel()
		closeSock()
		return
	}
	ok := true
	if sc.Target != "ws_close" {
		// the connection must keep working: echo answers, and (unless the whole
		// connection was cancelled) a new subscription delivers data
		step("send echo")
		sock.in <- `{"id":"ping","type":"echo"}`
		ok = wait("echo answered after the cancellation", func() bool { _, c, _, _ := sock.fold("ping"); return c["echo"] >= 1 })
		if ok && sc.Target == "ws_unsubscribe" {
			step("subscribe h: { plain }")
			sock.in <- subscribeFrame("h", "subscribe", `{ plain }`)
			ok = wait("a new subscription delivers data", func() bool { _, c, _, _ := sock.fold("h"); return c["update"] >= 1 })
		}
	}
	closeSock()
	if ok {
		ok = wait("ServeJSONSocket returns after the socket closed", func() bool { return atomic.LoadInt32(&served) == 1 })
	}
	if n := sock.end.excessReads(); n > 0 {
		run.Violation(caseIdx, "", wit(fmt.Sprintf("the read loop kept reading after a permanent non-close read error (%d reads)", n)))
		return
	}
	if ok {
		run.Count("m4:cancellation_point_reached", 1)
		cancel()
		leakCheck()
	}
}
