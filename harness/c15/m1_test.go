package c15

import (
	"bufio"
	"bytes"
	"context"
	"encoding/json"
	"errors"
	"fmt"
	"io"
	"log"
	"net/http"
	"net/http/httptest"
	"os"
	"os/exec"
	"regexp"
	"sort"
	"strconv"
	"strings"
	"sync"
	"sync/atomic"
	"syscall"
	"testing"
	"time"

	"github.com/samsarahq/thunder/batch"
	"github.com/samsarahq/thunder/federation"
	"github.com/samsarahq/thunder/graphql"
	"github.com/samsarahq/thunder/reactive"
	"github.com/samsarahq/thunder/thunderpb"
	"github.com/samsarahq/thunder/verifharness/vlib"
)

// ---------------------------------------------------------------------------
// Monitor 1: no panic. Cases run in child processes (this test binary
// re-executed with C15_CHILD set) so that a fatal crash — a panic on a
// goroutine thunder spawned, a stack overflow — ends the child, not the run;
// the parent reads the last CASE/TARGET markers and the input left on disk,
// records the witness and restarts after the crashing case.

// scriptSocket is a graphql.JSONSocket fed from a fixed list of frames.
type scriptSocket struct {
	mu       sync.Mutex
	frames   []string
	next     int
	outs     map[string]int // out envelopes per id
	outTypes map[string]bool
	expect   map[string]bool // ids that must get at least one envelope
	writes   int64
	drain    func(s *scriptSocket) // called when the script is exhausted, before EOF is reported
	readErr  bool
	end      endGuard
}

type envMirror struct {
	ID      string          `json:"id"`
	Type    string          `json:"type"`
	Message json.RawMessage `json:"message"`
}

func (s *scriptSocket) ReadJSON(v interface{}) error {
	s.mu.Lock()
	if s.next >= len(s.frames) {
		d := s.drain
		s.drain = nil
		s.mu.Unlock()
		if d != nil {
			d(s)
		}
		return s.end.ended()
	}
	f := s.frames[s.next]
	s.next++
	s.mu.Unlock()
	// gorilla's ReadJSON: json.NewDecoder(reader).Decode(v), io.EOF on an empty frame becomes io.ErrUnexpectedEOF
	err := json.NewDecoder(strings.NewReader(f)).Decode(v)
	if err == io.EOF {
		err = io.ErrUnexpectedEOF
	}
	if err != nil {
		s.mu.Lock()
		s.readErr = true
		s.mu.Unlock()
		return err
	}
	var m envMirror
	if json.NewDecoder(strings.NewReader(f)).Decode(&m) == nil {
		s.mu.Lock()
		switch m.Type {
		case "subscribe", "mutate":
			if _, seen := s.expect[m.ID]; !seen {
				s.expect[m.ID] = true
			}
		case "unsubscribe":
			// the client withdrew: no envelope is owed any more
			s.expect[m.ID] = false
		}
		s.mu.Unlock()
	}
	return nil
}

func (s *scriptSocket) WriteJSON(v interface{}) error {
	b, err := json.Marshal(v)
	if err != nil {
		return err
	}
	var m struct {
		ID   string `json:"id"`
		Type string `json:"type"`
	}
	_ = json.Unmarshal(b, &m)
	s.mu.Lock()
	s.outs[m.ID]++
	s.outTypes[m.Type] = true
	s.mu.Unlock()
	atomic.AddInt64(&s.writes, 1)
	return nil
}

func (s *scriptSocket) Close() error { return nil }

func (s *scriptSocket) owed() []string {
	s.mu.Lock()
	defer s.mu.Unlock()
	var missing []string
	for id, want := range s.expect {
		if want && s.outs[id] == 0 {
			missing = append(missing, id)
		}
	}
	sort.Strings(missing)
	return missing
}

type caseResult struct {
	I          int        `json:"i"`
	Outcomes   []string   `json:"outcomes"`
	Feats      []string   `json:"feats"`
	NonTrivial bool       `json:"nontrivial"`
	Panics     []panicRec `json:"panics,omitempty"`
	Hangs      []string   `json:"hangs,omitempty"`
	Undecided  []string   `json:"undecided,omitempty"`
	HangStacks []string   `json:"hang_stacks,omitempty"`
}

type worker struct {
	zoo     *graphql.Schema
	zooDesc *schemaDesc
	gw      *gateway
	gwDesc  *schemaDesc
	http    http.Handler
	entries int64
}

func newWorker() (*worker, error) {
	w := &worker{}
	hook := func(ctx context.Context, name string) error { atomic.AddInt64(&w.entries, 1); return nil }
	w.zoo = buildZoo(hook)
	w.zooDesc = describe(w.zoo)
	gw, err := buildGateway(hook)
	if err != nil {
		return nil, err
	}
	w.gw = gw
	w.gwDesc = describe(gw.schemas["s1"], gw.schemas["s2"])
	w.http = graphql.HTTPHandler(w.zoo)
	return w, nil
}

func errOutcome(err error) string {
	if err != nil {
		return "err"
	}
	return "ok"
}

// runCase drives one input through every entry point.
func (w *worker) runCase(c *gcase, soft, hard, cpuBudget time.Duration) *caseResult {
	res := &caseResult{I: c.Index, Feats: c.Feats}
	var sockWrites *int64
	activity := func() int64 {
		a := atomic.LoadInt64(&w.entries) + atomic.LoadInt64(&w.gw.calls)
		if sockWrites != nil {
			a += atomic.LoadInt64(sockWrites)
		}
		return a
	}
	guard := func(target string, f func()) bool {
		fmt.Println("TARGET", target)
		st, rec := callGuarded(target, activity, soft, hard, cpuBudget, f)
		switch st {
		case callPanicked:
			res.Panics = append(res.Panics, *rec)
			res.Outcomes = append(res.Outcomes, target+":PANIC")
		case callHung:
			res.Hangs = append(res.Hangs, target)
			res.HangStacks = append(res.HangStacks, hangStacks()...)
			res.Outcomes = append(res.Outcomes, target+":HANG")
		case callUndecided:
			res.Undecided = append(res.Undecided, target)
		}
		return st == callReturned
	}
	out := func(s string) { res.Outcomes = append(res.Outcomes, s) }
	ctx := context.Background()
	hung := func() bool { return len(res.Hangs) > 0 }

	// A. Parse -> PrepareQuery -> Execute, directly
	schema := w.zoo
	if c.Schema == "gw" {
		schema = w.gw.schemas["s1"]
	}
	// parse runs graphql.Parse behind the guard; results are handed over only
	// when the call returned (an abandoned call may still write its locals later)
	parse := func(target string) (*graphql.Query, error) {
		type result struct {
			q   *graphql.Query
			err error
		}
		r := &result{}
		if guard(target, func() { r.q, r.err = graphql.Parse(c.Query, c.Vars) }) {
			return r.q, r.err
		}
		return nil, errors.New("did not return")
	}
	q, perr := parse("Parse")
	out("parse:" + errOutcome(perr))
	res.NonTrivial = q != nil
	if perr == nil && q != nil {
		typ := schema.Query
		if q.Kind == "mutation" {
			typ = schema.Mutation
		}
		var prepErr error
		if guard("PrepareQuery", func() { prepErr = graphql.PrepareQuery(ctx, typ, q.SelectionSet) }) {
			out("prepare:" + errOutcome(prepErr))
			if prepErr == nil {
				var xerr error
				ex := graphql.NewExecutor(graphql.NewImmediateGoroutineScheduler())
				if guard("Execute", func() { _, xerr = ex.Execute(batch.WithBatching(ctx), typ, nil, q) }) {
					out("execute:" + errOutcome(xerr))
				}
			}
		}
	}

	if hung() {
		return res // a stuck call may be spinning and allocating: the child is restarted
	}

	// B. HTTP
	var rr *httptest.ResponseRecorder
	if guard("HTTPHandler.ServeHTTP", func() {
		var req *http.Request
		if c.HTTPNoBody {
			req, _ = http.NewRequest(c.HTTPMethod, "/graphql", nil)
		} else {
			req = httptest.NewRequest(c.HTTPMethod, "/graphql", strings.NewReader(c.HTTPBody))
		}
		rr = httptest.NewRecorder()
		w.http.ServeHTTP(rr, req)
	}) {
		var body struct {
			Data   interface{} `json:"data"`
			Errors []string    `json:"errors"`
		}
		switch {
		case json.Unmarshal(rr.Body.Bytes(), &body) != nil:
			out("http:not_json")
		case len(body.Errors) > 0:
			out("http:errors")
		default:
			out("http:data")
		}
	}

	if hung() {
		return res
	}

	// C. websocket
	sock := &scriptSocket{frames: c.WS, outs: map[string]int{}, outTypes: map[string]bool{}, expect: map[string]bool{}}
	sockWrites = &sock.writes
	var owed []string
	drainOutcome := waitReached
	var drainStacks []string
	sock.drain = func(s *scriptSocket) {
		drainOutcome, drainStacks = waitEntry(func() bool { return len(s.owed()) == 0 }, activity, "(*conn).ServeJSONSocket", soft, hard)
		owed = s.owed()
	}
	wsCtx, wsCancel := context.WithCancel(ctx)
	defer wsCancel()
	sock.end.cancel = wsCancel
	wsReturned := guard("ServeJSONSocket", func() {
		conn := graphql.CreateConnection(wsCtx, sock, schema, graphql.WithMinRerunInterval(time.Millisecond))
		conn.ServeJSONSocket()
	})
	if n := sock.end.excessReads(); n > 0 {
		res.Hangs = append(res.Hangs, fmt.Sprintf("ServeJSONSocket: the read loop kept reading after a permanent non-close read error (%d reads)", n))
	}
	if wsReturned {
		sock.mu.Lock()
		var ts []string
		for t := range sock.outTypes {
			ts = append(ts, t)
		}
		readErr := sock.readErr
		sock.mu.Unlock()
		sort.Strings(ts)
		o := "ws:" + strings.Join(ts, "+")
		if readErr {
			o += "+readerr"
		}
		out(o)
		if len(owed) > 0 && !readErr {
			if drainOutcome == waitStuck {
				res.Hangs = append(res.Hangs, "ServeJSONSocket: no envelope for ids "+strings.Join(owed, ","))
				res.HangStacks = append(res.HangStacks, drainStacks...)
			} else {
				res.Undecided = append(res.Undecided, "ServeJSONSocket drain")
			}
		}
	}
	sockWrites = nil

	if hung() {
		return res
	}

	// D. gateway, E. federated server
	if q2, perr2 := parse("Parse(2)"); perr2 == nil && q2 != nil {
		var gerr error
		if guard("federation.Executor.Execute", func() { _, _, gerr = w.gw.exec.Execute(ctx, q2, nil) }) {
			out("gateway:" + errOutcome(gerr))
		}
		if q3, perr3 := parse("Parse(3)"); perr3 == nil && q3 != nil {
			var serr error
			if guard("federation.Server.Execute", func() {
				var m *thunderpb.Query
				m, serr = federation.MarshalQuery(q3)
				if serr == nil {
					_, serr = w.gw.servers["s1"].Execute(ctx, &thunderpb.ExecuteRequest{Query: m})
				}
			}) {
				out("fedserver:" + errOutcome(serr))
			}
		}
	}
	return res
}

func childSetup(t *testing.T) *vlib.Run {
	log.SetOutput(io.Discard)
	reactive.WriteThenReadDelay = time.Millisecond
	return vlib.Start(t, "C15", "exploration") // used for Rand only; never finished, writes nothing
}

// TestChildWorker is the body of a child process; it does nothing unless
// C15_CHILD is set.
func TestChildWorker(t *testing.T) {
	mode := os.Getenv("C15_CHILD")
	if mode == "" {
		t.Skip("not a child")
	}
	run := childSetup(t)
	switch mode {
	case "m1":
		from, _ := strconv.Atoi(os.Getenv("C15_FROM"))
		to, _ := strconv.Atoi(os.Getenv("C15_TO"))
		w, err := newWorker()
		if err != nil {
			fmt.Println("CHILD-BROKEN", err)
			os.Exit(3)
		}
		path := currentInputPath(os.Getenv("C15_TAG"))
		for i := from; i < to; i++ {
			c := genCase(run.Rand("m1", i), i, w.zooDesc, w.gwDesc)
			_ = os.WriteFile(path, []byte(c.text()), 0o644)
			fmt.Println("CASE", i)
			res := w.runCase(c, 2*time.Second, 20*time.Second, 4*time.Second)
			b, _ := json.Marshal(res)
			fmt.Println("RES " + string(b))
			if spinning(res.HangStacks) && i+1 < to {
				// a stuck call that is still running (not parked) burns CPU and memory: start afresh
				fmt.Println("CHILD-RESTART")
				os.Exit(0)
			}
		}
		fmt.Println("BATCH-DONE")
	case "m5":
		ufChild(os.Getenv("C15_LIST"))
	case "deep":
		ins := deepInputs(run.Thorough())
		w, err := newWorker()
		if err != nil {
			fmt.Println("CHILD-BROKEN", err)
			os.Exit(3)
		}
		for _, ks := range strings.Split(os.Getenv("C15_DEEP"), ",") {
			k, err := strconv.Atoi(ks)
			if err != nil || k < 0 || k >= len(ins) {
				fmt.Println("CHILD-BROKEN bad deep index", ks)
				os.Exit(3)
			}
			in := ins[k]
			c := &gcase{Index: k, Schema: "zoo", Query: in.Query, VarsJSON: in.VarsJSON, HTTPMethod: "POST", Feats: []string{"deep:" + in.Name}}
			if c.VarsJSON == "" {
				c.VarsJSON = "null"
			}
			_ = json.Unmarshal([]byte(c.VarsJSON), &c.Vars)
			c.HTTPBody = `{"query":` + jsonString(c.Query) + `,"variables":` + c.VarsJSON + `}`
			c.WS = []string{`{"id":"d","type":"subscribe","message":` + c.HTTPBody + `}`}
			_ = os.WriteFile(currentInputPath(os.Getenv("C15_TAG")), []byte("deep input "+in.Name+" ("+in.How+")\n"+vlib.Trunc(c.Query, 4000)), 0o644)
			fmt.Println("CASE", k, in.Name)
			res := w.runCase(c, 20*time.Second, 150*time.Second, 120*time.Second)
			b, _ := json.Marshal(res)
			fmt.Println("RES " + string(b))
			if spinning(res.HangStacks) {
				fmt.Println("CHILD-RESTART")
				os.Exit(0)
			}
		}
		fmt.Println("BATCH-DONE")
	default:
		fmt.Println("CHILD-BROKEN unknown mode", mode)
		os.Exit(3)
	}
}

// ---------------------------------------------------------------------------
// parent side

type childOutcome struct {
	results  []*caseResult
	uf       []*ufResult
	done     bool
	restart  bool // the child asked to be restarted after the last case (it left a stuck call behind)
	timedOut bool
	lastCase int
	lastLine string // "CASE ..." line
	target   string
	crash    string // from "panic:" / "fatal error:" to the end (truncated)
	logPath  string
	err      error
}

var crashHead = regexp.MustCompile(`(?m)^(panic: .*|fatal error: .*|runtime: goroutine stack exceeds.*)$`)

// runChild re-executes this test binary as a worker.
func runChild(tag string, env []string, timeout time.Duration) *childOutcome {
	exe, err := os.Executable()
	if err != nil {
		return &childOutcome{err: err, lastCase: -1}
	}
	logPath := fmt.Sprintf("%s/c15-child.%s.log", workDir(), tag)
	lf, err := os.Create(logPath)
	if err != nil {
		return &childOutcome{err: err, lastCase: -1}
	}
	ctx, cancel := context.WithTimeout(context.Background(), timeout)
	defer cancel()
	cmd := exec.CommandContext(ctx, exe, "-test.run", "^TestChildWorker$", "-test.v", "-test.timeout=0")
	cmd.Env = append(os.Environ(), env...)
	cmd.Env = append(cmd.Env, "C15_TAG="+tag, "C15_WORK="+workDir())
	cmd.Stdout, cmd.Stderr = lf, lf
	cmd.Cancel = func() error { return cmd.Process.Signal(syscall.SIGQUIT) }
	cmd.WaitDelay = 10 * time.Second
	runErr := cmd.Run()
	lf.Close()
	oc := &childOutcome{lastCase: -1, logPath: logPath, err: runErr, timedOut: ctx.Err() != nil}
	b, _ := os.ReadFile(logPath)
	sc := bufio.NewScanner(bytes.NewReader(b))
	sc.Buffer(make([]byte, 1<<20), 64<<20)
	for sc.Scan() {
		ln := sc.Text()
		switch {
		case strings.HasPrefix(ln, "CASE "):
			oc.lastLine = ln
			f := strings.Fields(ln)
			if len(f) > 1 {
				oc.lastCase, _ = strconv.Atoi(f[1])
			}
			oc.target = ""
		case strings.HasPrefix(ln, "TARGET "):
			oc.target = strings.TrimPrefix(ln, "TARGET ")
		case strings.HasPrefix(ln, "RES "):
			var r caseResult
			if json.Unmarshal([]byte(ln[4:]), &r) == nil {
				oc.results = append(oc.results, &r)
			}
		case strings.HasPrefix(ln, "UFRES "):
			var r ufResult
			if json.Unmarshal([]byte(ln[6:]), &r) == nil {
				oc.uf = append(oc.uf, &r)
			}
		case ln == "BATCH-DONE":
			oc.done = true
		case ln == "CHILD-RESTART":
			oc.restart = true
		}
	}
	if !oc.done {
		if m := crashHead.FindIndex(b); m != nil {
			oc.crash = vlib.Trunc(string(b[m[0]:]), 8000)
		}
	}
	return oc
}

var inlineNoType = regexp.MustCompile(`\.\.\.\s*(@[^{}]*)?\{`)

// classifyPanic recognises the pinned defects; anything else is unclassified.
func classifyPanic(query, value, topFrame string) string {
	if topFrame == "graphql.parseSelectionSet" && strings.Contains(value, "nil pointer dereference") && inlineNoType.MatchString(query) {
		return "parse-inline-fragment-no-type-condition"
	}
	if topFrame == "graphql.Flatten" && strings.Contains(value, "nil pointer dereference") {
		// two selections with one alias below the top level, one with and one
		// without a selection set: Flatten merges them without checking
		return "flatten-same-alias-nil-selectionset-crash"
	}
	return ""
}

// classifyHang recognises the pinned "never returns" defects from the stacks
// of the stuck goroutines.
func classifyHang(target string, stacks []string) string {
	all := strings.Join(stacks, "\n\n")
	switch {
	case strings.Contains(all, "graphql/language/parser.parseList") && strings.Contains(all, "thunder/graphql.Parse("):
		// the pinned graphql-go parser loops forever (and allocates) on a list
		// value whose first token after an inner '[' does not lex
		return "parse-nested-list-lex-error-infinite-loop"
	case blockedIn(stacks, "thunder/federation.ExecuteRequest(", "chan receive") && !strings.Contains(all, "federation.ExecuteRequest.func1"):
		// ExecuteRequest waits for a rerunner that never ran its function
		// because the context was already cancelled
		return "federation-executerequest-precancelled-hang"
	case blockedIn(stacks, "thunder/graphql.(*httpHandler).ServeHTTP(", "semacquire") && !strings.Contains(all, "ServeHTTP.func2"):
		return "http-precancelled-hang"
	}
	return ""
}

// spinning reports whether one of the stuck goroutines is running rather
// than parked.
func spinning(stacks []string) bool {
	for _, g := range stacks {
		head := strings.SplitN(g, "\n", 2)[0]
		if strings.Contains(head, "[running") || strings.Contains(head, "[runnable") {
			return true
		}
	}
	return false
}

// blockedIn reports whether some goroutine in state `state` has frame fn.
func blockedIn(stacks []string, fn, state string) bool {
	for _, g := range stacks {
		head := strings.SplitN(g, "\n", 2)[0]
		if strings.Contains(head, state) && strings.Contains(g, fn) {
			return true
		}
	}
	return false
}

// recordResult folds one child result into the run.
func recordResult(run *vlib.Run, batchIdx int, r *caseResult, c *gcase) {
	sort.Strings(r.Outcomes)
	run.Case("m1|"+strings.Join(r.Feats, ",")+"|"+strings.Join(r.Outcomes, ","), r.NonTrivial)
	run.Count("m1:cases", 1)
	for _, f := range r.Feats {
		run.Count("m1:feature:"+f, 1)
	}
	for _, o := range r.Outcomes {
		run.Count("m1:outcome:"+o, 1)
	}
	for _, p := range r.Panics {
		w := c.witness()
		w["monitor"] = "1 no-panic"
		w["case_index"] = r.I
		w["what"] = "a panic escaped " + p.Target
		w["panic"] = p.Value
		w["top_thunder_frame"] = p.TopFrame
		w["stack"] = p.Stack
		w["expected"] = "the call returns an error or a value"
		run.Violation(batchIdx, classifyPanic(c.allText(), p.Value, p.TopFrame), w)
	}
	for _, h := range r.Hangs {
		w := c.witness()
		w["monitor"] = "1 no-panic"
		w["case_index"] = r.I
		w["what"] = "call neither returned nor failed and the process went quiet: " + h
		w["stacks"] = r.HangStacks
		w["expected"] = "the call returns an error or a value"
		run.Violation(batchIdx, classifyHang(h, r.HangStacks), w)
	}
	for _, u := range r.Undecided {
		run.Inconclusive(fmt.Sprintf("m1 case %d: %s still busy at the hard deadline", r.I, u))
	}
	if run.WantSample() && r.NonTrivial && len(r.Feats) >= 4 && r.I%7 == 0 {
		run.Sample(map[string]interface{}{"monitor": 1, "case": r.I, "query": vlib.Trunc(c.Query, 600), "variables": vlib.Trunc(c.VarsJSON, 200),
			"features": r.Feats, "outcomes": r.Outcomes})
	}
}

// runM1Batch runs cases [from,to) in child processes, restarting after a
// fatal crash.
func runM1Batch(run *vlib.Run, batchIdx, from, to int, zooDesc, gwDesc *schemaDesc) {
	attempt := 0
	for from < to {
		tag := fmt.Sprintf("m1b%d.%d", batchIdx, attempt)
		attempt++
		oc := runChild(tag, []string{"C15_CHILD=m1", fmt.Sprintf("C15_FROM=%d", from), fmt.Sprintf("C15_TO=%d", to)}, 10*time.Minute)
		for _, r := range oc.results {
			recordResult(run, batchIdx, r, genCase(run.Rand("m1", r.I), r.I, zooDesc, gwDesc))
		}
		if oc.done {
			return
		}
		if oc.restart {
			run.Count("m1:child_restarts_after_hang", 1)
			from = oc.lastCase + 1
			continue
		}
		if oc.lastCase < 0 {
			run.Broken(fmt.Sprintf("m1 child %s produced no case (err=%v, log %s)", tag, oc.err, oc.logPath))
			return
		}
		if oc.timedOut || oc.crash == "" {
			run.Inconclusive(fmt.Sprintf("m1 child %s stopped without a verdict at case %d target %s (timeout=%v err=%v, log %s)", tag, oc.lastCase, oc.target, oc.timedOut, oc.err, oc.logPath))
		} else {
			c := genCase(run.Rand("m1", oc.lastCase), oc.lastCase, zooDesc, gwDesc)
			onDisk, _ := os.ReadFile(currentInputPath(tag))
			w := c.witness()
			w["monitor"] = "1 no-panic"
			w["case_index"] = oc.lastCase
			w["what"] = "fatal crash of the process inside " + oc.target
			w["crash"] = oc.crash
			w["top_thunder_frame"] = topThunderFrame(oc.crash)
			w["input_file_on_disk"] = vlib.Trunc(string(onDisk), 3000)
			w["expected"] = "the call returns an error or a value"
			head := strings.SplitN(oc.crash, "\n", 2)[0]
			run.Count("m1:fatal_crashes", 1)
			run.Violation(batchIdx, classifyPanic(c.allText(), head+" "+oc.crash, topThunderFrame(oc.crash)), w)
		}
		from = oc.lastCase + 1
	}
}
