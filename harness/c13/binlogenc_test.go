package c13

// A writer for MySQL's binary log file format (format description, table map
// and write-rows v2 events, no checksums) - only used to feed the REAL pinned
// go-mysql decoder (replication.BinlogParser) so that the binlog forms the
// check relies on (forms_test.go, profile pBinlog) are validated against what
// that library really returns for each MySQL column type.

import (
	"bytes"
	"database/sql/driver"
	"encoding/binary"
	"fmt"
	"math"
	"os"
	"reflect"
	"time"

	"github.com/siddontang/go-mysql/replication"
)

const (
	myTiny      = 1
	myShort     = 2
	myLong      = 3
	myFloat     = 4
	myDouble    = 5
	myLongLong  = 8
	myVarchar   = 15
	myDatetime2 = 18
	myBlob      = 252
)

type binlogCol struct {
	typ  byte
	meta []byte // as written into the table map
	null bool
	data []byte // value bytes in row-image format
}

// binlogColumn encodes one stored value for a column of type c the way MySQL
// writes it into a row image.
func binlogColumn(dv driver.Value, c colChoice) (binlogCol, error) {
	le := func(v uint64, n int) []byte {
		b := make([]byte, 8)
		binary.LittleEndian.PutUint64(b, v)
		return b[:n]
	}
	lenPrefixed := func(b []byte, lob bool) binlogCol {
		if lob {
			// TEXT/BLOB: pack length 2
			out := append(le(uint64(len(b)), 2), b...)
			return binlogCol{typ: myBlob, meta: []byte{2}, data: out}
		}
		if len(b) < 256 && len(b)%2 == 0 {
			// VARCHAR(63)/VARBINARY(255): max byte length < 256, one length byte
			return binlogCol{typ: myVarchar, meta: le(255, 2), data: append([]byte{byte(len(b))}, b...)}
		}
		return binlogCol{typ: myVarchar, meta: le(16000, 2), data: append(le(uint64(len(b)), 2), b...)}
	}
	switch v := dv.(type) {
	case nil:
		return binlogCol{typ: myLong, null: true}, nil
	case int64:
		switch c.intBits {
		case 8:
			return binlogCol{typ: myTiny, data: le(uint64(v), 1)}, nil
		case 16:
			return binlogCol{typ: myShort, data: le(uint64(v), 2)}, nil
		case 32:
			return binlogCol{typ: myLong, data: le(uint64(v), 4)}, nil
		}
		return binlogCol{typ: myLongLong, data: le(uint64(v), 8)}, nil
	case bool:
		b := byte(0)
		if v {
			b = 1
		}
		return binlogCol{typ: myTiny, data: []byte{b}}, nil
	case float64:
		if c.float32c {
			return binlogCol{typ: myFloat, meta: []byte{4}, data: le(uint64(math.Float32bits(float32(v))), 4)}, nil
		}
		return binlogCol{typ: myDouble, meta: []byte{8}, data: le(math.Float64bits(v), 8)}, nil
	case string:
		return lenPrefixed([]byte(v), c.lob), nil
	case []byte:
		return lenPrefixed(v, c.lob), nil
	case time.Time:
		var packed uint64
		usec := 0
		if !v.IsZero() {
			u := v.UTC()
			ym := uint64(u.Year())*13 + uint64(u.Month())
			ymd := ym<<5 | uint64(u.Day())
			hms := uint64(u.Hour())<<12 | uint64(u.Minute())<<6 | uint64(u.Second())
			packed = ymd<<17 | hms
			usec = u.Nanosecond() / 1000
		}
		packed += 0x8000000000
		b := make([]byte, 8)
		binary.BigEndian.PutUint64(b, packed)
		data := append([]byte{}, b[3:]...) // 5 bytes big endian
		if c.dt6 {
			f := make([]byte, 4)
			binary.BigEndian.PutUint32(f, uint32(usec))
			data = append(data, f[1:]...) // 3 bytes
			return binlogCol{typ: myDatetime2, meta: []byte{6}, data: data}, nil
		}
		return binlogCol{typ: myDatetime2, meta: []byte{0}, data: data}, nil
	}
	return binlogCol{}, fmt.Errorf("no binlog encoding for %T", dv)
}

type binlogWriter struct {
	buf bytes.Buffer
}

func (w *binlogWriter) event(typ byte, body []byte) {
	h := make([]byte, 19)
	binary.LittleEndian.PutUint32(h[0:], 1500000000)
	h[4] = typ
	binary.LittleEndian.PutUint32(h[5:], 1)
	binary.LittleEndian.PutUint32(h[9:], uint32(19+len(body)))
	binary.LittleEndian.PutUint32(h[13:], uint32(w.buf.Len()+19+len(body)))
	w.buf.Write(h)
	w.buf.Write(body)
}

func newBinlogWriter() *binlogWriter {
	w := &binlogWriter{}
	w.buf.Write([]byte{0xfe, 'b', 'i', 'n'})
	body := make([]byte, 0, 100)
	body = append(body, 4, 0) // binlog version 4
	ver := make([]byte, 50)
	copy(ver, "5.5.40-log") // before 5.6.1: no checksum trailer
	body = append(body, ver...)
	body = append(body, 0, 0, 0, 0) // create timestamp
	body = append(body, 19)         // event header length
	lens := make([]byte, 40)
	lens[replication.TABLE_MAP_EVENT-1] = 8
	for _, t := range []replication.EventType{replication.WRITE_ROWS_EVENTv1, replication.UPDATE_ROWS_EVENTv1, replication.DELETE_ROWS_EVENTv1} {
		lens[t-1] = 8
	}
	for _, t := range []replication.EventType{replication.WRITE_ROWS_EVENTv2, replication.UPDATE_ROWS_EVENTv2, replication.DELETE_ROWS_EVENTv2} {
		lens[t-1] = 10
	}
	body = append(body, lens...)
	w.event(byte(replication.FORMAT_DESCRIPTION_EVENT), body)
	return w
}

func lenenc(n int) []byte {
	if n < 251 {
		return []byte{byte(n)}
	}
	return []byte{0xfc, byte(n), byte(n >> 8)}
}

// writeRow appends a table map event and a one-row WRITE_ROWS_EVENTv2.
func (w *binlogWriter) writeRow(tableID uint64, schema, table string, cols []binlogCol) {
	id := make([]byte, 8)
	binary.LittleEndian.PutUint64(id, tableID)
	n := len(cols)
	var tm []byte
	tm = append(tm, id[:6]...)
	tm = append(tm, 1, 0) // flags
	tm = append(tm, byte(len(schema)))
	tm = append(tm, schema...)
	tm = append(tm, 0, byte(len(table)))
	tm = append(tm, table...)
	tm = append(tm, 0)
	tm = append(tm, lenenc(n)...)
	var meta []byte
	for _, c := range cols {
		tm = append(tm, c.typ)
		meta = append(meta, c.meta...)
	}
	tm = append(tm, lenenc(len(meta))...)
	tm = append(tm, meta...)
	nullable := make([]byte, (n+7)/8)
	for i := range nullable {
		nullable[i] = 0xff
	}
	tm = append(tm, nullable...)
	w.event(byte(replication.TABLE_MAP_EVENT), tm)

	var re []byte
	re = append(re, id[:6]...)
	re = append(re, 1, 0) // flags: STMT_END
	re = append(re, 2, 0) // extra data length (just itself)
	re = append(re, lenenc(n)...)
	present := make([]byte, (n+7)/8)
	for i := 0; i < n; i++ {
		present[i/8] |= 1 << uint(i%8)
	}
	re = append(re, present...)
	nulls := make([]byte, (n+7)/8)
	var data []byte
	for i, c := range cols {
		if c.null {
			nulls[i/8] |= 1 << uint(i%8)
			continue
		}
		data = append(data, c.data...)
	}
	re = append(re, nulls...)
	re = append(re, data...)
	w.event(byte(replication.WRITE_ROWS_EVENTv2), re)
}

// parseBinlog runs the real go-mysql file parser and returns every row of
// every rows event, in order.
func parseBinlog(file []byte) ([][]interface{}, error) {
	f, err := os.CreateTemp(os.Getenv("VERIF_WORK"), "c13-binlog-*") // the driver's work directory; default temp dir otherwise
	if err != nil {
		return nil, err
	}
	defer os.Remove(f.Name())
	if _, err := f.Write(file); err != nil {
		f.Close()
		return nil, err
	}
	f.Close()
	var rows [][]interface{}
	p := replication.NewBinlogParser()
	err = p.ParseFile(f.Name(), 0, func(e *replication.BinlogEvent) error {
		if re, ok := e.Event.(*replication.RowsEvent); ok {
			rows = append(rows, re.Rows...)
		}
		return nil
	})
	return rows, err
}

// sameForm: identical dynamic type and value.
func sameForm(a, b interface{}) bool {
	if a == nil || b == nil {
		return a == nil && b == nil
	}
	if reflect.TypeOf(a) != reflect.TypeOf(b) {
		return false
	}
	if fa, ok := a.(float64); ok {
		return math.Float64bits(fa) == math.Float64bits(b.(float64))
	}
	if fa, ok := a.(float32); ok {
		return math.Float32bits(fa) == math.Float32bits(b.(float32))
	}
	if ba, ok := a.([]byte); ok {
		return bytes.Equal(ba, b.([]byte))
	}
	return reflect.DeepEqual(a, b)
}
