package c13

// Column values stay what they are until they are used. Every value list
// thunder produces for one or several rows (UnbuildStruct, Make*Row,
// MakeBatch*Row, DB.InsertRows/UpsertRows arguments) is retained and compared
// only AFTER the whole batch has been produced with reference values that the
// harness obtained one at a time from the column's own Valuer and copied at
// once. A tester built on one column must match exactly the rows whose value
// of that column equals the filter's - including rows whose value has the
// same encoded length but other content.

import (
	"bytes"
	"context"
	"database/sql/driver"
	"encoding/json"
	"fmt"
	"math/rand"
	"reflect"
	"strings"
	"time"

	"github.com/samsarahq/thunder/sqlgen"
)

// snapshot copies a driver value so that later writes to shared memory cannot
// reach it.
func snapshot(v driver.Value) driver.Value {
	if b, ok := v.([]byte); ok {
		if b == nil {
			return []byte(nil)
		}
		return append([]byte{}, b...)
	}
	return v
}

// refEq: equality of two SQL values (what a tester is specified to compare).
func refEq(a, b driver.Value) bool {
	if a == nil || b == nil {
		return a == nil && b == nil
	}
	switch x := a.(type) {
	case []byte:
		y, ok := b.([]byte)
		return ok && bytes.Equal(x, y)
	case time.Time:
		y, ok := b.(time.Time)
		return ok && x.Equal(y)
	}
	if reflect.TypeOf(a) != reflect.TypeOf(b) || !reflect.TypeOf(a).Comparable() {
		return false
	}
	return a == b
}

// refSame: same dynamic type and value (nil []byte and empty []byte differ).
func refSame(a, b driver.Value) bool {
	if a == nil || b == nil {
		return a == nil && b == nil
	}
	if reflect.TypeOf(a) != reflect.TypeOf(b) {
		return false
	}
	if x, ok := a.([]byte); ok {
		y := b.([]byte)
		return (x == nil) == (y == nil) && bytes.Equal(x, y)
	}
	return refEq(a, b)
}

// refValue: the column's SQL value for a field, produced alone and copied.
func (c *caseCtx) refValue(k int, field reflect.Value) (v driver.Value, err error) {
	if pn := safely(func() {
		v, err = c.ti.table.Columns[k].Descriptor.Valuer(field).Value()
		v = snapshot(v)
	}); pn != nil {
		return nil, fmt.Errorf("Valuer panicked: %v", pn)
	}
	return v, err
}

func (c *caseCtx) refValues(row reflect.Value) ([]driver.Value, error) {
	out := make([]driver.Value, len(c.ti.specs))
	for k, s := range c.ti.specs {
		v, err := c.refValue(k, row.Elem().FieldByIndex(s.fieldIdx))
		if err != nil {
			return nil, fmt.Errorf("%s: %v", s.name, err)
		}
		out[k] = v
	}
	return out, nil
}

func showList(vs []interface{}) []string {
	out := make([]string, len(vs))
	for i, v := range vs {
		out[i] = show(v)
	}
	return out
}

func dvList(vs []driver.Value) []interface{} {
	out := make([]interface{}, len(vs))
	for i, v := range vs {
		out[i] = v
	}
	return out
}

// firstDiff returns the first index where got differs from want (-1: none; a
// length difference counts as a difference at the shorter length).
func firstDiff(got []interface{}, want []driver.Value) int {
	for i := range want {
		if i >= len(got) || !refSame(got[i], want[i]) {
			return i
		}
	}
	if len(got) != len(want) {
		return len(want)
	}
	return -1
}

// checkValueStability compares UnbuildStruct's values, after all of them have
// been produced, with the per-column reference values.
func (c *caseCtx) checkValueStability(ref []driver.Value) bool {
	var bad []string
	for k := range ref {
		if !refSame(c.vals[k], ref[k]) {
			bad = append(bad, c.names[k])
		}
	}
	if len(bad) > 0 {
		c.violate("", c.wit(map[string]interface{}{"what": "UnbuildStruct: a column value differs from the value the same column's Valuer yields for the field on its own (looked at after the whole row was produced)",
			"column": strings.Join(bad, ","), "reference_values": showRow(c.names, ref)}))
		return false
	}
	c.run.Count("unbuild_values_equal_reference", 1)
	return true
}

// checkBatches: value lists of the single-row and multi-row statement
// builders and of DB.InsertRows / DB.UpsertRows (through database/sql).
func (c *caseCtx) checkBatches(e *env) {
	ti, schema := c.ti, c.z.schema
	r := c.run.Rand("batch", c.i)
	rows := []reflect.Value{c.x}
	for n := 1 + r.Intn(3); n > 0; n-- {
		y, err := ti.genRow(r, r.Intn(2) == 0)
		if err != nil {
			c.run.Broken(err.Error())
			return
		}
		rows = append(rows, y)
	}
	if r.Intn(4) == 0 {
		rows = append(rows, c.x) // the same row twice in one batch
	}
	refs := make([][]driver.Value, len(rows))
	for j, row := range rows {
		ref, err := c.refValues(row)
		if err != nil {
			return // reported by the main round trip
		}
		refs[j] = ref
	}
	auto := ti.table.PrimaryKeyType == sqlgen.AutoIncrement
	pick := func(ref []driver.Value, primary, nonPrimary, skipAutoPrimary bool) []driver.Value {
		var out []driver.Value
		for k, col := range ti.table.Columns {
			if col.Primary && skipAutoPrimary && auto {
				continue
			}
			if (col.Primary && primary) || (!col.Primary && nonPrimary) {
				out = append(out, ref[k])
			}
		}
		return out
	}
	concat := func(primary, nonPrimary, skipAutoPrimary bool) []driver.Value {
		var out []driver.Value
		for _, ref := range refs {
			out = append(out, pick(ref, primary, nonPrimary, skipAutoPrimary)...)
		}
		return out
	}
	ifaces := make([]interface{}, len(rows))
	typed := reflect.MakeSlice(reflect.SliceOf(reflect.PtrTo(ti.typ)), 0, len(rows))
	for j, row := range rows {
		ifaces[j] = row.Interface()
		typed = reflect.Append(typed, row)
	}

	// Produce everything first, keep every list, look afterwards.
	type produced struct {
		what string
		got  []interface{}
		want []driver.Value
	}
	var all []produced
	add := func(what string, got []interface{}, want []driver.Value) {
		all = append(all, produced{what, got, want})
	}
	fail := func(what string, err error, pn interface{}) {
		c.violate("", c.wit(map[string]interface{}{"what": what + " failed on generated rows", "err": fmt.Sprint(err), "panic": fmt.Sprint(pn)}))
	}
	if pn := safely(func() {
		if q, err := schema.MakeInsertRow(ifaces[0]); err != nil {
			fail("MakeInsertRow", err, nil)
		} else {
			add("MakeInsertRow.Values", q.Values, pick(refs[0], true, true, true))
		}
		if q, err := schema.MakeUpdateRow(ifaces[0]); err != nil {
			fail("MakeUpdateRow", err, nil)
		} else {
			add("MakeUpdateRow.Values", q.Values, pick(refs[0], false, true, false))
			add("MakeUpdateRow.Where.Values", q.Where.Values, pick(refs[0], true, false, false))
		}
		if q, err := schema.MakeDeleteRow(ifaces[0]); err != nil {
			fail("MakeDeleteRow", err, nil)
		} else {
			add("MakeDeleteRow.Where.Values", q.Where.Values, pick(refs[0], true, false, false))
		}
		if q, err := schema.MakeBatchInsertRow(ifaces); err != nil {
			fail("MakeBatchInsertRow", err, nil)
		} else {
			add("MakeBatchInsertRow.Values", q.Values, concat(true, true, true))
		}
		if !auto {
			if q, err := schema.MakeUpsertRow(ifaces[0]); err != nil {
				fail("MakeUpsertRow", err, nil)
			} else {
				add("MakeUpsertRow.Values", q.Values, pick(refs[0], true, true, false))
			}
			if q, err := schema.MakeBatchUpsertRow(ifaces); err != nil {
				fail("MakeBatchUpsertRow", err, nil)
			} else {
				add("MakeBatchUpsertRow.Values", q.Values, concat(true, true, false))
			}
		}
		// through database/sql: the arguments the driver receives, chunk by chunk
		ctx := context.Background()
		chunk := 1 + r.Intn(len(rows))
		e.st.takeCaptured()
		if err := e.db.InsertRows(ctx, typed.Interface(), chunk); err != nil {
			fail("DB.InsertRows", err, nil)
		} else {
			var got []interface{}
			for _, ex := range e.st.takeCaptured() {
				got = append(got, dvList(ex)...)
			}
			add(fmt.Sprintf("DB.InsertRows(chunk %d) driver arguments", chunk), got, concat(true, true, true))
		}
		if !auto {
			e.st.takeCaptured()
			if err := e.db.UpsertRows(ctx, typed.Interface(), chunk); err != nil {
				fail("DB.UpsertRows", err, nil)
			} else {
				var got []interface{}
				for _, ex := range e.st.takeCaptured() {
					got = append(got, dvList(ex)...)
				}
				add(fmt.Sprintf("DB.UpsertRows(chunk %d) driver arguments", chunk), got, concat(true, true, false))
			}
		}
	}); pn != nil {
		fail("statement builders", nil, pn)
		return
	}
	rowStrings := func() []string {
		var out []string
		for _, row := range rows {
			out = append(out, showStruct(row.Interface()))
		}
		return out
	}
	for _, p := range all {
		c.run.Count("value_list_checked:"+strings.SplitN(p.what, "(", 2)[0], 1)
		if d := firstDiff(p.got, p.want); d >= 0 {
			w := map[string]interface{}{"table": ti.name, "what": p.what + ": the value list differs from the rows' own column values (compared after the whole batch was produced)",
				"rows": rowStrings(), "first_differing_index": d, "got": showList(p.got), "want": showList(dvList(p.want))}
			c.violate("", w)
			return
		}
	}
	// every row's slice of the multi-row insert decodes back to that row
	for _, p := range all {
		if p.what != "MakeBatchInsertRow.Values" {
			continue
		}
		per := len(p.got) / len(rows)
		for j, row := range rows {
			slice := p.got[j*per : (j+1)*per]
			full := make([]driver.Value, 0, len(ti.specs))
			a := 0
			for k, col := range ti.table.Columns {
				if col.Primary && auto {
					full = append(full, refs[j][k])
					continue
				}
				full = append(full, slice[a])
				a++
			}
			var y interface{}
			var err error
			if pn := safely(func() { y, err = schema.BuildStruct(ti.name, full) }); pn != nil || err != nil {
				c.violate("", map[string]interface{}{"table": ti.name, "what": "a row's values inside a multi-row insert do not decode", "row": showStruct(row.Interface()),
					"values": showRow(c.names, full), "err": fmt.Sprint(err), "panic": fmt.Sprint(pn)})
				return
			}
			if cols := ti.diff(row.Elem(), reflect.ValueOf(y).Elem(), false); len(cols) > 0 {
				c.violate("", map[string]interface{}{"table": ti.name, "what": "a row's values inside a multi-row insert decode to a different row", "column": strings.Join(cols, ","),
					"row": showStruct(row.Interface()), "values": showRow(c.names, full), "got": showStruct(y)})
				return
			}
			c.run.Count("batch_row_round_trips", 1)
		}
	}
}

func flipAlnum(ch byte) (byte, bool) {
	switch {
	case ch >= '0' && ch <= '9':
		return '1' + (ch-'0')%9, true // never 0: keeps numbers valid; always differs
	case ch >= 'a' && ch < 'z', ch >= 'A' && ch < 'Z':
		return ch + 1, true
	case ch == 'z' || ch == 'Z':
		return ch - 1, true
	}
	return ch, false
}

// jsonFlipPositions lists the positions of text whose character may be
// replaced by another letter/digit without breaking the JSON syntax (inside
// string literals outside escapes, and digits of numbers).
func jsonFlipPositions(text []byte) []int {
	var pos []int
	inStr := false
	for i := 0; i < len(text); i++ {
		ch := text[i]
		if inStr {
			switch {
			case ch == '\\':
				if i+1 < len(text) && text[i+1] == 'u' {
					i += 5
				} else {
					i++
				}
			case ch == '"':
				inStr = false
			default:
				if _, ok := flipAlnum(ch); ok {
					pos = append(pos, i)
				}
			}
			continue
		}
		if ch == '"' {
			inStr = true
		} else if ch >= '0' && ch <= '9' {
			pos = append(pos, i)
		}
	}
	return pos
}

// sameLengthVariant builds, for column k, a field value different from fv
// whose SQL value has exactly the same length as ref (the value of fv).
func (c *caseCtx) sameLengthVariant(r *rand.Rand, k int, fv reflect.Value, ref driver.Value) (reflect.Value, driver.Value, bool) {
	s := c.ti.specs[k]
	try := func(nv reflect.Value) (reflect.Value, driver.Value, bool) {
		v, err := c.refValue(k, nv)
		if err != nil || refEq(v, ref) {
			return nv, nil, false
		}
		switch x := v.(type) {
		case []byte:
			if y, ok := ref.([]byte); ok && len(x) == len(y) {
				return nv, v, true
			}
		case string:
			if y, ok := ref.(string); ok && len(x) == len(y) {
				return nv, v, true
			}
		}
		return nv, nil, false
	}
	switch {
	case s.jsonTag:
		text, ok := ref.([]byte)
		if !ok {
			return fv, nil, false
		}
		pos := jsonFlipPositions(text)
		for attempt := 0; attempt < 6 && len(pos) > 0; attempt++ {
			p := pos[r.Intn(len(pos))]
			mut := append([]byte{}, text...)
			mut[p], _ = flipAlnum(mut[p])
			nv := reflect.New(s.fieldType)
			if json.Unmarshal(mut, nv.Interface()) != nil {
				continue
			}
			if out, v, ok := try(nv.Elem()); ok {
				return out, v, true
			}
		}
	case plainColumn(s) && !s.ptr && s.base.Kind() == reflect.String:
		str := []byte(fv.String())
		for attempt := 0; attempt < 4 && len(str) > 0; attempt++ {
			p := r.Intn(len(str))
			if nb, ok := flipAlnum(str[p]); ok {
				mut := append([]byte{}, str...)
				mut[p] = nb
				nv := reflect.New(s.fieldType).Elem()
				nv.SetString(string(mut))
				if out, v, ok := try(nv); ok {
					return out, v, true
				}
			}
		}
	case plainColumn(s) && !s.ptr && s.base == bytesType:
		b := fv.Bytes()
		if len(b) > 0 {
			mut := append([]byte{}, b...)
			mut[r.Intn(len(mut))] ^= 1
			nv := reflect.New(s.fieldType).Elem()
			nv.SetBytes(mut)
			if out, v, ok := try(nv); ok {
				return out, v, true
			}
		}
	}
	return fv, nil, false
}

// checkTesterDiscrimination: a one-column filter taken from x matches a row
// iff that row's value of the column equals x's (reference equality on values
// produced one at a time).
func (c *caseCtx) checkTesterDiscrimination(ref []driver.Value) {
	ti := c.ti
	r := c.run.Rand("discriminate", c.i)
	other, err := ti.genRow(r, r.Intn(2) == 0)
	if err != nil {
		c.run.Broken(err.Error())
		return
	}
	var cols []int
	for k, s := range ti.specs {
		if s.jsonTag || r.Intn(6) == 0 {
			cols = append(cols, k)
		}
	}
	for _, k := range cols {
		s := ti.specs[k]
		fv := c.x.Elem().FieldByIndex(s.fieldIdx)
		filter := sqlgen.Filter{s.name: fv.Interface()}
		type probe struct {
			kind string
			row  reflect.Value
			val  driver.Value
		}
		var probes []probe
		mk := func(kind string, nv reflect.Value, val driver.Value) {
			row := reflect.New(ti.typ)
			row.Elem().Set(c.x.Elem())
			row.Elem().FieldByIndex(s.fieldIdx).Set(nv)
			probes = append(probes, probe{kind, row, val})
		}
		mk("same value", fv, ref[k])
		if nv, val, ok := c.sameLengthVariant(r, k, fv, ref[k]); ok {
			mk("other value of the same encoded length", nv, val)
		}
		ov := other.Elem().FieldByIndex(s.fieldIdx)
		if val, err := c.refValue(k, ov); err == nil {
			mk("value of an unrelated row", ov, val)
		}
		for _, p := range probes {
			want := refEq(ref[k], p.val)
			var got bool
			var terr error
			if pn := safely(func() {
				var t sqlgen.Tester
				t, terr = c.z.schema.MakeTester(ti.name, filter)
				if terr == nil {
					got = t.Test(p.row.Interface())
				}
			}); pn != nil || terr != nil {
				c.violate("", c.wit(map[string]interface{}{"what": "MakeTester/Test failed on a one-column filter made from the row", "column": s.name, "err": fmt.Sprint(terr), "panic": fmt.Sprint(pn)}))
				break
			}
			c.run.Count("tester_discrimination:"+p.kind, 1)
			if s.jsonTag {
				c.run.Count("tester_discrimination_json_column:"+p.kind, 1)
			}
			if got != want {
				c.violate("", c.wit(map[string]interface{}{"what": "a filter on one column does not match exactly the rows holding that value", "column": s.name, "probe": p.kind,
					"filter_value": show(ref[k]), "row_value": show(p.val), "expected_match": want, "got_match": got}))
				break
			}
		}
	}
}
