package c13

// The stateful paths: database/sql (sqlgen.DB.InsertRow / Query through the
// private driver, i.e. parseQueryRow via sql.Rows.Scan) and the binlog path
// (hand-built RowsEvents through livesql.NewBinlogForVerif -> RunPollLoop ->
// parseBinlogRowsEvent -> parseBinlogRow -> tracker -> tester -> invalidation).

import (
	"context"
	"database/sql"
	"database/sql/driver"
	"errors"
	"fmt"
	"math/rand"
	"reflect"
	"strings"
	"sync"
	"sync/atomic"
	"time"

	"github.com/samsarahq/thunder/livesql"
	"github.com/samsarahq/thunder/reactive"
	"github.com/samsarahq/thunder/sqlgen"
	"github.com/samsarahq/thunder/verifharness/vlib"
	"github.com/siddontang/go-mysql/replication"
)

const verifDatabase = "c13db"

var quiescentVerdicts int64

type capLogger struct {
	mu       sync.Mutex
	errs     []string
	n        int64
	activity *int64
}

func (l *capLogger) add(msg string, tags []interface{}) {
	l.mu.Lock()
	l.errs = append(l.errs, fmt.Sprint(append([]interface{}{msg}, tags...)...))
	if len(l.errs) > 50 {
		l.errs = l.errs[len(l.errs)-50:]
	}
	l.mu.Unlock()
	atomic.AddInt64(&l.n, 1)
	atomic.AddInt64(l.activity, 1)
}
func (l *capLogger) last() string {
	l.mu.Lock()
	defer l.mu.Unlock()
	if len(l.errs) == 0 {
		return ""
	}
	return l.errs[len(l.errs)-1]
}
func (l *capLogger) Debug(msg string, tags ...interface{}) {}
func (l *capLogger) Info(msg string, tags ...interface{})  {}
func (l *capLogger) Warn(msg string, tags ...interface{})  { l.add(msg, tags) }
func (l *capLogger) Error(msg string, tags ...interface{}) { l.add(msg, tags) }

type env struct {
	z        *zoo
	st       *fakeState
	conn     *sql.DB
	db       *sqlgen.DB
	ldb      *livesql.LiveDB
	push     func(*replication.BinlogEvent)
	fail     func(error)
	log      *capLogger
	pollDone chan error
	activity int64
	// the database-side shape of each table as this environment's MySQL has it
	// now: changed by alterTable (schema change on the one Binlog instance)
	tstate map[string]*tableState
	nextID uint64
	// the previous cleanly decoded row per table: staged in front of the next
	// one (multi-row result sets reuse pooled scanners and driver buffers)
	prev        map[string]*prevRow
	lastDecoded map[string]*lastDec
}

// tableState: column order in information_schema (struct columns permuted,
// one extra column), position of each struct column in it, the table id of
// the current table-map event and whether that event was already sent.
type tableState struct {
	layout []string
	lpos   []int
	id     uint64
	mapped bool
}

type lastDec struct {
	c *caseCtx
	y reflect.Value
}

type prevRow struct {
	c   *caseCtx
	row []driver.Value
	p   profile
}

func newEnv(z *zoo) (*env, error) {
	e := &env{z: z, st: &fakeState{layouts: map[string][]string{}}, pollDone: make(chan error, 1), tstate: map[string]*tableState{}, nextID: 100, prev: map[string]*prevRow{}, lastDecoded: map[string]*lastDec{}}
	for _, ti := range z.tables {
		e.st.layouts[ti.name] = ti.layout
		e.nextID++
		e.tstate[ti.name] = &tableState{layout: ti.layout, lpos: ti.lpos, id: e.nextID}
	}
	e.conn = openFake(e.st)
	e.db = sqlgen.NewDB(e.conn, z.schema)
	e.ldb = livesql.NewLiveDB(e.db)
	e.log = &capLogger{activity: &e.activity}
	var b *livesql.Binlog
	b, e.push, e.fail = livesql.NewBinlogForVerif(e.ldb, verifDatabase)
	b.SetLogger(e.log)
	reactive.WriteThenReadDelay = 0
	go func() { e.pollDone <- b.RunPollLoop() }()
	return e, nil
}

var errStop = errors.New("c13: stop")

func (e *env) close() {
	e.fail(errStop)
	select {
	case <-e.pollDone:
	case <-time.After(10 * time.Second):
	}
	e.conn.Close()
}

var queryProfiles = []profile{pQueryText, pQueryTextParseTime, pQueryBinary, pQueryBinaryParseTime}

// dbPath: InsertRow through database/sql into the private driver, re-encode
// the captured arguments the way MySQL + go-sql-driver return them, Query back.
func (e *env) dbPath(c *caseCtx, choices []colChoice) {
	ctx := context.Background()
	p := queryProfiles[(c.i/len(c.z.tables))%len(queryProfiles)]
	e.st.takeCaptured()
	var ierr error
	if pn := safely(func() { _, ierr = e.db.InsertRow(ctx, c.x.Interface()) }); pn != nil {
		c.violate("", c.wit(map[string]interface{}{"what": "InsertRow panicked", "panic": fmt.Sprint(pn)}))
		return
	}
	if ierr != nil {
		c.violate("", c.wit(map[string]interface{}{"what": "InsertRow failed (database/sql rejected a column value)", "err": ierr.Error()}))
		return
	}
	cap := e.st.takeCaptured()
	if len(cap) != 1 {
		c.run.Broken(fmt.Sprintf("case %d: expected one captured Exec, got %d", c.i, len(cap)))
		return
	}
	args := cap[0]
	stored := make([]driver.Value, len(c.vals))
	a := 0
	for k, col := range c.ti.table.Columns {
		if col.Primary && c.ti.table.PrimaryKeyType == sqlgen.AutoIncrement {
			stored[k] = c.vals[k] // MySQL would assign it; keep the row's own id
			continue
		}
		if a >= len(args) {
			c.run.Broken(fmt.Sprintf("case %d: Exec had too few arguments", c.i))
			return
		}
		stored[k] = args[a]
		a++
	}
	if a != len(args) {
		c.run.Broken(fmt.Sprintf("case %d: Exec had %d arguments, used %d", c.i, len(args), a))
		return
	}
	row := make([]driver.Value, len(stored))
	for k := range stored {
		row[k] = encode(stored[k], choices[k], p)
	}
	staged := [][]driver.Value{row}
	prev := e.prev[c.ti.name]
	if prev != nil {
		staged = [][]driver.Value{prev.row, row}
	}
	delete(e.prev, c.ti.name)
	e.st.stage(c.names, staged)
	res := reflect.New(reflect.SliceOf(reflect.PtrTo(c.ti.typ)))
	before := c.nviol
	c.decodeAndCompare(p, "sqlgen.DB.Query", row, choices, func() (interface{}, error) {
		if err := e.db.Query(ctx, res.Interface(), nil, nil); err != nil {
			return nil, err
		}
		if res.Elem().Len() != len(staged) {
			return nil, fmt.Errorf("c13: Query returned %d rows for %d staged rows", res.Elem().Len(), len(staged))
		}
		return res.Elem().Index(len(staged) - 1).Interface(), nil
	}, nil)
	if c.nviol != before {
		return
	}
	if prev != nil && res.Elem().Len() == 2 {
		// the earlier row of the same result set must be intact as well
		y := res.Elem().Index(0)
		if cols := c.ti.diff(prev.c.x.Elem(), y.Elem(), false); len(cols) > 0 {
			c.violate("", prev.c.wit(map[string]interface{}{"what": "sqlgen.DB.Query: the first row of a two-row result set differs from its original (it decoded correctly alone)",
				"profile": prev.p.String(), "column": strings.Join(cols, ","), "source_row": showRow(c.names, prev.row), "got": showStruct(y.Interface())}))
			return
		}
		c.run.Count("dbsql_two_row_result_sets", 1)
	}
	e.prev[c.ti.name] = &prevRow{c: c, row: row, p: p}
}

func flipKey(v driver.Value) driver.Value {
	switch x := v.(type) {
	case int8:
		return x ^ 1
	case int16:
		return x ^ 1
	case int32:
		return x ^ 1
	case int64:
		return x ^ 1
	}
	return v
}

// binlogPath pushes the row's binlog form through the production poll loop
// and observes, via a live dependency whose filter is made of all the row's
// column values, whether the decoded row matched.
func (e *env) binlogPath(c *caseCtx, choices []colChoice) {
	ti := c.ti
	raw := make([]driver.Value, len(c.vals))
	for k := range c.vals {
		raw[k] = encode(c.vals[k], choices[k], pBinlog)
	}
	build := func(row []driver.Value) (interface{}, bool) {
		var y interface{}
		var derr error
		if pn := safely(func() { y, derr = c.z.schema.BuildStruct(ti.name, row) }); pn != nil || derr != nil {
			return nil, false
		}
		return y, true
	}
	// The all-columns filter is taken from BuildStruct's decoding of the same
	// binlog form (already compared with x by the caller).
	fullFilter := func(y interface{}) sqlgen.Filter {
		f := sqlgen.Filter{}
		for _, s := range ti.specs {
			f[s.name] = reflect.ValueOf(y).Elem().FieldByIndex(s.fieldIdx).Interface()
		}
		return f
	}
	keyFilter := sqlgen.Filter{ti.specs[0].name: c.x.Elem().FieldByIndex(ti.specs[0].fieldIdx).Interface()}

	kind := (c.i / len(c.z.tables)) % 4
	if y, ok := build(raw); ok {
		// One case in three runs a schema change on this Binlog instance: rows
		// event (the column map gets cached), ALTER TABLE that keeps the number of
		// columns but re-orders them (new table id, new information_schema order),
		// rows event written in the new order. One in six only re-opens the table
		// (new table id, same shape). The decoded rows must equal what was written
		// before and after.
		ra := c.run.Rand("alter", c.i)
		switch ra.Intn(6) {
		case 0, 1:
			e.pushAndObserve(c, choices, raw, kind, fullFilter(y), "")
			e.alterTable(ti, ra, true)
			c.run.Count("binlog_e2e_schema_change:reorder_same_count", 1)
			e.pushAndObserve(c, choices, raw, (kind+1)%4, fullFilter(y), "")
		case 2:
			e.pushAndObserve(c, choices, raw, kind, fullFilter(y), "")
			e.alterTable(ti, ra, false)
			c.run.Count("binlog_e2e_schema_change:new_table_id_same_shape", 1)
			e.pushAndObserve(c, choices, raw, (kind+1)%4, fullFilter(y), "")
		default:
			e.pushAndObserve(c, choices, raw, kind, fullFilter(y), "")
		}
		return
	}
	// BuildStruct could not decode the binlog form (reported by the caller). Show
	// the same through the real path, then keep the coverage of the other columns
	// with the corrected row when the failure is the recognised defect.
	alt, changed := c.altBinaryRow(raw)
	var y2 interface{}
	ok2 := false
	if changed {
		y2, ok2 = build(alt)
	}
	class := ""
	if ok2 && ti.equal(c.x.Elem(), reflect.ValueOf(y2).Elem(), true) == "" {
		class = "binary-tag-string-source"
	}
	e.pushAndObserve(c, choices, raw, kind, keyFilter, class)
	if ok2 {
		e.pushAndObserve(c, choices, alt, kind, fullFilter(y2), "")
	}
}

// alterTable gives the table a new table id; with reorder it also permutes
// the table's columns in this environment's information_schema (same number
// of columns). The next rows event is preceded by the new table-map event.
func (e *env) alterTable(ti *tableInfo, r *rand.Rand, reorder bool) {
	old := e.tstate[ti.name]
	ns := &tableState{layout: old.layout, lpos: old.lpos}
	if reorder {
		n := len(ti.specs)
		perm := r.Perm(n + 1)
		ns.layout = make([]string, n+1)
		ns.lpos = make([]int, n)
		for j, p := range perm {
			if j == n {
				ns.layout[p] = "extra_db_only"
			} else {
				ns.layout[p] = ti.specs[j].name
				ns.lpos[j] = p
			}
		}
		e.st.mu.Lock()
		e.st.layouts[ti.name] = ns.layout
		e.st.mu.Unlock()
	}
	e.nextID++
	ns.id = e.nextID
	e.tstate[ti.name] = ns
}

// pushAndObserve registers a live dependency with the filter, pushes one rows
// event built from row (binlog forms in struct column order) and waits until
// the dependency is invalidated or the poll loop logs a decode failure.
// errClass: classifier key to use if the poll loop fails to decode.
func (e *env) pushAndObserve(c *caseCtx, choices []colChoice, row []driver.Value, kind int, filter sqlgen.Filter, errClass string) {
	ti := c.ti
	ts := e.tstate[ti.name]
	// Each "no invalidation" verdict costs a quiescence wait of several seconds;
	// after a few of them the verdict stands and further waiting adds nothing.
	if atomic.LoadInt64(&quiescentVerdicts) >= 3 {
		c.run.Count("binlog_e2e_skipped_after_repeated_no_invalidation_verdicts", 1)
		return
	}
	mkRow := func(flip bool) []interface{} {
		brow := make([]interface{}, len(ts.layout))
		for j := range brow {
			brow[j] = int32(7) // the column the struct does not know
		}
		for k := range row {
			v := row[k]
			if flip && k == 0 {
				v = flipKey(v)
			}
			brow[ts.lpos[k]] = v
		}
		return brow
	}
	var et replication.EventType
	var rows [][]interface{}
	switch kind {
	case 0:
		et, rows = replication.WRITE_ROWS_EVENTv2, [][]interface{}{mkRow(false)}
	case 1:
		et, rows = replication.DELETE_ROWS_EVENTv2, [][]interface{}{mkRow(false)}
	case 2:
		et, rows = replication.UPDATE_ROWS_EVENTv2, [][]interface{}{mkRow(true), mkRow(false)}
	default:
		et, rows = replication.UPDATE_ROWS_EVENTv1, [][]interface{}{mkRow(false), mkRow(true)}
	}
	c.run.Count("binlog_e2e:"+et.String(), 1)

	var runs int64
	var depErr atomic.Value
	rr := reactive.NewRerunner(context.Background(), func(ctx context.Context) (interface{}, error) {
		if err := e.ldb.AddDependency(ctx, livesql.QueryDependency{Table: ti.name, Filter: filter}); err != nil {
			depErr.Store(err.Error())
		}
		atomic.AddInt64(&runs, 1)
		atomic.AddInt64(&e.activity, 1)
		return nil, nil
	}, 0, false)
	defer rr.Stop()
	act := func() int64 { return atomic.LoadInt64(&e.activity) + atomic.LoadInt64(&e.st.queries) }
	if o := vlib.WaitCond(func() bool { return atomic.LoadInt64(&runs) >= 1 }, act, 10*time.Second, 60*time.Second); o != vlib.Reached {
		c.run.Inconclusive(fmt.Sprintf("case %d: rerunner did not start (%s)", c.i, o))
		return
	}
	if d := depErr.Load(); d != nil {
		c.violate("", c.wit(map[string]interface{}{"what": "AddDependency rejected a filter made from a decoded row", "err": d}))
		return
	}
	errsBefore := atomic.LoadInt64(&e.log.n)
	tm := &replication.TableMapEvent{TableID: ts.id, Schema: []byte(verifDatabase), Table: []byte(ti.name), ColumnCount: uint64(len(ts.layout))}
	if !ts.mapped {
		ts.mapped = true
		e.push(&replication.BinlogEvent{Header: &replication.EventHeader{EventType: replication.TABLE_MAP_EVENT}, Event: tm})
	}
	e.push(&replication.BinlogEvent{Header: &replication.EventHeader{EventType: et}, Event: &replication.RowsEvent{Version: 2, Table: tm, TableID: tm.TableID, ColumnCount: uint64(len(ts.layout)), Rows: rows}})
	o := vlib.WaitCond(func() bool {
		return atomic.LoadInt64(&runs) >= 2 || atomic.LoadInt64(&e.log.n) > errsBefore
	}, act, 10*time.Second, 60*time.Second)
	srcRow := map[string]string{}
	for j, v := range rows[len(rows)-1] {
		srcRow[ts.layout[j]] = show(v)
	}
	switch {
	case atomic.LoadInt64(&e.log.n) > errsBefore:
		msg := e.log.last()
		c.violate(errClass, c.wit(map[string]interface{}{"what": "binlog path: the poll loop failed to decode a row in the form the binlog produces", "event": et.String(),
			"binlog_row": srcRow, "choices": fmt.Sprint(choices), "logged": vlib.Trunc(msg, 500), "table_id": ts.id, "information_schema_order": strings.Join(ts.layout, ",")}))
	case o == vlib.Reached:
		c.run.Count("binlog_e2e_matched", 1)
	case o == vlib.QuiescentNot:
		atomic.AddInt64(&quiescentVerdicts, 1)
		c.violate("", c.wit(map[string]interface{}{"what": "binlog path: the decoded row did not match a dependency made of the row's own column values (no invalidation at quiescence)", "event": et.String(),
			"binlog_row": srcRow, "choices": fmt.Sprint(choices), "filter": showFilter(filter), "table_id": ts.id, "information_schema_order": strings.Join(ts.layout, ",")}))
	default:
		c.run.Inconclusive(fmt.Sprintf("case %d: binlog path undecided", c.i))
	}
}

// naturalChoice: the column type a table would be created with for the field
// (independent of one row's values, so that two different rows fit).
func naturalChoice(s *colSpec, dvs ...driver.Value) colChoice {
	c := colChoice{dt6: true}
	if s.intBits != 0 {
		c.intBits, c.unsigned = s.intBits, s.intUns
		for _, dv := range dvs {
			if n, ok := dv.(int64); ok && n < 0 && s.intUns {
				c.unsigned = false // uint64 >= 2^63 is emitted as a negative int64: signed BIGINT
			}
		}
	} else {
		c.intBits = 64
	}
	c.float32c = s.isFloat32
	c.lob = len(s.name)%2 == 0
	return c
}

// transitionRow derives from x the other image of an UPDATE: every column
// either keeps x's value or moves - to NULL / the zero value, to the value of
// an unrelated row, or (maps) to a map with more or fewer keys.
func (c *caseCtx) transitionRow(r *rand.Rand) (reflect.Value, error) {
	ti := c.ti
	other, err := ti.genRow(r, r.Intn(2) == 0)
	if err != nil {
		return other, err
	}
	row := reflect.New(ti.typ)
	row.Elem().Set(c.x.Elem())
	for k, s := range ti.specs {
		if ti.table.Columns[k].Primary {
			continue // an UPDATE keeps the key
		}
		f := row.Elem().FieldByIndex(s.fieldIdx)
		switch r.Intn(4) {
		case 0: // unchanged
		case 1: // to NULL / zero (from NULL: to the other row's value)
			if f.IsZero() {
				f.Set(other.Elem().FieldByIndex(s.fieldIdx))
			} else {
				f.Set(reflect.Zero(s.fieldType))
			}
		case 2:
			f.Set(other.Elem().FieldByIndex(s.fieldIdx))
		default:
			if f.Kind() == reflect.Map && !f.IsNil() && f.Type().Key().Kind() == reflect.String {
				// a fresh map with extra keys (so that the other image has fewer)
				m := reflect.MakeMap(f.Type())
				for _, key := range f.MapKeys() {
					m.SetMapIndex(key, f.MapIndex(key))
				}
				ov := other.Elem().FieldByIndex(s.fieldIdx)
				for n := 1 + r.Intn(2); n > 0; n-- {
					key := reflect.New(f.Type().Key()).Elem()
					key.SetString(fmt.Sprintf("extra-%d", r.Intn(1000)))
					val := reflect.Zero(f.Type().Elem())
					if ov.Kind() == reflect.Map && ov.Len() > 0 {
						val = ov.MapIndex(ov.MapKeys()[0])
					}
					m.SetMapIndex(key, val)
				}
				f.Set(m)
			} else if (f.Type() == bytesType || f.Type() == reflect.TypeOf([]string(nil))) && !f.IsNil() && f.Len() > 0 {
				f.Set(f.Slice(0, 0)) // shrinks to empty (not NULL)
			} else {
				f.Set(other.Elem().FieldByIndex(s.fieldIdx))
			}
		}
	}
	return row, nil
}

// updatePairPath pushes UPDATE rows events whose before and after images are
// two different rows (x and a transition of x, in either order; sometimes two
// pairs in one event) through the poll loop. Two live dependencies, one made
// of all column values of each image, must both be invalidated: the after
// image must decode to exactly the row it carries (columns that went to NULL,
// maps that lost keys, slices that shrank) and decoding it must leave the
// before image as it was.
func (e *env) updatePairPath(c *caseCtx) {
	ti := c.ti
	ts := e.tstate[ti.name]
	if atomic.LoadInt64(&quiescentVerdicts) >= 3 {
		c.run.Count("binlog_e2e_skipped_after_repeated_no_invalidation_verdicts", 1)
		return
	}
	r := c.run.Rand("update", c.i)
	tr, err := c.transitionRow(r)
	if err != nil {
		c.run.Broken(err.Error())
		return
	}
	var trVals []interface{}
	var uerr error
	if pn := safely(func() { trVals, uerr = c.z.schema.UnbuildStruct(ti.name, tr.Interface()) }); pn != nil || uerr != nil {
		c.run.Count("update_pair_skipped_transition_not_encodable", 1)
		return
	}
	image := func(orig reflect.Value, vals []interface{}) ([]driver.Value, sqlgen.Filter, bool) {
		row := make([]driver.Value, len(vals))
		for k := range vals {
			row[k] = encode(vals[k], naturalChoice(ti.specs[k], c.vals[k], trVals[k]), pBinlog)
		}
		var y interface{}
		var derr error
		if pn := safely(func() { y, derr = c.z.schema.BuildStruct(ti.name, row) }); pn != nil || derr != nil {
			return nil, nil, false
		}
		if len(ti.diff(orig.Elem(), reflect.ValueOf(y).Elem(), true)) > 0 {
			return nil, nil, false
		}
		f := sqlgen.Filter{}
		for _, s := range ti.specs {
			f[s.name] = reflect.ValueOf(y).Elem().FieldByIndex(s.fieldIdx).Interface()
		}
		return row, f, true
	}
	xRow, xFilter, ok1 := image(c.x, c.vals)
	tRow, tFilter, ok2 := image(tr, trVals)
	if !ok1 || !ok2 {
		c.run.Count("update_pair_skipped_image_not_decodable_alone", 1) // the single-row oracles report that
		return
	}
	if len(ti.diff(c.x.Elem(), tr.Elem(), false)) == 0 {
		c.run.Count("update_pair_identical_images", 1)
	}
	before, after := tRow, xRow
	if r.Intn(2) == 0 {
		before, after = xRow, tRow
	}
	layoutRow := func(row []driver.Value) []interface{} {
		brow := make([]interface{}, len(ts.layout))
		for j := range brow {
			brow[j] = int32(7)
		}
		for k := range row {
			brow[ts.lpos[k]] = row[k]
		}
		return brow
	}
	rows := [][]interface{}{layoutRow(before), layoutRow(after)}
	if r.Intn(3) == 0 { // two pairs in one event
		rows = append([][]interface{}{layoutRow(after), layoutRow(before)}, rows...)
	}
	et := replication.UPDATE_ROWS_EVENTv2
	if r.Intn(3) == 0 {
		et = replication.UPDATE_ROWS_EVENTv1
	}
	c.run.Count("binlog_update_pairs:"+et.String(), 1)
	for k := range c.vals {
		a, b := c.vals[k], trVals[k]
		switch {
		case a == nil && b != nil, a != nil && b == nil:
			c.run.Count("update_pair_column_transition:null<->value", 1)
		case !refEq(snapshot(a), snapshot(b)):
			c.run.Count("update_pair_column_transition:value->value", 1)
		}
	}

	filters := []sqlgen.Filter{xFilter, tFilter}
	runs := make([]int64, len(filters))
	var rrs []*reactive.Rerunner
	for n := range filters {
		n := n
		rrs = append(rrs, reactive.NewRerunner(context.Background(), func(ctx context.Context) (interface{}, error) {
			_ = e.ldb.AddDependency(ctx, livesql.QueryDependency{Table: ti.name, Filter: filters[n]})
			atomic.AddInt64(&runs[n], 1)
			atomic.AddInt64(&e.activity, 1)
			return nil, nil
		}, 0, false))
	}
	defer func() {
		for _, rr := range rrs {
			rr.Stop()
		}
	}()
	act := func() int64 { return atomic.LoadInt64(&e.activity) + atomic.LoadInt64(&e.st.queries) }
	all := func(n int64) func() bool {
		return func() bool {
			for k := range runs {
				if atomic.LoadInt64(&runs[k]) < n {
					return false
				}
			}
			return true
		}
	}
	if o := vlib.WaitCond(all(1), act, 10*time.Second, 60*time.Second); o != vlib.Reached {
		c.run.Inconclusive(fmt.Sprintf("case %d: rerunners did not start (%s)", c.i, o))
		return
	}
	errsBefore := atomic.LoadInt64(&e.log.n)
	tm := &replication.TableMapEvent{TableID: ts.id, Schema: []byte(verifDatabase), Table: []byte(ti.name), ColumnCount: uint64(len(ts.layout))}
	if !ts.mapped {
		ts.mapped = true
		e.push(&replication.BinlogEvent{Header: &replication.EventHeader{EventType: replication.TABLE_MAP_EVENT}, Event: tm})
	}
	e.push(&replication.BinlogEvent{Header: &replication.EventHeader{EventType: et}, Event: &replication.RowsEvent{Version: 2, Table: tm, TableID: tm.TableID, ColumnCount: uint64(len(ts.layout)), Rows: rows}})
	done := all(2)
	o := vlib.WaitCond(func() bool { return done() || atomic.LoadInt64(&e.log.n) > errsBefore }, act, 10*time.Second, 60*time.Second)
	w := func(extra map[string]interface{}) map[string]interface{} {
		m := map[string]interface{}{"table": ti.name, "event": et.String(), "pairs_in_event": len(rows) / 2,
			"x": showStruct(c.x.Interface()), "transition_of_x": showStruct(tr.Interface()), "x_is": map[bool]string{true: "after image", false: "before image"}[&after[0] == &xRow[0]],
			"before_image": showRow(c.names, before), "after_image": showRow(c.names, after)}
		for k, v := range extra {
			m[k] = v
		}
		return m
	}
	switch {
	case atomic.LoadInt64(&e.log.n) > errsBefore:
		c.violate("", w(map[string]interface{}{"what": "binlog path: the poll loop failed to decode an UPDATE rows event whose images decode one by one", "logged": vlib.Trunc(e.log.last(), 500)}))
	case o == vlib.Reached:
		c.run.Count("binlog_update_pairs_both_images_matched", 1)
	case o == vlib.QuiescentNot:
		atomic.AddInt64(&quiescentVerdicts, 1)
		var missing []string
		for k, name := range []string{"the image equal to x", "the image equal to the transition of x"} {
			if atomic.LoadInt64(&runs[k]) < 2 {
				missing = append(missing, name)
			}
		}
		c.violate("", w(map[string]interface{}{"what": "binlog path: an image of an UPDATE rows event did not decode to the row it carries (its all-columns dependency was not invalidated at quiescence)",
			"column": strings.Join(missing, " and ")}))
	default:
		c.run.Inconclusive(fmt.Sprintf("case %d: update pair undecided", c.i))
	}
}
