package c13

import (
	"database/sql/driver"
	"fmt"
	"math/rand"
	"testing"
)

// genHarnessValue draws one stored SQL value together with a MySQL column
// type able to hold it. Nothing here comes from thunder: the values are made
// by the harness' own generators, so a disagreement found by
// validateBinlogModel can only be a fault of the harness (model or binlog
// writer), never of the code under test.
func genHarnessValue(r *rand.Rand) (driver.Value, colChoice) {
	switch r.Intn(9) {
	case 0:
		return nil, colChoice{}
	case 1, 2:
		bits := []int{8, 16, 32, 64}[r.Intn(4)]
		return genInt(r, bits), colChoice{intBits: bits, unsigned: r.Intn(2) == 0}
	case 3:
		return r.Intn(2) == 0, colChoice{}
	case 4:
		if r.Intn(2) == 0 {
			return float64(genFloat32(r)), colChoice{float32c: true}
		}
		return genFloat64(r), colChoice{}
	case 5:
		return genString(r), colChoice{lob: r.Intn(2) == 0}
	case 6, 7:
		return genBytes(r), colChoice{lob: r.Intn(2) == 0, jsonNorm: r.Intn(4) == 0}
	default:
		whole := r.Intn(2) == 0
		t := genTime(r, whole)
		return t, colChoice{dt6: !whole || r.Intn(2) == 0}
	}
}

// validateBinlogModel writes harness-made SQL values into a real binlog file
// (binlogenc_test.go), has the pinned go-mysql parser decode it, and compares
// every decoded value - dynamic type and value - with the form the model
// (encode, profile pBinlog) predicts for that value and column type.
func validateBinlogModel(seed int64, rows int) (checked int, err error) {
	w := newBinlogWriter()
	type expect struct {
		vals    []driver.Value
		choices []colChoice
	}
	var exp []expect
	for j := 0; j < rows; j++ {
		r := rand.New(rand.NewSource(seed*1000003 + int64(j)))
		n := 1 + r.Intn(24)
		e := expect{vals: make([]driver.Value, n), choices: make([]colChoice, n)}
		cols := make([]binlogCol, n)
		for k := 0; k < n; k++ {
			e.vals[k], e.choices[k] = genHarnessValue(r)
			c, cerr := binlogColumn(e.vals[k], e.choices[k])
			if cerr != nil {
				return checked, cerr
			}
			cols[k] = c
		}
		w.writeRow(uint64(100+j%7), verifDatabase, fmt.Sprintf("t%d", j%7), cols)
		exp = append(exp, e)
	}
	decoded, perr := parseBinlog(w.buf.Bytes())
	if perr != nil {
		return checked, fmt.Errorf("go-mysql failed to parse the generated binlog: %v", perr)
	}
	if len(decoded) != len(exp) {
		return checked, fmt.Errorf("go-mysql decoded %d rows, %d written", len(decoded), len(exp))
	}
	for n, e := range exp {
		row := decoded[n]
		if len(row) != len(e.vals) {
			return checked, fmt.Errorf("row %d: decoded row has %d columns, want %d", n, len(row), len(e.vals))
		}
		for k := range e.vals {
			want := encode(e.vals[k], e.choices[k], pBinlog)
			if !sameForm(want, row[k]) {
				return checked, fmt.Errorf("row %d column %d (stored %s, column type %q): model predicts %s, go-mysql decoded %s", n, k,
					show(e.vals[k]), e.choices[k].String(), show(want), show(row[k]))
			}
			checked++
		}
	}
	return checked, nil
}

// TestModelAgainstRealDecoders pins the binlog forms of forms_test.go to the
// real decoder of the pinned go-mysql.
func TestModelAgainstRealDecoders(t *testing.T) {
	for seed := int64(1); seed <= 5; seed++ {
		n, err := validateBinlogModel(seed, 2000)
		if err != nil {
			t.Fatalf("seed %d: %v", seed, err)
		}
		t.Logf("seed %d: %d column values decoded by go-mysql agree with the model", seed, n)
	}
}
