package c13

import (
	"fmt"
	"math/rand"
	"testing"
)

// validateBinlogModel generates rows of every zoo table, writes their stored
// column values into a real binlog file (binlogenc_test.go), has the pinned
// go-mysql parser decode it, and compares every decoded value - dynamic type
// and value - with the form the model (encode, profile pBinlog) predicts.
// The decoded rows are also pushed through BuildStruct and compared with the
// original struct, so the whole chain value -> MySQL row image -> go-mysql ->
// thunder is exercised with nothing modelled in between.
func validateBinlogModel(z *zoo, seed int64, rowsPerTable int) (checked int, err error) {
	w := newBinlogWriter()
	type expect struct {
		ti      *tableInfo
		x       interface{}
		vals    []interface{}
		choices []colChoice
	}
	var exp []expect
	for t, ti := range z.tables {
		for j := 0; j < rowsPerTable; j++ {
			r := rand.New(rand.NewSource(seed*1000003 + int64(t)*1009 + int64(j)))
			x, gerr := ti.genRow(r, r.Intn(2) == 0)
			if gerr != nil {
				return checked, gerr
			}
			vals, uerr := z.schema.UnbuildStruct(ti.name, x.Interface())
			if uerr != nil {
				return checked, fmt.Errorf("UnbuildStruct(%s): %v", ti.name, uerr)
			}
			cols := make([]binlogCol, len(vals))
			choices := make([]colChoice, len(vals))
			for k := range vals {
				choices[k] = chooseCol(r, ti.specs[k], vals[k])
				c, cerr := binlogColumn(vals[k], choices[k])
				if cerr != nil {
					return checked, cerr
				}
				cols[k] = c
			}
			w.writeRow(uint64(100+t), verifDatabase, ti.name, cols)
			exp = append(exp, expect{ti, x.Interface(), vals, choices})
		}
	}
	rows, perr := parseBinlog(w.buf.Bytes())
	if perr != nil {
		return checked, fmt.Errorf("go-mysql failed to parse the generated binlog: %v", perr)
	}
	if len(rows) != len(exp) {
		return checked, fmt.Errorf("go-mysql decoded %d rows, %d written", len(rows), len(exp))
	}
	for n, e := range exp {
		row := rows[n]
		if len(row) != len(e.vals) {
			return checked, fmt.Errorf("%s: decoded row has %d columns, want %d", e.ti.name, len(row), len(e.vals))
		}
		for k := range e.vals {
			want := encode(e.vals[k], e.choices[k], pBinlog)
			if !sameForm(want, row[k]) {
				return checked, fmt.Errorf("%s.%s (column type %q): model predicts %s, go-mysql decoded %s", e.ti.name, e.ti.specs[k].name,
					e.choices[k].String(), show(want), show(row[k]))
			}
			checked++
		}
	}
	return checked, nil
}

// TestModelAgainstRealDecoders pins the binlog forms of forms_test.go to the
// real decoder of the pinned go-mysql.
func TestModelAgainstRealDecoders(t *testing.T) {
	z, err := buildZoo()
	if err != nil {
		t.Fatal(err)
	}
	for seed := int64(1); seed <= 5; seed++ {
		n, err := validateBinlogModel(z, seed, 200)
		if err != nil {
			t.Fatalf("seed %d: %v", seed, err)
		}
		t.Logf("seed %d: %d column values decoded by go-mysql agree with the model", seed, n)
	}
}
