package c13

// TestProbeTypeSupport documents (go test -v -run TestProbeTypeSupport) which
// unusual field type x tag combinations RegisterType accepts and whether one
// value of each survives the direct round trip. It is not part of the check;
// it records why the zoo leaves these combinations out.

import (
	"database/sql/driver"
	"encoding/json"
	"fmt"
	"net"
	"reflect"
	"testing"
	"time"

	"github.com/samsarahq/thunder/sqlgen"
)

type probeBlob []byte
type probeIDs []int64

func TestProbeTypeSupport(t *testing.T) {
	b := []byte("hi")
	bl := probeBlob("hi")
	raw := json.RawMessage(`{"a":1}`)
	tm := time.Date(2020, 1, 2, 3, 4, 5, 0, time.UTC)
	type (
		t1 struct {
			Id int64  `sql:",primary"`
			V  []byte `sql:",json"`
		}
		t2 struct {
			Id int64 `sql:",primary"`
			V  probeBlob
		}
		t3 struct {
			Id int64 `sql:",primary"`
			V  *[]byte
		}
		t4 struct {
			Id int64     `sql:",primary"`
			V  time.Time `sql:",string"`
		}
		t5 struct {
			Id int64     `sql:",primary"`
			V  time.Time `sql:",json"`
		}
		t6 struct {
			Id int64  `sql:",primary"`
			V  net.IP `sql:",string"`
		}
		t7 struct {
			Id int64    `sql:",primary"`
			V  probeIDs `sql:",json"`
		}
		t8 struct {
			Id int64 `sql:",primary"`
			V  *probeBlob
		}
		t9 struct {
			Id int64 `sql:",primary"`
			V  [4]byte
		}
		t10 struct {
			Id int64       `sql:",primary"`
			V  interface{} `sql:",json"`
		}
		t11 struct {
			Id int64            `sql:",primary"`
			V  *json.RawMessage `sql:",json"`
		}
		t13 struct {
			Id int64      `sql:",primary"`
			V  *time.Time `sql:",json"`
		}
	)
	cases := []struct {
		name  string
		proto interface{}
		val   interface{}
	}{
		{"[]byte json", t1{}, &t1{1, []byte("hi")}},
		{"named []byte", t2{}, &t2{1, probeBlob("hi")}},
		{"*[]byte", t3{}, &t3{1, &b}},
		{"time string", t4{}, &t4{1, tm}},
		{"time json", t5{}, &t5{1, tm}},
		{"net.IP string", t6{}, &t6{1, net.ParseIP("1.2.3.4")}},
		{"[]int64 json", t7{}, &t7{1, probeIDs{1, 2}}},
		{"*named []byte", t8{}, &t8{1, &bl}},
		{"[4]byte", t9{}, &t9{1, [4]byte{1}}},
		{"interface json", t10{}, &t10{1, "x"}},
		{"*RawMessage json", t11{}, &t11{1, &raw}},
		{"*time json", t13{}, &t13{1, &tm}},
	}
	for i, c := range cases {
		s := sqlgen.NewSchema()
		name := fmt.Sprintf("t%d", i)
		if err := s.RegisterType(name, sqlgen.UniqueId, c.proto); err != nil {
			t.Logf("%-18s REJECTED at registration: %v", c.name, err)
			continue
		}
		vals, err := s.UnbuildStruct(name, c.val)
		if err != nil {
			t.Logf("%-18s registered; UnbuildStruct error %v", c.name, err)
			continue
		}
		dv := make([]driver.Value, len(vals))
		for k, v := range vals {
			dv[k] = v
		}
		y, err := s.BuildStruct(name, dv)
		if err != nil {
			t.Logf("%-18s registered; column value %T(%v); BuildStruct error %v", c.name, vals[1], vals[1], err)
			continue
		}
		t.Logf("%-18s registered; column value %T(%q); round trip equal=%v got=%+v", c.name, vals[1], fmt.Sprint(vals[1]),
			reflect.DeepEqual(c.val, y), reflect.ValueOf(y).Elem().Field(1).Interface())
	}
}
