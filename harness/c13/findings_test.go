package c13

// TestFindingWitnesses replays the minimal witnesses of FINDINGS.md against the
// thunder checkout under test and logs what it observes (run with -v). It
// asserts nothing: after a repair the log lines change from "DEFECT" to "ok".

import (
	"database/sql/driver"
	"fmt"
	"reflect"
	"testing"
	"time"

	tproto "github.com/samsarahq/thunder/internal/proto"
	"github.com/samsarahq/thunder/livesql"
	"github.com/samsarahq/thunder/sqlgen"
)

func TestFindingWitnesses(t *testing.T) {
	verdict := func(ok bool) string {
		if ok {
			return "ok    "
		}
		return "DEFECT"
	}
	type user struct { // the struct of thunder's sqlgen integration test, shortened
		Id           int64               `sql:",primary"`
		Proto        tproto.ExampleEvent `sql:",binary"`
		ImplicitNull string              `sql:",implicitnull"`
		CreatedAt    time.Time
	}
	type doc struct {
		Id int64  `sql:",primary"`
		J  []byte `sql:",json"`
	}
	s := sqlgen.NewSchema()
	s.MustRegisterType("users", sqlgen.UniqueId, user{})
	s.MustRegisterType("docs", sqlgen.UniqueId, doc{})

	// 1. binary-tag-string-source: the binlog form of a VARBINARY/BINARY column is a Go string
	{
		x := &user{Id: 1, Proto: tproto.ExampleEvent{Table: "users"}}
		vals, _ := s.UnbuildStruct("users", x)
		row := []driver.Value{int64(1), string(vals[1].([]byte)), nil, "0000-00-00 00:00:00"}
		y, err := s.BuildStruct("users", row)
		t.Logf("%s 1 binary tag, column value as string (binlog VARBINARY): err=%v equal=%v", verdict(err == nil && reflect.DeepEqual(x, y)), err, reflect.DeepEqual(x, y))
	}
	// 2. bytes-json-tag-not-decoded
	{
		x := &doc{Id: 1, J: []byte("hi")}
		vals, _ := s.UnbuildStruct("docs", x)
		y, err := s.BuildStruct("docs", []driver.Value{vals[0], vals[1]})
		t.Logf("%s 2 []byte with json tag: column value %q decoded to %+v err=%v", verdict(err == nil && reflect.DeepEqual(x, y)), vals[1], y, err)
	}
	// 3. filter-value-type-panics-nonpointer-marshaler
	{
		f := sqlgen.Filter{"proto": &tproto.ExampleEvent{Table: "users"}}
		var err error
		p := safely(func() { _, err = livesql.FilterToProto(s, "users", f) })
		t.Logf("%s 3 FilterToProto with a pointer value for a non-pointer binary column: panic=%v err=%v", verdict(p == nil), p, err)
		row := &user{Id: 1, Proto: tproto.ExampleEvent{Table: "users"}}
		var hit bool
		p = safely(func() {
			tester, _ := s.MakeTester("users", f)
			hit = tester.Test(row)
		})
		t.Logf("%s 3 Tester.Test with the same filter: panic=%v match=%v", verdict(p == nil && hit), p, hit)
	}
	// 4. filter-time-location-equality
	{
		utc := time.Date(2020, 1, 2, 3, 4, 5, 0, time.UTC)
		row := &user{Id: 1, CreatedAt: utc} // as decoded from MySQL
		f := sqlgen.Filter{"created_at": utc.In(time.FixedZone("IST", 19800))}
		tf, _ := s.MakeTester("users", f)
		pb, _ := livesql.FilterToProto(s, "users", f)
		wire, _ := pb.Marshal()
		pb.Reset()
		_ = pb.Unmarshal(wire)
		_, g, err := livesql.FilterFromProto(s, pb)
		tg, _ := s.MakeTester("users", g)
		a, b := tf.Test(row), tg.Test(row)
		t.Logf("%s 4 filter on a time in another zone: test_f=%v test_g(after protobuf)=%v err=%v", verdict(a == b), a, b, err)
	}
	// 5. filter-implicitnull-pointer-value
	{
		empty := ""
		row := &user{Id: 1} // ImplicitNull "" <-> NULL
		f := sqlgen.Filter{"implicit_null": &empty}
		tf, _ := s.MakeTester("users", f)
		pb, _ := livesql.FilterToProto(s, "users", f)
		_, g, err := livesql.FilterFromProto(s, pb)
		tg, _ := s.MakeTester("users", g)
		a, b := tf.Test(row), tg.Test(row)
		t.Logf("%s 5 filter {implicit_null: &\"\"}: test_f=%v test_g(after protobuf)=%v g=%s err=%v", verdict(a == b), a, b, fmt.Sprint(showFilter(g)), err)
	}
}
