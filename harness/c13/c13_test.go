// Package c13 monitors property C13 (row codec round trip): a value of a
// registered table struct survives conversion to SQL column values and
// decoding from every form in which MySQL hands those values back (query
// results, binlog rows); a filter made from a row's own column values matches
// the row; a filter shipped through its protobuf encoding is rejected or
// matches the same rows.
package c13

import (
	"database/sql/driver"
	"encoding/json"
	"fmt"
	"math/rand"
	"os"
	"reflect"
	"strings"
	"sync/atomic"
	"testing"
	"time"

	"github.com/go-sql-driver/mysql"
	"github.com/samsarahq/thunder/sqlgen"
	"github.com/samsarahq/thunder/verifharness/vlib"
)

var driverValuerType = reflect.TypeOf((*driver.Valuer)(nil)).Elem()

type tableInfo struct {
	name   string
	typ    reflect.Type
	table  *sqlgen.Table
	specs  []*colSpec
	isCol  map[string]bool // Go field name -> is a column
	layout []string        // information_schema layout (permuted, with one extra column)
	lpos   []int           // for each struct column: index in layout
}

type zoo struct {
	order    []string    // registration order
	rejected [][2]string // tables RegisterType refused (name, error)
	schema   *sqlgen.Schema
	tables   []*tableInfo
	byName   map[string]*tableInfo
}

// buildZoo registers the zoo's tables in an order that is a function of the
// seed (what a table's codec does must not depend on what was registered
// before it in the process); z.tables keeps the declaration order, so the case
// -> table mapping does not change.
func buildZoo(seed int64) (*zoo, error) {
	z := &zoo{schema: sqlgen.NewSchema(), byName: map[string]*tableInfo{}}
	for _, k := range rand.New(rand.NewSource(seed)).Perm(len(zooTables)) {
		td := zooTables[k]
		pk := sqlgen.UniqueId
		if td.name == "users" {
			pk = sqlgen.AutoIncrement
		}
		var rerr error
		if pn := safely(func() { rerr = z.schema.RegisterType(td.name, pk, td.proto) }); pn != nil {
			rerr = fmt.Errorf("panic: %v", pn)
		}
		if rerr != nil {
			// RegisterType validates a column by sending its zero value through the
			// column's own Valuer and Scanner: a refusal of a zoo table (all of them
			// are supported combinations) is a failed round trip, not a harness fault.
			z.rejected = append(z.rejected, [2]string{td.name, rerr.Error()})
			continue
		}
		z.order = append(z.order, td.name)
	}
	for k, td := range zooTables {
		t := z.schema.ByName[td.name]
		if t == nil {
			continue
		}
		ti := &tableInfo{name: td.name, typ: t.Type, table: t, isCol: map[string]bool{}}
		for _, c := range t.Columns {
			f := t.Type.FieldByIndex(c.Index)
			ti.isCol[f.Name] = true
			d := c.Descriptor
			// type facts come from the struct field itself, not from thunder's descriptor
			base, isPtr := f.Type, false
			if base.Kind() == reflect.Ptr {
				base, isPtr = base.Elem(), true
			}
			s := &colSpec{name: c.Name, fieldIdx: c.Index, fieldType: f.Type, base: base, ptr: isPtr}
			isValuer := base.Implements(driverValuerType) || reflect.PtrTo(base).Implements(driverValuerType)
			tagged := d.Tags.Contains("json") || d.Tags.Contains("binary") || d.Tags.Contains("string")
			switch base.Kind() {
			case reflect.Int, reflect.Int8, reflect.Int16, reflect.Int32, reflect.Int64:
				if !isValuer && !tagged {
					s.intBits = base.Bits()
				}
			case reflect.Uint, reflect.Uint8, reflect.Uint16, reflect.Uint32, reflect.Uint64:
				if !isValuer && !tagged {
					s.intBits, s.intUns = base.Bits(), true
				}
			case reflect.Float32:
				s.isFloat32 = !isValuer && !tagged
			}
			s.jsonTag = d.Tags.Contains("json")
			s.rawJSON = base == rawJSONType
			s.binaryTag = d.Tags.Contains("binary")
			s.stringTag = d.Tags.Contains("string")
			s.isValuer = isValuer
			s.implNull = d.Tags.Contains("implicitnull")
			ti.specs = append(ti.specs, s)
		}
		// The database's column order differs from the struct's and has one column
		// the struct does not know (binlog column maps must cope with both).
		n := len(ti.specs)
		perm := rand.New(rand.NewSource(int64(1000 + k))).Perm(n + 1)
		ti.layout = make([]string, n+1)
		ti.lpos = make([]int, n)
		for j, p := range perm {
			if j == n {
				ti.layout[p] = "extra_db_only"
			} else {
				ti.layout[p] = ti.specs[j].name
				ti.lpos[j] = p
			}
		}
		z.tables = append(z.tables, ti)
		z.byName[td.name] = ti
	}
	return z, nil
}

func (ti *tableInfo) colIndex(name string) int {
	for k, s := range ti.specs {
		if s.name == name {
			return k
		}
	}
	return -1
}

func (ti *tableInfo) specByName(name string) *colSpec {
	for _, s := range ti.specs {
		if s.name == name {
			return s
		}
	}
	return nil
}

// genRow builds a pointer to a freshly generated struct of the table's type.
func (ti *tableInfo) genRow(r *rand.Rand, wholeSecond bool) (reflect.Value, error) {
	p := reflect.New(ti.typ)
	for _, s := range ti.specs {
		v, err := genField(r, s.fieldType, wholeSecond)
		if err != nil {
			return p, fmt.Errorf("%s.%s: %v", ti.name, s.name, err)
		}
		p.Elem().FieldByIndex(s.fieldIdx).Set(v)
	}
	return p, nil
}

func truncTime(t time.Time, trunc bool) time.Time {
	if trunc && !t.IsZero() {
		return t.Truncate(time.Second)
	}
	return t
}

// eqField: reflect.DeepEqual except time.Time (Equal). trunc: the expected
// time is cut to whole seconds first (go-mysql drops DATETIME fractions).
func eqField(exp, got reflect.Value, trunc bool) bool {
	if exp.Type() != got.Type() {
		return false
	}
	if exp.Kind() == reflect.Ptr {
		if exp.IsNil() || got.IsNil() {
			return exp.IsNil() == got.IsNil()
		}
		return eqField(exp.Elem(), got.Elem(), trunc)
	}
	switch e := exp.Interface().(type) {
	case time.Time:
		g := got.Interface().(time.Time)
		return truncTime(e, trunc).Equal(g)
	case mysql.NullTime:
		g := got.Interface().(mysql.NullTime)
		return e.Valid == g.Valid && truncTime(e.Time, trunc).Equal(g.Time)
	}
	return reflect.DeepEqual(exp.Interface(), got.Interface())
}

// diff compares two structs of the table's type and returns the names of the
// differing columns ("<non-column>" for other fields); nil when equal.
func (ti *tableInfo) diff(exp, got reflect.Value, trunc bool) []string {
	var d []string
	for _, s := range ti.specs {
		if !eqField(exp.FieldByIndex(s.fieldIdx), got.FieldByIndex(s.fieldIdx), trunc) {
			d = append(d, s.name)
		}
	}
	ce, cg := reflect.New(ti.typ).Elem(), reflect.New(ti.typ).Elem()
	ce.Set(exp)
	cg.Set(got)
	for _, s := range ti.specs {
		ce.FieldByIndex(s.fieldIdx).Set(reflect.Zero(s.fieldType))
		cg.FieldByIndex(s.fieldIdx).Set(reflect.Zero(s.fieldType))
	}
	if !reflect.DeepEqual(ce.Interface(), cg.Interface()) {
		d = append(d, "<non-column>")
	}
	return d
}

// equal returns the first differing column, "" when equal.
func (ti *tableInfo) equal(exp, got reflect.Value, trunc bool) string {
	if d := ti.diff(exp, got, trunc); len(d) > 0 {
		return d[0]
	}
	return ""
}

func show(v interface{}) string {
	switch x := v.(type) {
	case nil:
		return "NULL"
	case []byte:
		return fmt.Sprintf("[]byte(%q)", vlib.Trunc(string(x), 200))
	case string:
		return fmt.Sprintf("string(%q)", vlib.Trunc(x, 200))
	case time.Time:
		return "time(" + x.Format(time.RFC3339Nano) + ")"
	}
	return fmt.Sprintf("%T(%v)", v, v)
}

func showRow(names []string, row []driver.Value) map[string]string {
	m := map[string]string{}
	for i, v := range row {
		m[names[i]] = show(v)
	}
	return m
}

func showStruct(v interface{}) string {
	return vlib.Trunc(fmt.Sprintf("%+v", derefAll(reflect.ValueOf(v))), 3000)
}

// derefAll renders pointers inside a struct by value for witnesses.
func derefAll(v reflect.Value) interface{} {
	if !v.IsValid() {
		return nil
	}
	for v.Kind() == reflect.Ptr {
		if v.IsNil() {
			return nil
		}
		v = v.Elem()
	}
	if v.Kind() != reflect.Struct || v.Type() == timeType {
		if v.CanInterface() {
			return v.Interface()
		}
		return "?"
	}
	m := map[string]interface{}{}
	for i := 0; i < v.NumField(); i++ {
		f := v.Type().Field(i)
		if f.PkgPath != "" {
			continue
		}
		m[f.Name] = derefAll(v.Field(i))
	}
	return m
}

func safely(f func()) (panicked interface{}) {
	defer func() {
		if p := recover(); p != nil {
			panicked = p
		}
	}()
	f()
	return nil
}

type caseCtx struct {
	run   *vlib.Run
	z     *zoo
	i     int
	ti    *tableInfo
	x     reflect.Value // *T
	vals  []interface{}
	names []string
	nviol int
}

// violate reports a violation and keeps a histogram of violation kinds in the
// evidence counters (replay files are only written for the first few).
func (c *caseCtx) violate(class string, w map[string]interface{}) {
	c.nviol++
	key := fmt.Sprint(w["what"])
	for _, k := range []string{"profile", "column", "stage", "filter_value_kinds"} {
		if v, ok := w[k]; ok {
			key += "|" + fmt.Sprint(v)
		}
	}
	if class != "" {
		key = "[" + class + "] " + key
	}
	c.run.Count("flagged_kind:"+c.ti.name+":"+key, 1)
	if path := os.Getenv("C13_DUMP"); path != "" { // development aid: every witness, one JSON line each
		if fh, err := os.OpenFile(path, os.O_APPEND|os.O_CREATE|os.O_WRONLY, 0o644); err == nil {
			b, _ := json.Marshal(map[string]interface{}{"case": c.i, "class": class, "witness": w})
			fh.Write(append(b, '\n'))
			fh.Close()
		}
	}
	c.run.Violation(c.i, class, w)
}

func (c *caseCtx) wit(extra map[string]interface{}) map[string]interface{} {
	w := map[string]interface{}{
		"table": c.ti.name,
		"x":     showStruct(c.x.Interface()),
	}
	if c.vals != nil {
		dv := make([]driver.Value, len(c.vals))
		for k, v := range c.vals {
			dv[k] = v
		}
		w["column_values"] = showRow(c.names, dv)
	}
	for k, v := range extra {
		w[k] = v
	}
	return w
}

func TestCheck(t *testing.T) {
	run := vlib.Start(t, "C13", "exploration")
	defer run.Finish()
	run.Rule("case i: table = zoo[i mod 9], registered in a seed-dependent order (ints, scalars, tags, marshal, valuers, users, jsonbytes, models_a, models_b - the last two use distinct named column types that print identically (two packages called models, same-named function-local types); every int/uint width, float32/64, bool, string, named scalars, []byte, time.Time, " +
		"pointer and non-pointer, implicitnull/string/binary/json tags, Marshal/BinaryMarshaler/TextMarshaler/json.Marshaler/gogo-proto fields, driver.Valuer+sql.Scanner types); " +
		"x = seeded random value (boundary ints of every width, uint64 >= 2^63, -0, subnormals, shortest-repr floats, unicode/quote/NUL strings, nil/empty/binary []byte, zero time, " +
		"times 1000..9999 at microsecond or whole-second precision in UTC or fixed zones, NULL pointers, zero values); per column a MySQL column type able to hold the Go type is drawn " +
		"(TINYINT..BIGINT signed/unsigned, FLOAT/DOUBLE, VARCHAR|TEXT, VARBINARY|BLOB, DATETIME(0|6), JSON). Non-trivial = at least one non-key column is neither zero nor NULL; " +
		"distinct = (table, per-column state null/zero/value, column type choices).")
	run.Assume("forms model (forms_test.go): go-sql-driver/mysql text and binary protocol with and without parseTime, loc=UTC; go-mysql RowsEvent.decodeValue of the pinned version; TestModelAgainstRealDecoders pins the facts it relies on")
	run.Assume("excluded as outside the quantifier: NaN/Inf; strings that are not valid UTF-8; times with sub-microsecond digits or outside 1000..9999; a pointer to a value that is itself NULL (nil slice, Null*{Valid:false}); FLOAT text output for values MySQL itself prints lossily (6 digits)")
	run.Assume("binlog DATETIME(6): the pinned go-mysql drops the fraction, so the expected struct has the time cut to whole seconds")
	run.Assume("value stability: every value list thunder produces for one or several rows (UnbuildStruct, Make{Insert,Update,Delete,Upsert}Row, MakeBatch{Insert,Upsert}Row, the driver arguments of DB.InsertRows/UpsertRows with a random chunk size, 2..5 rows, sometimes the same row twice) " +
		"is retained and compared after the whole batch was produced with reference values taken one column at a time from the column's own Valuer and copied at once; each row's slice of a multi-row insert is decoded back; " +
		"a one-column filter from x (every json column, a sample of the others) must match a probe row iff the probe's reference value equals x's: same value, another value of the same encoded length, the value of an unrelated row")
	run.Assume("schema change on one Binlog instance (one case in three): rows event, then a new table id whose information_schema column order is a fresh permutation with the same column count, then a rows event written in the new order; " +
		"one case in six only changes the table id; both rows must invalidate the all-columns dependency")
	run.Assume("the forms-model self-validation writes harness-made SQL values only (never thunder output) into the binlog file parsed by go-mysql")
	run.Assume("UPDATE rows events with two different images (one case in two): x and a transition of x (each non-key column unchanged / to NULL or zero / from NULL to a value / to an unrelated row's value / map with extra keys / slice shrunk to empty), " +
		"in either order, one or two pairs per event, v1 and v2; column types are the fields' natural ones; a dependency made of all column values of each image (as BuildStruct decodes that image alone) must be invalidated for both images")
	run.Assume("json columns with untyped slots (tags table: map[string]interface{}, []interface{}, struct and *struct with interface{} / map / list members, a bare interface{} field; nested to depth 2) hold exactly what encoding/json itself puts into an interface{}: " +
		"float64 (integral, fractional, > 2^53, negative, exponent-sized), bool, nil, strings incl. number-looking ones, nested lists and maps; compared with reflect.DeepEqual on the Go values in every source form, through batches, testers and FilterFromProto; " +
		"Go integers or typed nils inside an interface{} are not generated (JSON cannot return them)")
	run.Assume("valuers table: dualCodec implements driver.Valuer+sql.Scanner and also TextMarshaler, BinaryMarshaler, Marshal/Unmarshal and has a natural JSON form, all forms different and each decoder strict about its own form; " +
		"declared with no tag, string, binary, json, as value / pointer / implicitnull: whatever form is written must be the form that is read, in every source form")
	run.Assume("models_a / models_b: column types are distinct named types with identical reflect.Type.String() (c13/a/models and c13/b/models, function-local types called Level), partly of different kinds; the registration order of all tables is a permutation drawn from the seed")
	run.Assume("filters (3 per case over 0..all columns; rows R = x, an unrelated row and two hybrids, each as decoded from MySQL's text form): judged when every value denotes a value of its column's Go type " +
		"(own value, pointer to / dereferenced value, typed or untyped nil, the same integer in another Go integer type, the plain column's driver value); filters with a foreign-typed, out-of-range or inexact value, " +
		"or the encoded bytes of a tagged/Valuer column, are executed and recorded (observation_illtyped_filter:*) but not judged")
	run.Assume("database/sql path: private driver (driver_test.go) that returns exactly the staged forms and overwrites handed-out []byte buffers on the next Next/Close, as go-sql-driver's reused read buffer is; " +
		"binlog path: hand-built RowsEvents in the forms validated against the real decoder, pushed through livesql.NewBinlogForVerif -> RunPollLoop; table column order in the fake information_schema is a permutation with one extra column")

	z, err := buildZoo(run.Seed())
	if err != nil {
		run.Broken(err.Error())
		return
	}
	run.Set("registration_order", strings.Join(z.order, ","))
	for _, rj := range z.rejected {
		fmt.Println("CASE registration of", rj[0])
		run.Violation(0, "", map[string]interface{}{"what": "RegisterType refused a table of supported column types: the zero value of a column does not survive its own Valuer -> Scanner round trip (that is what registration checks)",
			"table": rj[0], "err": rj[1]})
	}
	if len(z.tables) == 0 {
		return
	}
	// Pin the binlog forms of the model to what the real go-mysql decoder returns.
	// Only harness-made values are used here (never thunder output), so a
	// disagreement is a harness fault by construction.
	mrows := 400
	if run.Thorough() {
		mrows = 4000
	}
	mchecked, merr := validateBinlogModel(run.Seed(), mrows)
	if merr != nil {
		run.Broken("the forms model disagrees with the pinned go-mysql decoder: " + merr.Error())
		return
	}
	run.Set("binlog_form_values_validated_against_real_go_mysql_decoder", mchecked)

	// One environment (fake database, LiveDB, Binlog poll loop) per worker: the
	// binlog path waits for asynchronous invalidations, workers overlap the waits.
	const par = 8
	pool := make(chan *env, par)
	var envs []*env
	for w := 0; w < par; w++ {
		e, err := newEnv(z)
		if err != nil {
			run.Broken(err.Error())
			return
		}
		envs = append(envs, e)
		pool <- e
	}
	defer func() {
		for _, e := range envs {
			e.close()
		}
	}()

	n := run.N(20000, 5000000)
	run.Each(n, par, func(i int) {
		e := <-pool
		defer func() { pool <- e }()
		checkCase(run, z, e, i)
	})
	var q, le int64
	for _, e := range envs {
		q += atomic.LoadInt64(&e.st.queries)
		le += atomic.LoadInt64(&e.log.n)
	}
	run.Set("fake_driver_queries", q)
	run.Set("binlog_logged_errors", le)
}

func checkCase(run *vlib.Run, z *zoo, env *env, i int) {
	ti := z.tables[i%len(z.tables)]
	mk := func() (reflect.Value, bool, error) {
		r := run.Rand("row", i)
		whole := r.Intn(2) == 0
		x, err := ti.genRow(r, whole)
		return x, whole, err
	}
	x, _, err := mk()
	if err != nil {
		run.Broken(err.Error())
		return
	}
	xRef, _, _ := mk()
	c := &caseCtx{run: run, z: z, i: i, ti: ti, x: x}
	for _, s := range ti.specs {
		c.names = append(c.names, s.name)
	}

	// (1) direct round trip
	var vals []interface{}
	var uerr error
	if p := safely(func() { vals, uerr = z.schema.UnbuildStruct(ti.name, x.Interface()) }); p != nil {
		c.violate("", c.wit(map[string]interface{}{"what": "UnbuildStruct panicked", "panic": fmt.Sprint(p)}))
		return
	}
	if uerr != nil {
		c.violate("", c.wit(map[string]interface{}{"what": "UnbuildStruct failed on a generated value", "err": uerr.Error()}))
		return
	}
	if len(vals) != len(ti.specs) {
		c.violate("", c.wit(map[string]interface{}{"what": "UnbuildStruct returned wrong number of values", "n": len(vals)}))
		return
	}
	c.vals = vals
	if !reflect.DeepEqual(x.Interface(), xRef.Interface()) {
		c.violate("", c.wit(map[string]interface{}{"what": "UnbuildStruct modified its argument", "before": showStruct(xRef.Interface())}))
	}
	for k, v := range vals {
		if !driver.IsValue(v) {
			run.Count("non_driver_value:"+ti.name+"."+c.names[k], 1)
		}
	}
	// Reference values (one column at a time, copied at once) and a copy of what
	// UnbuildStruct returned: compared now that the whole row has been produced,
	// and again at the end of the case.
	ref, rerr := c.refValues(x)
	if rerr != nil {
		c.violate("", c.wit(map[string]interface{}{"what": "a column's Valuer failed on a field UnbuildStruct accepted", "err": rerr.Error()}))
		return
	}
	c.checkValueStability(ref)
	valsCopy := make([]driver.Value, len(vals))
	for k, v := range vals {
		valsCopy[k] = snapshot(v)
	}

	// shape / coverage
	rc := run.Rand("col", i)
	choices := make([]colChoice, len(vals))
	var shape strings.Builder
	shape.WriteString(ti.name)
	nontrivial := false
	for k, s := range ti.specs {
		choices[k] = chooseCol(rc, s, vals[k])
		f := x.Elem().FieldByIndex(s.fieldIdx)
		st := "v"
		switch {
		case vals[k] == nil:
			st = "n"
			run.Count("col_null:"+ti.name+"."+s.name, 1)
		case f.IsZero():
			st = "z"
		default:
			if !ti.table.Columns[k].Primary {
				nontrivial = true
			}
		}
		shape.WriteString("|" + st + choices[k].String())
		run.Count("dv_type:"+fmt.Sprintf("%T", vals[k]), 1)
	}
	run.Case(shape.String(), nontrivial)

	// (1)+(2) every source form through BuildStruct
	for p := profile(0); p < nProfiles; p++ {
		row := make([]driver.Value, len(vals))
		for k := range vals {
			row[k] = encode(vals[k], choices[k], p)
		}
		y, clean := c.decodeAndCompare(p, "BuildStruct", row, choices, func() (interface{}, error) {
			return z.schema.BuildStruct(ti.name, row)
		}, func(alt []driver.Value) (interface{}, error) {
			return z.schema.BuildStruct(ti.name, alt)
		})
		if p == pQueryBinary && clean {
			// Decoded rows are independent of each other: the row decoded for the
			// previous case of this table must still equal its original now.
			if last := env.lastDecoded[ti.name]; last != nil {
				if cols := ti.diff(last.c.x.Elem(), last.y.Elem(), false); len(cols) > 0 {
					c.violate("", last.c.wit(map[string]interface{}{"what": "a previously decoded struct changed when a later row of the same table was decoded",
						"column": strings.Join(cols, ","), "got_now": showStruct(last.y.Interface())}))
				} else {
					run.Count("earlier_decoded_row_still_intact", 1)
				}
			}
			env.lastDecoded[ti.name] = &lastDec{c: c, y: y}
		}
	}

	// (3) database/sql path, (4) binlog path
	env.dbPath(c, choices)
	env.binlogPath(c, choices)
	if run.Rand("updatepair", i).Intn(2) == 0 {
		env.updatePairPath(c)
	}

	// (5) tester reflexivity, (6) filters through protobuf
	c.checkTester()
	c.checkFilters(choices)

	// value lists of statement builders and batches; tester discrimination
	c.checkBatches(env)
	c.checkTesterDiscrimination(ref)

	if d := firstDiff(vals, valsCopy); d >= 0 {
		c.violate("", c.wit(map[string]interface{}{"what": "a column value returned by UnbuildStruct changed after it was returned", "column": c.names[d],
			"value_when_returned": show(valsCopy[d]), "value_now": show(vals[d])}))
	}

	if !reflect.DeepEqual(x.Interface(), xRef.Interface()) {
		c.violate("", c.wit(map[string]interface{}{"what": "the row was modified by encoding/testing", "before": showStruct(xRef.Interface())}))
	}
	if run.WantSample() && nontrivial {
		run.Sample(c.wit(map[string]interface{}{"choices": fmt.Sprint(choices)}))
	}
}

// decodeAndCompare runs one decoder over one source row and compares with x.
func (c *caseCtx) decodeAndCompare(p profile, via string, row []driver.Value, choices []colChoice, dec func() (interface{}, error), dec2 func([]driver.Value) (interface{}, error)) (decoded reflect.Value, clean bool) {
	c.run.Count("decode:"+via+":"+p.String(), 1)
	var y interface{}
	var err error
	if pn := safely(func() { y, err = dec() }); pn != nil {
		c.violate("", c.wit(map[string]interface{}{"what": via + " panicked", "profile": p.String(), "source_row": showRow(c.names, row), "panic": fmt.Sprint(pn)}))
		return reflect.Value{}, false
	}
	if err != nil {
		class := ""
		// Recognise the binary-tag/string-source defect: the only obstacle is that a
		// `binary` column arrived as a Go string (binlog form of VARBINARY/BINARY).
		if alt, changed := c.altBinaryRow(row); changed && dec2 != nil {
			var y2 interface{}
			var err2 error
			if pn := safely(func() { y2, err2 = dec2(alt) }); pn == nil && err2 == nil {
				if yv := reflect.ValueOf(y2); yv.Kind() == reflect.Ptr && !yv.IsNil() && yv.Elem().Type() == c.ti.typ &&
					c.ti.equal(c.x.Elem(), yv.Elem(), p == pBinlog) == "" {
					class = "binary-tag-string-source"
				}
			}
		}
		c.violate(class, c.wit(map[string]interface{}{"what": via + " failed to decode a form the source produces", "profile": p.String(),
			"source_row": showRow(c.names, row), "choices": fmt.Sprint(choices), "err": err.Error()}))
		return reflect.Value{}, false
	}
	yv := reflect.ValueOf(y)
	if yv.Kind() != reflect.Ptr || yv.IsNil() || yv.Elem().Type() != c.ti.typ {
		c.violate("", c.wit(map[string]interface{}{"what": via + " returned an unexpected type", "profile": p.String(), "got": fmt.Sprintf("%T", y)}))
		return reflect.Value{}, false
	}
	if cols := c.ti.diff(c.x.Elem(), yv.Elem(), p == pBinlog); len(cols) > 0 {
		c.violate(c.classifyDecodeDiff(cols, row, yv.Elem()), c.wit(map[string]interface{}{"what": via + ": decoded struct differs from the original", "profile": p.String(), "column": strings.Join(cols, ","),
			"source_row": showRow(c.names, row), "choices": fmt.Sprint(choices), "got": showStruct(y)}))
		return yv, false
	}
	return yv, true
}

// classifyDecodeDiff recognises the defect "[]byte with the json tag: the
// Valuer JSON-encodes the bytes, the Scanner stores the JSON text undecoded":
// every differing column is a json-tagged plain []byte whose decoded content
// is exactly the source text.
func (c *caseCtx) classifyDecodeDiff(cols []string, row []driver.Value, got reflect.Value) string {
	for _, name := range cols {
		s := c.ti.specByName(name)
		if s == nil || !s.jsonTag || s.base != bytesType {
			return ""
		}
		k := c.ti.colIndex(name)
		g := got.FieldByIndex(s.fieldIdx)
		if s.ptr {
			if g.IsNil() {
				return ""
			}
			g = g.Elem()
		}
		var src []byte
		switch v := row[k].(type) {
		case []byte:
			src = v
		case string:
			src = []byte(v)
		default:
			return ""
		}
		if string(g.Bytes()) != string(src) {
			return ""
		}
	}
	return "bytes-json-tag-not-decoded"
}

// altBinaryRow replaces Go strings in `binary`-tagged columns by []byte.
func (c *caseCtx) altBinaryRow(row []driver.Value) ([]driver.Value, bool) {
	alt := append([]driver.Value{}, row...)
	changed := false
	for k, s := range c.ti.specs {
		if str, ok := row[k].(string); ok && s.binaryTag {
			alt[k] = []byte(str)
			changed = true
		}
	}
	return alt, changed
}

func (c *caseCtx) checkTester() {
	full := sqlgen.Filter{}
	for _, s := range c.ti.specs {
		full[s.name] = c.x.Elem().FieldByIndex(s.fieldIdx).Interface()
	}
	r := c.run.Rand("tester", c.i)
	sub := sqlgen.Filter{}
	for _, s := range c.ti.specs {
		if r.Intn(4) == 0 {
			sub[s.name] = full[s.name]
		}
	}
	for name, f := range map[string]sqlgen.Filter{"all columns": full, "subset": sub} {
		var ok bool
		var terr error
		if pn := safely(func() {
			var t sqlgen.Tester
			t, terr = c.z.schema.MakeTester(c.ti.name, f)
			if terr == nil {
				ok = t.Test(c.x.Interface())
			}
		}); pn != nil {
			c.violate("", c.wit(map[string]interface{}{"what": "MakeTester/Test panicked on a filter made from the row's own columns", "filter": name, "panic": fmt.Sprint(pn)}))
			continue
		}
		if terr != nil {
			c.violate("", c.wit(map[string]interface{}{"what": "MakeTester rejected a filter made from the row's own columns", "filter": name, "err": terr.Error()}))
			continue
		}
		c.run.Count("tester_reflexive_checked", 1)
		if !ok {
			// find the column
			bad := []string{}
			for col, v := range f {
				t, _ := c.z.schema.MakeTester(c.ti.name, sqlgen.Filter{col: v})
				if t != nil && !t.Test(c.x.Interface()) {
					bad = append(bad, col)
				}
			}
			c.violate("", c.wit(map[string]interface{}{"what": "a filter made from the row's own column values does not match the row", "filter": name, "columns": bad}))
		}
	}
}
