// Package models (b): see c13/a/models. Same type names, other definitions:
// some with a different underlying kind, some with the same kind (distinct
// named types all the same).
package models

type Status string
type Code int64
type Ratio float64
type Flag bool
type ID uint16
type Count uint32
