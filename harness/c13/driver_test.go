package c13

// A minimal private database/sql driver (the shared fakesql package did not
// exist when this check was written). It does not interpret SQL:
//   - a statement mentioning information_schema.columns answers with the
//     column layout registered for the table named by the 2nd argument;
//   - any other query returns the rows staged by the test;
//   - Exec captures its arguments (after database/sql's own conversion).
// Row buffers handed to database/sql are overwritten on the next Next/Close,
// as go-sql-driver's reused read buffer is (sql.Scanner contract: "the
// underlying memory is owned by the driver").

import (
	"context"
	"database/sql"
	"database/sql/driver"
	"errors"
	"io"
	"strings"
	"sync"
	"sync/atomic"
)

type fakeState struct {
	mu       sync.Mutex
	layouts  map[string][]string
	cols     []string
	staged   [][]driver.Value
	captured [][]driver.Value
	queries  int64
	failInfo error
}

func (s *fakeState) stage(cols []string, rows [][]driver.Value) {
	s.mu.Lock()
	s.cols, s.staged = cols, rows
	s.mu.Unlock()
}

func (s *fakeState) takeCaptured() [][]driver.Value {
	s.mu.Lock()
	defer s.mu.Unlock()
	c := s.captured
	s.captured = nil
	return c
}

type fakeConnector struct{ st *fakeState }

func (c *fakeConnector) Connect(context.Context) (driver.Conn, error) {
	return &fakeConn{st: c.st}, nil
}
func (c *fakeConnector) Driver() driver.Driver { return fakeDriver{} }

type fakeDriver struct{}

func (fakeDriver) Open(string) (driver.Conn, error) { return nil, errors.New("c13 fake: use OpenDB") }

func openFake(st *fakeState) *sql.DB {
	db := sql.OpenDB(&fakeConnector{st: st})
	db.SetMaxOpenConns(4)
	return db
}

type fakeConn struct{ st *fakeState }

func (c *fakeConn) Prepare(q string) (driver.Stmt, error) { return &fakeStmt{c: c, q: q}, nil }
func (c *fakeConn) Close() error                          { return nil }
func (c *fakeConn) Begin() (driver.Tx, error)             { return fakeTx{}, nil }

// fakeTx: DB.InsertRows / UpsertRows wrap their chunks in a transaction.
type fakeTx struct{}

func (fakeTx) Commit() error   { return nil }
func (fakeTx) Rollback() error { return nil }

func (c *fakeConn) QueryContext(ctx context.Context, q string, args []driver.NamedValue) (driver.Rows, error) {
	atomic.AddInt64(&c.st.queries, 1)
	st := c.st
	st.mu.Lock()
	defer st.mu.Unlock()
	if strings.Contains(q, "information_schema.columns") {
		if st.failInfo != nil {
			return nil, st.failInfo
		}
		if len(args) != 2 {
			return nil, errors.New("c13 fake: information_schema query expects 2 args")
		}
		table, _ := args[1].Value.(string)
		layout, ok := st.layouts[table]
		if !ok {
			return nil, errors.New("c13 fake: unknown table " + table)
		}
		rows := make([][]driver.Value, len(layout))
		for i, n := range layout {
			rows[i] = []driver.Value{[]byte(n)}
		}
		return &fakeRows{cols: []string{"column_name"}, rows: rows}, nil
	}
	return &fakeRows{cols: st.cols, rows: st.staged}, nil
}

func (c *fakeConn) ExecContext(ctx context.Context, q string, args []driver.NamedValue) (driver.Result, error) {
	vals := make([]driver.Value, len(args))
	for i, a := range args {
		vals[i] = a.Value
	}
	c.st.mu.Lock()
	c.st.captured = append(c.st.captured, vals)
	c.st.mu.Unlock()
	return driver.RowsAffected(1), nil
}

type fakeStmt struct {
	c *fakeConn
	q string
}

func (s *fakeStmt) Close() error  { return nil }
func (s *fakeStmt) NumInput() int { return -1 }
func (s *fakeStmt) Exec(args []driver.Value) (driver.Result, error) {
	return nil, errors.New("c13 fake: use context variants")
}
func (s *fakeStmt) Query(args []driver.Value) (driver.Rows, error) {
	return nil, errors.New("c13 fake: use context variants")
}

type fakeRows struct {
	cols []string
	rows [][]driver.Value
	pos  int
	lent [][]byte
}

func (r *fakeRows) Columns() []string { return r.cols }

func (r *fakeRows) scribble() {
	for _, b := range r.lent {
		for i := range b {
			b[i] = 0xAA
		}
	}
	r.lent = r.lent[:0]
}

func (r *fakeRows) Close() error {
	r.scribble()
	return nil
}

func (r *fakeRows) Next(dest []driver.Value) error {
	r.scribble()
	if r.pos >= len(r.rows) {
		return io.EOF
	}
	row := r.rows[r.pos]
	r.pos++
	if len(row) != len(dest) {
		return errors.New("c13 fake: staged row width differs from column count")
	}
	for i, v := range row {
		if b, ok := v.([]byte); ok {
			cp := make([]byte, len(b), len(b)+1)
			copy(cp, b)
			r.lent = append(r.lent, cp)
			dest[i] = cp
		} else {
			dest[i] = v
		}
	}
	return nil
}
