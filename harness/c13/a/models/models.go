// Package models (a): named column types whose reflect.Type.String() is the
// same as that of the distinct types of the same name in
// github.com/samsarahq/thunder/verifharness/c13/b/models ("models.Status" ...).
// Applications routinely have several packages called models; the row codec
// must keep their column types apart.
package models

type Status int32
type Code string
type Ratio float64
type Flag bool
type ID int64
type Count uint8
