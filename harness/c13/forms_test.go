package c13

// Model of the forms in which a stored SQL value comes back:
//   - go-sql-driver/mysql (the version pinned by thunder's go.mod) text protocol
//     (textRows.readRow: every non-NULL column is []byte; with parseTime DATETIME
//     columns are time.Time) and binary protocol (binaryRows.readRow: integer
//     columns int64, FLOAT float32, DOUBLE float64, strings/blobs []byte,
//     DATETIME []byte text or time.Time with parseTime);
//   - siddontang/go-mysql replication.RowsEvent.decodeValue (the pinned version):
//     TINY/SHORT/LONG/LONGLONG -> int8/int16/int32/int64 read as SIGNED whatever
//     the column's signedness, FLOAT float32, DOUBLE float64, VARCHAR/VARBINARY/
//     CHAR/BINARY -> string, TEXT/BLOB -> []byte, DATETIME(n) -> string
//     "2006-01-02 15:04:05" (the fractional part is dropped by that library).
// TestModelAgainstRealDecoders pins these facts against the real libraries.

import (
	"database/sql/driver"
	"fmt"
	"math/rand"
	"reflect"
	"strconv"
	"time"
)

type profile int

const (
	pDirect profile = iota
	pQueryText
	pQueryTextParseTime
	pQueryBinary
	pQueryBinaryParseTime
	pBinlog
	nProfiles
)

func (p profile) String() string {
	return [...]string{"direct", "query_text", "query_text_parsetime", "query_binary", "query_binary_parsetime", "binlog"}[p]
}

// colChoice is the MySQL column type chosen for one column in one case.
type colChoice struct {
	intBits  int  // 8,16,32,64 for integer columns
	unsigned bool // UNSIGNED integer column
	float32c bool // FLOAT (else DOUBLE)
	lob      bool // TEXT/BLOB (binlog []byte) instead of VARCHAR/VARBINARY (binlog string)
	dt6      bool // DATETIME(6) instead of DATETIME(0)
	jsonNorm bool // JSON-typed column: MySQL re-serialises with ", " and ": "
}

func (c colChoice) String() string {
	s := ""
	if c.intBits != 0 {
		s += fmt.Sprintf("i%d", c.intBits)
		if c.unsigned {
			s += "u"
		}
	}
	if c.float32c {
		s += "f32"
	}
	if c.lob {
		s += "lob"
	}
	if c.dt6 {
		s += "dt6"
	}
	if c.jsonNorm {
		s += "jn"
	}
	return s
}

// colSpec is derived once per registered column.
type colSpec struct {
	name      string
	fieldIdx  []int
	fieldType reflect.Type
	base      reflect.Type
	ptr       bool
	// integer width of the Go field when its driver value is an int64 coming
	// from an integer kind (0 otherwise, e.g. a Valuer: 64-bit signed).
	intBits   int
	intUns    bool
	isFloat32 bool
	jsonTag   bool
	rawJSON   bool
	binaryTag bool
	stringTag bool
	isValuer  bool
	implNull  bool
}

// chooseCol picks a column type able to hold every value of the field's type
// (and the present driver value).
func chooseCol(r *rand.Rand, s *colSpec, dv driver.Value) colChoice {
	var c colChoice
	switch v := dv.(type) {
	case int64:
		bits, uns := s.intBits, s.intUns
		if bits == 0 {
			bits, uns = 64, false
		}
		widths := []int{8, 16, 32, 64}
		var opts []colChoice
		for _, w := range widths {
			if !uns {
				if w >= bits {
					opts = append(opts, colChoice{intBits: w})
				}
				continue
			}
			// unsigned Go field
			if w >= bits && (bits < 64 || v >= 0) {
				opts = append(opts, colChoice{intBits: w, unsigned: true})
			}
			if w > bits || (bits == 64 && w == 64) {
				// a signed column strictly wider holds every value; for 64-bit unsigned
				// fields the Valuer itself emits the two's complement int64, which only a
				// signed BIGINT stores when negative.
				if bits < 64 || v < 0 || r.Intn(2) == 0 {
					opts = append(opts, colChoice{intBits: w})
				}
			}
		}
		c = opts[r.Intn(len(opts))]
	case float64:
		if s.isFloat32 && r.Intn(2) == 0 {
			c.float32c = true
		}
	case string:
		c.lob = r.Intn(3) == 0
	case []byte:
		c.lob = r.Intn(2) == 0
		if s.jsonTag && !s.rawJSON && !s.isValuer && r.Intn(3) == 0 { // a Valuer type's stored form need not be JSON
			c.jsonNorm = true
		}
	case time.Time:
		c.dt6 = v.Nanosecond() != 0 || r.Intn(2) == 0
	}
	return c
}

const dtFormat0 = "2006-01-02 15:04:05"
const dtFormat6 = "2006-01-02 15:04:05.000000"

func datetimeText(t time.Time, dt6 bool) string {
	if t.IsZero() {
		if dt6 {
			return "0000-00-00 00:00:00.000000"
		}
		return "0000-00-00 00:00:00"
	}
	if dt6 {
		return t.UTC().Format(dtFormat6)
	}
	return t.UTC().Format(dtFormat0)
}

// normJSON mimics the spacing MySQL's JSON type uses when printing a document
// (", " and ": " separators); key order is left alone.
func normJSON(b []byte) []byte {
	out := make([]byte, 0, len(b)+8)
	inStr, esc := false, false
	for _, ch := range b {
		out = append(out, ch)
		if inStr {
			if esc {
				esc = false
			} else if ch == '\\' {
				esc = true
			} else if ch == '"' {
				inStr = false
			}
			continue
		}
		switch ch {
		case '"':
			inStr = true
		case ',', ':':
			out = append(out, ' ')
		}
	}
	return out
}

func floatText(v float64, f32 bool) string {
	if f32 {
		// caller guarantees niceFloat32 for FLOAT columns in text profiles
		return strconv.FormatFloat(v, 'g', 6, 32)
	}
	// MySQL prints DOUBLE with the shortest digits that round-trip
	return strconv.FormatFloat(v, 'g', -1, 64)
}

// encode re-encodes one driver value (as emitted by the Valuer, i.e. what the
// MySQL driver is handed on INSERT) into the form profile p hands back for a
// column of type c. Where a source cannot produce a faithful form for the
// drawn column type (FLOAT text output of a value MySQL prints lossily; a
// JSON-typed column in the binlog of the pinned go-mysql) the column is taken
// to be DOUBLE / TEXT for that profile instead.
func encode(dv driver.Value, c colChoice, p profile) driver.Value {
	out, _ := encode2(dv, c, p)
	return out
}

func encode2(dv driver.Value, c colChoice, p profile) (out interface{}, ok bool) {
	if dv == nil {
		return nil, true
	}
	if p == pDirect {
		return dv, true
	}
	switch v := dv.(type) {
	case int64:
		switch p {
		case pQueryText, pQueryTextParseTime:
			return []byte(strconv.FormatInt(v, 10)), true
		case pQueryBinary, pQueryBinaryParseTime:
			return v, true
		case pBinlog:
			switch c.intBits {
			case 8:
				return int8(v), true
			case 16:
				return int16(v), true
			case 32:
				return int32(v), true
			}
			return v, true
		}
	case bool:
		n := int64(0)
		if v {
			n = 1
		}
		switch p {
		case pQueryText, pQueryTextParseTime:
			return []byte(strconv.FormatInt(n, 10)), true
		case pQueryBinary, pQueryBinaryParseTime:
			return n, true
		case pBinlog:
			return int8(n), true
		}
	case float64:
		switch p {
		case pQueryText, pQueryTextParseTime:
			if c.float32c && !niceFloat32(float32(v)) {
				// MySQL's own 6-digit FLOAT text output is lossy here: take a DOUBLE column
				return []byte(floatText(v, false)), true
			}
			return []byte(floatText(v, c.float32c)), true
		case pQueryBinary, pQueryBinaryParseTime, pBinlog:
			if c.float32c {
				return float32(v), true
			}
			return v, true
		}
	case string:
		switch p {
		case pBinlog:
			if c.lob {
				return []byte(v), true
			}
			return v, true
		default:
			return []byte(v), true
		}
	case []byte:
		b := append([]byte{}, v...)
		if c.jsonNorm && p != pBinlog { // the pinned go-mysql cannot decode JSON-typed columns: TEXT there
			b = normJSON(b)
		}
		if p == pBinlog && !c.lob {
			return string(b), true
		}
		return b, true
	case time.Time:
		switch p {
		case pQueryText, pQueryBinary:
			return []byte(datetimeText(v, c.dt6)), true
		case pQueryTextParseTime, pQueryBinaryParseTime:
			if v.IsZero() {
				return time.Time{}, true
			}
			return v.UTC(), true
		case pBinlog:
			return datetimeText(v, false), true // fraction dropped by go-mysql
		}
	}
	return dv, false
}
