package c13

// Oracle (6): for a random filter f and rows R, FilterFromProto(FilterToProto(f))
// is an error or a filter g with test_f(r) == test_g(r) for every r in R; the
// same after the thunderpb message went through Marshal/Unmarshal.

import (
	"database/sql/driver"
	"fmt"
	"math/rand"
	"reflect"
	"sort"
	"strings"

	"github.com/samsarahq/thunder/livesql"
	"github.com/samsarahq/thunder/sqlgen"
	"github.com/samsarahq/thunder/thunderpb"
	"github.com/samsarahq/thunder/verifharness/vlib"
)

type filterGen struct {
	r     *rand.Rand
	feats []string
}

func (g *filterGen) feat(s string) { g.feats = append(g.feats, s) }

// value derives a filter value for column s from the field value fv of some
// row (so that matches really occur).
func (g *filterGen) value(s *colSpec, fv reflect.Value, dv driver.Value) interface{} {
	switch g.r.Intn(10) {
	case 0, 1, 2, 3:
		g.feat("own")
		return fv.Interface()
	case 4:
		// pointer <-> value
		if fv.Kind() == reflect.Ptr {
			if fv.IsNil() {
				g.feat("typed_nil")
				return fv.Interface()
			}
			g.feat("deref")
			return fv.Elem().Interface()
		}
		g.feat("addr")
		p := reflect.New(fv.Type())
		p.Elem().Set(fv)
		return p.Interface()
	case 5:
		g.feat("untyped_nil")
		return nil
	case 6:
		// the column's own SQL value as the filter value (thunder's tests do
		// this: Filter{"uuid": []byte("foo")}, Filter{"id": int32(1)})
		g.feat("driver_value")
		return dv
	case 7:
		// same number, other Go integer type (in range)
		if n, ok := dv.(int64); ok && s.intBits != 0 {
			switch g.r.Intn(4) {
			case 0:
				g.feat("as_int")
				return int(n)
			case 1:
				if int64(int32(n)) == n {
					g.feat("as_int32")
					return int32(n)
				}
			case 2:
				if n >= 0 {
					g.feat("as_uint")
					return uint(n)
				}
			default:
				if int64(int16(n)) == n {
					g.feat("as_int16")
					return int16(n)
				}
			}
		}
		if f, ok := dv.(float64); ok {
			g.feat("as_float64")
			return f
		}
		g.feat("own")
		return fv.Interface()
	case 8:
		// another type altogether
		switch g.r.Intn(4) {
		case 0:
			g.feat("foreign_string")
			return "5"
		case 1:
			g.feat("foreign_int")
			return int64(5)
		case 2:
			g.feat("foreign_bytes")
			return []byte("foo")
		default:
			g.feat("foreign_bool")
			return true
		}
	default:
		// a value the column's Go type cannot hold exactly
		switch s.base.Kind() {
		case reflect.Int8, reflect.Int16, reflect.Int32, reflect.Uint8, reflect.Uint16, reflect.Uint32:
			if n, ok := dv.(int64); ok && s.intBits != 0 {
				g.feat("out_of_range_int")
				return n + (int64(1) << uint(s.intBits))
			}
		case reflect.Float32:
			if s.isFloat32 {
				g.feat("inexact_float32")
				return 0.1
			}
		}
		g.feat("own")
		return fv.Interface()
	}
}

type testOutcome struct {
	err   string
	panic string
	hits  []bool
}

func (o testOutcome) String() string {
	if o.panic != "" {
		return "panic: " + o.panic
	}
	if o.err != "" {
		return "error: " + o.err
	}
	return fmt.Sprint(o.hits)
}

func (c *caseCtx) testAll(f sqlgen.Filter, rows []reflect.Value) testOutcome {
	var o testOutcome
	if pn := safely(func() {
		t, err := c.z.schema.MakeTester(c.ti.name, f)
		if err != nil {
			o.err = err.Error()
			return
		}
		for _, r := range rows {
			o.hits = append(o.hits, t.Test(r.Interface()))
		}
	}); pn != nil {
		o.panic = fmt.Sprint(pn)
	}
	return o
}

func showFilter(f sqlgen.Filter) map[string]string {
	m := map[string]string{}
	for k, v := range f {
		m[k] = vlib.Trunc(fmt.Sprintf("%T(%+v)", v, derefAll(reflect.ValueOf(v))), 300)
	}
	return m
}

func (c *caseCtx) checkFilters(choices []colChoice) {
	r := c.run.Rand("filter", c.i)
	ti := c.ti
	// rows R: x, an unrelated row, hybrids, and x as decoded from the text form
	x2, err := ti.genRow(c.run.Rand("row2", c.i), r.Intn(2) == 0)
	if err != nil {
		c.run.Broken(err.Error())
		return
	}
	rows := []reflect.Value{c.x, x2}
	for h := 0; h < 2; h++ {
		hy := reflect.New(ti.typ)
		hy.Elem().Set(c.x.Elem())
		for _, s := range ti.specs {
			if r.Intn(3) == 0 {
				hy.Elem().FieldByIndex(s.fieldIdx).Set(x2.Elem().FieldByIndex(s.fieldIdx))
			}
		}
		rows = append(rows, hy)
	}
	text := make([]driver.Value, len(c.vals))
	for k := range c.vals {
		text[k] = encode(c.vals[k], choices[k], pQueryText)
	}
	if y, err := c.z.schema.BuildStruct(ti.name, text); err == nil {
		rows = append(rows, reflect.ValueOf(y))
	}
	vals2, err := c.z.schema.UnbuildStruct(ti.name, x2.Interface())
	if err != nil {
		return
	}

	for round := 0; round < 3; round++ {
		g := &filterGen{r: r}
		f := sqlgen.Filter{}
		var ncols int
		switch r.Intn(6) {
		case 0:
			ncols = 0
			if r.Intn(2) == 0 {
				f = nil
			}
		case 1:
			ncols = len(ti.specs)
		default:
			ncols = 1 + r.Intn(3)
		}
		perm := r.Perm(len(ti.specs))
		for _, k := range perm[:min(ncols, len(perm))] {
			s := ti.specs[k]
			if r.Intn(3) == 0 {
				f[s.name] = g.value(s, x2.Elem().FieldByIndex(s.fieldIdx), vals2[k])
			} else {
				f[s.name] = g.value(s, c.x.Elem().FieldByIndex(s.fieldIdx), c.vals[k])
			}
		}
		sort.Strings(g.feats)
		c.checkOneFilter(f, rows, g.feats)
	}
}

func (c *caseCtx) checkOneFilter(f sqlgen.Filter, rows []reflect.Value, feats []string) {
	ti := c.ti
	for _, ft := range feats {
		c.run.Count("filter_value:"+ft, 1)
	}
	fw := func(extra map[string]interface{}) map[string]interface{} {
		w := map[string]interface{}{"table": ti.name, "filter": showFilter(f), "filter_value_kinds": strings.Join(feats, ",")}
		rs := []string{}
		for _, r := range rows {
			rs = append(rs, showStruct(r.Interface()))
		}
		w["rows"] = rs
		for k, v := range extra {
			w[k] = v
		}
		return w
	}
	var pb *thunderpb.SQLFilter
	var err error
	if pn := safely(func() { pb, err = livesql.FilterToProto(c.z.schema, ti.name, f) }); pn != nil {
		c.violate(classifyFilterPanic(c, f, "FilterToProto"), fw(map[string]interface{}{"what": "FilterToProto panicked (neither an error nor a filter)", "panic": fmt.Sprint(pn)}))
		return
	}
	if err != nil {
		c.run.Count("filter:to_proto_rejected", 1)
		return
	}
	want := c.testAll(f, rows)
	if want.panic != "" {
		c.violate(classifyFilterPanic(c, f, "Test"), fw(map[string]interface{}{"what": "MakeTester/Test panicked on a filter FilterToProto accepted", "panic": want.panic}))
		return
	}

	compare := func(stage string, src *thunderpb.SQLFilter) {
		var table string
		var g sqlgen.Filter
		var err error
		if pn := safely(func() { table, g, err = livesql.FilterFromProto(c.z.schema, src) }); pn != nil {
			c.violate("", fw(map[string]interface{}{"what": "FilterFromProto panicked", "stage": stage, "panic": fmt.Sprint(pn)}))
			return
		}
		if err != nil {
			c.run.Count("filter:from_proto_rejected:"+stage, 1)
			return
		}
		c.run.Count("filter:round_tripped:"+stage, 1)
		if table != ti.name {
			c.violate("", fw(map[string]interface{}{"what": "table name changed through the protobuf encoding", "stage": stage, "got": table}))
		}
		got := c.testAll(g, rows)
		for _, h := range want.hits {
			if h {
				c.run.Count("filter:matching_row_evaluations", 1)
			}
		}
		if got.String() != want.String() {
			c.violate(classifyFilterMismatch(c, f, g, rows, want, got), fw(map[string]interface{}{"what": "the filter matches different rows after FilterToProto/FilterFromProto", "stage": stage,
				"decoded_filter": showFilter(g), "test_f": want.String(), "test_g": got.String()}))
		}
	}
	compare("direct", pb)

	var wire []byte
	var merr error
	if pn := safely(func() { wire, merr = pb.Marshal() }); pn != nil {
		c.violate("", fw(map[string]interface{}{"what": "SQLFilter.Marshal panicked", "panic": fmt.Sprint(pn)}))
		return
	}
	if merr != nil {
		c.run.Count("filter:marshal_rejected", 1)
		return
	}
	pb2 := &thunderpb.SQLFilter{}
	if err := pb2.Unmarshal(wire); err != nil {
		c.violate("", fw(map[string]interface{}{"what": "SQLFilter does not unmarshal from its own Marshal output", "err": err.Error()}))
		return
	}
	compare("wire", pb2)
}

func classifyFilterPanic(c *caseCtx, f sqlgen.Filter, where string) string { return "" }

func classifyFilterMismatch(c *caseCtx, f, g sqlgen.Filter, rows []reflect.Value, want, got testOutcome) string {
	return ""
}
