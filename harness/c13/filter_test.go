package c13

// Oracle (6): for a random filter f and rows R, FilterFromProto(FilterToProto(f))
// is an error or a filter g with test_f(r) == test_g(r) for every r in R; the
// same after the thunderpb message went through Marshal/Unmarshal.

import (
	"database/sql/driver"
	"fmt"
	"math/rand"
	"reflect"
	"sort"
	"strings"
	"time"

	"github.com/go-sql-driver/mysql"

	"github.com/samsarahq/thunder/livesql"
	"github.com/samsarahq/thunder/sqlgen"
	"github.com/samsarahq/thunder/thunderpb"
	"github.com/samsarahq/thunder/verifharness/vlib"
)

type filterGen struct {
	r        *rand.Rand
	feats    []string
	illTyped bool // some value does not denote a value of its column's Go type
}

func (g *filterGen) feat(s string) { g.feats = append(g.feats, s) }
func (g *filterGen) ill(s string)  { g.feats = append(g.feats, s); g.illTyped = true }

// plainColumn: no tag, no Valuer/Scanner: the driver value denotes the value.
func plainColumn(s *colSpec) bool {
	return !s.jsonTag && !s.binaryTag && !s.stringTag && !s.isValuer
}

// value derives a filter value for column s from the field value fv of some
// row (so that matches really occur).
func (g *filterGen) value(s *colSpec, fv reflect.Value, dv driver.Value) interface{} {
	switch g.r.Intn(10) {
	case 0, 1, 2, 3:
		g.feat("own")
		return fv.Interface()
	case 4:
		// pointer <-> value
		if fv.Kind() == reflect.Ptr {
			if fv.IsNil() {
				g.feat("typed_nil")
				return fv.Interface()
			}
			g.feat("deref")
			return fv.Elem().Interface()
		}
		if isSelfNull(fv) {
			// a pointer to a nil slice/map or Null*{Valid:false}: a second Go spelling of NULL
			g.feat("own")
			return fv.Interface()
		}
		g.feat("addr")
		p := reflect.New(fv.Type())
		p.Elem().Set(fv)
		return p.Interface()
	case 5:
		g.feat("untyped_nil")
		return nil
	case 6:
		// the column's own SQL value as the filter value (thunder's tests do
		// this: Filter{"uuid": []byte("foo")}, Filter{"id": int32(1)})
		if plainColumn(s) {
			g.feat("driver_value")
		} else {
			g.ill("driver_value_of_encoded_column")
		}
		return dv
	case 7:
		// same number, other Go integer type (in range)
		if n, ok := dv.(int64); ok && s.intBits != 0 {
			switch g.r.Intn(4) {
			case 0:
				g.feat("as_int")
				return int(n)
			case 1:
				if int64(int32(n)) == n {
					g.feat("as_int32")
					return int32(n)
				}
			case 2:
				if n >= 0 {
					g.feat("as_uint")
					return uint(n)
				}
			default:
				if int64(int16(n)) == n {
					g.feat("as_int16")
					return int16(n)
				}
			}
		}
		if f, ok := dv.(float64); ok {
			g.feat("as_float64")
			return f
		}
		g.feat("own")
		return fv.Interface()
	case 8:
		// another type altogether
		switch g.r.Intn(4) {
		case 0:
			g.ill("foreign_string")
			return "5"
		case 1:
			g.ill("foreign_int")
			return int64(5)
		case 2:
			g.ill("foreign_bytes")
			return []byte("foo")
		default:
			g.ill("foreign_bool")
			return true
		}
	default:
		// a value the column's Go type cannot hold exactly
		switch s.base.Kind() {
		case reflect.Int8, reflect.Int16, reflect.Int32, reflect.Uint8, reflect.Uint16, reflect.Uint32:
			if n, ok := dv.(int64); ok && s.intBits != 0 {
				g.ill("out_of_range_int")
				return n + (int64(1) << uint(s.intBits))
			}
		case reflect.Float32:
			if s.isFloat32 {
				g.ill("inexact_float32")
				return 0.1
			}
		}
		g.feat("own")
		return fv.Interface()
	}
}

type testOutcome struct {
	err   string
	panic string
	hits  []bool
}

func (o testOutcome) String() string {
	if o.panic != "" {
		return "panic: " + o.panic
	}
	if o.err != "" {
		return "error: " + o.err
	}
	return fmt.Sprint(o.hits)
}

func (c *caseCtx) testAll(f sqlgen.Filter, rows []reflect.Value) testOutcome {
	var o testOutcome
	if pn := safely(func() {
		t, err := c.z.schema.MakeTester(c.ti.name, f)
		if err != nil {
			o.err = err.Error()
			return
		}
		for _, r := range rows {
			o.hits = append(o.hits, t.Test(r.Interface()))
		}
	}); pn != nil {
		o.panic = fmt.Sprint(pn)
	}
	return o
}

func showFilter(f sqlgen.Filter) map[string]string {
	m := map[string]string{}
	for k, v := range f {
		m[k] = vlib.Trunc(fmt.Sprintf("%T(%+v)", v, derefAll(reflect.ValueOf(v))), 300)
	}
	return m
}

// decodedForm returns the row as MySQL query results (text protocol) decode
// it: the rows a tester meets were decoded from MySQL, never hand-built.
func (c *caseCtx) decodedForm(row reflect.Value, choices []colChoice) (reflect.Value, []interface{}, bool) {
	vals, err := c.z.schema.UnbuildStruct(c.ti.name, row.Interface())
	if err != nil {
		return row, nil, false
	}
	text := make([]driver.Value, len(vals))
	for k := range vals {
		text[k] = encode(vals[k], choices[k], pQueryText)
	}
	y, err := c.z.schema.BuildStruct(c.ti.name, text)
	if err != nil {
		return row, nil, false
	}
	return reflect.ValueOf(y), vals, true
}

func (c *caseCtx) checkFilters(choices []colChoice) {
	r := c.run.Rand("filter", c.i)
	ti := c.ti
	// rows R: x, an unrelated row, two hybrids - each as decoded from MySQL's text form
	x2, err := ti.genRow(c.run.Rand("row2", c.i), r.Intn(2) == 0)
	if err != nil {
		c.run.Broken(err.Error())
		return
	}
	raw := []reflect.Value{c.x, x2}
	for h := 0; h < 2; h++ {
		hy := reflect.New(ti.typ)
		hy.Elem().Set(c.x.Elem())
		for _, s := range ti.specs {
			if r.Intn(3) == 0 {
				hy.Elem().FieldByIndex(s.fieldIdx).Set(x2.Elem().FieldByIndex(s.fieldIdx))
			}
		}
		raw = append(raw, hy)
	}
	// column types for decoding must hold any row: take the widest choice
	wide := make([]colChoice, len(choices))
	for k := range wide {
		wide[k] = colChoice{intBits: 64, dt6: true, lob: true}
	}
	var rows []reflect.Value
	var rowVals [][]interface{}
	for _, rw := range raw {
		y, vals, ok := c.decodedForm(rw, wide)
		if !ok {
			c.run.Count("filter:row_not_decodable", 1)
			return
		}
		rows = append(rows, y)
		rowVals = append(rowVals, vals)
	}

	for round := 0; round < 3; round++ {
		g := &filterGen{r: r}
		f := sqlgen.Filter{}
		var ncols int
		switch r.Intn(6) {
		case 0:
			ncols = 0
			if r.Intn(2) == 0 {
				f = nil
			}
		case 1:
			ncols = len(ti.specs)
		default:
			ncols = 1 + r.Intn(3)
		}
		perm := r.Perm(len(ti.specs))
		for _, k := range perm[:min(ncols, len(perm))] {
			s := ti.specs[k]
			// values come from the hand-built rows (x, x2): e.g. times in their original zone
			src := 0
			if r.Intn(3) == 0 {
				src = 1
			}
			f[s.name] = g.value(s, raw[src].Elem().FieldByIndex(s.fieldIdx), rowVals[src][k])
		}
		sort.Strings(g.feats)
		c.checkOneFilter(f, rows, g)
	}
}

func (c *caseCtx) checkOneFilter(f sqlgen.Filter, rows []reflect.Value, fg *filterGen) {
	ti := c.ti
	feats := fg.feats
	for _, ft := range feats {
		c.run.Count("filter_value:"+ft, 1)
	}
	fw := func(extra map[string]interface{}) map[string]interface{} {
		w := map[string]interface{}{"table": ti.name, "filter": showFilter(f), "filter_value_kinds": strings.Join(feats, ",")}
		rs := []string{}
		for _, r := range rows {
			rs = append(rs, showStruct(r.Interface()))
		}
		w["rows"] = rs
		for k, v := range extra {
			w[k] = v
		}
		return w
	}
	// Filters with a value that does not denote a value of the column's type
	// (a string for an integer column, 300 for an int8 column ...) are outside the
	// quantifier: what happens to them is recorded, not judged.
	report := func(class string, w map[string]interface{}) {
		if fg.illTyped {
			c.run.Count("observation_illtyped_filter:"+fmt.Sprint(w["what"]), 1)
			return
		}
		c.violate(class, w)
	}
	var pb *thunderpb.SQLFilter
	var err error
	if pn := safely(func() { pb, err = livesql.FilterToProto(c.z.schema, ti.name, f) }); pn != nil {
		report(c.classifyFilterPanic(f), fw(map[string]interface{}{"what": "FilterToProto panicked (neither an error nor a filter)", "panic": fmt.Sprint(pn)}))
		return
	}
	if err != nil {
		c.run.Count("filter:to_proto_rejected", 1)
		return
	}
	want := c.testAll(f, rows)
	if want.panic != "" {
		report(c.classifyFilterPanic(f), fw(map[string]interface{}{"what": "MakeTester/Test panicked on a filter FilterToProto accepted", "panic": want.panic}))
		return
	}

	compare := func(stage string, src *thunderpb.SQLFilter) {
		var table string
		var g sqlgen.Filter
		var err error
		if pn := safely(func() { table, g, err = livesql.FilterFromProto(c.z.schema, src) }); pn != nil {
			report("", fw(map[string]interface{}{"what": "FilterFromProto panicked", "stage": stage, "panic": fmt.Sprint(pn)}))
			return
		}
		if err != nil {
			c.run.Count("filter:from_proto_rejected:"+stage, 1)
			return
		}
		c.run.Count("filter:round_tripped:"+stage, 1)
		if table != ti.name {
			report("", fw(map[string]interface{}{"what": "table name changed through the protobuf encoding", "stage": stage, "got": table}))
		}
		got := c.testAll(g, rows)
		for _, h := range want.hits {
			if h {
				c.run.Count("filter:matching_row_evaluations", 1)
			}
		}
		if got.String() != want.String() {
			w := fw(map[string]interface{}{"what": "the filter matches different rows after FilterToProto/FilterFromProto", "stage": stage,
				"decoded_filter": showFilter(g), "test_f": want.String(), "test_g": got.String()})
			classes := c.classifyFilterMismatch(f, g, rows, want, got)
			if fg.illTyped || len(classes) == 0 {
				report("", w)
				return
			}
			for _, cl := range classes {
				c.violate(cl, w)
			}
		}
	}
	compare("direct", pb)

	var wire []byte
	var merr error
	if pn := safely(func() { wire, merr = pb.Marshal() }); pn != nil {
		report("", fw(map[string]interface{}{"what": "SQLFilter.Marshal panicked", "panic": fmt.Sprint(pn)}))
		return
	}
	if merr != nil {
		c.run.Count("filter:marshal_rejected", 1)
		return
	}
	pb2 := &thunderpb.SQLFilter{}
	if err := pb2.Unmarshal(wire); err != nil {
		report("", fw(map[string]interface{}{"what": "SQLFilter does not unmarshal from its own Marshal output", "err": err.Error()}))
		return
	}
	compare("wire", pb2)
}

// classifyFilterPanic recognises the defect "a filter value whose type is not
// exactly the column's type panics for a non-pointer `binary` column whose
// pointer type has Marshal() or is a proto.Message" (reflect.Set in
// nonPointerMarshal / nonPointerProtoMessage).
func (c *caseCtx) classifyFilterPanic(f sqlgen.Filter) string {
	for _, s := range c.ti.specs {
		v, ok := f[s.name]
		if !ok || !s.binaryTag || s.ptr || v == nil {
			continue
		}
		pt := reflect.PtrTo(s.base)
		_, hasMarshal := pt.MethodByName("Marshal")
		_, isProto := pt.MethodByName("ProtoMessage")
		if (hasMarshal || isProto) && reflect.TypeOf(v) != s.base {
			return "filter-value-type-panics-nonpointer-marshaler"
		}
	}
	return ""
}

// classifyFilterMismatch explains a mismatch by re-testing normalised copies
// of f: (a) every time value moved to UTC (same instant) - the tester compares
// time.Time with ==, so equal instants in different locations differ;
// (b) pointers to zero values on implicitnull columns dereferenced - the
// Valuer applies implicitnull to the pointer, not to the value it points to.
func (c *caseCtx) classifyFilterMismatch(f, g sqlgen.Filter, rows []reflect.Value, want, got testOutcome) []string {
	norm := func(utc, deref bool) (sqlgen.Filter, bool, bool) {
		n := sqlgen.Filter{}
		didUTC, didDeref := false, false
		for k, v := range f {
			n[k] = v
			s := c.ti.specByName(k)
			rv := reflect.ValueOf(v)
			if deref && s != nil && s.implNull && rv.IsValid() && rv.Kind() == reflect.Ptr && !rv.IsNil() && rv.Elem().IsZero() {
				n[k] = rv.Elem().Interface()
				didDeref = true
				continue
			}
			if utc {
				if nv, ok := timesToUTC(v); ok {
					n[k] = nv
					didUTC = true
				}
			}
		}
		return n, didUTC, didDeref
	}
	same := func(n sqlgen.Filter) bool { return c.testAll(n, rows).String() == got.String() }
	// (c) []byte with the json tag: FilterFromProto's Scanner keeps the JSON text
	// undecoded (same defect as in the row round trip). Recognised by putting
	// f's own value back into g for exactly those columns and re-testing.
	{
		g2 := sqlgen.Filter{}
		for k, v := range g {
			g2[k] = v
		}
		did := false
		for k, v := range f {
			s := c.ti.specByName(k)
			if s == nil || !s.jsonTag || s.base != bytesType {
				continue
			}
			rv := reflect.ValueOf(v)
			for rv.IsValid() && rv.Kind() == reflect.Ptr && !rv.IsNil() {
				rv = rv.Elem()
			}
			if rv.IsValid() && rv.Kind() == reflect.Slice && !rv.IsNil() {
				g2[k] = v
				did = true
			}
		}
		if did && c.testAll(g2, rows).String() == want.String() {
			return []string{"bytes-json-tag-not-decoded"}
		}
	}
	if n, did, _ := norm(true, false); did && same(n) {
		return []string{"filter-time-location-equality"}
	}
	if n, _, did := norm(false, true); did && same(n) {
		return []string{"filter-implicitnull-pointer-value"}
	}
	if n, d1, d2 := norm(true, true); d1 && d2 && same(n) {
		return []string{"filter-time-location-equality", "filter-implicitnull-pointer-value"}
	}
	return nil
}

// timesToUTC returns v with a contained non-UTC time moved to UTC.
func timesToUTC(v interface{}) (interface{}, bool) {
	switch t := v.(type) {
	case time.Time:
		if t.Location() != time.UTC {
			return t.UTC(), true
		}
	case *time.Time:
		if t != nil && t.Location() != time.UTC {
			u := t.UTC()
			return &u, true
		}
	case mysql.NullTime:
		if t.Valid && t.Time.Location() != time.UTC {
			t.Time = t.Time.UTC()
			return t, true
		}
	case *mysql.NullTime:
		if t != nil && t.Valid && t.Time.Location() != time.UTC {
			u := *t
			u.Time = u.Time.UTC()
			return &u, true
		}
	}
	return v, false
}
