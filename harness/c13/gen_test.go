package c13

import (
	"database/sql"
	"encoding/json"
	"fmt"
	"math"
	"math/rand"
	"net"
	"reflect"
	"strconv"
	"strings"
	"time"

	"github.com/go-sql-driver/mysql"
	tproto "github.com/samsarahq/thunder/internal/proto"
	"github.com/samsarahq/thunder/internal/testfixtures"
)

var (
	timeType     = reflect.TypeOf(time.Time{})
	nullTimeType = reflect.TypeOf(mysql.NullTime{})
	bytesType    = reflect.TypeOf([]byte(nil))
	rawJSONType  = reflect.TypeOf(json.RawMessage(nil))
)

var anyType = reflect.TypeOf((*interface{})(nil)).Elem()

// What encoding/json itself puts into an interface{}: float64, bool, nil,
// string, []interface{}, map[string]interface{} (never typed nils, never Go
// integers - those are outside a JSON round trip by the language's own rules).
var anyNumbers = []float64{0, 1, -1, 3, 42, -7, 0.5, -2.25, 1e21, 1e20, 1e-7, 123456789012, 9007199254740993, -9007199254740992, 1 << 53,
	18446744073709551615, 1.7976931348623157e308, 5e-324, 3.141592653589793, 1e6, 1e100, -1e-100, 2147483648, 65535}

var numberLikeStrings = []string{"1", "-5", "0", "1e5", "3.14", "007", "+1", "NaN", "null", "true", "1e400", "0x10", " 12 ", "12345678901234567890"}

func genAny(r *rand.Rand, depth int) interface{} {
	k := r.Intn(9)
	if depth <= 0 && k >= 7 {
		k = r.Intn(7)
	}
	switch k {
	case 0:
		return nil
	case 1:
		return r.Intn(2) == 0
	case 2:
		return anyNumbers[r.Intn(len(anyNumbers))]
	case 3:
		return float64(genInt(r, 32)) // integral values
	case 4:
		return genFloat64(r)
	case 5:
		return numberLikeStrings[r.Intn(len(numberLikeStrings))]
	case 6:
		return genString(r)
	case 7:
		return genAnyList(r, depth-1)
	default:
		return genAnyMap(r, depth-1)
	}
}

func genAnyList(r *rand.Rand, depth int) []interface{} {
	l := make([]interface{}, r.Intn(4))
	for i := range l {
		l[i] = genAny(r, depth)
	}
	return l
}

func genAnyMap(r *rand.Rand, depth int) map[string]interface{} {
	m := map[string]interface{}{}
	for n := r.Intn(4); n > 0; n-- {
		key := genString(r)
		if r.Intn(2) == 0 {
			key = numberLikeStrings[r.Intn(len(numberLikeStrings))]
		}
		m[key] = genAny(r, depth)
	}
	return m
}

var istZone = time.FixedZone("IST", 5*3600+1800)
var pstZone = time.FixedZone("PST", -8*3600)

var interestingInts = []int64{
	0, 1, -1, 2, 7, 10, 100, 127, 128, -128, -129, 255, 256, 32767, 32768, -32768, -32769, 65535, 65536,
	1<<23 - 1, 1 << 23, 1<<24 - 1, 1<<31 - 1, 1 << 31, -(1 << 31), -(1 << 31) - 1, 1<<32 - 1, 1 << 32,
	1<<53 + 1, math.MaxInt64, math.MinInt64, math.MaxInt64 - 1, math.MinInt64 + 1,
}

var interestingUints = []uint64{
	0, 1, 2, 127, 128, 255, 256, 32767, 32768, 65535, 65536, 1<<31 - 1, 1 << 31, 1<<32 - 1, 1 << 32,
	1<<63 - 1, 1 << 63, 1<<63 + 1, math.MaxUint64, math.MaxUint64 - 1,
}

func genInt(r *rand.Rand, bits int) int64 {
	var v int64
	switch r.Intn(4) {
	case 0:
		v = interestingInts[r.Intn(len(interestingInts))]
	case 1:
		v = int64(r.Intn(21) - 10)
	default:
		v = int64(r.Uint64())
	}
	// wrap into the width (two's complement), keeps boundaries of every width reachable
	switch bits {
	case 8:
		return int64(int8(v))
	case 16:
		return int64(int16(v))
	case 32:
		return int64(int32(v))
	}
	return v
}

func genUint(r *rand.Rand, bits int) uint64 {
	var v uint64
	switch r.Intn(4) {
	case 0:
		v = interestingUints[r.Intn(len(interestingUints))]
	case 1:
		v = uint64(r.Intn(11))
	default:
		v = r.Uint64()
	}
	switch bits {
	case 8:
		return uint64(uint8(v))
	case 16:
		return uint64(uint16(v))
	case 32:
		return uint64(uint32(v))
	}
	return v
}

var interestingFloats = []float64{
	0, math.Copysign(0, -1), 1, -1, 0.5, 0.1, 0.2, 0.30000000000000004, 1e21, 1e20, 1e-7, 1e-6, 123456789.125,
	math.MaxFloat64, -math.MaxFloat64, math.SmallestNonzeroFloat64, math.MaxFloat32, math.SmallestNonzeroFloat32,
	1 << 53, 1<<53 + 2, 9007199254740993, 1e15, 1e16, 1e17, -2.5e-300, 3.141592653589793,
}

func genFloat64(r *rand.Rand) float64 {
	for {
		var v float64
		switch r.Intn(4) {
		case 0:
			v = interestingFloats[r.Intn(len(interestingFloats))]
		case 1:
			v = float64(r.Intn(2001)-1000) / 8
		case 2:
			v = r.NormFloat64() * math.Pow(10, float64(r.Intn(40)-20))
		default:
			v = math.Float64frombits(r.Uint64())
		}
		if math.IsNaN(v) || math.IsInf(v, 0) {
			continue
		}
		return v
	}
}

func genFloat32(r *rand.Rand) float32 {
	for {
		var v float32
		switch r.Intn(4) {
		case 0:
			v = float32(r.Intn(200001)-100000) / 8 // few significant digits
		case 1:
			v = float32(r.Intn(999999))
		case 2:
			v = float32(interestingFloats[r.Intn(len(interestingFloats))])
		default:
			v = math.Float32frombits(r.Uint32())
		}
		if v != v || math.IsInf(float64(v), 0) {
			continue
		}
		return v
	}
}

// niceFloat32 reports whether MySQL's 6-significant-digit text output of a
// FLOAT column would reproduce v exactly.
func niceFloat32(v float32) bool {
	s := strconv.FormatFloat(float64(v), 'g', 6, 32)
	p, err := strconv.ParseFloat(s, 32)
	return err == nil && float32(p) == v
}

var stringPool = []string{
	"", "a", "foo", "bob", "hello world", " lead", "trail ", "123", "-5", "0", "1", "true", "false", "NULL", "null",
	"it's", `quo"te`, `back\slash`, "new\nline", "tab\t", "nul\x00byte", "ünïcödé", "日本語", "emoji 😀", "%like_", "t:", "2006-01-02 15:04:05",
	"0000-00-00 00:00:00", "1e5", "0x10", " ", "<html>&amp;",
}

func genString(r *rand.Rand) string {
	switch r.Intn(5) {
	case 0, 1:
		return stringPool[r.Intn(len(stringPool))]
	case 2:
		n := r.Intn(12)
		var sb strings.Builder
		for i := 0; i < n; i++ {
			sb.WriteRune(rune(0x20 + r.Intn(0x5f)))
		}
		return sb.String()
	case 3:
		n := r.Intn(8)
		var sb strings.Builder
		for i := 0; i < n; i++ {
			for {
				c := rune(r.Intn(0x2fff))
				if c >= 0xd800 && c <= 0xdfff {
					continue
				}
				sb.WriteRune(c)
				break
			}
		}
		return sb.String()
	default:
		return strings.Repeat(stringPool[r.Intn(len(stringPool))], 1+r.Intn(40)) // can exceed 255 bytes
	}
}

// genBytes never returns nil; nil-ness is decided by the caller.
func genBytes(r *rand.Rand) []byte {
	switch r.Intn(4) {
	case 0:
		return []byte{}
	case 1:
		return []byte(genString(r))
	default:
		b := make([]byte, r.Intn(20))
		for i := range b {
			b[i] = byte(r.Intn(256))
		}
		return b
	}
}

// genTime: UTC or fixed-zone times between year 1000 and 9999 at microsecond
// or whole-second precision, plus the zero time.
func genTime(r *rand.Rand, wholeSecond bool) time.Time {
	if r.Intn(8) == 0 {
		return time.Time{}
	}
	const lo, hi = -30610224000, 253402300799 // 1000-01-01 .. 9999-12-31 23:59:59
	var sec int64
	switch r.Intn(4) {
	case 0:
		sec = []int64{lo, hi, 0, 1, -1, 951782400, 1582934400, 2147483647, 2147483648, 4102444800}[r.Intn(10)]
	case 1:
		sec = 1500000000 + int64(r.Intn(200000000))
	default:
		sec = lo + r.Int63n(hi-lo+1)
	}
	var nsec int64
	if !wholeSecond {
		switch r.Intn(4) {
		case 0:
			nsec = 0
		case 1:
			nsec = int64(r.Intn(1000)) * 1000000
		case 2:
			nsec = []int64{1000, 999999000, 500000000, 100000000, 10000}[r.Intn(5)]
		default:
			nsec = int64(r.Intn(1000000)) * 1000
		}
	}
	t := time.Unix(sec, nsec).UTC()
	switch r.Intn(6) {
	case 0:
		if sec+6*3600 <= hi && sec-9*3600 >= lo {
			return t.In(istZone)
		}
	case 1:
		if sec+6*3600 <= hi && sec-9*3600 >= lo {
			return t.In(pstZone)
		}
	}
	return t
}

func genJSONDoc(r *rand.Rand) jsonDoc {
	d := jsonDoc{A: genInt(r, 64), B: genString(r), F: genUint(r, 64)}
	switch r.Intn(3) {
	case 0:
		d.C = []int32{}
	case 1:
		n := r.Intn(4)
		d.C = make([]int32, n)
		for i := range d.C {
			d.C[i] = int32(genInt(r, 32))
		}
	}
	if r.Intn(2) == 0 {
		b := r.Intn(2) == 0
		d.D = &b
	}
	switch r.Intn(3) {
	case 0:
		d.E = map[string]float64{}
	case 1:
		d.E = map[string]float64{}
		for i := r.Intn(3); i >= 0; i-- {
			d.E[genString(r)] = genFloat64(r)
		}
	}
	return d
}

func genStringList(r *rand.Rand) []string {
	n := r.Intn(4)
	l := make([]string, n)
	for i := range l {
		l[i] = genString(r)
	}
	return l
}

var rawJSONPool = []string{`null`, `1`, `"x"`, `{}`, `[]`, `{"a":1,"b":[true,false,null]}`, `[1,2,3]`, `{"nested":{"k":"v"}}`, `-1.5e10`, `"with space and , : chars"`}

func genCustomType(r *rand.Rand) testfixtures.CustomType {
	// text content as in thunder's own tests (the column is a VARCHAR there)
	words := []string{"", "foo", "bar", "freeform", "outrage", "11238491293", "0123456789abcdef", "a b", "Zz"}
	return testfixtures.CustomTypeFromString(words[r.Intn(len(words))])
}

// genBase produces a value of the non-pointer type t. ok=false if t is not in
// the zoo's vocabulary (a harness bug).
func genBase(r *rand.Rand, t reflect.Type, wholeSecond bool) (reflect.Value, bool) {
	v := reflect.New(t).Elem()
	switch t {
	case timeType:
		v.Set(reflect.ValueOf(genTime(r, wholeSecond)))
		return v, true
	case nullTimeType:
		if r.Intn(3) != 0 {
			tm := genTime(r, wholeSecond)
			v.Set(reflect.ValueOf(mysql.NullTime{Time: tm, Valid: true}))
		}
		return v, true
	case bytesType:
		if r.Intn(4) != 0 {
			v.SetBytes(genBytes(r))
		}
		return v, true
	case reflect.TypeOf(net.IP(nil)):
		switch r.Intn(4) {
		case 0: // nil
		case 1:
			v.Set(reflect.ValueOf(net.IPv4(byte(r.Intn(256)), byte(r.Intn(256)), byte(r.Intn(256)), byte(r.Intn(256)))))
		default:
			ip := make(net.IP, 16)
			for i := range ip {
				ip[i] = byte(r.Intn(256))
			}
			if ip.To4() != nil {
				ip[0] = 0x20 // keep it a genuine IPv6 address
			}
			v.Set(reflect.ValueOf(ip))
		}
		return v, true
	case rawJSONType:
		if r.Intn(4) != 0 {
			v.SetBytes([]byte(rawJSONPool[r.Intn(len(rawJSONPool))]))
		}
		return v, true
	case reflect.TypeOf(testfixtures.CustomType{}):
		v.Set(reflect.ValueOf(genCustomType(r)))
		return v, true
	case reflect.TypeOf(sql.NullString{}):
		if r.Intn(3) != 0 {
			v.Set(reflect.ValueOf(sql.NullString{String: genString(r), Valid: true}))
		}
		return v, true
	case reflect.TypeOf(sql.NullInt64{}):
		if r.Intn(3) != 0 {
			v.Set(reflect.ValueOf(sql.NullInt64{Int64: genInt(r, 64), Valid: true}))
		}
		return v, true
	case reflect.TypeOf(sql.NullFloat64{}):
		if r.Intn(3) != 0 {
			v.Set(reflect.ValueOf(sql.NullFloat64{Float64: genFloat64(r), Valid: true}))
		}
		return v, true
	case reflect.TypeOf(sql.NullBool{}):
		if r.Intn(3) != 0 {
			v.Set(reflect.ValueOf(sql.NullBool{Bool: r.Intn(2) == 0, Valid: true}))
		}
		return v, true
	case reflect.TypeOf(dualCodec{}):
		v.Set(reflect.ValueOf(dualCodec{N: int32(genInt(r, 32)), S: genString(r)}))
		return v, true
	case reflect.TypeOf(centsValuer{}):
		v.Set(reflect.ValueOf(centsValuer{Cents: genInt(r, 64)}))
		return v, true
	case reflect.TypeOf(gogoMarshal{}):
		v.Set(reflect.ValueOf(gogoMarshal{Text: string(genBytes(r))}))
		return v, true
	case reflect.TypeOf(binMarshal{}):
		b := binMarshal{A: uint32(genUint(r, 32))}
		if r.Intn(3) != 0 {
			b.B = genBytes(r)
		}
		v.Set(reflect.ValueOf(b))
		return v, true
	case reflect.TypeOf(textMarshal{}):
		v.Set(reflect.ValueOf(textMarshal{Text: genString(r)}))
		return v, true
	case reflect.TypeOf(hexText{}):
		var h hexText
		if r.Intn(4) != 0 {
			for i := range h {
				h[i] = byte(r.Intn(256))
			}
		}
		v.Set(reflect.ValueOf(h))
		return v, true
	case reflect.TypeOf(jsonMarshal{}):
		j := jsonMarshal{}
		if r.Intn(4) != 0 {
			j.Text = genStringList(r)
		}
		v.Set(reflect.ValueOf(j))
		return v, true
	case reflect.TypeOf(jsonDoc{}):
		v.Set(reflect.ValueOf(genJSONDoc(r)))
		return v, true
	case reflect.TypeOf(tproto.ExampleEvent{}):
		v.Set(reflect.ValueOf(tproto.ExampleEvent{Table: genString(r)}))
		return v, true
	case reflect.TypeOf(tproto.SimpleExampleEvent{}):
		v.Set(reflect.ValueOf(tproto.SimpleExampleEvent{Table: genString(r)}))
		return v, true
	case reflect.TypeOf(map[string]string(nil)):
		switch r.Intn(4) {
		case 0: // nil
		case 1:
			v.Set(reflect.ValueOf(map[string]string{}))
		default:
			m := map[string]string{}
			for i := r.Intn(4); i >= 0; i-- {
				m[genString(r)] = genString(r)
			}
			v.Set(reflect.ValueOf(m))
		}
		return v, true
	case reflect.TypeOf([]string(nil)):
		if r.Intn(4) != 0 {
			v.Set(reflect.ValueOf(genStringList(r)))
		}
		return v, true
	case reflect.TypeOf(map[string]interface{}(nil)):
		if r.Intn(5) != 0 {
			v.Set(reflect.ValueOf(genAnyMap(r, 2)))
		}
		return v, true
	case reflect.TypeOf([]interface{}(nil)):
		if r.Intn(5) != 0 {
			v.Set(reflect.ValueOf(genAnyList(r, 2)))
		}
		return v, true
	case reflect.TypeOf(anyDoc{}):
		d := anyDoc{V: genAny(r, 2), N: genInt(r, 64), F: genFloat64(r)}
		if r.Intn(3) != 0 {
			d.M = genAnyMap(r, 1)
		}
		if r.Intn(3) != 0 {
			d.L = genAnyList(r, 1)
		}
		v.Set(reflect.ValueOf(d))
		return v, true
	case anyType:
		if a := genAny(r, 2); a != nil {
			v.Set(reflect.ValueOf(a))
		}
		return v, true
	}
	switch t.Kind() {
	case reflect.Bool:
		v.SetBool(r.Intn(2) == 0)
	case reflect.Int, reflect.Int8, reflect.Int16, reflect.Int32, reflect.Int64:
		v.SetInt(genInt(r, t.Bits()))
	case reflect.Uint, reflect.Uint8, reflect.Uint16, reflect.Uint32, reflect.Uint64:
		v.SetUint(genUint(r, t.Bits()))
	case reflect.Float32:
		v.SetFloat(float64(genFloat32(r)))
	case reflect.Float64:
		v.SetFloat(genFloat64(r))
	case reflect.String:
		v.SetString(genString(r))
	default:
		return v, false
	}
	return v, true
}

// genField fills one struct field (pointer or not). zeroBias makes zero
// values and NULLs frequent enough to exercise implicitnull / pointer paths.
func genField(r *rand.Rand, ft reflect.Type, wholeSecond bool) (reflect.Value, error) {
	if ft.Kind() == reflect.Ptr {
		if r.Intn(3) == 0 {
			return reflect.Zero(ft), nil
		}
		for tries := 0; ; tries++ {
			b, ok := genBase(r, ft.Elem(), wholeSecond)
			if !ok {
				return reflect.Value{}, fmt.Errorf("no generator for %s", ft)
			}
			// A pointer to a value that the type itself encodes as NULL has two Go
			// representations of one SQL NULL; only the nil pointer is generated.
			if isSelfNull(b) {
				continue
			}
			p := reflect.New(ft.Elem())
			p.Elem().Set(b)
			return p, nil
		}
	}
	if r.Intn(6) == 0 {
		return reflect.Zero(ft), nil
	}
	b, ok := genBase(r, ft, wholeSecond)
	if !ok {
		return reflect.Value{}, fmt.Errorf("no generator for %s", ft)
	}
	return b, nil
}

// isSelfNull: values that encode as SQL NULL by their own Valuer (Null* with
// Valid=false) or by being a nil slice/map.
func isSelfNull(v reflect.Value) bool {
	switch x := v.Interface().(type) {
	case sql.NullString:
		return !x.Valid
	case sql.NullInt64:
		return !x.Valid
	case sql.NullFloat64:
		return !x.Valid
	case sql.NullBool:
		return !x.Valid
	case mysql.NullTime:
		return !x.Valid
	}
	switch v.Kind() {
	case reflect.Slice, reflect.Map, reflect.Interface:
		return v.IsNil()
	}
	return false
}
