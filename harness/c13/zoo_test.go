package c13

// The zoo: registered table structs covering every supported field kind x
// pointer/non-pointer x tags. Marshaler / Scanner helper types defined here
// are injective and copy their input (as the sql.Scanner contract demands).

import (
	"database/sql"
	"database/sql/driver"
	"encoding/hex"
	"encoding/json"
	"errors"
	"fmt"
	"net"
	"time"

	"github.com/go-sql-driver/mysql"
	tproto "github.com/samsarahq/thunder/internal/proto"
	"github.com/samsarahq/thunder/internal/testfixtures"
	amodels "github.com/samsarahq/thunder/verifharness/c13/a/models"
	bmodels "github.com/samsarahq/thunder/verifharness/c13/b/models"
)

// ---- named scalar types ----

type likeBool bool
type likeString string
type likeInt16 int16
type colorInt32 int32
type smallUint8 uint8
type bigUint64 uint64
type likeFloat32 float32
type likeFloat64 float64

// ---- marshalers (same shapes as internal/fields/sql_test.go) ----

// gogoMarshal fulfils the Marshal/Unmarshal pair.
type gogoMarshal struct{ Text string }

func (i gogoMarshal) Marshal() ([]byte, error) { return []byte(i.Text), nil }
func (i *gogoMarshal) Unmarshal(b []byte) error {
	i.Text = string(b)
	return nil
}

// binMarshal fulfils encoding.BinaryMarshaler / BinaryUnmarshaler.
type binMarshal struct {
	A uint32
	B []byte
}

func (i binMarshal) MarshalBinary() ([]byte, error) {
	out := []byte{byte(i.A >> 24), byte(i.A >> 16), byte(i.A >> 8), byte(i.A)}
	if i.B == nil {
		return append(out, 0), nil
	}
	return append(append(out, 1), i.B...), nil
}
func (i *binMarshal) UnmarshalBinary(b []byte) error {
	if len(b) < 5 {
		return errors.New("binMarshal: short")
	}
	i.A = uint32(b[0])<<24 | uint32(b[1])<<16 | uint32(b[2])<<8 | uint32(b[3])
	if b[4] == 0 {
		i.B = nil
	} else {
		i.B = append([]byte{}, b[5:]...)
	}
	return nil
}

// textMarshal fulfils encoding.TextMarshaler / TextUnmarshaler.
type textMarshal struct{ Text string }

func (i textMarshal) MarshalText() ([]byte, error) { return []byte(i.Text), nil }
func (i *textMarshal) UnmarshalText(b []byte) error {
	i.Text = string(b)
	return nil
}

// hexText is a named byte array with a text form (like a UUID type).
type hexText [4]byte

func (h hexText) MarshalText() ([]byte, error) { return []byte(hex.EncodeToString(h[:])), nil }
func (h *hexText) UnmarshalText(b []byte) error {
	d, err := hex.DecodeString(string(b))
	if err != nil || len(d) != 4 {
		return fmt.Errorf("hexText: bad input %q", b)
	}
	copy(h[:], d)
	return nil
}

// jsonMarshal fulfils json.Marshaler / Unmarshaler.
type jsonMarshal struct{ Text []string }

func (i jsonMarshal) MarshalJSON() ([]byte, error) { return json.Marshal(i.Text) }
func (i *jsonMarshal) UnmarshalJSON(b []byte) error {
	return json.Unmarshal(b, &i.Text)
}

type jsonDoc struct {
	A int64              `json:"a"`
	B string             `json:"b"`
	C []int32            `json:"c"`
	D *bool              `json:"d"`
	E map[string]float64 `json:"e"`
	F uint64             `json:"f"`
}

// anyDoc has untyped members next to typed ones.
type anyDoc struct {
	V interface{}            `json:"v"`
	M map[string]interface{} `json:"m"`
	L []interface{}          `json:"l"`
	N int64                  `json:"n"`
	F float64                `json:"f"`
}

// ---- Valuer / Scanner types ----

// centsValuer stores itself as an integer (driver int64).
type centsValuer struct{ Cents int64 }

func (c centsValuer) Value() (driver.Value, error) { return c.Cents, nil }
func (c *centsValuer) Scan(src interface{}) error {
	var n sql.NullInt64
	if err := n.Scan(src); err != nil {
		return err
	}
	c.Cents = n.Int64
	return nil
}

// tagString stores itself as a string (driver string) with a prefix.
type tagString string

func (t tagString) Value() (driver.Value, error) { return "t:" + string(t), nil }
func (t *tagString) Scan(src interface{}) error {
	var s string
	switch v := src.(type) {
	case nil:
		*t = ""
		return nil
	case string:
		s = v
	case []byte:
		s = string(v)
	default:
		return fmt.Errorf("tagString: cannot scan %T", src)
	}
	if len(s) < 2 || s[:2] != "t:" {
		return fmt.Errorf("tagString: bad value %q", s)
	}
	*t = tagString(s[2:])
	return nil
}

// dualCodec implements driver.Valuer + sql.Scanner AND encoding.TextMarshaler,
// encoding.BinaryMarshaler, Marshal/Unmarshal (and has a natural JSON form).
// Every form is different and every decoder accepts only its own form, so a
// codec that writes one form and reads another cannot go unnoticed.
type dualCodec struct {
	N int32
	S string
}

func (d dualCodec) form(prefix string) []byte {
	return []byte(fmt.Sprintf("%s%d:%s", prefix, d.N, d.S))
}

func (d *dualCodec) parse(prefix string, b []byte) error {
	s := string(b)
	if len(s) < len(prefix) || s[:len(prefix)] != prefix {
		return fmt.Errorf("dualCodec: %q is not in the %q form", s, prefix)
	}
	var n int32
	rest := s[len(prefix):]
	i := 0
	for i < len(rest) && rest[i] != ':' {
		i++
	}
	if i == len(rest) {
		return fmt.Errorf("dualCodec: bad value %q", s)
	}
	if _, err := fmt.Sscanf(rest[:i], "%d", &n); err != nil {
		return fmt.Errorf("dualCodec: bad number in %q", s)
	}
	d.N, d.S = n, rest[i+1:]
	return nil
}

func (d dualCodec) Value() (driver.Value, error) { return string(d.form("v:")), nil }
func (d *dualCodec) Scan(src interface{}) error {
	switch v := src.(type) {
	case nil:
		*d = dualCodec{}
		return nil
	case string:
		return d.parse("v:", []byte(v))
	case []byte:
		return d.parse("v:", v)
	}
	return fmt.Errorf("dualCodec: cannot scan %T", src)
}
func (d dualCodec) MarshalText() ([]byte, error)    { return d.form("text:"), nil }
func (d *dualCodec) UnmarshalText(b []byte) error   { return d.parse("text:", b) }
func (d dualCodec) MarshalBinary() ([]byte, error)  { return d.form("bin:"), nil }
func (d *dualCodec) UnmarshalBinary(b []byte) error { return d.parse("bin:", b) }
func (d dualCodec) Marshal() ([]byte, error)        { return d.form("pb:"), nil }
func (d *dualCodec) Unmarshal(b []byte) error       { return d.parse("pb:", b) }

// ---- tables ----

// intsRow: every int/uint width, pointer and non-pointer, named ints.
type intsRow struct {
	Id    int64 `sql:",primary"`
	I     int
	I8    int8
	I16   int16
	I32   int32
	I64   int64
	U     uint
	U8    uint8
	U16   uint16
	U32   uint32
	U64   uint64
	PI    *int
	PI8   *int8
	PI16  *int16
	PI32  *int32
	PI64  *int64
	PU    *uint
	PU8   *uint8
	PU16  *uint16
	PU32  *uint32
	PU64  *uint64
	Like  likeInt16
	Color colorInt32
	Small smallUint8
	Big   bigUint64
	PLike *likeInt16
	PBig  *bigUint64
}

// scalarsRow: floats, bool, strings, bytes, time; composite primary key and
// renamed columns; an ignored and an unexported field.
type scalarsRow struct {
	Org       int64  `sql:"org_id,primary"`
	Key       string `sql:"name,primary"`
	F32       float32
	F64       float64
	B         bool
	S         string
	Bytes     []byte
	T         time.Time
	PF32      *float32
	PF64      *float64
	PB        *bool
	PS        *string
	PT        *time.Time `sql:"when_ptr"`
	LB        likeBool
	LS        likeString
	LF32      likeFloat32
	LF64      likeFloat64
	PLB       *likeBool
	PLS       *likeString
	PLF64     *likeFloat64
	Ignored   string `sql:"-"`
	unexp     int
	CamelCase string
}

// tagsRow: implicitnull on every kind; string/binary/json tags on plain types
// (the Complex struct of sqlgen/integration_test.go is embedded field by field).
type tagsRow struct {
	Id        int64             `sql:",primary"`
	NullS     string            `sql:",implicitnull"`
	NullI     int64             `sql:",implicitnull"`
	NullU16   uint16            `sql:",implicitnull"`
	NullF     float64           `sql:",implicitnull"`
	NullB     bool              `sql:",implicitnull"`
	NullBytes []byte            `sql:",implicitnull"`
	NullT     time.Time         `sql:",implicitnull"`
	NullLS    likeString        `sql:",implicitnull"`
	NullColor colorInt32        `sql:"null_color,implicitnull"`
	Text      []byte            `sql:",string"`
	Blob      []byte            `sql:",binary"`
	Mappings  map[string]string `sql:",json"`
	Doc       jsonDoc           `sql:",json"`
	PDoc      *jsonDoc          `sql:",json"`
	List      []string          `sql:",json"`
	JM        jsonMarshal       `sql:",json"`
	PJM       *jsonMarshal      `sql:",json"`
	Raw       json.RawMessage   `sql:",json"`
	JInt      int64             `sql:",json"`
	JStr      string            `sql:",json"`
	// json columns with untyped slots: what sits in an interface{} must come
	// back as the same Go value (float64 numbers, bool, nil, string, nested)
	Any        map[string]interface{} `sql:",json"`
	AnyList    []interface{}          `sql:",json"`
	AnyDoc     anyDoc                 `sql:",json"`
	PAnyDoc    *anyDoc                `sql:",json"`
	AnyV       interface{}            `sql:",json"`
	StrTagS    string                 `sql:",string"`
	ImplStrTag string                 `sql:",string,implicitnull"`
}

// marshalRow: binary / string tagged marshalers, pointer and non-pointer,
// including gogo protobuf messages with and without generated Marshal.
type marshalRow struct {
	Id      int64                      `sql:",primary"`
	G       gogoMarshal                `sql:",binary"`
	PG      *gogoMarshal               `sql:",binary"`
	Bin     binMarshal                 `sql:",binary"`
	PBin    *binMarshal                `sql:",binary"`
	Proto   tproto.ExampleEvent        `sql:",binary"`
	PProto  *tproto.ExampleEvent       `sql:",binary"`
	Simple  tproto.SimpleExampleEvent  `sql:",binary"`
	PSimple *tproto.SimpleExampleEvent `sql:",binary"`
	Txt     textMarshal                `sql:",string"`
	PTxt    *textMarshal               `sql:",string"`
	Hex     hexText                    `sql:",string"`
	PHex    *hexText                   `sql:",string"`
	IP      net.IP                     `sql:",string"`
}

// valuerRow: driver.Valuer / sql.Scanner types (short-circuit path).
type valuerRow struct {
	Id     int64 `sql:",primary"`
	Uuid   testfixtures.CustomType
	Mood   *testfixtures.CustomType
	NS     sql.NullString
	NI     sql.NullInt64
	NF     sql.NullFloat64
	NB     sql.NullBool
	NT     mysql.NullTime
	PNI    *sql.NullInt64
	PNS    *sql.NullString
	Cents  centsValuer
	PCents *centsValuer
	Tag    tagString
	PTag   *tagString
	ImplNS sql.NullString `sql:",implicitnull"`
	// a Valuer/Scanner type that also has text, binary, Marshal and JSON forms,
	// under every tag: writing and reading must agree on ONE form
	DNone    dualCodec
	DStr     dualCodec `sql:",string"`
	DBin     dualCodec `sql:",binary"`
	DJson    dualCodec `sql:",json"`
	PDNone   *dualCodec
	PDStr    *dualCodec `sql:",string"`
	PDBin    *dualCodec `sql:",binary"`
	PDJson   *dualCodec `sql:",json"`
	DImpl    dualCodec  `sql:",implicitnull"`
	DStrImpl dualCodec  `sql:",string,implicitnull"`
	DBinImpl dualCodec  `sql:",binary,implicitnull"`
}

// userRow is the struct thunder's own sqlgen tests use.
type userRow struct {
	Id           int64 `sql:",primary"`
	Name         string
	Uuid         testfixtures.CustomType
	Mood         *testfixtures.CustomType
	Proto        tproto.ExampleEvent       `sql:",binary"`
	SimpleProto  tproto.SimpleExampleEvent `sql:",binary"`
	ImplicitNull string                    `sql:",implicitnull"`
}

// jsonBytesRow: []byte x json tag (kept apart from tagsRow so that a defect of
// this one combination does not mask the other tag columns).
type jsonBytesRow struct {
	Id int64  `sql:",primary"`
	J  []byte `sql:",json"`
	S  string
}

type tableDef struct {
	name  string
	proto interface{}
}

// modelsRowA / modelsRowB: two tables whose column types are DISTINCT named
// types that print identically (reflect.Type.String() == "models.Status" ...):
// same type names in two packages both called models, and two function-local
// types both called Level. Some pairs differ in kind, some share it. Every tag
// combination used is the same on both sides.
func modelsRowA() interface{} {
	type Level int8
	type row struct {
		Id      amodels.ID `sql:",primary"`
		Status  amodels.Status
		Code    amodels.Code
		Ratio   amodels.Ratio
		Flag    amodels.Flag
		Count   amodels.Count
		PStatus *amodels.Status
		PCode   *amodels.Code
		PRatio  *amodels.Ratio
		NStatus amodels.Status `sql:",implicitnull"`
		NCode   amodels.Code   `sql:",implicitnull"`
		Level   Level
		PLevel  *Level
	}
	return row{}
}

func modelsRowB() interface{} {
	type Level string
	type row struct {
		Id      bmodels.ID `sql:",primary"`
		Status  bmodels.Status
		Code    bmodels.Code
		Ratio   bmodels.Ratio
		Flag    bmodels.Flag
		Count   bmodels.Count
		PStatus *bmodels.Status
		PCode   *bmodels.Code
		PRatio  *bmodels.Ratio
		NStatus bmodels.Status `sql:",implicitnull"`
		NCode   bmodels.Code   `sql:",implicitnull"`
		Level   Level
		PLevel  *Level
	}
	return row{}
}

var zooTables = []tableDef{
	{"ints", intsRow{}},
	{"scalars", scalarsRow{}},
	{"tags", tagsRow{}},
	{"marshal", marshalRow{}},
	{"valuers", valuerRow{}},
	{"users", userRow{}},
	{"jsonbytes", jsonBytesRow{}},
	{"models_a", modelsRowA()},
	{"models_b", modelsRowB()},
}
