//go:build verif

// Package c02 monitors property C02 (live subscriptions converge): a client
// that folds every update envelope of a subscription, starting from nothing,
// holds the result of the query against the final data once the data stops
// changing; the first envelope of every accepted subscription is a full
// update; envelopes carry ids that are live at that point of the socket log;
// no update follows a processed unsubscribe.
package c02

import (
	"encoding/json"
	"fmt"
	"io"
	"log"
	"math/rand"
	"os"
	"sort"
	"strings"
	"testing"
	"time"

	"github.com/samsarahq/thunder/diff"
	"github.com/samsarahq/thunder/verifharness/vlib"
	"github.com/samsarahq/thunder/verifharness/wsclient"
)

var hookPoints = []string{
	"rerunner.run.computed", "rerunner.run.arming", "server.subscribe.diffed", "rerunner.run.cleaned",
	"server.write.enter", "rerunner.run.locked", "reactive.invalidate.unlocked", "reactive.handleInvalidate.enter",
	"rerunner.run.woke", "reactive.addOut.unlocked",
}

type liveSub struct {
	tag   string
	cells []string
	cost  bool
	boom  bool
	timed bool
	rich  bool // selects a union whose members hold nullable object- / union-typed fields
	snap  bool // selects fields read snapshot-style (also below an Expensive field)
}

type history struct {
	Cfg   wsclient.Config `json:"cfg"`
	Steps []wsclient.Step `json:"steps"`
	gen   *wsclient.Gen
}

func pause(r *rand.Rand) int {
	switch x := r.Intn(20); {
	case x < 11:
		return 0
	case x < 17:
		return 30 + r.Intn(500)
	default:
		return 1000 + r.Intn(2500)
	}
}

// genHistory is a pure function of the two PRNGs.
func genHistory(r *rand.Rand, g *wsclient.Gen, seed int64) *history {
	h := &history{gen: g}
	h.Cfg = wsclient.Config{
		Seed:           seed,
		MaxSubs:        5,
		MinRerunUS:     []int{200, 1000, 1000, 2000}[r.Intn(4)],
		AlwaysSpawn:    r.Intn(3) == 0,
		YieldIntensity: []int{0, 10, 30, 60}[r.Intn(4)],
		DefMode:        r.Intn(3),
		Modes:          map[string]int{},
	}
	if r.Intn(2) == 0 {
		h.Cfg.WriteThenReadUS = 500 + r.Intn(2500)
	}
	// middlewares: counts that leave spare capacity in the slice conn.Use
	// builds (3, 5-7, 9) and counts that do not (0, 1); some pause so that
	// computations of different subscriptions / mutations overlap inside
	// the chain
	for k := []int{0, 1, 3, 3, 5, 6, 7, 9}[r.Intn(8)]; k > 0; k-- {
		m := wsclient.MwSpec{}
		if r.Intn(3) == 0 {
			m.PreUS = 20 + r.Intn(300)
		}
		if r.Intn(5) == 0 {
			m.PostUS = 20 + r.Intn(150)
		}
		h.Cfg.Middlewares = append(h.Cfg.Middlewares, m)
	}
	for _, c := range []string{"n", "s", "obj", "items", "plain", "nums", "grid", "ku", "pu", "kulist", "ulist", "slow", "exp", "boom", "kids:0", "kids:1", "pick", "mu", "mulist", "lq", "clock", "item:0", "item:1", "item:2", "item:3", "ru", "su", "rulist", "sulist"} {
		if r.Intn(3) == 0 {
			h.Cfg.Modes[c] = r.Intn(3)
		}
	}
	ids := []string{"a", "b", "c", "d", "e"}
	live := map[string]*liveSub{}
	seq := 0
	prefer := func() []string {
		var cs []string
		var ks []string
		for k := range live {
			ks = append(ks, k)
		}
		sort.Strings(ks)
		for _, k := range ks {
			cs = append(cs, live[k].cells...)
		}
		var out []string
		for _, c := range cs {
			if c != "boom" {
				out = append(out, c)
			}
		}
		return out
	}
	liveIDs := func() []string {
		var ks []string
		for k := range live {
			ks = append(ks, k)
		}
		sort.Strings(ks)
		return ks
	}
	forceCost, forceBoom, forceTimed, forceRich, forceSnap := false, false, false, false, false
	sub := func(wait bool) wsclient.Step {
		seq++
		tag := fmt.Sprintf("t%d", seq)
		cost := forceCost || r.Intn(4) == 0
		opts := wsclient.QueryOpts{Slow: !forceCost, Boom: forceBoom || (!forceCost && r.Intn(4) == 0), Cost: cost}
		opts.LQ = opts.Boom && r.Intn(2) == 0
		opts.Timed = forceTimed || r.Intn(6) == 0
		opts.Rich = forceRich || r.Intn(3) == 0
		opts.Snap = forceSnap || r.Intn(4) == 0
		var q string
		var cells []string
		var vars map[string]interface{}
		if !forceCost && !forceBoom && !forceTimed && !forceRich && !forceSnap && r.Intn(3) == 0 {
			opts.Boom, opts.LQ = false, false // a re-used document must not bring a failing field into a later subscription
			q, vars, cells = g.GenVarQuery(tag, opts)
		} else {
			q, cells = g.GenQuery(tag, opts)
		}
		var free []string
		for _, id := range ids {
			if live[id] == nil {
				free = append(free, id)
			}
		}
		id := free[r.Intn(len(free))]
		// (a re-used document has the selections it was generated with)
		live[id] = &liveSub{tag: tag, cells: cells, cost: cost, boom: opts.Boom, timed: opts.Timed,
			rich: strings.Contains(q, "boss {"), snap: strings.Contains(q, "info {")}
		return wsclient.Step{Kind: "sub", ID: id, Tag: tag, Query: q, Vars: vars, Wait: wait, PauseUS: pause(r)}
	}
	n := 14 + r.Intn(26)
	h.Steps = append(h.Steps, sub(r.Intn(2) == 0))
	for len(h.Steps) < n {
		lids := liveIDs()
		switch x := r.Intn(100); {
		case x < 14:
			if len(live) < 4 {
				h.Steps = append(h.Steps, sub(r.Intn(3) == 0))
			}
		case x < 17: // subscribe with a live id: rejected, no effect on the live one
			if len(lids) > 0 {
				seq++
				tag := fmt.Sprintf("t%d", seq)
				q, _ := g.GenQuery(tag, wsclient.QueryOpts{})
				h.Steps = append(h.Steps, wsclient.Step{Kind: "sub", ID: lids[r.Intn(len(lids))], Tag: tag, Query: q, Wait: r.Intn(3) == 0, PauseUS: pause(r)})
			}
		case x < 26:
			if len(lids) > 0 {
				id := lids[r.Intn(len(lids))]
				delete(live, id)
				h.Steps = append(h.Steps, wsclient.Step{Kind: "unsub", ID: id, Wait: r.Intn(3) == 0, PauseUS: pause(r)})
			}
		case x < 32 && x >= 28: // unsubscribe shortly after an invalidation of an idle, already-run subscription
			pf := prefer()
			if len(lids) == 0 || len(pf) == 0 {
				continue
			}
			d := h.Cfg.WriteThenReadUS
			if d == 0 {
				d = 400
			}
			h.Steps = append(h.Steps, wsclient.Step{Kind: "idle"})
			h.Steps = append(h.Steps, wsclient.Step{Kind: "write", Op: g.OpOn(pf[r.Intn(len(pf))]), PauseUS: 40 + r.Intn(d)})
			for _, id := range lids {
				delete(live, id)
				h.Steps = append(h.Steps, wsclient.Step{Kind: "unsub", ID: id})
			}
			if r.Intn(2) == 0 { // the ids are re-used at once, for other queries
				for k := 1 + r.Intn(2); k > 0 && len(live) < 4; k-- {
					st := sub(false)
					st.PauseUS = 0
					h.Steps = append(h.Steps, st)
				}
			}
			h.Steps = append(h.Steps, wsclient.Step{Kind: "sync", PauseUS: 2 * d})
		case x >= 37 && x < 40: // the deadline of time-driven data passes DURING a re-run: between the resolver's judgement and its InvalidateAt
			have := false
			for _, ls := range live {
				have = have || ls.timed
			}
			if !have {
				if len(live) >= 4 {
					continue
				}
				forceTimed = true
				h.Steps = append(h.Steps, sub(true))
				forceTimed = false
			}
			h.Steps = append(h.Steps, wsclient.Step{Kind: "idle"},
				wsclient.Step{Kind: "gate", Cell: "clock", Phase: 0, Op: g.ClockTick(), Landing: []int{g.ClockCross()}, PauseUS: 1000 + r.Intn(2000)})
		case x >= 32 && x < 37: // an object with an Expensive field leaves the result, changes, comes back, changes again
			have := false
			for _, ls := range live {
				have = have || ls.cost
			}
			if !have {
				if len(live) >= 4 {
					continue
				}
				forceCost = true
				h.Steps = append(h.Steps, sub(true))
				forceCost = false
			}
			h.Steps = append(h.Steps, wsclient.Step{Kind: "idle"})
			ops, _ := g.LeaveReturn()
			if r.Intn(2) == 0 {
				ops = append(ops, g.KeySwitch()...) // and a union switching from a key-less to a keyed member
			}
			for _, op := range ops {
				// long enough for the re-run and for the old computation's asynchronous release
				h.Steps = append(h.Steps, wsclient.Step{Kind: "write", Op: op, PauseUS: 2500 + h.Cfg.WriteThenReadUS + h.Cfg.MinRerunUS + r.Intn(2000)})
			}
		case x < 28: // unsubscribe of an id that is not live
			seq++
			h.Steps = append(h.Steps, wsclient.Step{Kind: "unsub", ID: fmt.Sprintf("u%d", seq), PauseUS: pause(r)})
		case x < 38:
			seq++
			h.Steps = append(h.Steps, wsclient.Step{Kind: "mutate", ID: fmt.Sprintf("m%d", seq), Op: g.NextOp(prefer()), Wait: r.Intn(3) == 0, PauseUS: pause(r)})
		case x >= 42 && x < 47: // a union switches member keeping its identity; the new member's object- / union-typed fields are null, then appear
			have := false
			for _, ls := range live {
				have = have || ls.rich
			}
			if !have {
				if len(live) >= 4 {
					continue
				}
				forceRich = true
				h.Steps = append(h.Steps, sub(true))
				forceRich = false
			}
			h.Steps = append(h.Steps, wsclient.Step{Kind: "idle"})
			ops, _ := g.RichSwitch()
			for _, op := range ops {
				// long enough for the re-run: every version is diffed against the one before
				h.Steps = append(h.Steps, wsclient.Step{Kind: "write", Op: op, PauseUS: 1500 + h.Cfg.WriteThenReadUS + h.Cfg.MinRerunUS + r.Intn(1500)})
			}
		case x >= 47 && x < 50: // a mutation on its own (not inside a gate)
			seq++
			h.Steps = append(h.Steps, wsclient.Step{Kind: "mutate", ID: fmt.Sprintf("m%d", seq), Op: g.NextOp(prefer()), Wait: r.Intn(3) == 0, PauseUS: pause(r)})
		case x < 42:
			seq++
			h.Steps = append(h.Steps, wsclient.Step{Kind: "echo", ID: fmt.Sprintf("e%d", seq), Wait: r.Intn(2) == 0, PauseUS: pause(r)})
		case x < 62:
			h.Steps = append(h.Steps, wsclient.Step{Kind: "write", Op: g.NextOp(prefer()), PauseUS: pause(r)})
		case x < 70: // burst of writes without pacing
			for k := 2 + r.Intn(4); k > 0; k-- {
				h.Steps = append(h.Steps, wsclient.Step{Kind: "write", Op: g.NextOp(prefer())})
			}
		case x < 92: // changes landing during a recomputation
			pf := prefer()
			if len(pf) == 0 {
				continue
			}
			st := wsclient.Step{Kind: "gate", Phase: r.Intn(2), Op: g.OpOn(pf[r.Intn(len(pf))]), PauseUS: pause(r)}
			for k := 1 + r.Intn(3); k > 0; k-- {
				st.Landing = append(st.Landing, g.NextOp(pf))
			}
			switch r.Intn(6) {
			case 0: // unsubscribe arrives while the run is in flight
				if len(lids) > 0 {
					id := lids[r.Intn(len(lids))]
					delete(live, id)
					st.Then = []wsclient.Step{{Kind: "unsub", ID: id}}
					st.Hold = r.Intn(2) == 0
				}
			case 1:
				seq++
				st.Then = []wsclient.Step{{Kind: "mutate", ID: fmt.Sprintf("m%d", seq), Op: g.NextOp(pf)}}
			}
			h.Steps = append(h.Steps, st)
		default: // transient resolver failure on re-runs, then recovery
			// a subscription that selects the failing field must be live
			var bcells []string
			for _, id := range liveIDs() {
				if live[id].boom {
					bcells = live[id].cells
				}
			}
			if bcells == nil {
				if len(live) >= 4 {
					continue
				}
				forceBoom = true
				st := sub(true)
				forceBoom = false
				h.Steps = append(h.Steps, st)
				bcells = live[st.ID].cells
			}
			var bc []string
			for _, c := range bcells {
				if c != "boom" {
					bc = append(bc, c)
				}
			}
			on := g.AddOp(wsclient.Op{Cell: "boom", Val: int64(1 + r.Intn(wsclient.BoomShapes))})
			st := wsclient.Step{Kind: "boomcycle", Op: on, PauseUS: 200 + r.Intn(3000)}
			for k := r.Intn(3); k > 0; k-- {
				st.Landing = append(st.Landing, g.NextOp(bc))
			}
			st.N = g.AddOp(wsclient.Op{Cell: "boom", Val: int64(0)})
			h.Steps = append(h.Steps, st)
			// data keeps changing after the recovery
			h.Steps = append(h.Steps, wsclient.Step{Kind: "write", Op: g.NextOp(bc), PauseUS: 500 + r.Intn(2000)})
		}
	}
	// the last change of a cell lands while a re-run that has already read
	// that cell is in flight - and nothing follows that would repair a lost
	// notification
	final := r.Intn(6)
	if pf := prefer(); len(pf) > 0 && final < 3 {
		c := pf[r.Intn(len(pf))]
		if r.Intn(3) != 0 {
			h.Cfg.Modes[c] = wsclient.ModeStrobe
		}
		h.Steps = append(h.Steps, wsclient.Step{Kind: "idle"},
			wsclient.Step{Kind: "gate", Cell: c, Phase: 1, Op: g.OpOn(c), Landing: []int{g.OpOn(c)}, PauseUS: 500})
	}
	// ... or the last change lands between a resolver's snapshot (value,
	// resource of that version) and the registration of that resource: the
	// dependency is added to an already-invalidated resource. The resolver is a
	// field func of a list element or of the object an Expensive field returned.
	if final == 3 || final == 4 {
		have := false
		for _, ls := range live {
			have = have || ls.snap
		}
		if !have && len(live) < 4 {
			forceSnap = true
			h.Steps = append(h.Steps, sub(true))
			forceSnap = false
			have = true
		}
		if have {
			pre, c, trigger, landing := g.SnapRace()
			// per-version resources (never Strobe); mostly one resource per read
			h.Cfg.Modes[c] = []int{wsclient.ModeFresh, wsclient.ModeFresh, wsclient.ModeReplace}[r.Intn(3)]
			for _, op := range pre {
				h.Steps = append(h.Steps, wsclient.Step{Kind: "write", Op: op, PauseUS: 1500 + h.Cfg.WriteThenReadUS + h.Cfg.MinRerunUS})
			}
			h.Steps = append(h.Steps, wsclient.Step{Kind: "idle"},
				wsclient.Step{Kind: "gate", Cell: c, Phase: wsclient.GatePreRegister, Op: trigger, Landing: []int{landing},
					// Resource.Invalidate is asynchronous: let it land before the held resolver registers
					Then: []wsclient.Step{{Kind: "pause", PauseUS: 2000 + r.Intn(3000)}}, PauseUS: 500})
		}
	}
	// injections: writes landing at named points inside Rerunner.run / the
	// subscription closure
	for k := r.Intn(3); k > 0; k-- {
		in := wsclient.InjSpec{Point: hookPoints[r.Intn(len(hookPoints))], Visit: 1 + r.Intn(12)}
		for j := 1 + r.Intn(2); j > 0; j-- {
			in.Steps = append(in.Steps, wsclient.Step{Kind: "write", Op: g.NextOp(prefer())})
		}
		h.Cfg.Injections = append(h.Cfg.Injections, in)
	}
	return h
}

// pinnedHistory 0: unsubscribe lands during an in-flight run (which then ends
// with context.Canceled and spawns its own asynchronous close), and the id is
// subscribed again while that asynchronous close is held at its entry.
func pinnedHistory(g *wsclient.Gen, seed int64) *history {
	q := func(tag, fields string) string { return fmt.Sprintf("{ root(tag: %q) { %s } }", tag, fields) }
	cfg := wsclient.Config{Seed: seed, MaxSubs: 5, MinRerunUS: 1000, DefMode: wsclient.ModeReplace}
	cfg.Injections = []wsclient.InjSpec{{Point: "server.closeSubscription.enter", Visit: 2, TimeoutMS: 100,
		Steps: []wsclient.Step{{Kind: "sub", ID: "a", Tag: "t2", Query: q("t2", "n nums"), Wait: true}}}}
	op := g.AddOp(wsclient.Op{Cell: "slow", Val: int64(1000)})
	op2 := g.AddOp(wsclient.Op{Cell: "n", Val: int64(1000)})
	return &history{gen: g, Cfg: cfg, Steps: []wsclient.Step{
		{Kind: "sub", ID: "a", Tag: "t1", Query: q("t1", "slow(us: 100) exp"), Wait: true},
		{Kind: "echo", ID: "e1", Wait: true, PauseUS: 3000},
		{Kind: "gate", Cell: "slow", Phase: 0, Op: op, Then: []wsclient.Step{{Kind: "unsub", ID: "a"}}, Hold: true, PauseUS: 5000},
		{Kind: "sync", PauseUS: 40000},
		{Kind: "write", Op: op2, PauseUS: 2000},
	}}
}

// stormHistory (pinned cases 1-4, one per driver shard): a stress history -
// many rounds of "subscribe x4, one write invalidating all, and within +-150 us
// the pipelined unsubscribes, each followed at once by a subscribe of the same
// id to another query" (Rerunner.Stop racing the wake-up of a re-run).
func stormHistory(idx int, g *wsclient.Gen, seed int64) *history {
	cfg := wsclient.Config{Seed: seed, MaxSubs: 4, MinRerunUS: []int{200, 200, 100, 400}[idx-1], DefMode: wsclient.ModeReplace,
		AlwaysSpawn: idx%2 == 0}
	a := g.AddOp(wsclient.Op{Cell: "n", Val: int64(2000)})
	b := g.AddOp(wsclient.Op{Cell: "n", Val: int64(2001)})
	c := g.AddOp(wsclient.Op{Cell: "n", Val: int64(2002)})
	return &history{gen: g, Cfg: cfg, Steps: []wsclient.Step{{Kind: "storm", N: stormRounds, Landing: []int{a, b, c}, Resub: idx != 1}}}
}

// stormRounds is set by TestCheck from the tier.
var stormRounds = 600

const numPinned = 5

// classStaleClose: see FINDINGS.md.
const classStaleClose = "stale-async-close"

func classify(inst *wsclient.Instance) string {
	if inst != nil && inst.EndKind == "log-unsub" && inst.EndCause == "unexplained" && inst.PriorSameID {
		return classStaleClose
	}
	return ""
}

func js(v interface{}) string {
	b, err := json.Marshal(v)
	if err != nil {
		return fmt.Sprintf("<<%v>>", err)
	}
	return string(b)
}

type verdict struct {
	ok     bool
	what   string
	inst   *wsclient.Instance
	got    string
	want   string
	detail string
}

// converged compares, for every live subscription, the folded client state
// with a fresh Execute of its query against the current data.
func converged(s *wsclient.Session, a *wsclient.Analysis) verdict {
	for _, inst := range a.ClientLive() {
		ups := a.Updates(inst)
		if len(ups) == 0 {
			return verdict{what: "live subscription has received no update", inst: inst}
		}
		fr := wsclient.Fold(ups)
		exp, err := s.World.Expected(inst.Query, inst.Vars)
		if err != nil {
			return verdict{what: "expected value: Execute failed: " + err.Error(), inst: inst}
		}
		ej, err := vlib.ToJSONForm(exp)
		if err != nil {
			return verdict{what: "expected value not serialisable: " + err.Error(), inst: inst}
		}
		want := vlib.Canon(diff.StripKey(ej))
		if fr.TSErr != nil {
			return verdict{what: "merge.ts port rejects an update: " + fr.TSErr.Error(), inst: inst, want: want}
		}
		if vlib.HasUndefined(fr.TS) {
			return verdict{what: "merge.ts client state contains undefined", inst: inst, want: want}
		}
		if got := vlib.Canon(fr.TS); got != want {
			return verdict{what: "fold(updates) with merge.ts != StripKey(Execute(query, final data))", inst: inst, got: got, want: want}
		}
		if fr.GoErr != nil {
			return verdict{what: "merge.Merge rejects an update: " + fr.GoErr.Error(), inst: inst, want: want}
		}
		if got := vlib.Canon(fr.Go); got != want {
			return verdict{what: "fold(updates) with merge.Merge != StripKey(Execute(query, final data))", inst: inst, got: got, want: want}
		}
	}
	return verdict{ok: true}
}

func TestCheck(t *testing.T) {
	log.SetOutput(io.Discard)
	run := vlib.Start(t, "C02", "exploration")
	defer run.Finish()
	run.Rule("histories over one websocket connection (scripted JSONSocket) against a schemabuilder schema over a mutable store: 14-40 steps of subscribe (ids from a pool of 5, reused after unsubscribe; 1-6 fields over scalars, nullable object, keyed lists (nested), unkeyed object/scalar/nested lists, unions with and without key and a union mixing a key-less and a keyed member, union lists, a live-query field (public reactive.Cache, registers then may fail), Expensive object-valued fields reached on the same (interned) item along two paths under one response key with different sub-selections / arguments, a time-driven field on a harness-advanced logical clock whose deadline may pass between the resolver's judgement and its InvalidateAt/InvalidateAfter call (gate step), a nullable keyed object, a keyed list of BY-VALUE structs holding a slice (non-comparable sources) with an Expensive field, slow and Expensive fields - also on list elements and on the nullable object, with interned source objects so that the reactive cache can hit; in a third of the subscriptions unions (keyed, key-less, single and in lists) whose members hold nullable OBJECT- and UNION-typed fields, some shared by the members and some owned by one, with writes that switch the member while the identity stays and the new member's fields are null / appear / switch; in a quarter of them fields whose resolvers read SNAPSHOT-style (value and per-version resource first, AddDependency afterwards) at the top level, on list elements and as field funcs of the object returned by an Expensive field that itself reads nothing), " +
		"one third of the subscriptions use a document with variables ($tag, and $k selecting which cell a field reads), whose text is re-used verbatim by later subscriptions with different variable values, subscribe with a live id, unsubscribe (live / unknown id), mutate (own id namespace), echo, direct writes, write bursts, gate steps (a resolver of an in-flight run is held after AddDependency or after reading while 1-3 further writes, optionally an unsubscribe or a mutation, land), leave/change/return/change sequences for one item (out of the keyed list or the nullable object and back), 0/1/3/5/6/7/9 pass-through middlewares registered with conn.Use (some pausing before/after next), in half of the histories a final step in which the last change of a (mostly Strobe-notified) cell lands while a re-run that has already read it is in flight, in a third a final step in which the last change of an item lands between a resolver's snapshot and its AddDependency (gate phase 2: the dependency is added to an already-invalidated resource; per-read or per-version resources), stand-alone mutations, transient resolver failures on re-runs (plain error, safe error, errors wrapping context.Canceled / DeadlineExceeded of a resolver-owned context, safe error around one) followed by recovery, unsubscribe-all sent a fraction of the write-then-read delay after a write that invalidates an idle subscription (reactive.WriteThenReadDelay is 0 in half of the histories, 0.5-3 ms in the rest), plus 0-2 writes injected at named hook points; cases 1-4 are stress histories (600 rounds, thorough 4000: subscribe x4, one invalidating write and, within +-150 us, pipelined unsubscribes each followed by a same-id subscribe to another query); case 0 is a pinned history (unsubscribe during an in-flight run, id re-subscribed while the run's own asynchronous close is pending); " +
		"cells notify by Invalidate-and-replace, Strobe, or per-read resources (seeded per cell); seeded pacing and yield-hook perturbation. " +
		"Non-trivial = >= 2 writes logged while a subscription execution was in flight AND >= 1 non-initial update with a structural delta (reorder / removal / object, list or null replacement). Distinct = step-kind sequence + set of non-initial delta shapes.")
	run.Assume("store cells follow the discipline AddDependency(resource) then read; writers change the value then Invalidate/Strobe; a resource released by its last dependant is replaced (thunder releases = permanently invalidates it)")
	run.Assume("expected values come from thunder's own executor (fresh Execute outside any rerunner), so executor defects (C01) do not count here")
	run.Assume("mutation ids never collide with subscription ids in these histories (C17 covers collisions)")
	run.Assume("a subscription the server ended (logger Unsubscribe) without the client's unsubscribe, without an error envelope and without a close is still live for the client and must converge")
	run.Assume("vlib.MergeTS is a faithful port of client/src/merge.ts")
	n := run.N(120, 6000)
	stormRounds = run.N(600, 4000)
	agg := vlib.NewHitAgg()
	defer agg.Report(run)
	run.Each(n, 1, func(i int) {
		fmt.Printf("CASE %d\n", i)
		runCase(run, agg, i)
	})
}

func runCase(run *vlib.Run, agg *vlib.HitAgg, i int) {
	r := run.Rand("hist", i)
	g := wsclient.NewGen(run.Rand("data", i))
	var h *history
	if i == 0 {
		h = pinnedHistory(g, run.Seed()*1000003+int64(i))
	} else if i < numPinned {
		h = stormHistory(i, g, run.Seed()*1000003+int64(i))
	} else {
		h = genHistory(r, g, run.Seed()*1000003+int64(i))
	}
	s := wsclient.StartSession(h.Cfg, g)
	s.SetOps(g.Ops())
	defer func() {
		agg.Add(s.Y)
		s.End()
	}()

	// a witness renders the whole log: only the first violations of a case get one
	witnesses := 0
	witness := func(extra map[string]interface{}) map[string]interface{} {
		witnesses++
		if witnesses > 12 {
			return map[string]interface{}{"what": extra["what"], "note": "further violation of the same case; see the earlier replay files of this case for the log"}
		}
		ev := s.Log.Snapshot()
		w := map[string]interface{}{"cfg": h.Cfg, "steps": h.Steps, "messages": s.Sock.Meta(), "log": wsclient.Render(ev, true, 400)}
		for k, v := range extra {
			w[k] = v
		}
		return w
	}

	if err := s.Play(h.Steps); err != nil {
		if strings.Contains(err.Error(), vlib.QuiescentNot.String()) {
			run.Violation(i, "", witness(map[string]interface{}{"what": "the server stopped processing messages: " + err.Error(), "stacks": vlib.Trunc(vlib.Stacks(), 20000)}))
		} else {
			run.Inconclusive(fmt.Sprintf("case %d: %v", i, err))
		}
		return
	}
	// trailing echo: when read-enter follows it, every scripted message is processed
	if err := s.Play([]wsclient.Step{{Kind: "echo", ID: "final", Wait: true}}); err != nil {
		if strings.Contains(err.Error(), vlib.QuiescentNot.String()) {
			run.Violation(i, "", witness(map[string]interface{}{"what": "the server stopped processing messages: " + err.Error(), "stacks": vlib.Trunc(vlib.Stacks(), 20000)}))
		} else {
			run.Inconclusive(fmt.Sprintf("case %d: %v", i, err))
		}
		return
	}

	analyze := func() *wsclient.Analysis {
		return wsclient.Analyze(s.Log.Snapshot(), s.Sock.Meta(), h.Cfg.MaxSubs)
	}
	var last verdict
	cond := func() bool {
		last = converged(s, analyze())
		return last.ok
	}
	// re-run bound (livelock): executions started after the last write
	rerunsAfterLastWrite := func(a *wsclient.Analysis) (int, string) {
		lastWrite := -1
		for _, e := range a.Events {
			if e.Kind == wsclient.EvStoreWrite {
				lastWrite = e.Seq
			}
		}
		worst, wid := 0, ""
		for _, inst := range a.Live() {
			c := 0
			for _, sq := range a.ExecStarts[inst.ID] {
				if sq > lastWrite && sq > inst.SubSeq {
					c++
				}
			}
			if c > worst {
				worst, wid = c, inst.ID
			}
		}
		return worst, wid
	}
	out := vlib.WaitCond(cond, s.Activity, 2*time.Second, 25*time.Second)
	if out == vlib.Reached {
		// let everything that is still moving finish, then look again: the
		// client must still hold the final value
		if !s.WaitQuiet(12*time.Millisecond, 3, 6*time.Second) {
			a := analyze()
			if c, id := rerunsAfterLastWrite(a); c > 50 {
				run.Inconclusive(fmt.Sprintf("case %d: livelock? subscription %q re-ran %d times after the last write and the system is not quiet", i, id, c))
				return
			}
			run.Inconclusive(fmt.Sprintf("case %d: system not quiet after convergence", i))
			return
		}
		out = vlib.WaitCond(cond, s.Activity, time.Second, 10*time.Second)
		if out != vlib.Reached {
			last.detail = "the client state had converged and then diverged again"
		}
	}
	a := analyze()
	reruns, rid := rerunsAfterLastWrite(a)
	switch out {
	case vlib.QuiescentNot:
		run.Violation(i, classify(last.inst), witness(map[string]interface{}{"what": last.what, "detail": last.detail, "instance": last.inst, "got": vlib.Trunc(last.got, 3000), "want": vlib.Trunc(last.want, 3000),
			"quiescent": true, "updates": updatesOf(a, last.inst)}))
	case vlib.Undecided:
		if reruns > 50 {
			run.Inconclusive(fmt.Sprintf("case %d: livelock: subscription %q re-ran %d times after the last write without converging (%s)", i, rid, reruns, last.what))
		} else {
			run.Inconclusive(fmt.Sprintf("case %d: not converged and not quiescent at the hard deadline (%s)", i, last.what))
		}
		return
	}

	if os.Getenv("VERIF_DEBUG_LOG") != "" {
		fmt.Println(strings.Join(wsclient.Render(a.Events, false, 0), "\n"))
	}
	// ---- rules over the merged log
	for _, an := range a.Anomalies {
		switch an.Rule {
		case "update-after-unsub-processed", "update-for-dead-id", "result-for-unknown-id", "error-for-unknown-id", "second-subscribe-live", "subscribe-log-outside-window", "duplicate-subscribe-no-error":
			run.Violation(i, "", witness(map[string]interface{}{"what": an.Rule + ": " + an.Detail, "at": an.Seq, "id": an.ID, "instance": an.Inst}))
		}
	}
	feats := map[string]bool{}
	shapes := map[string]bool{}
	for _, inst := range a.Instances {
		if len(inst.Envelopes) > 0 {
			e := a.Events[inst.Envelopes[0]]
			if e.Type != "update" || e.N != 1 || !wsclient.IsFullUpdate(e.Msg) {
				run.Violation(i, "", witness(map[string]interface{}{"what": "the first envelope of an accepted subscription is not an update carrying a full value", "instance": inst, "envelope": e.String()}))
			}
		}
		ups := a.Updates(inst)
		if inst.EndSeq >= 0 && len(ups) > 0 {
			// ended subscriptions: every delta must at least apply cleanly
			fr := wsclient.Fold(ups)
			if fr.TSErr != nil || fr.GoErr != nil || vlib.HasUndefined(fr.TS) {
				run.Violation(i, "", witness(map[string]interface{}{"what": fmt.Sprintf("updates of an ended subscription do not apply: ts=%v go=%v undefined=%v", fr.TSErr, fr.GoErr, vlib.HasUndefined(fr.TS)), "instance": inst, "updates": updatesOf(a, inst)}))
			} else if vlib.Canon(fr.TS) != vlib.Canon(fr.Go) {
				run.Violation(i, "", witness(map[string]interface{}{"what": "merge.ts and merge.Merge disagree on the updates of an ended subscription", "instance": inst, "updates": updatesOf(a, inst)}))
			}
		}
		// updates of different computations never mix: after EVERY update the
		// client state has the top-level shape of this subscription's query
		// ({"root": {...}}) and, where selected, carries this subscription's tag
		{
			var st interface{}
			for k, u := range ups {
				nx, err := vlib.MergeTS(st, vlib.DeepCopyJSON(u))
				if err != nil {
					break
				}
				st = nx
				m, _ := st.(map[string]interface{})
				root, _ := m["root"].(map[string]interface{})
				bad := ""
				if m == nil || len(m) != 1 || root == nil {
					bad = "client state is not {\"root\": {...}}"
				} else if tg, ok := root["tag"]; ok && tg != inst.Tag {
					bad = fmt.Sprintf("client state carries tag %v, the subscription's tag is %s", tg, inst.Tag)
				}
				if bad != "" {
					run.Violation(i, "", witness(map[string]interface{}{"what": fmt.Sprintf("after update %d of subscription %q the %s: the update belongs to another computation", k+1, inst.ID, bad),
						"instance": inst, "state": vlib.Trunc(js(st), 1500), "updates": updatesOf(a, inst)}))
					break
				}
			}
		}
		for k, u := range ups {
			if k == 0 {
				continue
			}
			f := map[string]bool{}
			wsclient.DeltaFeatures(u, f)
			for x := range f {
				feats[x] = true
				run.Count("delta_feature:"+x, 1)
			}
			shapes[wsclient.DeltaShape(u)] = true
		}
		run.Count("updates", len(ups))
	}

	// a mutation's result envelope carries the result of that mutation
	mutOp := map[string]int{}
	for _, m := range a.Meta {
		if m.Type == "mutate" {
			var op int
			if _, err := fmt.Sscanf(m.Query, "mutation { apply(op: %d) }", &op); err == nil {
				mutOp[m.ID] = op
			}
		}
	}
	for _, e := range a.Events {
		if e.Kind != wsclient.EvWrite || e.Type != "result" {
			continue
		}
		op, ok := mutOp[e.ID]
		if !ok {
			continue
		}
		v, err := vlib.MergeTS(nil, vlib.DeepCopyJSON(e.Msg))
		want := vlib.Canon(map[string]interface{}{"apply": float64(op)})
		if err != nil || vlib.Canon(v) != want {
			run.Violation(i, "", witness(map[string]interface{}{"what": fmt.Sprintf("result envelope of mutation %q is not the result of that mutation", e.ID), "envelope": e.String(), "want": want}))
		}
	}

	// ---- coverage
	run.Count(fmt.Sprintf("middlewares:%d", len(h.Cfg.Middlewares)), 1)
	overlapped, inflight, writes := 0, map[string]int{}, 0
	for _, e := range a.Events {
		switch e.Kind {
		case wsclient.EvExecStart:
			if e.Note != "mutation" {
				inflight[e.ID]++
			}
		case wsclient.EvExecFinish:
			if e.Note != "mutation" && inflight[e.ID] > 0 {
				inflight[e.ID]--
			}
		case wsclient.EvStoreWrite:
			writes++
			for _, c := range inflight {
				if c > 0 {
					overlapped++
					break
				}
			}
		case wsclient.EvLogError:
			run.Count("rerun_errors_logged", 1)
		case wsclient.EvGateHit:
			run.Count(fmt.Sprintf("gate_hits_phase:%d", e.N), 1)
		}
	}
	var kinds []string
	for _, st := range h.Steps {
		kinds = append(kinds, st.Kind)
		run.Count("step:"+st.Kind, 1)
		if st.Kind == "gate" && len(st.Then) > 0 {
			run.Count("step:gate+"+st.Then[0].Kind, 1)
		}
	}
	var shp []string
	for sh := range shapes {
		shp = append(shp, sh)
	}
	sort.Strings(shp)
	nontrivial := overlapped >= 2 && wsclient.Structural(feats)
	run.Case(strings.Join(kinds, ",")+"|"+strings.Join(shp, ";"), nontrivial)
	run.Count("writes", writes)
	run.Count("writes_overlapping_a_recomputation", overlapped)
	run.Count("gate_hits", int(s.World.GateHits()))
	run.Count("injections_fired", s.InjectionsFired())
	run.Count("subscriptions_accepted", len(a.Instances))
	run.Count("subscriptions_live_at_end", len(a.Live()))
	run.Count("log_events", len(a.Events))
	if reruns > 5 {
		run.Count("histories_with_more_than_5_reruns_after_the_last_write", 1)
	}
	reused := map[string]int{}
	for _, inst := range a.Instances {
		reused[inst.ID]++
		if strings.Contains(inst.Query, "boss {") {
			run.Count("subscriptions_with_rich_unions", 1)
		}
		if strings.Contains(inst.Query, "info {") {
			run.Count("subscriptions_with_snapshot_reads_below_expensive", 1)
		}
	}
	for _, c := range reused {
		if c > 1 {
			run.Count("ids_reused_after_unsubscribe", c-1)
		}
	}
	if nontrivial && run.WantSample() {
		run.Sample(map[string]interface{}{"case": i, "steps": kinds, "delta_shapes": shp, "writes": writes, "overlapped": overlapped,
			"instances": len(a.Instances), "first_query": a.Instances[0].Query})
	}
}

func updatesOf(a *wsclient.Analysis, inst *wsclient.Instance) []string {
	if inst == nil {
		return nil
	}
	var out []string
	for _, u := range a.Updates(inst) {
		out = append(out, vlib.Trunc(js(u), 1500))
	}
	return out
}
