package c16

// Resolver forms the zoo does not have: paginated field funcs (managed by
// thunder, and managing pagination themselves), resolvers below a connection's
// edges, and mutations. A failing one of them must fail the query exactly like
// any other resolver.

import (
	"context"
	"encoding/json"
	"fmt"
	"math/rand"
	"os"
	"sort"
	"strings"
	"sync/atomic"
	"time"

	"github.com/samsarahq/thunder/batch"
	"github.com/samsarahq/thunder/diff"
	"github.com/samsarahq/thunder/graphql"
	"github.com/samsarahq/thunder/graphql/schemabuilder"
	"github.com/samsarahq/thunder/reactive"
	"github.com/samsarahq/thunder/verifharness/gen"
	"github.com/samsarahq/thunder/verifharness/vlib"
)

type spHolder struct{ Id int64 }
type spItem struct{ Id int64 }

type spArgs struct{ N int64 }
type spExtArgs struct {
	schemabuilder.PaginationArgs
	N int64
}

// spZeroKey marks a plan whose failing paginated resolvers return their zero
// values next to the error (the usual Go way) instead of a populated result.
type spZeroKey struct{}

func spItems(n int64) []*spItem {
	out := make([]*spItem, 0, n)
	for i := int64(1); i <= n; i++ {
		out = append(out, &spItem{Id: i})
	}
	return out
}

func spPage(n int64, first *int64) []*spItem {
	items := spItems(n)
	if first != nil && int64(len(items)) > *first {
		items = items[:*first]
	}
	return items
}

func spFilter(name string) func(ctx context.Context, it *spItem) (string, error) {
	return func(ctx context.Context, it *spItem) (string, error) {
		if err := failHook(ctx, "SpItem", it.Id, "filter:"+name, false); err != nil {
			return "", err
		}
		return fmt.Sprintf("item %d", it.Id), nil
	}
}

func spSort(name string) func(ctx context.Context, it *spItem) (int64, error) {
	return func(ctx context.Context, it *spItem) (int64, error) {
		if err := failHook(ctx, "SpItem", it.Id, "sort:"+name, false); err != nil {
			return 0, err
		}
		return it.Id, nil
	}
}

func buildSpecialSchema() (*graphql.Schema, error) {
	s := schemabuilder.NewSchema()
	q := s.Query()
	q.FieldFunc("holder", func(ctx context.Context, args struct{ Id int64 }) (*spHolder, error) {
		if err := failHook(ctx, "Query", 0, "holder", false); err != nil {
			return nil, err
		}
		return &spHolder{Id: args.Id}, nil
	})
	m := s.Mutation()
	m.FieldFunc("bump", func(ctx context.Context, args struct{ By int64 }) (int64, error) {
		if err := failHook(ctx, "Mutation", 0, "bump", false); err != nil {
			return 0, err
		}
		return args.By + 1, nil
	})
	m.FieldFunc("make", func(ctx context.Context, args struct{ Id int64 }) (*spHolder, error) {
		if err := failHook(ctx, "Mutation", 0, "make", false); err != nil {
			return nil, err
		}
		return &spHolder{Id: args.Id}, nil
	})
	h := s.Object("SpHolder", spHolder{})
	zero := func(ctx context.Context) bool { z, _ := ctx.Value(spZeroKey{}).(bool); return z }
	h.FieldFunc("managed", func(ctx context.Context, h *spHolder, args spArgs) ([]*spItem, error) {
		if err := failHook(ctx, "SpHolder", h.Id, "managed", false); err != nil {
			if zero(ctx) {
				return nil, err
			}
			return spItems(args.N), err
		}
		return spItems(args.N), nil
	}, schemabuilder.Paginated,
		// text filter and sort functions are user code too: they may fail. Every
		// label contains "item" and ranks ascend with the id, so neither changes
		// which items are on a page.
		schemabuilder.FilterField("label", spFilter("label")),
		schemabuilder.FilterField("labelExp", spFilter("labelExp"), schemabuilder.Expensive),
		schemabuilder.SortField("rank", spSort("rank")),
		schemabuilder.SortField("rankExp", spSort("rankExp"), schemabuilder.Expensive))
	h.FieldFunc("external", func(ctx context.Context, h *spHolder, args spExtArgs) ([]*spItem, schemabuilder.PaginationInfo, schemabuilder.PostProcessOptions, error) {
		info := schemabuilder.PaginationInfo{TotalCountFunc: func() int64 { return args.N }, HasNextPage: args.First != nil && *args.First < args.N}
		if err := failHook(ctx, "SpHolder", h.Id, "external", false); err != nil {
			if zero(ctx) {
				return nil, schemabuilder.PaginationInfo{}, schemabuilder.PostProcessOptions{}, err
			}
			return spPage(args.N, args.First), info, schemabuilder.PostProcessOptions{}, err
		}
		return spPage(args.N, args.First), info, schemabuilder.PostProcessOptions{}, nil
	}, schemabuilder.Paginated)
	h.FieldFunc("externalPost", func(ctx context.Context, h *spHolder, args spExtArgs) ([]*spItem, schemabuilder.PaginationInfo, schemabuilder.PostProcessOptions, error) {
		opts := schemabuilder.PostProcessOptions{SetPageInfo: true}
		if err := failHook(ctx, "SpHolder", h.Id, "externalPost", false); err != nil {
			if zero(ctx) {
				return nil, schemabuilder.PaginationInfo{}, schemabuilder.PostProcessOptions{}, err
			}
			return spItems(args.N), schemabuilder.PaginationInfo{}, opts, err
		}
		return spItems(args.N), schemabuilder.PaginationInfo{}, opts, nil
	}, schemabuilder.Paginated)
	it := s.Object("SpItem", spItem{})
	it.Key("id")
	it.FieldFunc("detail", func(ctx context.Context, it *spItem) (string, error) {
		if err := failHook(ctx, "SpItem", it.Id, "detail", false); err != nil {
			return "", err
		}
		return fmt.Sprintf("detail-%d", it.Id), nil
	})
	// field funcs that return nothing but an error (Boolean fields), one object
	// at a time and as batch functions
	it.FieldFunc("ok", func(ctx context.Context, it *spItem) error {
		return failHook(ctx, "SpItem", it.Id, "ok", false)
	})
	okBatch := func(field string) func(ctx context.Context, items map[batch.Index]*spItem) error {
		return func(ctx context.Context, items map[batch.Index]*spItem) error {
			ids := make([]int, 0, len(items))
			for _, it := range items {
				ids = append(ids, int(it.Id))
			}
			sort.Ints(ids)
			for _, id := range ids {
				if err := failHook(ctx, "SpItem", int64(id), field, true); err != nil {
					return err
				}
			}
			return nil
		}
	}
	it.BatchFieldFunc("okBatch", okBatch("okBatch"))
	it.BatchFieldFuncWithFallback("okFallback", okBatch("okFallback"), func(ctx context.Context, it *spItem) error {
		return failHook(ctx, "SpItem", it.Id, "okFallback", false)
	}, func(ctx context.Context) bool { b, _ := ctx.Value(spZeroKey{}).(bool); return b })
	it.FieldFunc("heavy", func(ctx context.Context, it *spItem) (string, error) {
		if err := failHook(ctx, "SpItem", it.Id, "heavy", false); err != nil {
			return "", err
		}
		return fmt.Sprintf("heavy-%d", it.Id), nil
	}, schemabuilder.Expensive)
	return s.Build()
}

// makeSpecialScenario builds one query (or mutation) over the special schema,
// its sequential resolution trace, and a failure plan.
func makeSpecialScenario(r *rand.Rand) (*scenario, bool, bool) {
	sc := &scenario{w: gen.NewWorld(1, 1, 1), plan: &plan{res: reactive.NewResource()}, vars: map[string]interface{}{}}
	mutation := r.Intn(5) == 0
	zero := r.Intn(2) == 0
	alias := func(name string) (string, string) { // text prefix, response key
		if r.Intn(2) == 0 {
			a := fmt.Sprintf("%s_%d", name[:1], r.Intn(90)+10)
			return a + ": ", a
		}
		return "", name
	}
	var b strings.Builder
	// blockers[k]: trace entries that must have succeeded for entry k to run
	var blockers [][]int
	add := func(deps []int, typ string, id int64, field string, path ...string) int {
		sc.trace = append(sc.trace, gen.Resolution{Type: typ, ID: id, Field: field, Path: append([]string{}, path...)})
		blockers = append(blockers, append([]int{}, deps...))
		return len(sc.trace) - 1
	}
	itemSel := func(deps []int, base []string, ids []int64) string {
		da, dk := alias("detail")
		out := "id " + da + "detail"
		heavy := r.Intn(2) == 0
		var hk string
		if heavy {
			var ha string
			ha, hk = alias("heavy")
			if hk == dk {
				ha, hk = "hv: ", "hv"
			}
			out += " " + ha + "heavy"
		}
		var oks []string
		for _, f := range []string{"ok", "okBatch", "okFallback"} {
			if r.Intn(3) == 0 {
				oks = append(oks, f)
				out += " " + f
			}
		}
		for k, id := range ids {
			p := append(append([]string{}, base...), "edges", fmt.Sprint(k), "node")
			add(deps, "SpItem", id, "detail", append(p, dk)...)
			if heavy {
				add(deps, "SpItem", id, "heavy", append(p, hk)...)
			}
			for _, f := range oks {
				add(deps, "SpItem", id, f, append(p, f)...)
			}
		}
		return out
	}
	conn := func(parent int, base []string, hid int64) {
		n := int64(r.Intn(6))
		first := int64(1 + r.Intn(4))
		names := []string{"managed", "managed", "external", "externalPost"}
		name := names[r.Intn(len(names))]
		ap, ak := alias(name)
		path := append(append([]string{}, base...), ak)
		self := add([]int{parent}, "SpHolder", hid, name, path...)
		deps := []int{self}
		// a failing resolver that still returns its items has them filtered and
		// sorted before its own error is looked at
		fdeps := []int{self}
		if !zero {
			fdeps = []int{parent}
		}
		extra := ""
		if name == "managed" {
			// the filter functions run first, for every item; then the sort functions
			if r.Intn(2) == 0 {
				fn := []string{"label", "labelExp"}[r.Intn(2)]
				extra += fmt.Sprintf(`, filterText: "item", filterTextFields: ["%s"]`, fn)
				var mine []int
				for id := int64(1); id <= n; id++ {
					mine = append(mine, add(fdeps, "SpItem", id, "filter:"+fn, path...))
				}
				deps, fdeps = append(deps, mine...), append(fdeps, mine...)
			}
			if r.Intn(2) == 0 {
				fn := []string{"rank", "rankExp"}[r.Intn(2)]
				extra += fmt.Sprintf(`, sortBy: "%s"`, fn)
				var mine []int
				for id := int64(1); id <= n; id++ {
					mine = append(mine, add(fdeps, "SpItem", id, "sort:"+fn, path...))
				}
				deps, fdeps = append(deps, mine...), append(fdeps, mine...)
			}
		}
		cnt := n
		if first < cnt {
			cnt = first
		}
		ids := make([]int64, cnt)
		for i := range ids {
			ids[i] = int64(i + 1)
		}
		fmt.Fprintf(&b, " %s%s(first: %d, n: %d%s) { totalCount edges { node { %s } } pageInfo { hasNextPage hasPrevPage } }", ap, name, first, n, extra, itemSel(deps, path, ids))
	}
	if mutation {
		sc.shape = "mutation"
		if r.Intn(2) == 0 {
			ap, ak := alias("bump")
			add(nil, "Mutation", 0, "bump", ak)
			fmt.Fprintf(&b, "mutation { %sbump(by: %d) }", ap, r.Intn(9))
		} else {
			ap, ak := alias("make")
			root := add(nil, "Mutation", 0, "make", ak)
			fmt.Fprintf(&b, "mutation { %smake(id: 4) { id", ap)
			conn(root, []string{ak}, 4)
			b.WriteString(" } }")
		}
	} else {
		sc.shape = "query"
		ap, ak := alias("holder")
		hid := int64(1 + r.Intn(5))
		root := add(nil, "Query", 0, "holder", ak)
		fmt.Fprintf(&b, "{ %sholder(id: %d) { id", ap, hid)
		used := map[string]bool{}
		for k, nc := 0, 1+r.Intn(2); k < nc; k++ {
			before := b.Len()
			nt := len(sc.trace)
			conn(root, []string{ak}, hid)
			key := sc.trace[nt].Path[1]
			if used[key] { // same response key twice with other arguments: not a valid query
				s := b.String()[:before]
				b.Reset()
				b.WriteString(s)
				sc.trace = sc.trace[:nt]
				blockers = blockers[:nt]
				continue
			}
			used[key] = true
		}
		b.WriteString(" } }")
	}
	sc.text = b.String()
	// failure plan: 0-2 failures, mostly taken from the trace
	nf := r.Intn(3)
	for k := 0; k < nf; k++ {
		t := sc.trace[r.Intn(len(sc.trace))]
		var ids map[int64]bool
		if t.Type == "SpItem" && r.Intn(3) != 0 {
			ids = map[int64]bool{t.ID: true}
		}
		if r.Intn(6) == 0 { // off path
			t = gen.Resolution{Type: "SpItem", Field: "detail"}
			ids = map[int64]bool{99: true}
		}
		f := newFailure(r, k, t.Type, t.Field, ids)
		if mutation && r.Intn(4) == 0 {
			// the resolver returns the error of a child context it cancelled itself
			f.kind, f.err = fBareCanceled, context.Canceled
		}
		sc.plan.fails = append(sc.plan.fails, f)
	}
	// a failing function stops what depends on it: only failures with an instance
	// none of whose (transitive) blockers fails count as on the path
	fails := func(k int) bool {
		for _, g := range sc.plan.fails {
			if g.matches(sc.trace[k].Type, sc.trace[k].ID, sc.trace[k].Field) {
				return true
			}
		}
		return false
	}
	var blocked func(k int) bool
	blocked = func(k int) bool {
		for _, d := range blockers[k] {
			if fails(d) || blocked(d) {
				return true
			}
		}
		return false
	}
	for _, f := range sc.plan.fails {
		for k, t := range sc.trace {
			if f.matches(t.Type, t.ID, t.Field) && !blocked(k) {
				sc.onPath = append(sc.onPath, f)
				break
			}
		}
	}
	sc.shape += fmt.Sprintf("|%d-resolutions", len(sc.trace))
	return sc, mutation, zero
}

func executeSpecial(schema *graphql.Schema, sc *scenario, p *plan, zero bool, inRerunner bool) (interface{}, error, string) {
	q, err := graphql.Parse(sc.text, sc.vars)
	if err != nil {
		return nil, err, "Parse"
	}
	root := schema.Query
	if q.Kind == "mutation" {
		root = schema.Mutation
	}
	if err := graphql.PrepareQuery(context.Background(), root, q.SelectionSet); err != nil {
		return nil, err, "PrepareQuery"
	}
	ctx := context.WithValue(withPlan(context.Background(), p), spZeroKey{}, zero)
	ex := graphql.NewExecutor(graphql.NewImmediateGoroutineScheduler())
	if !inRerunner {
		val, err := ex.Execute(ctx, root, nil, q)
		return val, err, "Execute"
	}
	type res struct {
		val interface{}
		err error
	}
	out := make(chan res, 2)
	rr := reactive.NewRerunner(ctx, func(ctx context.Context) (interface{}, error) {
		val, err := ex.Execute(ctx, root, nil, q)
		out <- res{val, err}
		return nil, fmt.Errorf("stop")
	}, 0, false)
	defer rr.Stop()
	select {
	case r := <-out:
		return r.val, r.err, "Execute"
	case <-time.After(60 * time.Second):
		return nil, nil, "timeout"
	}
}

func specialLeg(run *vlib.Run) {
	schema, err := buildSpecialSchema()
	if err != nil {
		run.Broken("special schema: " + err.Error())
		return
	}
	b := &built{name: "special-forms", schema: schema}
	n := run.N(400, 30000)
	run.Each(n, 8, func(i int) {
		caseIdx := 2000000 + i
		r := run.Rand("special", i)
		sc, mutation, zero := makeSpecialScenario(r)
		// reference: the same request without any failure
		base, berr, stage := executeSpecial(schema, sc, &plan{}, zero, false)
		if berr != nil || stage != "Execute" {
			run.Broken(fmt.Sprintf("special case %d: failure-free execution failed at %s: %v\n%s", i, stage, berr, sc.text))
			return
		}
		sc.want = vlib.Canon(base)
		kinds := ""
		for _, f := range sc.onPath {
			kinds += f.typ + "." + f.field + ":" + kindNames[f.kind] + ","
			run.Count("special_failure_on_path:"+f.typ+"."+f.field, 1)
		}
		run.Case("special|"+sc.shape+"|"+kinds+fmt.Sprint(zero), len(sc.onPath) > 0)
		run.Count("special_scenarios", 1)
		wit := map[string]interface{}{"query": sc.text, "plan": planText(sc.plan), "config": b.name, "failing_paginated_resolvers_return_zero_values": zero}
		for _, inRerunner := range []bool{false, true} {
			val, err, stage := executeSpecial(schema, sc, sc.plan, zero, inRerunner)
			wit["in_rerunner"] = inRerunner
			switch {
			case stage == "timeout":
				run.Inconclusive(fmt.Sprintf("special case %d: rerunner execution did not report within 60s", i))
			case stage != "Execute":
				wit["what"], wit["error"] = "valid query rejected at "+stage, fmt.Sprint(err)
				run.Violation(caseIdx, "", wit)
			case len(sc.onPath) == 0:
				if err != nil {
					wit["what"], wit["error"] = "no planned failure is on the selected path, yet Execute failed", err.Error()
					run.Violation(caseIdx, "", wit)
				} else if got := vlib.Canon(val); got != sc.want {
					wit["what"] = "result differs from the failure-free execution (no failure on path)"
					wit["got"], wit["want"] = vlib.Trunc(got, 2000), vlib.Trunc(sc.want, 2000)
					run.Violation(caseIdx, "", wit)
				}
			case err == nil:
				wit["what"], wit["got"] = "a resolver on the selected path fails, yet Execute returned no error", vlib.Trunc(vlib.Canon(val), 2000)
				run.Violation(caseIdx, "", wit)
			default:
				if val != nil {
					wit["what"], wit["got"] = "Execute returned an error together with (partial) data", vlib.Trunc(vlib.Canon(val), 2000)
					run.Violation(caseIdx, "", wit)
				}
				if why := sc.checkError(err, ""); why != "" {
					wit["what"], wit["error"] = why, vlib.Trunc(err.Error(), 1500)
					run.Violation(caseIdx, "", wit)
				}
			}
		}
		// over the websocket protocol (every 3rd case): subscribe, or mutate
		if i%3 != 0 {
			return
		}
		// a fresh plan: the resource of the old one was released together with
		// the stopped rerunner above (a released resource invalidates whatever
		// registers on it later)
		sc.plan = &plan{fails: sc.plan.fails, res: reactive.NewResource()}
		t0 := time.Now()
		if !mutation && i%12 == 0 {
			wsMiddlewareOverlap(run, caseIdx, sc, b, zero, 1+r.Intn(7), int64(r.Intn(50)))
		} else if mutation {
			wsMutate(run, caseIdx, sc, b, zero)
		} else {
			wsScenarioCtx(run, caseIdx, sc, b, context.WithValue(context.Background(), spZeroKey{}, zero))
		}
		if d := time.Since(t0); d > 3*time.Second && os.Getenv("C16_DEBUG") != "" {
			fmt.Printf("SLOW special case %d took %v mutation=%v zero=%v onPath=%d fails=%v runs=%d calls=%d\n  %s\n", i, d, mutation, zero, len(sc.onPath), planText(sc.plan), atomic.LoadInt64(&sc.plan.runs), atomic.LoadInt64(&sc.plan.calls), sc.text)
		}
	})
}

// wsMiddlewareOverlap serves one connection with k pass-through middlewares
// (the last one parks the subscription's first run until a mutation sent
// meanwhile has entered the same middleware) and runs a subscription and a
// mutation that overlap in time. Each must be answered as if it were alone.
func wsMiddlewareOverlap(run *vlib.Run, caseIdx int, sc *scenario, b *built, zero bool, k int, by int64) {
	sock := newFakeSocket()
	ctx, cancel := context.WithCancel(context.WithValue(context.Background(), spZeroKey{}, zero))
	defer cancel()
	mplan := &plan{}
	conn := graphql.CreateConnection(ctx, sock, b.schema, graphql.WithMinRerunInterval(time.Millisecond),
		graphql.WithMakeCtx(func(ctx context.Context) context.Context { return ctx }))
	subInside, mutInside := make(chan struct{}), make(chan struct{})
	var gateCalls, overlapped int32
	for i := 0; i < k; i++ {
		last := i == k-1
		conn.Use(func(in *graphql.ComputationInput, next graphql.MiddlewareNextFunc) *graphql.ComputationOutput {
			if in.Id == "s1" {
				in.Ctx = withPlan(in.Ctx, sc.plan)
			} else {
				in.Ctx = withPlan(in.Ctx, mplan)
			}
			if last {
				switch atomic.AddInt32(&gateCalls, 1) {
				case 1: // the subscription's first run: wait for the mutation to get here
					close(subInside)
					select {
					case <-mutInside:
						atomic.StoreInt32(&overlapped, 1)
					case <-time.After(2 * time.Second):
					}
				case 2:
					close(mutInside)
				}
			}
			return next(in)
		})
	}
	done := make(chan struct{})
	go func() { defer close(done); conn.ServeJSONSocket() }()
	defer func() {
		sock.Close()
		select {
		case <-done:
		case <-time.After(30 * time.Second):
			run.Inconclusive(fmt.Sprintf("case %d: ServeJSONSocket did not return within 30s of socket close", caseIdx))
		}
	}()
	activity := func() int64 {
		return atomic.LoadInt64(&sock.writes) + atomic.LoadInt64(&sc.plan.calls) + atomic.LoadInt64(&mplan.calls)
	}
	sock.in <- map[string]interface{}{"id": "s1", "type": "subscribe", "message": map[string]interface{}{"query": sc.text, "variables": sc.vars}}
	select {
	case <-subInside:
	case <-time.After(10 * time.Second):
		run.Inconclusive(fmt.Sprintf("case %d: the subscription's first run never reached the last middleware", caseIdx))
		return
	}
	mtext := fmt.Sprintf("mutation { bump(by: %d) }", by)
	sock.in <- map[string]interface{}{"id": "m1", "type": "mutate", "message": map[string]interface{}{"query": mtext, "variables": map[string]interface{}{}}}
	sock.in <- map[string]interface{}{"id": "e1", "type": "echo"}
	answered := func() bool {
		saw := map[string]bool{}
		for _, e := range sock.envelopes() {
			saw[e.ID] = true
		}
		return saw["e1"] && saw["m1"] && saw["s1"]
	}
	wit := map[string]interface{}{"query": sc.text, "plan": planText(sc.plan), "mutation": mtext, "config": b.name, "middlewares_registered": k}
	switch vlib.WaitCond(answered, activity, 5*time.Second, 60*time.Second) {
	case vlib.QuiescentNot:
		wit["what"], wit["envelopes"] = "overlapping subscription and mutation on a connection with middlewares: not both answered and the connection went quiet", vlib.Trunc(fmt.Sprint(sock.envelopes()), 2000)
		run.Violation(caseIdx, "", wit)
		return
	case vlib.Undecided:
		run.Inconclusive(fmt.Sprintf("case %d: overlap scenario still active at the hard deadline", caseIdx))
		return
	}
	never := func() bool { return false }
	vlib.WaitCond(never, activity, 20*time.Millisecond, 60*time.Second)
	envs := sock.envelopes()
	wit["envelopes"] = vlib.Trunc(fmt.Sprint(envs), 3000)
	failing := len(sc.onPath) > 0
	run.Case(fmt.Sprintf("ws-middleware-overlap|%d|%v", k, failing), true)
	run.Count("ws_middleware_overlap_scenarios", 1)
	if atomic.LoadInt32(&overlapped) == 1 {
		run.Count("ws_middleware_overlap_achieved", 1)
	}
	var sErr, sUpd, mRes, mErr int
	var client interface{} = vlib.Undefined{}
	for _, e := range envs {
		switch {
		case e.ID == "s1" && e.Type == "error":
			sErr++
			var msg string
			_ = json.Unmarshal(e.Message, &msg)
			if why := checkClientMessage(sc, msg, string(e.Message)); why != "" {
				wit["what"], wit["message"] = why, msg
				run.Violation(caseIdx, "", wit)
			}
		case e.ID == "s1" && e.Type == "update":
			sUpd++
			var delta interface{}
			if err := json.Unmarshal(e.Message, &delta); err == nil {
				if next, merr := vlib.MergeTS(client, delta); merr == nil {
					client = next
				}
			}
		case e.ID == "m1" && e.Type == "result":
			mRes++
			var delta interface{}
			_ = json.Unmarshal(e.Message, &delta)
			got, _ := vlib.MergeTS(vlib.Undefined{}, delta)
			if g, w := vlib.Canon(got), vlib.Canon(map[string]interface{}{"bump": by + 1}); g != w {
				wit["what"], wit["got"], wit["want"] = "the mutation's result is not its own", g, w
				run.Violation(caseIdx, "", wit)
			}
		case e.ID == "m1" && e.Type == "error":
			mErr++
		}
	}
	if mRes != 1 || mErr != 0 {
		wit["what"] = fmt.Sprintf("healthy mutation overlapping a subscription: expected exactly one result and no error, got %d result / %d error", mRes, mErr)
		run.Violation(caseIdx, "", wit)
	}
	if n := atomic.LoadInt64(&mplan.calls); n != 1 {
		wit["what"] = fmt.Sprintf("the mutation resolver ran %d times, expected once", n)
		run.Violation(caseIdx, "", wit)
	}
	if failing {
		if sErr != 1 || sUpd != 0 {
			wit["what"] = fmt.Sprintf("initially failing subscription overlapping a mutation: expected exactly one error envelope and no update, got %d error / %d update", sErr, sUpd)
			run.Violation(caseIdx, "", wit)
		}
	} else {
		var wantJ interface{}
		_ = json.Unmarshal([]byte(sc.want), &wantJ)
		if got, want := vlib.Canon(client), vlib.Canon(diff.StripKey(wantJ)); sErr != 0 || got != want {
			wit["what"] = "healthy subscription overlapping a mutation: client state differs from the query result (or an error was sent)"
			wit["client"], wit["want"] = vlib.Trunc(got, 1500), vlib.Trunc(want, 1500)
			run.Violation(caseIdx, "", wit)
		}
	}
}

// wsMutate sends the scenario as a "mutate" message: exactly one envelope must
// come back for it, a result when nothing fails, otherwise a sanitised error.
func wsMutate(run *vlib.Run, caseIdx int, sc *scenario, b *built, zero bool) {
	sock := newFakeSocket()
	ctx, cancel := context.WithCancel(context.WithValue(context.Background(), spZeroKey{}, zero))
	defer cancel()
	conn := graphql.CreateConnection(ctx, sock, b.schema,
		graphql.WithMakeCtx(func(ctx context.Context) context.Context { return withPlan(ctx, sc.plan) }))
	done := make(chan struct{})
	go func() { defer close(done); conn.ServeJSONSocket() }()
	defer func() {
		sock.Close()
		select {
		case <-done:
		case <-time.After(30 * time.Second):
			run.Inconclusive(fmt.Sprintf("case %d: ServeJSONSocket did not return within 30s of socket close", caseIdx))
		}
	}()
	activity := func() int64 { return atomic.LoadInt64(&sock.writes) + atomic.LoadInt64(&sc.plan.calls) }
	sock.in <- map[string]interface{}{"id": "m1", "type": "mutate", "message": map[string]interface{}{"query": sc.text, "variables": sc.vars}}
	sock.in <- map[string]interface{}{"id": "e1", "type": "echo"}
	answered := func() bool {
		sawEcho, sawM := false, false
		for _, e := range sock.envelopes() {
			if e.ID == "e1" && e.Type == "echo" {
				sawEcho = true
			}
			if e.ID == "m1" {
				sawM = true
			}
		}
		return sawEcho && sawM
	}
	wit := map[string]interface{}{"query": sc.text, "plan": planText(sc.plan), "config": b.name, "message_type": "mutate"}
	switch vlib.WaitCond(answered, activity, 5*time.Second, 60*time.Second) {
	case vlib.QuiescentNot:
		wit["what"], wit["envelopes"] = "mutate produced no envelope (or echo was not answered) and the connection went quiet", fmt.Sprint(sock.envelopes())
		run.Violation(caseIdx, "", wit)
		return
	case vlib.Undecided:
		run.Inconclusive(fmt.Sprintf("ws mutate case %d: no answer within the hard deadline while still active", caseIdx))
		return
	}
	never := func() bool { return false }
	vlib.WaitCond(never, activity, 20*time.Millisecond, 60*time.Second)
	envs := sock.envelopes()
	wit["envelopes"] = vlib.Trunc(fmt.Sprint(envs), 3000)
	failing := len(sc.onPath) > 0
	run.Case("ws-mutate|"+sc.shape, failing)
	run.Count("ws_mutate_scenarios", 1)
	var nRes, nErr int
	for _, e := range envs {
		if e.ID != "m1" {
			continue
		}
		switch e.Type {
		case "result":
			nRes++
			// the result is sent as a delta against nothing
			var delta, got interface{}
			_ = json.Unmarshal(e.Message, &delta)
			if next, merr := vlib.MergeTS(vlib.Undefined{}, delta); merr == nil {
				got = next
			}
			var wantJ interface{}
			_ = json.Unmarshal([]byte(sc.want), &wantJ)
			if g, w := vlib.Canon(got), vlib.Canon(diff.StripKey(wantJ)); g != w && !failing {
				wit["what"], wit["got"], wit["want"] = "mutation result differs from the failure-free execution", vlib.Trunc(g, 1500), vlib.Trunc(w, 1500)
				run.Violation(caseIdx, "", wit)
			}
		case "error":
			nErr++
			var msg string
			_ = json.Unmarshal(e.Message, &msg)
			if why := checkClientMessage(sc, msg, string(e.Message)); why != "" {
				wit["what"], wit["message"] = why, msg
				run.Violation(caseIdx, "", wit)
			}
		}
	}
	if failing && (nErr != 1 || nRes != 0) {
		wit["what"] = fmt.Sprintf("failing mutation: expected exactly one error envelope and no result, got %d error / %d result", nErr, nRes)
		run.Violation(caseIdx, "", wit)
	}
	if !failing && (nErr != 0 || nRes != 1) {
		wit["what"] = fmt.Sprintf("healthy mutation: expected exactly one result envelope and no error, got %d error / %d result", nErr, nRes)
		run.Violation(caseIdx, "", wit)
	}
}
