// Package c16 monitors property C16: a failing resolver fails the whole query
// (error, no partial data, error raised by a failing field and prefixed with
// its response path unless client-safe); over the websocket protocol only
// safe messages are forwarded.
package c16

import (
	"context"
	"encoding/json"
	"errors"
	"fmt"
	"io"
	"math/rand"
	"os"
	"strings"
	"sync"
	"sync/atomic"
	"testing"
	"time"

	"github.com/samsarahq/thunder/batch"
	"github.com/samsarahq/thunder/diff"
	"github.com/samsarahq/thunder/graphql"
	"github.com/samsarahq/thunder/reactive"
	"github.com/samsarahq/thunder/verifharness/gen"
	"github.com/samsarahq/thunder/verifharness/vlib"
)

const genericMessage = "Internal server error"

// injectedPanic prefixes the value of every deliberate resolver panic, so that
// the driver can tell a panic thunder failed to contain (process death: a
// violation) from a crash of the harness itself.
const injectedPanic = "VERIF-INJECTED-PANIC "

type failKind int

const (
	fPlain failKind = iota
	fSafe
	fClient
	fWrapSafe
	fSafeInPlain
	fPanic
	fPlainWrapsCanceled // a plain error that wraps context.Canceled (the request context is live)
	fSafeWrapsCanceled  // WrapAsSafeError around context.Canceled
	fCustomSanitized    // an application type implementing graphql.SanitizedError whose Error() differs from SanitizedError()
	fBareCanceled       // context.Canceled itself (a child context the resolver cancelled); only used for mutations: a subscription that fails this way is ended silently by design
)

// customErr is an application error type that marks itself client-safe: only
// SanitizedError() may reach a client, Error() is internal.
type customErr struct{ public, internal string }

func (e customErr) Error() string          { return e.internal }
func (e customErr) SanitizedError() string { return e.public }

var kindNames = []string{"plain", "SafeError", "ClientError", "WrapAsSafeError", "safe-wrapped-in-plain", "panic", "plain-wrapping-context.Canceled", "WrapAsSafeError(context.Canceled)", "custom-SanitizedError-type", "bare-context.Canceled"}

type failure struct {
	typ, field string
	ids        map[int64]bool // nil = every object
	kind       failKind
	token      string // unique, appears in the visible message
	secret     string // unique, must never reach a websocket client (inner / unsafe text)
	err        error  // the error value returned (nil for panic)
}

func (f *failure) matches(typ string, id int64, field string) bool {
	return f.typ == typ && f.field == field && (f.ids == nil || f.ids[id])
}

// safeMessage is the exact text a websocket client may see ("" = generic only).
func (f *failure) safeMessage() string {
	switch f.kind {
	case fSafe, fClient, fWrapSafe, fSafeWrapsCanceled, fCustomSanitized:
		return f.token
	}
	return ""
}

type plan struct {
	fails []*failure
	res   *reactive.Resource // dependency registered by root resolvers inside a rerunner
	calls int64
	// late: from the second run on, resolving (lateTyp, lateField) waits for the
	// run's deadline to pass (ignoring it), then fails. The subscription's
	// makeCtx gives re-runs a deadline.
	late               bool
	lateTyp, lateField string
	runs               int64
	lateFailures       int64
}

type planKey struct{}

func withPlan(ctx context.Context, p *plan) context.Context {
	return context.WithValue(ctx, planKey{}, p)
}

func failHook(ctx context.Context, typ string, id int64, field string, inBatch bool) error {
	p, _ := ctx.Value(planKey{}).(*plan)
	if p == nil {
		return nil
	}
	atomic.AddInt64(&p.calls, 1)
	if typ == "Query" && p.res != nil && reactive.HasRerunner(ctx) {
		reactive.AddDependency(ctx, p.res, nil)
	}
	if p.late && typ == p.lateTyp && field == p.lateField && p.res != nil && reactive.HasRerunner(ctx) {
		// the late field depends on the strobed resource itself, so its cached computation is re-run
		reactive.AddDependency(ctx, p.res, nil)
	}
	if p.late && typ == p.lateTyp && field == p.lateField && atomic.LoadInt64(&p.runs) >= 2 {
		if dl, ok := ctx.Deadline(); ok {
			if d := time.Until(dl); d > 0 {
				time.Sleep(d)
			}
			time.Sleep(3 * time.Millisecond) // outlive the deadline: user code that ignores ctx
		}
		atomic.AddInt64(&p.lateFailures, 1)
		return errors.New("late failure")
	}
	for _, f := range p.fails {
		if f.matches(typ, id, field) {
			if f.kind == fPanic {
				panic(injectedPanic + f.token)
			}
			return f.err
		}
	}
	return nil
}

func newFailure(r *rand.Rand, n int, typ, field string, ids map[int64]bool) *failure {
	f := &failure{typ: typ, field: field, ids: ids, kind: failKind(r.Intn(9))}
	f.token = fmt.Sprintf("tok%dv%d", n, r.Int63())
	f.secret = fmt.Sprintf("sec%dv%d", n, r.Int63())
	switch f.kind {
	case fPlain:
		f.err = errors.New(f.token + " " + f.secret)
	case fSafe:
		f.err = graphql.NewSafeError("%s", f.token)
	case fClient:
		f.err = graphql.NewClientError("%s", f.token)
	case fWrapSafe:
		f.err = graphql.WrapAsSafeError(errors.New(f.secret), "%s", f.token)
	case fSafeInPlain:
		f.err = fmt.Errorf("%s: %w", f.token+" "+f.secret, graphql.NewSafeError("hidden "+f.secret))
	case fPlainWrapsCanceled:
		f.err = fmt.Errorf("%s: %w", f.token+" "+f.secret, context.Canceled)
	case fSafeWrapsCanceled:
		f.err = graphql.WrapAsSafeError(context.Canceled, "%s", f.token)
	case fCustomSanitized:
		f.err = customErr{public: f.token, internal: "internal " + f.secret}
	}
	return f
}

type built struct {
	name   string
	schema *graphql.Schema
	modes  map[string]gen.Mode
}

func buildSchemas(run *vlib.Run, sd *gen.SchemaDesc) []*built {
	var out []*built
	env := &gen.Env{Fail: failHook}
	for c := 0; c < 5; c++ {
		r := run.Rand("config", c)
		b := &built{modes: map[string]gen.Mode{}}
		uniform := []gen.ModeKind{gen.MPlain, gen.MExpensive, gen.MBatch}
		for _, k := range sd.ModalFields() {
			root := strings.HasPrefix(k, "Query.")
			var m gen.Mode
			if c < 3 {
				m = gen.Mode{Kind: uniform[c]}
				if root && m.Kind == gen.MBatch {
					m = gen.Mode{Kind: gen.MPlain}
				}
			} else {
				ks := []gen.Mode{{Kind: gen.MPlain}, {Kind: gen.MExpensive}, {Kind: gen.MBatch}, {Kind: gen.MBatchFallback}, {Kind: gen.MParallel, K: 2}, {Kind: gen.MBatchParallel, K: 3}}
				m = ks[r.Intn(len(ks))]
				if root && m.Kind != gen.MExpensive {
					m = gen.Mode{Kind: gen.MPlain}
				}
			}
			b.modes[k] = m
		}
		if c < 3 {
			b.name = "uniform-" + gen.Mode{Kind: uniform[c]}.String()
		} else {
			b.name = fmt.Sprintf("mixed-%d", c)
		}
		s, err := gen.Build(sd, gen.Config{Modes: b.modes}, env).Build()
		if err != nil {
			run.Broken("schema build: " + err.Error())
			continue
		}
		b.schema = s
		out = append(out, b)
	}
	return out
}

type scenario struct {
	doc   *gen.Doc
	shape string // used when doc is nil (special_test.go)
	text  string
	vars  map[string]interface{}
	w     *gen.World
	want  string
	trace []gen.Resolution
	plan  *plan
	// failures whose (typ,id,field) occurs in the sequential trace
	onPath []*failure
}

func makeScenario(run *vlib.Run, sd *gen.SchemaDesc, i int, stream string) *scenario {
	r := run.Rand(stream, i)
	w := gen.NewWorld(uint64(r.Int63()), 4+r.Intn(10), 3+r.Intn(6))
	o := gen.DefaultGenOpts()
	o.MaxDepth = 3 + r.Intn(3)
	if r.Intn(3) == 0 {
		o = gen.MergeHeavy(o)
	}
	o.UnionSecondFragment = true
	o.UnionSelfFragment = true
	sc := &scenario{w: w, plan: &plan{res: reactive.NewResource()}}
	sc.doc = gen.Generate(r, sd, w, o)
	sc.text, sc.vars = sc.doc.Text(), sc.doc.VarsJSON()
	want, err := gen.EvalTrace(sd, sc.doc, w, func(res gen.Resolution) { sc.trace = append(sc.trace, res) })
	if err != nil {
		run.Broken(fmt.Sprintf("case %d: %v", i, err))
		return nil
	}
	sc.want = vlib.Canon(want)
	// failure plan: 0..3 failing (field, object) sets; mostly taken from the trace so they are on a selected path
	nf := r.Intn(4)
	if r.Intn(6) == 0 {
		nf = 0
	}
	for k := 0; k < nf; k++ {
		var typ, field string
		var ids map[int64]bool
		if len(sc.trace) > 0 && r.Intn(5) != 0 {
			t := sc.trace[r.Intn(len(sc.trace))]
			typ, field = t.Type, t.Field
			if t.Type != "Query" && r.Intn(3) != 0 {
				ids = map[int64]bool{t.ID: true}
				if r.Intn(3) == 0 {
					ids[int64(1+r.Intn(w.N))] = true
				}
			}
		} else { // possibly off-path
			keys := sd.ModalFields()
			k := keys[r.Intn(len(keys))]
			p := strings.SplitN(k, ".", 2)
			typ, field = p[0], p[1]
			if typ != "Query" {
				ids = map[int64]bool{int64(1 + r.Intn(w.N)): true}
			}
		}
		sc.plan.fails = append(sc.plan.fails, newFailure(r, k, typ, field, ids))
	}
	for _, f := range sc.plan.fails {
		for _, t := range sc.trace {
			if f.matches(t.Type, t.ID, t.Field) {
				sc.onPath = append(sc.onPath, f)
				break
			}
		}
	}
	return sc
}

// checkError applies the Execute-side oracle to a returned error. It returns
// "" when the error is acceptable.
func (sc *scenario) checkError(err error, opName string) string {
	text := err.Error()
	// several planned failures may carry the same error value (context.Canceled
	// itself): the error is acceptable if it fits ANY of them
	misprefixed := ""
	for _, f := range sc.onPath {
		switch f.kind {
		case fSafe, fClient, fWrapSafe, fSafeWrapsCanceled:
			if _, ok := err.(graphql.SanitizedError); ok && text == f.token {
				return ""
			}
			continue
		case fCustomSanitized:
			if se, ok := err.(graphql.SanitizedError); ok && se.SanitizedError() == f.token && err == f.err {
				return ""
			}
			continue
		}
		// plain / safe-in-plain / panic: "<response path>: <inner message>"
		var inner string
		switch f.kind {
		case fPanic:
			inner = "graphql: panic: " + injectedPanic + f.token
		default:
			inner = f.err.Error()
		}
		idx := strings.Index(text, ": "+inner)
		if idx < 0 {
			continue
		}
		if f.kind != fPanic {
			if c := graphql.ErrorCause(err); c != f.err {
				continue
			}
			if text[idx+2:] != inner {
				continue
			}
		}
		toks := strings.FieldsFunc(text[:idx], func(c rune) bool { return c == '.' || c == '/' || c == ' ' || c == '[' || c == ']' })
		for _, t := range sc.trace {
			if t.Type != f.typ || t.Field != f.field {
				continue
			}
			if pathEq(toks, t.Path) || (opName != "" && len(toks) > 0 && toks[0] == opName && pathEq(toks[1:], t.Path)) {
				return ""
			}
		}
		if misprefixed == "" {
			misprefixed = fmt.Sprintf("error of failing field %s.%s is not prefixed with the response path of an instance of that field: prefix %q", f.typ, f.field, text[:idx])
		}
	}
	if misprefixed != "" {
		return misprefixed
	}
	return "error is not one raised by a failing field on a selected path"
}

func pathEq(a, b []string) bool {
	if len(a) != len(b) {
		return false
	}
	for i := range a {
		if a[i] != b[i] {
			return false
		}
	}
	return true
}

func planText(p *plan) []string {
	var out []string
	for _, f := range p.fails {
		ids := "every object"
		if f.ids != nil {
			ids = fmt.Sprint(f.ids)
		}
		out = append(out, fmt.Sprintf("%s.%s on %s fails with %s (%s)", f.typ, f.field, ids, kindNames[f.kind], f.token))
	}
	return out
}

func TestCheck(t *testing.T) {
	run := vlib.Start(t, "C16", "exploration")
	defer run.Finish()
	reactive.WriteThenReadDelay = 0
	sd := gen.Zoo()
	run.Rule("queries generated over the zoo schema; a seeded failure plan makes 0-3 (type, field, object-set) resolutions fail with plain error / SafeError / ClientError / WrapAsSafeError / safe wrapped in plain / panic, mostly on the selected path; " +
		"executed under 5 mode configurations (plain, Expensive, batch, mixed incl. fallback/parallel) x schedulers, bare and inside a Rerunner. Execute oracle: failing resolution on the sequential trace => (nil, err), err raised by a planned failure, sanitised errors unprefixed, others prefixed with the response path of an instance of that field; no failure on the trace => result equals the reference. " +
		"A second schema adds the resolver forms the zoo lacks - paginated field funcs managed by thunder or by the resolver (failing with zero or populated return values), failing sort and filter functions (plain and Expensive), resolvers below a connection's edges, Expensive ones, error-only field funcs (plain / batch / batch with fallback), mutations (over the websocket as mutate messages, also failing with context.Canceled itself), and a subscription and a mutation overlapping on a connection with 1-7 middlewares - under the same oracles. " +
		"Websocket oracle: every error envelope is the exact safe message of a failure on the path, or the generic string (only when some failure on the path is not client-safe), and contains no unsafe token; an initially failing subscription gets exactly one error envelope, one Unsubscribe, then silence under invalidations. Non-trivial = a failure on the selected path; distinct by (query shape, failure kinds, modes of failing fields).")
	run.Assume("error path separator is not asserted (tokens split on . / space [ ])")
	schemas := buildSchemas(run, sd)
	if len(schemas) == 0 {
		return
	}
	scheds := gen.Schedulers()
	n := run.N(600, 90000)
	run.Each(n, 8, func(i int) {
		sc := makeScenario(run, sd, i, "exec")
		if sc == nil {
			return
		}
		kinds := ""
		for _, f := range sc.onPath {
			kinds += kindNames[f.kind] + ","
			run.Count("failure_kind_on_path:"+kindNames[f.kind], 1)
		}
		run.Case(sc.doc.Shape()+"|"+kinds, len(sc.onPath) > 0)
		if len(sc.onPath) == 0 {
			run.Count("scenarios_without_failure_on_path", 1)
		}
		if run.WantSample() && len(sc.onPath) > 1 {
			run.Sample(map[string]interface{}{"query": sc.text, "variables": sc.vars, "plan": planText(sc.plan)})
		}
		for bi, b := range schemas {
			s := (i + bi) % len(scheds)
			for _, inRerunner := range []bool{false, true} {
				if inRerunner && (i+bi)%3 != 0 {
					continue
				}
				val, err, stage := execute(b.schema, scheds[s].New(int64(i)), sc, inRerunner)
				wit := map[string]interface{}{"query": sc.text, "variables": sc.vars, "plan": planText(sc.plan), "config": b.name, "scheduler": scheds[s].Name,
					"in_rerunner": inRerunner, "stage": stage, "world": map[string]interface{}{"seed": sc.w.Seed, "n": sc.w.N, "m": sc.w.M}}
				for _, f := range sc.plan.fails {
					wit["mode:"+f.typ+"."+f.field] = b.modes[f.typ+"."+f.field].String()
				}
				if stage == "timeout" {
					run.Inconclusive(fmt.Sprintf("case %d: rerunner execution did not report within 60s", i))
					continue
				}
				if stage != "Execute" {
					wit["what"] = "valid query rejected at " + stage
					wit["error"] = fmt.Sprint(err)
					run.Violation(i, "", wit)
					continue
				}
				if len(sc.onPath) == 0 {
					if err != nil {
						wit["what"] = "no planned failure is on the selected path, yet Execute failed"
						wit["error"] = err.Error()
						run.Violation(i, "", wit)
					} else if got := vlib.Canon(val); got != sc.want {
						wit["what"] = "result differs from reference (no failure on path)"
						wit["got"], wit["want"] = vlib.Trunc(got, 2000), vlib.Trunc(sc.want, 2000)
						run.Violation(i, "", wit)
					}
					continue
				}
				if err == nil {
					wit["what"] = "a resolver on the selected path fails, yet Execute returned no error"
					wit["got"] = vlib.Trunc(vlib.Canon(val), 2000)
					run.Violation(i, "", wit)
					continue
				}
				if val != nil {
					wit["what"] = "Execute returned an error together with (partial) data"
					wit["got"] = vlib.Trunc(vlib.Canon(val), 2000)
					run.Violation(i, "", wit)
				}
				if why := sc.checkError(err, sc.doc.OpName); why != "" {
					wit["what"] = why
					wit["error"] = vlib.Trunc(err.Error(), 1500)
					run.Violation(i, "", wit)
				}
			}
		}
	})

	// ---- websocket part ----
	nw := run.N(120, 10000)
	run.Each(nw, 4, func(i int) {
		sc := makeScenario(run, sd, i, "ws")
		if sc == nil {
			return
		}
		b := schemas[i%len(schemas)]
		if i%3 == 0 && len(sc.onPath) == 0 && len(schemas) > 1 {
			// a resolver of an Expensive field that, on re-runs, outlives the run's deadline and then fails
			var cands []gen.Resolution
			for _, t := range sc.trace {
				if t.Type != "Query" {
					cands = append(cands, t)
				}
			}
			if len(cands) > 0 {
				t := cands[i/3%len(cands)]
				sc.plan.late, sc.plan.lateTyp, sc.plan.lateField = true, t.Type, t.Field
				b = schemas[1] // uniform-expensive
			}
		}
		wsScenario(run, 1000000+i, sc, b)
	})

	// ---- resolver forms outside the zoo: paginated field funcs, mutations ----
	specialLeg(run)
}

func execute(schema *graphql.Schema, sched graphql.WorkScheduler, sc *scenario, inRerunner bool) (interface{}, error, string) {
	q, err := graphql.Parse(sc.text, sc.vars)
	if err != nil {
		return nil, err, "Parse"
	}
	if err := graphql.PrepareQuery(context.Background(), schema.Query, q.SelectionSet); err != nil {
		return nil, err, "PrepareQuery"
	}
	ctx := withPlan(gen.WithUseBatch(gen.WithWorld(context.Background(), sc.w), true), sc.plan)
	ex := graphql.NewExecutor(sched)
	if !inRerunner {
		val, err := ex.Execute(ctx, schema.Query, nil, q)
		return val, err, "Execute"
	}
	type res struct {
		val interface{}
		err error
	}
	out := make(chan res, 2)
	rr := reactive.NewRerunner(ctx, func(ctx context.Context) (interface{}, error) {
		ctx = batch.WithBatching(ctx)
		val, err := ex.Execute(ctx, schema.Query, nil, q)
		out <- res{val, err}
		return nil, errors.New("stop")
	}, 0, false)
	defer rr.Stop()
	select {
	case r := <-out:
		return r.val, r.err, "Execute"
	case <-time.After(60 * time.Second):
		return nil, nil, "timeout"
	}
}

// ---- minimal scripted websocket ----

type envelope struct {
	ID      string          `json:"id"`
	Type    string          `json:"type"`
	Message json.RawMessage `json:"message"`
}

type fakeSocket struct {
	in     chan interface{}
	mu     sync.Mutex
	out    []envelope
	writes int64
	closed chan struct{}
	once   sync.Once
}

func newFakeSocket() *fakeSocket {
	return &fakeSocket{in: make(chan interface{}, 16), closed: make(chan struct{})}
}

func (s *fakeSocket) ReadJSON(v interface{}) error {
	select {
	case m := <-s.in:
		b, _ := json.Marshal(m)
		return json.Unmarshal(b, v)
	case <-s.closed:
		return io.EOF
	}
}

func (s *fakeSocket) WriteJSON(v interface{}) error {
	b, err := json.Marshal(v)
	if err != nil {
		return err
	}
	var e envelope
	if err := json.Unmarshal(b, &e); err != nil {
		return err
	}
	s.mu.Lock()
	s.out = append(s.out, e)
	s.mu.Unlock()
	atomic.AddInt64(&s.writes, 1)
	return nil
}

func (s *fakeSocket) Close() error {
	s.once.Do(func() { close(s.closed) })
	return nil
}

func (s *fakeSocket) envelopes() []envelope {
	s.mu.Lock()
	defer s.mu.Unlock()
	return append([]envelope{}, s.out...)
}

type subLogger struct {
	mu     sync.Mutex
	subs   map[string]int
	unsubs map[string]int
	events int64
}

func (l *subLogger) Subscribe(ctx context.Context, id string, tags map[string]string) {
	l.mu.Lock()
	l.subs[id]++
	l.mu.Unlock()
	atomic.AddInt64(&l.events, 1)
}
func (l *subLogger) Unsubscribe(ctx context.Context, id string) {
	l.mu.Lock()
	l.unsubs[id]++
	l.mu.Unlock()
	atomic.AddInt64(&l.events, 1)
}

func (sc *scenario) shapeText() string {
	if sc.doc != nil {
		return sc.doc.Shape()
	}
	return sc.shape
}

// checkClientMessage applies the websocket oracle to one error message: it is
// the exact message of a planned client-safe failure on the path, or the
// generic message - the latter only if some failure on the path is not
// client-safe - and no text of a non-safe error occurs in the raw envelope.
func checkClientMessage(sc *scenario, msg, raw string) string {
	ok, allSafe := false, len(sc.onPath) > 0
	for _, f := range sc.onPath {
		sm := f.safeMessage()
		if sm == "" {
			allSafe = false
		} else if msg == sm {
			ok = true
		}
	}
	if msg == genericMessage && !allSafe {
		ok = true
	}
	if !ok {
		if msg == genericMessage {
			return "every failing resolver on the path raises a client-safe error, yet the client got the generic message instead of a safe one"
		}
		return "error envelope is neither the exact message of a planned safe error nor the generic message"
	}
	for _, f := range sc.plan.fails {
		if strings.Contains(raw, f.secret) || (f.safeMessage() == "" && strings.Contains(raw, f.token)) {
			return "error envelope leaks text of an error that is not marked client-safe"
		}
	}
	return ""
}

func wsScenario(run *vlib.Run, caseIdx int, sc *scenario, b *built) {
	wsScenarioCtx(run, caseIdx, sc, b, context.Background())
}

func wsScenarioCtx(run *vlib.Run, caseIdx int, sc *scenario, b *built, parent context.Context) {
	sock := newFakeSocket()
	lg := &subLogger{subs: map[string]int{}, unsubs: map[string]int{}}
	base := gen.WithUseBatch(gen.WithWorld(parent, sc.w), true)
	ctx, cancel := context.WithCancel(base)
	defer cancel()
	conn := graphql.CreateConnection(ctx, sock, b.schema,
		graphql.WithMinRerunInterval(time.Millisecond),
		graphql.WithSubscriptionLogger(lg),
		graphql.WithMakeCtx(func(ctx context.Context) context.Context {
			n := atomic.AddInt64(&sc.plan.runs, 1)
			ctx = withPlan(ctx, sc.plan)
			if sc.plan.late && n >= 2 {
				var cancel context.CancelFunc
				ctx, cancel = context.WithTimeout(ctx, 5*time.Millisecond)
				time.AfterFunc(time.Second, cancel) // released after the deadline has long fired
			}
			return ctx
		}))
	done := make(chan struct{})
	go func() { defer close(done); conn.ServeJSONSocket() }()
	defer func() {
		sock.Close()
		select {
		case <-done:
		case <-time.After(30 * time.Second):
			run.Inconclusive(fmt.Sprintf("case %d: ServeJSONSocket did not return within 30s of socket close", caseIdx))
		}
	}()

	activity := func() int64 {
		return atomic.LoadInt64(&sock.writes) + atomic.LoadInt64(&sc.plan.calls) + atomic.LoadInt64(&lg.events)
	}
	sock.in <- map[string]interface{}{"id": "s1", "type": "subscribe", "message": map[string]interface{}{"query": sc.text, "variables": sc.vars}}
	sock.in <- map[string]interface{}{"id": "e1", "type": "echo"}
	first := func() bool {
		sawEcho, sawS1 := false, false
		for _, e := range sock.envelopes() {
			if e.ID == "e1" && e.Type == "echo" {
				sawEcho = true
			}
			if e.ID == "s1" {
				sawS1 = true
			}
		}
		return sawEcho && sawS1
	}
	switch vlib.WaitCond(first, activity, 5*time.Second, 60*time.Second) {
	case vlib.QuiescentNot:
		run.Violation(caseIdx, "", map[string]interface{}{"what": "subscription produced no envelope (or echo was not answered) and the connection went quiet", "query": sc.text, "variables": sc.vars, "plan": planText(sc.plan), "config": b.name, "envelopes": fmt.Sprint(sock.envelopes()), "stacks": vlib.Trunc(vlib.Stacks(), 6000)})
		return
	case vlib.Undecided:
		run.Inconclusive(fmt.Sprintf("ws case %d: no first envelope within the hard deadline while still active", caseIdx))
		return
	}
	failing := len(sc.onPath) > 0
	// stimulate: strobe the dependency a few times, then wait for quiet
	for k := 0; k < 3; k++ {
		sc.plan.res.Strobe()
		time.Sleep(3 * time.Millisecond)
	}
	// quiescence: activity stable across the classifier's samples
	never := func() bool { return false }
	out := vlib.WaitCond(never, activity, 20*time.Millisecond, 60*time.Second)
	if out == vlib.Undecided && failing {
		run.Inconclusive(fmt.Sprintf("ws case %d: failing subscription still active at the hard deadline", caseIdx))
		return
	}
	envs := sock.envelopes()
	wit := map[string]interface{}{"query": sc.text, "variables": sc.vars, "plan": planText(sc.plan), "config": b.name, "envelopes": vlib.Trunc(fmt.Sprint(envs), 3000)}
	kinds := ""
	for _, f := range sc.onPath {
		kinds += kindNames[f.kind] + ","
	}
	run.Case("ws|"+sc.shapeText()+"|"+kinds, failing)
	run.Count("ws_scenarios", 1)
	var nErr, nUpd int
	var client interface{} = vlib.Undefined{}
	for _, e := range envs {
		if e.ID != "s1" {
			continue
		}
		if e.Type == "update" {
			var delta interface{}
			if err := json.Unmarshal(e.Message, &delta); err == nil {
				if next, merr := vlib.MergeTS(client, delta); merr == nil {
					client = next
				}
			}
		}
		switch e.Type {
		case "error":
			nErr++
			var msg string
			_ = json.Unmarshal(e.Message, &msg)
			if why := checkClientMessage(sc, msg, string(e.Message)); why != "" {
				wit["what"] = why
				wit["message"] = msg
				run.Violation(caseIdx, "", wit)
			}
		case "update":
			nUpd++
		}
	}
	lg.mu.Lock()
	subs, unsubs := lg.subs["s1"], lg.unsubs["s1"]
	lg.mu.Unlock()
	if failing {
		run.Count("ws_failing_subscriptions", 1)
		if nErr != 1 || nUpd != 0 {
			wit["what"] = fmt.Sprintf("initially failing subscription: expected exactly one error envelope and no update, got %d error / %d update", nErr, nUpd)
			run.Violation(caseIdx, "", wit)
		}
		if subs != 1 || unsubs != 1 {
			wit["what"] = fmt.Sprintf("initially failing subscription: expected Subscribe=1 Unsubscribe=1 once quiet, got %d / %d", subs, unsubs)
			run.Violation(caseIdx, "", wit)
		}
	} else {
		if nErr != 0 || nUpd < 1 {
			wit["what"] = fmt.Sprintf("healthy subscription: expected updates and no error, got %d error / %d update", nErr, nUpd)
			run.Violation(caseIdx, "", wit)
		}
		// no partial data: whatever was sent must fold to the complete result
		// (the data never changes; failing re-runs are retried, not sent)
		var wantJ interface{}
		_ = json.Unmarshal([]byte(sc.want), &wantJ)
		if got, want := vlib.Canon(client), vlib.Canon(diff.StripKey(wantJ)); got != want {
			wit["what"] = "client state folded from the update envelopes differs from the query result although the data never changed (partial data sent)"
			wit["client"], wit["want"] = vlib.Trunc(got, 2000), vlib.Trunc(want, 2000)
			wit["late_failures"] = atomic.LoadInt64(&sc.plan.lateFailures)
			run.Violation(caseIdx, "", wit)
		}
		if sc.plan.late && os.Getenv("C16_DEBUG") != "" {
			fmt.Printf("LATE case=%d field=%s.%s runs=%d lateFailures=%d nUpd=%d envs=%s\n", caseIdx, sc.plan.lateTyp, sc.plan.lateField, atomic.LoadInt64(&sc.plan.runs), atomic.LoadInt64(&sc.plan.lateFailures), nUpd, vlib.Trunc(fmt.Sprint(envs), 300))
		}
		if sc.plan.late {
			run.Count("ws_late_failing_rerun_scenarios", 1)
			run.Count("ws_late_failures_observed", int(atomic.LoadInt64(&sc.plan.lateFailures)))
		}
	}
}
