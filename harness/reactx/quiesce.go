//go:build verif

package reactx

import (
	"regexp"
	"strings"
	"time"

	"github.com/samsarahq/thunder/verifharness/vlib"
)

var goroutineHeader = regexp.MustCompile(`^goroutine \d+ \[([^\],]+)`)

// parkedStates are goroutine states in which a goroutine cannot make progress
// by itself. Everything else (running, runnable, sleep, syscall, ...) means
// the goroutine is still on its way, however long the OS keeps it waiting.
var parkedStates = []string{"chan receive", "chan send", "select", "semacquire", "sync.", "IO wait"}

// busyThunderGoroutines counts goroutines with a thunder frame (this includes
// compute functions called by thunder) that are not parked.
func busyThunderGoroutines() (busy int, sample string) {
	for _, g := range vlib.ThunderGoroutines() {
		m := goroutineHeader.FindStringSubmatch(g)
		if m == nil {
			continue
		}
		parked := false
		for _, p := range parkedStates {
			if strings.HasPrefix(m[1], p) {
				parked = true
			}
		}
		if !parked {
			busy++
			if sample == "" {
				sample = vlib.Trunc(g, 600)
			}
		}
	}
	return
}

// waitSettled is vlib.WaitCond with a logical definition of quiescence on
// top of the counter-based one: "quiescent with the condition false" is only
// returned when, in two consecutive classification rounds (>= 0.9 s), no
// activity counter moved AND no goroutine inside thunder or inside a compute
// function was running, runnable or sleeping. A 100 us sleep at a hook point
// was observed to last > 450 ms on a machine with load average > 100; a
// goroutine that is merely slow must never be taken for a lost wake-up.
func waitSettled(cond func() bool, activity func() int64, soft, hard time.Duration) (vlib.Outcome, int) {
	start := time.Now()
	oc := vlib.WaitCond(cond, activity, soft, hard)
	confirmed, slow := 0, 0
	for oc == vlib.QuiescentNot {
		if busy, _ := busyThunderGoroutines(); busy == 0 {
			confirmed++
			if confirmed >= 2 {
				return vlib.QuiescentNot, slow
			}
		} else {
			confirmed = 0
			slow++
		}
		rem := hard - time.Since(start)
		if rem <= 0 {
			return vlib.Undecided, slow
		}
		oc = vlib.WaitCond(cond, activity, 0, rem)
	}
	return oc, slow
}
