//go:build verif

// Package reactx is the shared scenario runner and monitor behind the C04
// (no lost invalidation / no overlap / nothing after Stop) and C08 (reactive
// cache freshness, resource cleanup exactly once and not early) checks.
//
// It runs the real github.com/samsarahq/thunder/reactive code. Everything the
// monitor knows it learns at the API boundary: its own compute function (entry,
// exit, values read), its own writers (version bump, Invalidate/Strobe/Stop
// call and return) and the Cleanup callbacks it registered.
package reactx

import (
	"context"
	"fmt"
	"runtime"
	"runtime/debug"
	"sync"
	"sync/atomic"
	"time"

	"github.com/samsarahq/thunder/reactive"
	"github.com/samsarahq/thunder/verifharness/vlib"
)

// Finding is one witnessed refutation (or, with Kind "inconclusive:...", an
// undecided liveness clause) observed while a scenario ran.
type Finding struct {
	Kind   string                 `json:"kind"`
	What   string                 `json:"what"`
	Detail map[string]interface{} `json:"detail,omitempty"`
}

// Finding kinds. C04 owns overlap, run-after-stop, inflight-at-stop-return,
// lost-invalidation, livelock. C08 owns stale-output, livelock,
// double-cleanup, leak, early-cleanup.
const (
	KOverlap      = "overlap"
	KRunAfterStop = "run-after-stop"
	KInflightStop = "inflight-at-stop-return"
	KStale        = "stale-at-quiescence"
	KLivelock     = "livelock"
	KDouble       = "double-cleanup"
	KLeak         = "cleanup-never-ran"
	KEarly        = "early-cleanup"
	KInvalidDep   = "depends-on-invalidated-resource"
	KUndecided    = "inconclusive"
)

// Event is one entry of the bounded scenario history kept for witnesses.
type Event struct {
	Seq  int64  `json:"seq"`
	Kind string `json:"kind"`
	RR   int    `json:"rr,omitempty"`
	Run  int    `json:"run,omitempty"`
	Info string `json:"info,omitempty"`
}

// Tracked is a reactive.Resource created by the harness together with the
// monitor's view of it. All fields below Res are protected by World.mu.
type Tracked struct {
	ID   int
	Cell int // -1: timer twin resource
	Res  *reactive.Resource

	added       bool // AddDependency was (about to be) called with it at least once
	invalidated bool // the harness called (is about to call) Invalidate on it
	strobed     bool
	cleanups    int
	stacks      []string

	holds    int  // monitor-alive instances that registered it directly
	everZero bool // holds dropped to zero after having been positive
}

// inst is the monitor's shadow of one thunder computation: a root run of a
// rerunner or one execution of a cached child's compute function. Its
// monitor-lifetime is contained in the lifetime of the real computation node:
// it is declared dead *before* thunder can release the real node.
type inst struct {
	id          int
	kind        string
	rr, run     int
	name        string
	holds       []*Tracked
	adopted     []*inst
	adopters    int
	everAdopted bool
	dead        bool
}

// ReadRec says that version Ver of cell Cell was read after registering
// resource Res.
type ReadRec struct {
	Cell int   `json:"cell"`
	Ver  int64 `json:"ver"`
	Res  int   `json:"res"`
}

// Out is the (immutable once returned) value of a computation. It embeds the
// versions it read and the values of the cached children it used.
type Out struct {
	Node   string    `json:"node"`
	ByRun  int       `json:"by_run"`
	Reads  []ReadRec `json:"reads,omitempty"`
	Timers []int     `json:"timers,omitempty"`
	Kids   []*Out    `json:"kids,omitempty"`

	inst *inst
}

// Flatten returns every read embedded in o, directly or through children.
func (o *Out) Flatten() []ReadRec {
	var out []ReadRec
	var walk func(o *Out)
	walk = func(o *Out) {
		if o == nil {
			return
		}
		out = append(out, o.Reads...)
		for _, k := range o.Kids {
			walk(k)
		}
	}
	walk(o)
	return out
}

// gate is a harness-level barrier in front of AddDependency: while armed,
// readers that have already picked the cell's current resource park here; a
// storm write swaps the resource and releases them at the very moment it calls
// Invalidate on the resource they are about to register.
type gate struct {
	mu      sync.Mutex
	armed   bool
	waiting int
	ch      chan struct{}
	fire    *int32 // woken readers spin on it (<= 200 us) so that they leave together
}

func (g *gate) park(max time.Duration) {
	g.mu.Lock()
	if !g.armed {
		g.mu.Unlock()
		return
	}
	g.waiting++
	ch, fire := g.ch, g.fire
	g.mu.Unlock()
	t := time.NewTimer(max)
	select {
	case <-ch:
		// fire is already set in the "staggered" variants
		for t0 := time.Now(); atomic.LoadInt32(fire) == 0 && time.Since(t0) < 200*time.Microsecond; {
		}
	case <-t.C:
		g.mu.Lock()
		if g.ch == ch && g.armed {
			g.waiting--
		}
		g.mu.Unlock()
	}
	t.Stop()
}

func (g *gate) arm() {
	g.mu.Lock()
	g.armed, g.waiting, g.ch, g.fire = true, 0, make(chan struct{}), new(int32)
	g.mu.Unlock()
}

func (g *gate) parked() int {
	g.mu.Lock()
	defer g.mu.Unlock()
	return g.waiting
}

// release wakes the parked readers; they then spin until *fire is set.
func (g *gate) release() (int, *int32) {
	g.mu.Lock()
	defer g.mu.Unlock()
	if !g.armed {
		return 0, new(int32)
	}
	g.armed = false
	close(g.ch)
	return g.waiting, g.fire
}

// Cell is a versioned value guarded by a reactive.Resource. Readers register
// the dependency and THEN read the version; writers bump the version and THEN
// invalidate (replacing the resource) or strobe (keeping it).
type Cell struct {
	w   *World
	Idx int

	mu  sync.Mutex
	ver int64
	cur *Tracked

	// Pair: the cell follows the fetch-then-register discipline instead:
	// readers fetch (version, resource) as one atomic pair and THEN register
	// that resource; this is only correct when every write replaces the
	// resource and permanently invalidates the old one, so writes to a Pair
	// cell are always invalidate-style (never Strobe).
	Pair bool

	gate gate
}

// RunRec is what the monitor keeps about one run of a rerunner.
type RunRec struct {
	ID      int       `json:"id"`
	Outcome string    `json:"outcome"`
	Reads   []ReadRec `json:"reads"`
	Entry   int64     `json:"entry_seq"`
	Exit    int64     `json:"exit_seq"`
	out     *Out
}

// RR is one rerunner under observation.
type RR struct {
	w    *World
	Idx  int
	Spec *RRSpec
	R    *reactive.Rerunner

	started chan struct{} // closed once R is set (the first run may reach hook points before NewRerunner returns)

	// protected by World.mu
	runs         int
	inflight     int
	stopCalled   bool
	stopReturned bool
	fatal        bool
	lastOK       *RunRec
	lastCtx      context.Context
	runsAtMark   int
	cur          *inst
	recent       []*RunRec
	overlapped   bool
	parked       bool // the HoldRun-th run is waiting at the gate

	holdCh   chan struct{}
	holdOnce sync.Once
}

// World is one scenario's state: cells, rerunners, tracked resources, the
// monitor and the bounded history.
type World struct {
	mu       sync.Mutex
	Cells    []*Cell
	RRs      []*RR
	tracked  []*Tracked
	findings []Finding
	hist     []Event
	seq      int64
	nextInst int

	late sync.WaitGroup // goroutines spawned by compute functions that outlive their run

	pendingActs int32 // injected actions in progress (atomic)

	act int64 // activity counter (atomic): compute entries, writes, cleanups, stops

	// statistics, protected by mu
	Stats map[string]int

	writesWhileRunning int
}

const histMax = 400

func NewWorld(ncells int) *World {
	w := &World{Stats: map[string]int{}}
	for i := 0; i < ncells; i++ {
		c := &Cell{w: w, Idx: i, ver: 1}
		c.cur = w.newTracked(i, nil)
		w.Cells = append(w.Cells, c)
	}
	return w
}

// Activity is a monotone counter of everything the harness itself does.
func (w *World) Activity() int64 { return atomic.LoadInt64(&w.act) }

func (w *World) bump() { atomic.AddInt64(&w.act, 1) }

// logLocked appends to the history. Caller holds w.mu.
func (w *World) logLocked(kind string, rr, run int, info string) int64 {
	w.seq++
	e := Event{Seq: w.seq, Kind: kind, RR: rr, Run: run, Info: info}
	if len(w.hist) >= histMax {
		copy(w.hist, w.hist[1:])
		w.hist[len(w.hist)-1] = e
	} else {
		w.hist = append(w.hist, e)
	}
	return w.seq
}

func (w *World) Log(kind string, info string) {
	w.mu.Lock()
	w.logLocked(kind, -1, 0, info)
	w.mu.Unlock()
}

// findLocked records a finding. Caller holds w.mu.
func (w *World) findLocked(kind, what string, detail map[string]interface{}) {
	if len(w.findings) >= 8 {
		return
	}
	if detail == nil {
		detail = map[string]interface{}{}
	}
	h := make([]Event, len(w.hist))
	copy(h, w.hist)
	detail["history_tail"] = h
	w.findings = append(w.findings, Finding{Kind: kind, What: what, Detail: detail})
}

// Findings returns what was found so far.
func (w *World) Findings() []Finding {
	w.mu.Lock()
	defer w.mu.Unlock()
	out := make([]Finding, len(w.findings))
	copy(out, w.findings)
	return out
}

// ---------------------------------------------------------------- resources

// newTracked makes a fresh resource with a counting Cleanup callback. extra,
// if not nil, is called with the new Tracked before Cleanup is registered and
// returns additional work for the callback (the timer twin uses it the way
// reactive.InvalidateAfter does). Must be called without harness locks held:
// Cleanup passes a hook point.
func (w *World) newTracked(cell int, extra func(tr *Tracked) func()) *Tracked {
	tr := &Tracked{Cell: cell, Res: reactive.NewResource()}
	w.mu.Lock()
	tr.ID = len(w.tracked)
	w.tracked = append(w.tracked, tr)
	w.mu.Unlock()
	var more func()
	if extra != nil {
		more = extra(tr)
	}
	tr.Res.Cleanup(func() {
		if more != nil {
			more()
		}
		w.onCleanup(tr)
	})
	return tr
}

func (w *World) onCleanup(tr *Tracked) {
	st := vlib.Trunc(string(debug.Stack()), 1800)
	w.mu.Lock()
	tr.cleanups++
	tr.stacks = append(tr.stacks, st)
	w.logLocked("cleanup", -1, 0, fmt.Sprintf("res=%d cell=%d n=%d", tr.ID, tr.Cell, tr.cleanups))
	if tr.cleanups == 2 {
		w.findLocked(KDouble, fmt.Sprintf("Cleanup callback of resource %d (cell %d) ran twice", tr.ID, tr.Cell),
			map[string]interface{}{"resource": tr.ID, "cell": tr.Cell, "stacks": tr.stacks})
	}
	if tr.cleanups == 1 {
		if !tr.added {
			w.Stats["cleanup_without_adddependency"]++
		}
		if tr.holds > 0 && !tr.everZero {
			var holders []string
			for _, rr := range w.RRs {
				holders = append(holders, w.holdersOfLocked(rr, tr)...)
			}
			w.findLocked(KEarly, fmt.Sprintf("Cleanup of resource %d (cell %d) ran while %d live computation(s) that registered it were neither superseded, failed nor stopped", tr.ID, tr.Cell, tr.holds),
				map[string]interface{}{"resource": tr.ID, "cell": tr.Cell, "harness_invalidated": tr.invalidated, "strobed": tr.strobed,
					"holders": holders, "stack": st})
		}
		if tr.holds > 0 && tr.everZero {
			w.Stats["cleanup_after_reregistration_of_released_resource"]++
		}
	}
	w.mu.Unlock()
	w.bump()
}

func (w *World) holdersOfLocked(rr *RR, tr *Tracked) []string {
	var out []string
	var walk func(in *inst, path string)
	seen := map[*inst]bool{}
	walk = func(in *inst, path string) {
		if in == nil || in.dead || seen[in] {
			return
		}
		seen[in] = true
		p := path + "/" + in.name
		for _, h := range in.holds {
			if h == tr {
				out = append(out, fmt.Sprintf("rr%d run%d %s", in.rr, in.run, p))
			}
		}
		for _, a := range in.adopted {
			walk(a, p)
		}
	}
	walk(rr.cur, "")
	return out
}

// ---------------------------------------------------------------- instances

func (w *World) newInstLocked(kind string, rr, run int, name string) *inst {
	w.nextInst++
	return &inst{id: w.nextInst, kind: kind, rr: rr, run: run, name: name}
}

// hold: instance in registered tr directly (AddDependency has returned).
func (w *World) hold(in *inst, tr *Tracked) {
	w.mu.Lock()
	if !in.dead {
		in.holds = append(in.holds, tr)
		tr.holds++
	}
	w.mu.Unlock()
}

// adopt: instance in received child's value from reactive.Cache.
func (w *World) adopt(in, child *inst) {
	w.mu.Lock()
	switch {
	case child == nil || in.dead:
	case child.dead:
		// the child may already have been released by thunder: the edge
		// carries no guarantee (thunder invalidates the adopter instead).
		w.Stats["adoption_of_possibly_released_child"]++
	default:
		child.adopters++
		child.everAdopted = true
		in.adopted = append(in.adopted, child)
	}
	w.mu.Unlock()
}

// killLocked ends the monitor-lifetime of in (idempotent). Caller holds w.mu.
func (w *World) killLocked(in *inst) {
	if in == nil || in.dead {
		return
	}
	in.dead = true
	for _, tr := range in.holds {
		tr.holds--
		if tr.holds == 0 {
			tr.everZero = true
		}
	}
	for _, ch := range in.adopted {
		ch.adopters--
		if ch.adopters == 0 {
			w.killLocked(ch)
		}
	}
}

// ---------------------------------------------------------------- cells

func (c *Cell) Version() int64 { return atomic.LoadInt64(&c.ver) }

func (c *Cell) current() *Tracked {
	c.mu.Lock()
	tr := c.cur
	c.mu.Unlock()
	c.w.mu.Lock()
	dead := tr.invalidated || tr.cleanups > 0
	c.w.mu.Unlock()
	if !dead {
		return tr
	}
	nt := c.w.newTracked(c.Idx, nil)
	c.mu.Lock()
	if c.cur == tr {
		c.cur = nt
	}
	tr = c.cur
	c.mu.Unlock()
	return tr
}

// fetchPair returns the current (resource, version) pair, read in one
// critical section (a resource thunder has already released is replaced first).
func (c *Cell) fetchPair() (*Tracked, int64) {
	for {
		c.mu.Lock()
		tr, v := c.cur, atomic.LoadInt64(&c.ver)
		c.mu.Unlock()
		c.w.mu.Lock()
		dead := tr.invalidated || tr.cleanups > 0
		c.w.mu.Unlock()
		if !dead {
			return tr, v
		}
		nt := c.w.newTracked(c.Idx, nil)
		c.mu.Lock()
		if c.cur == tr {
			c.cur = nt
		}
		c.mu.Unlock()
	}
}

// Read registers the cell's current resource with the computation in ctx and
// then reads the version; a Pair cell fetches (version, resource) first and
// then registers the resource it fetched.
func (c *Cell) Read(ctx context.Context, in *inst) ReadRec {
	var tr *Tracked
	var v int64
	if c.Pair {
		tr, v = c.fetchPair()
	} else {
		tr = c.current()
	}
	c.w.mu.Lock()
	tr.added = true
	if c.Pair {
		c.w.Stats["fetch_then_register_reads"]++
	}
	c.w.mu.Unlock()
	c.gate.park(2 * time.Millisecond)
	reactive.AddDependency(ctx, tr.Res, nil)
	c.w.hold(in, tr)
	if !c.Pair {
		v = atomic.LoadInt64(&c.ver)
	}
	return ReadRec{Cell: c.Idx, Ver: v, Res: tr.ID}
}

// premarkLocked notes, before an AddDependency that may come from an already
// released dependant (a context without rerunner, or a goroutine outliving its
// computation), that the resource has no monitored holder right now: thunder
// may then legitimately release it ("after one call to addOut, n is
// guaranteed to be eventually released"). Caller holds w.mu.
func (w *World) premarkLocked(tr *Tracked) {
	if tr.holds == 0 {
		tr.everZero = true
	}
}

// ReadPlain is a non-reactive reader: AddDependency with a context that has
// no rerunner, on the cell's current (possibly shared and live) resource.
func (c *Cell) ReadPlain() int64 {
	w := c.w
	tr := c.current()
	w.mu.Lock()
	w.premarkLocked(tr)
	w.Stats["plain_reads"]++
	if tr.holds > 0 {
		w.Stats["plain_reads_of_held_resource"]++
	}
	w.logLocked("plain-read", -1, 0, fmt.Sprintf("cell=%d res=%d holds=%d", c.Idx, tr.ID, tr.holds))
	w.mu.Unlock()
	reactive.AddDependency(context.Background(), tr.Res, nil)
	w.bump()
	return atomic.LoadInt64(&c.ver)
}

// ReadLate is AddDependency from a goroutine that outlived the computation
// in (its run has returned; the computation is superseded, failed or stopped
// and may already be released) with that computation's context.
func (c *Cell) ReadLate(ctx context.Context, in *inst) {
	w := c.w
	tr := c.current()
	w.mu.Lock()
	w.premarkLocked(tr)
	w.Stats["late_reads"]++
	if tr.holds > 0 {
		w.Stats["late_reads_of_held_resource"]++
	}
	w.logLocked("late-read", in.rr, in.run, fmt.Sprintf("cell=%d res=%d holds=%d", c.Idx, tr.ID, tr.holds))
	w.mu.Unlock()
	reactive.AddDependency(ctx, tr.Res, nil)
	// a token only if the computation is still monitor-alive (then it was
	// not released when the edge was added)
	w.hold(in, tr)
	w.bump()
}

// Write styles.
const (
	WInvalidate = "invalidate"
	WStrobe     = "strobe"
	WDouble     = "double-invalidate"
)

// Write bumps the version and then invalidates in the given style.
func (c *Cell) Write(style string) {
	w := c.w
	if c.Pair && style == WStrobe {
		style = WInvalidate
	}
	switch style {
	case WStrobe:
		c.mu.Lock()
		v := atomic.AddInt64(&c.ver, 1)
		tr := c.cur
		c.mu.Unlock()
		w.noteWrite(c, tr, style, v)
		tr.Res.Strobe()
	default:
		nt := w.newTracked(c.Idx, nil)
		c.mu.Lock()
		v := atomic.AddInt64(&c.ver, 1)
		old := c.cur
		c.cur = nt
		c.mu.Unlock()
		w.noteWrite(c, old, style, v)
		old.Res.Invalidate()
		if style == WDouble {
			old.Res.Invalidate()
		}
	}
	w.bump()
}

// StormWrite is an invalidate-style write aimed at registrations in progress:
// it arms the cell's gate, waits (pacing only) until minParked readers have
// picked the current resource and parked in front of AddDependency, bumps the
// version, swaps the resource, and then calls Invalidate on the old resource
// and opens the gate at the same moment (order by variant).
func (c *Cell) StormWrite(minParked int, maxWait time.Duration, variant int) {
	w := c.w
	c.gate.arm()
	dl := time.Now().Add(maxWait)
	for c.gate.parked() < minParked && time.Now().Before(dl) {
		time.Sleep(20 * time.Microsecond)
	}
	nt := w.newTracked(c.Idx, nil)
	c.mu.Lock()
	v := atomic.AddInt64(&c.ver, 1)
	old := c.cur
	c.cur = nt
	c.mu.Unlock()
	w.mu.Lock()
	if old.holds == 0 {
		w.Stats["storm_invalidate_of_resource_without_registered_dependant"]++
	}
	w.mu.Unlock()
	w.noteWrite(c, old, WInvalidate, v)
	if variant%2 == 0 {
		// staggered: readers leave the gate as the scheduler wakes them,
		// spread over the first microseconds of the invalidation
		atomic.StoreInt32(c.gate.fire, 1)
		old.Res.Invalidate()
		n, _ := c.gate.release()
		w.mu.Lock()
		w.Stats["storm_writes"]++
		w.Stats["registrations_released_with_an_invalidate"] += n
		w.mu.Unlock()
		w.bump()
		return
	}
	n, fire := c.gate.release()
	// give the woken readers time to get onto a P and start spinning
	for t0 := time.Now(); time.Since(t0) < time.Duration(20+10*(variant%5))*time.Microsecond; {
	}
	switch variant % 3 {
	case 0:
		old.Res.Invalidate()
		atomic.StoreInt32(fire, 1)
	case 1:
		atomic.StoreInt32(fire, 1)
		old.Res.Invalidate()
	default:
		old.Res.Invalidate()
		runtime.Gosched() // let the invalidate goroutine start first
		atomic.StoreInt32(fire, 1)
	}
	w.mu.Lock()
	w.Stats["storm_writes"]++
	w.Stats["registrations_released_with_an_invalidate"] += n
	w.mu.Unlock()
	w.bump()
}

func (w *World) noteWrite(c *Cell, tr *Tracked, style string, v int64) {
	w.mu.Lock()
	if style == WStrobe {
		tr.strobed = true
	} else {
		tr.invalidated = true
	}
	running := false
	for _, rr := range w.RRs {
		rr.runsAtMark = rr.runs
		if rr.inflight > 0 {
			running = true
		}
	}
	if running {
		w.writesWhileRunning++
	}
	w.Stats["write:"+style]++
	w.logLocked("write", -1, 0, fmt.Sprintf("cell=%d ver=%d style=%s res=%d", c.Idx, v, style, tr.ID))
	w.mu.Unlock()
	w.bump()
}

// ---------------------------------------------------------------- rerunners

// Stop stops the rerunner through the public API and checks clause (ii).
func (rr *RR) Stop() {
	w := rr.w
	<-rr.started
	w.mu.Lock()
	rr.stopCalled = true
	w.killLocked(rr.cur)
	w.logLocked("stop-call", rr.Idx, 0, "")
	w.mu.Unlock()
	w.bump()
	rr.R.Stop()
	w.mu.Lock()
	if rr.inflight != 0 {
		w.findLocked(KInflightStop, fmt.Sprintf("rerunner %d: Stop returned while %d run(s) of its compute function were in progress", rr.Idx, rr.inflight),
			map[string]interface{}{"rr": rr.Idx, "inflight": rr.inflight, "stacks": vlib.Trunc(vlib.Stacks(), 20000)})
	}
	rr.stopReturned = true
	w.logLocked("stop-return", rr.Idx, 0, "")
	w.mu.Unlock()
	w.bump()
}

// PinnedStops forces the "concurrent Stops while a run is executing" order:
// wait until the rerunner's HoldRun-th run is parked inside the compute
// function, start Stop #1 and wait until it has passed the
// rerunner.stop.cancelled hook (it is inside Stop, on its way to r.mu), start
// k-1 more Stops from other goroutines, give them a moment (pacing only),
// then release the parked run and join. The verdict is the ordinary clause
// (ii) of RR.Stop: no Stop call may return while a run is in progress.
func (rr *RR) PinnedStops(k int, stopHookVisits func() int64) {
	w := rr.w
	wait := func(max time.Duration, cond func() bool) bool {
		dl := time.Now().Add(max)
		for !cond() {
			if time.Now().After(dl) {
				return false
			}
			time.Sleep(20 * time.Microsecond)
		}
		return true
	}
	release := func() { rr.holdOnce.Do(func() { close(rr.holdCh) }) }
	parked := wait(100*time.Millisecond, func() bool {
		w.mu.Lock()
		defer w.mu.Unlock()
		return rr.parked
	})
	w.mu.Lock()
	if parked {
		w.Stats["pinned_stop_families"]++
	} else {
		w.Stats["pinned_stop_families_run_not_parked"]++
	}
	w.mu.Unlock()
	before := stopHookVisits()
	var wg sync.WaitGroup
	var returned int32
	wg.Add(1)
	go func() { defer wg.Done(); rr.Stop() }()
	wait(30*time.Millisecond, func() bool { return stopHookVisits() > before })
	for i := 1; i < k; i++ {
		wg.Add(1)
		go func() { defer wg.Done(); rr.Stop(); atomic.AddInt32(&returned, 1) }()
	}
	wait(1500*time.Microsecond, func() bool { return int(atomic.LoadInt32(&returned)) == k-1 })
	release()
	wg.Wait()
}

// Purge calls reactive.PurgeCache with the context of the rerunner's latest
// run (the only handle the API offers).
func (rr *RR) Purge() bool {
	w := rr.w
	w.mu.Lock()
	ctx := rr.lastCtx
	w.logLocked("purge", rr.Idx, 0, "")
	w.mu.Unlock()
	if ctx == nil {
		return false
	}
	reactive.PurgeCache(ctx)
	w.bump()
	return true
}

func (rr *RR) liveLocked() bool { return !rr.stopCalled && !rr.fatal }

// invalidDepsLocked lists cell resources rec registered (directly or through
// cached children) on which the harness has called Invalidate: by C04 such a
// run cannot stay the last successful run of a live rerunner.
func (w *World) invalidDepsLocked(rec *RunRec) []map[string]interface{} {
	var out []map[string]interface{}
	for _, rd := range rec.Reads {
		if rd.Res < 0 {
			continue // TTL read: nothing was registered
		}
		if tr := w.tracked[rd.Res]; tr.invalidated {
			out = append(out, map[string]interface{}{"cell": rd.Cell, "res": rd.Res, "read": rd.Ver})
		}
	}
	return out
}

// staleLocked lists reads of rec that are not the current version.
func (w *World) staleLocked(rec *RunRec) []map[string]interface{} {
	var out []map[string]interface{}
	for _, rd := range rec.Reads {
		if cur := w.Cells[rd.Cell].Version(); cur != rd.Ver {
			out = append(out, map[string]interface{}{"cell": rd.Cell, "read": rd.Ver, "current": cur, "res": rd.Res})
		}
	}
	return out
}
