//go:build verif

package reactx

import (
	"context"
	"errors"
	"fmt"
	"sync"
	"time"

	"github.com/samsarahq/thunder/reactive"
)

// ErrFatal is the non-retry error a compute function returns by plan.
var ErrFatal = errors.New("reactx: planned fatal error")

// CondLeaf reads cell Then only when the version read from cell On is even,
// so the dependency set changes from run to run.
type CondLeaf struct {
	On   int `json:"on"`
	Then int `json:"then"`
}

// PNode describes one computation: the root of a rerunner (Key == "") or a
// sub-computation memoised with reactive.Cache under Key. The same *PNode may
// appear under several parents (a cache key shared by sibling computations).
type PNode struct {
	Name   string     `json:"name"`
	Key    string     `json:"key,omitempty"`
	Leaves []int      `json:"leaves,omitempty"`
	Cond   []CondLeaf `json:"cond,omitempty"`
	Kids   []*PNode   `json:"kids,omitempty"`
	// KidOn, when not nil, has one entry per kid: -1 = always used; c >= 0 =
	// "switch": the parent reads cell c and uses (Cache-s) the kid only in
	// runs where the version it read is odd, so that a cache key drops out of
	// the computation (the child is released while possibly still cached)
	// and comes back later.
	KidOn  []int `json:"kid_on,omitempty"`
	Par    bool  `json:"par,omitempty"`      // evaluate Kids in concurrent goroutines
	AfterU int   `json:"after_us,omitempty"` // reactive.InvalidateAfter(d)
	TimerU int   `json:"timer_us,omitempty"` // harness twin of InvalidateAfter with a tracked Cleanup
	// TTL lists cells this node reads WITHOUT registering a dependency: a
	// value with a time-to-live. Only used on nodes with AfterU > 0: the
	// node's own reactive.InvalidateAfter deadline is what refreshes it.
	TTL []int `json:"ttl,omitempty"`
	// CancelAt maps a root run number to 2*(kid index+1)+mode: in that run the
	// kid is requested through reactive.Cache with a context derived from the
	// run's context that is already cancelled (mode 0) or is cancelled a few
	// microseconds into the call (mode 1); whatever error comes back is
	// tolerated (the optional child is left out of the output) and later runs
	// ask for the same key with the live context.
	CancelAt map[int]int `json:"cancel_at,omitempty"`
	// LateCell >= 1 (cell index + 1): in root runs 1..8 the node spawns a
	// goroutine that outlives the run: it waits until the monitor has seen
	// this computation superseded, failed or stopped (at most 30 ms), then
	// LateUS more, and then calls AddDependency on that cell's current
	// resource with the old computation's context.
	LateCell int `json:"late_cell_plus1,omitempty"`
	LateUS   int `json:"late_us,omitempty"`
	// Fail maps a root run number to "retry" or "fatal": when this node's
	// compute function executes as part of that run it returns the error
	// after doing its reads.
	Fail map[int]string `json:"fail,omitempty"`
	// PurgeAt: root run numbers at which this node calls reactive.PurgeCache
	// (before its children when the value is 1, after them when 2).
	PurgeAt map[int]int `json:"purge_at,omitempty"`
}

// RRSpec describes one rerunner.
type RRSpec struct {
	Plan        *PNode `json:"plan"`
	Spawn       bool   `json:"always_spawn_goroutine"`
	MinInterval int    `json:"min_rerun_interval_us"`
	// HoldRun > 0: that run of the compute function parks at a harness gate
	// (after its reads, ignoring its context, like a computation busy in a
	// call that does not watch ctx) until the pinned-stops op releases it.
	HoldRun int `json:"hold_run,omitempty"`
}

// Leafset lists every cell the plan can read (directly or through children).
func (p *PNode) Leafset() map[int]bool {
	out := map[int]bool{}
	var walk func(n *PNode, d int)
	walk = func(n *PNode, d int) {
		if d > 4 {
			return
		}
		for _, l := range n.Leaves {
			out[l] = true
		}
		for _, c := range n.Cond {
			out[c.On] = true
			out[c.Then] = true
		}
		for _, c := range n.KidOn {
			if c >= 0 {
				out[c] = true
			}
		}
		for _, c := range n.TTL {
			out[c] = true
		}
		for _, k := range n.Kids {
			walk(k, d+1)
		}
	}
	walk(p, 0)
	return out
}

// Shape is a compact structural description used for case hashing.
func (p *PNode) Shape() string {
	s := fmt.Sprintf("%s[L%d C%d", p.Key, len(p.Leaves), len(p.Cond))
	if p.Par {
		s += " par"
	}
	if p.AfterU > 0 {
		s += " after"
	}
	if p.TimerU > 0 {
		s += " timer"
	}
	if len(p.Fail) > 0 {
		s += fmt.Sprintf(" F%d", len(p.Fail))
	}
	if len(p.PurgeAt) > 0 {
		s += fmt.Sprintf(" P%d", len(p.PurgeAt))
	}
	if p.LateCell > 0 {
		s += " late"
	}
	if len(p.TTL) > 0 {
		s += " ttl"
	}
	if len(p.CancelAt) > 0 {
		s += fmt.Sprintf(" X%d", len(p.CancelAt))
	}
	for _, c := range p.KidOn {
		if c >= 0 {
			s += " sw"
		}
	}
	for _, k := range p.Kids {
		s += " " + k.Shape()
	}
	return s + "]"
}

// AddRerunner creates the monitor side of a rerunner (Start launches it).
func (w *World) AddRerunner(spec *RRSpec) *RR {
	rr := &RR{w: w, Idx: len(w.RRs), Spec: spec, started: make(chan struct{}), holdCh: make(chan struct{})}
	w.RRs = append(w.RRs, rr)
	return rr
}

// Start creates the real rerunner.
func (rr *RR) Start() {
	rr.R = reactive.NewRerunner(context.Background(), rr.compute,
		time.Duration(rr.Spec.MinInterval)*time.Microsecond, rr.Spec.Spawn)
	close(rr.started)
}

// compute is the ComputeFunc handed to thunder.
func (rr *RR) compute(ctx context.Context) (interface{}, error) {
	w := rr.w
	w.mu.Lock()
	rr.runs++
	id := rr.runs
	rr.inflight++
	rec := &RunRec{ID: id}
	rec.Entry = w.logLocked("entry", rr.Idx, id, "")
	if rr.inflight != 1 && !rr.overlapped {
		rr.overlapped = true
		w.findLocked(KOverlap, fmt.Sprintf("rerunner %d: run %d entered while %d other run(s) of the same rerunner were in progress", rr.Idx, id, rr.inflight-1),
			map[string]interface{}{"rr": rr.Idx, "run": id, "inflight": rr.inflight})
	}
	if rr.stopReturned {
		w.findLocked(KRunAfterStop, fmt.Sprintf("rerunner %d: run %d started after Stop had returned", rr.Idx, id),
			map[string]interface{}{"rr": rr.Idx, "run": id})
	}
	rr.lastCtx = ctx
	self := w.newInstLocked("run", rr.Idx, id, "root")
	w.mu.Unlock()
	w.bump()

	out, err := rr.eval(ctx, rr.Spec.Plan, id, self)

	if rr.Spec.HoldRun == id {
		w.mu.Lock()
		rr.parked = true
		w.logLocked("run-parked", rr.Idx, id, "")
		w.mu.Unlock()
		w.bump()
		t := time.NewTimer(300 * time.Millisecond) // safety net only
		select {
		case <-rr.holdCh:
		case <-t.C:
			w.mu.Lock()
			w.Stats["parked_run_released_by_safety_timeout"]++
			w.mu.Unlock()
		}
		t.Stop()
		w.mu.Lock()
		rr.parked = false
		w.logLocked("run-unparked", rr.Idx, id, "")
		w.mu.Unlock()
	}

	w.mu.Lock()
	rr.inflight--
	switch {
	case err == nil:
		rec.Outcome = "ok"
		w.Stats["runs_ok"]++
		rec.out = out
		rec.Reads = out.Flatten()
		rr.lastOK = rec
		prev := rr.cur
		rr.cur = self
		w.killLocked(prev)
		if !rr.liveLocked() {
			// stopped (or being stopped): the computation may be released
			// at any moment from now on.
			w.killLocked(self)
		}
	case err == reactive.RetrySentinelError:
		rec.Outcome = "retry"
		w.Stats["runs_retry"]++
		w.killLocked(self)
	default:
		rec.Outcome = "fatal:" + err.Error()
		rr.fatal = true
		w.Stats["runs_fatal"]++
		w.killLocked(self)
		w.killLocked(rr.cur)
	}
	rec.Exit = w.logLocked("exit", rr.Idx, id, rec.Outcome+" "+readsString(rec.Reads))
	rr.recent = append(rr.recent, rec)
	if len(rr.recent) > 6 {
		rr.recent = rr.recent[1:]
	}
	w.mu.Unlock()
	w.bump()
	if err != nil {
		return nil, err
	}
	return out, nil
}

func readsString(rs []ReadRec) string {
	s := ""
	for _, r := range rs {
		s += fmt.Sprintf("c%d@%d ", r.Cell, r.Ver)
	}
	return s
}

// eval executes one plan node as instance self.
func (rr *RR) eval(ctx context.Context, n *PNode, runID int, self *inst) (*Out, error) {
	w := rr.w
	out := &Out{Node: n.Name, ByRun: runID, inst: self}
	if n.PurgeAt[runID] == 1 {
		reactive.PurgeCache(ctx)
		w.Log("purge-in-run", fmt.Sprintf("rr=%d run=%d node=%s before kids", rr.Idx, runID, n.Name))
	}
	for _, l := range n.Leaves {
		out.Reads = append(out.Reads, w.Cells[l].Read(ctx, self))
	}
	for _, c := range n.Cond {
		on := w.Cells[c.On].Read(ctx, self)
		out.Reads = append(out.Reads, on)
		if on.Ver%2 == 0 {
			out.Reads = append(out.Reads, w.Cells[c.Then].Read(ctx, self))
		}
	}
	if n.LateCell > 0 && runID <= 8 {
		w.late.Add(1)
		go func() {
			defer w.late.Done()
			dl := time.Now().Add(30 * time.Millisecond)
			for time.Now().Before(dl) {
				w.mu.Lock()
				dead := self.dead
				w.mu.Unlock()
				if dead {
					break
				}
				time.Sleep(100 * time.Microsecond)
			}
			time.Sleep(time.Duration(n.LateUS) * time.Microsecond)
			w.Cells[n.LateCell-1].ReadLate(ctx, self)
		}()
	}
	if n.AfterU > 0 {
		reactive.InvalidateAfter(ctx, time.Duration(n.AfterU)*time.Microsecond)
	}
	for _, c := range n.TTL {
		// registered nowhere: stale until this node's own deadline refreshes it
		out.Reads = append(out.Reads, ReadRec{Cell: c, Ver: w.Cells[c].Version(), Res: -1})
		w.mu.Lock()
		w.Stats["ttl_reads"]++
		w.mu.Unlock()
	}
	if n.TimerU > 0 {
		out.Timers = append(out.Timers, w.timerTwin(ctx, self, time.Duration(n.TimerU)*time.Microsecond))
	}

	kids := make([]*Out, len(n.Kids))
	errs := make([]error, len(n.Kids))
	use := make([]bool, len(n.Kids))
	for i := range n.Kids {
		use[i] = true
		if n.KidOn != nil && n.KidOn[i] >= 0 {
			sw := w.Cells[n.KidOn[i]].Read(ctx, self)
			out.Reads = append(out.Reads, sw)
			use[i] = sw.Ver%2 == 1
			if !use[i] {
				w.mu.Lock()
				w.Stats["switched_off_child"]++
				w.mu.Unlock()
			}
		}
	}
	one := func(i int) {
		if !use[i] {
			return
		}
		k := n.Kids[i]
		ctx := ctx
		tolerate := false
		if code := n.CancelAt[runID]; code > 0 && code/2-1 == i {
			tolerate = true
			dctx, cancel := context.WithCancel(ctx)
			defer cancel()
			if code%2 == 0 {
				cancel()
			} else {
				go func() {
					for t0 := time.Now(); time.Since(t0) < time.Duration(1+runID*7%40)*time.Microsecond; {
					}
					cancel()
				}()
			}
			ctx = dctx
		}
		v, err := reactive.Cache(ctx, k.Key, func(cctx context.Context) (interface{}, error) {
			w.mu.Lock()
			ci := w.newInstLocked("child", rr.Idx, runID, k.Name)
			w.Stats["child_computes"]++
			w.mu.Unlock()
			o, err := rr.eval(cctx, k, runID, ci)
			if err != nil {
				w.mu.Lock()
				w.killLocked(ci)
				w.mu.Unlock()
				return nil, err
			}
			return o, nil
		})
		if tolerate {
			w.mu.Lock()
			if err != nil {
				w.Stats["cache_call_with_cancelled_context:error_tolerated"]++
			} else {
				w.Stats["cache_call_with_cancelled_context:served"]++
			}
			w.mu.Unlock()
			if err != nil {
				return
			}
		}
		if err != nil {
			errs[i] = err
			return
		}
		o := v.(*Out)
		w.adopt(self, o.inst)
		if o.ByRun != runID {
			w.mu.Lock()
			w.Stats["cache_reuse_across_runs"]++
			w.mu.Unlock()
		}
		kids[i] = o
	}
	if n.Par && len(n.Kids) > 1 {
		var wg sync.WaitGroup
		for i := range n.Kids {
			wg.Add(1)
			go func(i int) { defer wg.Done(); one(i) }(i)
		}
		wg.Wait()
	} else {
		for i := range n.Kids {
			one(i)
			if errs[i] != nil {
				break
			}
		}
	}
	if n.PurgeAt[runID] == 2 {
		reactive.PurgeCache(ctx)
		w.Log("purge-in-run", fmt.Sprintf("rr=%d run=%d node=%s after kids", rr.Idx, runID, n.Name))
	}
	// prefer a fatal error over a retry when both occurred
	var first error
	for _, e := range errs {
		if e == nil {
			continue
		}
		if first == nil || (first == reactive.RetrySentinelError && e != reactive.RetrySentinelError) {
			first = e
		}
	}
	if first != nil {
		return nil, first
	}
	out.Kids = kids
	switch n.Fail[runID] {
	case "retry":
		return nil, reactive.RetrySentinelError
	case "fatal":
		return nil, ErrFatal
	}
	return out, nil
}

// timerTwin builds a resource exactly the way reactive.InvalidateAfter does
// (NewResource; time.AfterFunc(d, Invalidate); Cleanup(timer.Stop);
// AddDependency) but with the tracked Cleanup callback, because the resource
// InvalidateAfter creates is not reachable through the API.
func (w *World) timerTwin(ctx context.Context, self *inst, d time.Duration) int {
	tr := w.newTracked(-1, func(tr *Tracked) func() {
		timer := time.AfterFunc(d, func() {
			w.mu.Lock()
			tr.invalidated = true
			w.logLocked("timer-fired", -1, 0, fmt.Sprintf("res=%d", tr.ID))
			w.mu.Unlock()
			w.bump()
			tr.Res.Invalidate()
		})
		return func() { timer.Stop() }
	})
	w.mu.Lock()
	tr.added = true
	w.mu.Unlock()
	reactive.AddDependency(ctx, tr.Res, nil)
	w.hold(self, tr)
	return tr.ID
}
