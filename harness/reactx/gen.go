//go:build verif

package reactx

import (
	"fmt"
	"math/rand"
)

// Profile tunes the generators for the property being decided.
type Profile struct {
	Cache bool // C08: more cached structure, PurgeCache, timers, conditional leaves
}

func pick(r *rand.Rand, n, k int) []int {
	if k > n {
		k = n
	}
	p := r.Perm(n)[:k]
	return p
}

func styleFor(r *rand.Rand) string {
	switch r.Intn(7) {
	case 0, 1, 2:
		return WInvalidate
	case 3, 4, 5:
		return WStrobe
	default:
		return WDouble
	}
}

// GenPlan builds a rerunner plan over ncells cells: root leaves, optional
// conditional leaf, cached children (depth <= 2) drawn from pools so that a
// cache key can be shared by sibling computations.
func GenPlan(r *rand.Rand, ncells int, pf Profile, tag string) *PNode {
	root := &PNode{Name: tag + "root"}
	root.Leaves = pick(r, ncells, 1+r.Intn(3))
	condP := 3
	if pf.Cache {
		condP = 2
	}
	if ncells >= 2 && r.Intn(condP) == 0 {
		p := pick(r, ncells, 2)
		root.Cond = []CondLeaf{{On: p[0], Then: p[1]}}
	}
	// level-2 pool (leaf-only cached nodes)
	n2 := r.Intn(3)
	if pf.Cache {
		n2 = 1 + r.Intn(2)
	}
	var l2 []*PNode
	for i := 0; i < n2; i++ {
		n := &PNode{Name: fmt.Sprintf("%sg%d", tag, i), Key: fmt.Sprintf("g%d", i)}
		n.Leaves = pick(r, ncells, 1+r.Intn(2))
		if pf.Cache && ncells >= 2 && r.Intn(4) == 0 {
			p := pick(r, ncells, 2)
			n.Cond = []CondLeaf{{On: p[0], Then: p[1]}}
		}
		l2 = append(l2, n)
	}
	// level-1 pool
	n1 := r.Intn(3)
	if pf.Cache {
		n1 = 1 + r.Intn(3)
	}
	var l1 []*PNode
	for i := 0; i < n1; i++ {
		n := &PNode{Name: fmt.Sprintf("%sk%d", tag, i), Key: fmt.Sprintf("k%d", i)}
		n.Leaves = pick(r, ncells, 1+r.Intn(2))
		for _, g := range l2 {
			if r.Intn(2) == 0 {
				n.Kids = append(n.Kids, g)
			}
		}
		n.Par = r.Intn(3) == 0
		l1 = append(l1, n)
	}
	for _, k := range l1 {
		root.Kids = append(root.Kids, k)
		if r.Intn(4) == 0 { // the same key twice under one parent
			root.Kids = append(root.Kids, k)
		}
	}
	for _, g := range l2 { // a grandchild key also used directly by the root
		if r.Intn(3) == 0 {
			root.Kids = append(root.Kids, g)
		}
	}
	r.Shuffle(len(root.Kids), func(i, j int) { root.Kids[i], root.Kids[j] = root.Kids[j], root.Kids[i] })
	root.Par = r.Intn(2) == 0
	// switches: some cached children are only used while a switch cell's
	// version is odd, so their keys drop out of the computation and return
	for _, n := range append([]*PNode{root}, l1...) {
		if len(n.Kids) == 0 || r.Intn(2) != 0 {
			continue
		}
		n.KidOn = make([]int, len(n.Kids))
		for i := range n.KidOn {
			n.KidOn[i] = -1
			if r.Intn(2) == 0 {
				n.KidOn[i] = r.Intn(ncells)
			}
		}
	}

	all := append([]*PNode{root}, append(l1, l2...)...)
	// timers
	tp := 8
	if pf.Cache {
		tp = 3
	}
	if r.Intn(tp) == 0 {
		all[r.Intn(len(all))].AfterU = 1000 + r.Intn(4000)
	}
	if pf.Cache && r.Intn(3) == 0 {
		all[r.Intn(len(all))].TimerU = 1000 + r.Intn(4000)
	}
	// optional children requested with an already (or soon) cancelled derived
	// context in some early runs; the error is tolerated
	for _, n := range append([]*PNode{root}, l1...) {
		if len(n.Kids) == 0 || r.Intn(3) != 0 {
			continue
		}
		n.CancelAt = map[int]int{}
		for i := 0; i < 1+r.Intn(3); i++ {
			n.CancelAt[1+r.Intn(6)] = 2*(1+r.Intn(len(n.Kids))) + r.Intn(3)/2
		}
	}
	// expirations of different lengths: a short one registered by the root
	// first, a longer one in a cached child that also reads a cell without
	// registering it (a value with a time-to-live)
	if pf.Cache && len(all) > 1 && r.Intn(3) == 0 {
		n := all[1+r.Intn(len(all)-1)]
		n.AfterU = 2000 + r.Intn(3000)
		n.TTL = []int{r.Intn(ncells)}
		if r.Intn(4) != 0 {
			root.AfterU = 1000 + r.Intn(n.AfterU-1000)
		}
	}
	// a goroutine that outlives its computation and registers a dependency late
	if r.Intn(4) == 0 {
		n := all[r.Intn(len(all))]
		n.LateCell = 1 + r.Intn(ncells)
		n.LateUS = r.Intn(600)
	}
	// planned failures: at most 3 retries and at most one fatal per rerunner
	nretry := r.Intn(4)
	if r.Intn(3) == 0 {
		nretry = 0
	}
	for i := 0; i < nretry; i++ {
		n := root
		if r.Intn(3) == 0 {
			n = all[r.Intn(len(all))]
		}
		if n.Fail == nil {
			n.Fail = map[int]string{}
		}
		n.Fail[1+r.Intn(7)] = "retry"
	}
	if r.Intn(9) == 0 {
		n := root
		if r.Intn(3) == 0 {
			n = all[r.Intn(len(all))]
		}
		if n.Fail == nil {
			n.Fail = map[int]string{}
		}
		n.Fail[2+r.Intn(6)] = "fatal"
	}
	if pf.Cache && r.Intn(2) == 0 {
		n := all[r.Intn(len(all))]
		n.PurgeAt = map[int]int{}
		for i := 0; i < 1+r.Intn(3); i++ {
			n.PurgeAt[1+r.Intn(8)] = 1 + r.Intn(2)
		}
	}
	return root
}

// GenRandom builds a random-driver scenario (no injection).
func GenRandom(r *rand.Rand, pf Profile) *Scenario {
	sc := &Scenario{Name: "random"}
	sc.YieldSeed = r.Int63()
	sc.Intensity = 30 + r.Intn(31)
	if r.Intn(5) >= 2 {
		sc.WTRDelayUS = 300 + r.Intn(1700)
	}
	sc.Cells = 1 + r.Intn(5)
	for c := 0; c < sc.Cells; c++ {
		if r.Intn(4) == 0 {
			sc.PairCells = append(sc.PairCells, c)
		}
	}
	nrr := 1 + r.Intn(4)
	for i := 0; i < nrr; i++ {
		sc.RRs = append(sc.RRs, &RRSpec{
			Plan:        GenPlan(r, sc.Cells, pf, fmt.Sprintf("r%d.", i)),
			Spawn:       r.Intn(2) == 0,
			MinInterval: 200 + r.Intn(801),
		})
	}
	sc.WaitFirst = r.Intn(3) != 0
	sc.ParallelEnd = r.Intn(2) == 0
	// preferred style per cell: long-lived strobe cells and replace-on-write cells
	pref := make([]string, sc.Cells)
	for i := range pref {
		pref[i] = []string{WInvalidate, WStrobe, ""}[r.Intn(3)]
	}
	nw := 1 + r.Intn(3)
	stops := 0
	for wi := 0; wi < nw; wi++ {
		var ops []Op
		n := 3 + r.Intn(8)
		for k := 0; k < n; k++ {
			switch x := r.Intn(20); {
			case x < 10:
				c := r.Intn(sc.Cells)
				st := pref[c]
				if st == "" || r.Intn(5) == 0 {
					st = styleFor(r)
				}
				ops = append(ops, Op{Kind: "write", Cell: c, Style: st})
			case x < 12:
				if r.Intn(2) == 0 {
					ops = append(ops, Op{Kind: "flush", RR: r.Intn(nrr), US: r.Intn(3)})
				} else {
					ops = append(ops, Op{Kind: "plainread", Cell: r.Intn(sc.Cells)})
				}
			case x < 14:
				ops = append(ops, Op{Kind: "sleep", US: r.Intn(700)})
			case x < 17:
				ops = append(ops, Op{Kind: "progress", US: 300 + r.Intn(1500)})
			case x < 18 && stops < nrr:
				stops++
				if sc.WTRDelayUS > 0 && r.Intn(2) == 0 {
					// aim the Stop at the write-then-read delay of a re-run
					ops = append(ops, Op{Kind: "write", Cell: r.Intn(sc.Cells), Style: styleFor(r)},
						Op{Kind: "sleep", US: sc.WTRDelayUS/4 + r.Intn(sc.WTRDelayUS)})
				}
				ops = append(ops, Op{Kind: "stop", RR: r.Intn(nrr)})
			case x < 20 && pf.Cache:
				ops = append(ops, Op{Kind: "purge", RR: r.Intn(nrr)})
			default:
				ops = append(ops, Op{Kind: "sleep", US: r.Intn(200)})
			}
		}
		if r.Intn(3) == 0 {
			// back-to-back strobes of one (long-lived, possibly shared) cell
			// while a write to another cell restarts rerunners, as the last
			// thing this writer does
			c := r.Intn(sc.Cells)
			ops = append(ops, Op{Kind: "write", Cell: c, Style: WStrobe},
				Op{Kind: "write", Cell: r.Intn(sc.Cells), Style: WInvalidate},
				Op{Kind: "sleep", US: r.Intn(400)},
				Op{Kind: "write", Cell: c, Style: WStrobe})
			if r.Intn(2) == 0 {
				ops = append(ops, Op{Kind: "write", Cell: c, Style: WStrobe})
			}
		}
		sc.Writers = append(sc.Writers, ops)
	}
	return sc
}

// MatrixCell is one cell of a targeted matrix.
type MatrixCell struct {
	Point  string
	Action string
	Visit  int
	Spawn  bool
}

func (m MatrixCell) String() string {
	return fmt.Sprintf("%s#%d/%s/spawn=%v", m.Point, m.Visit, m.Action, m.Spawn)
}

// Matrix enumerates points x actions x visits 1..3 x alwaysSpawnGoroutine.
func Matrix(points, actions []string) []MatrixCell {
	var out []MatrixCell
	for _, p := range points {
		for _, a := range actions {
			for k := 1; k <= 3; k++ {
				for _, sp := range []bool{false, true} {
					out = append(out, MatrixCell{Point: p, Action: a, Visit: k, Spawn: sp})
				}
			}
		}
	}
	return out
}

// GenMatrix builds the base workload for one matrix cell. The world is built
// so that every reactive/rerunner/cache hook point is visited at least three
// times by the base workload alone: both write styles, cached children at
// depth 2 with a key shared between siblings, a conditional leaf (resources
// get released while the rerunner lives), one planned retry, one rerunner
// stopped half-way and two stopped at teardown. r varies the details.
//
// Cells: 0 = direct root leaf of every rerunner (target of "invalidate" /
// "double-invalidate"), 1 = strobe-style leaf (target of "strobe"), 2 = read only through
// cached children together with cell 3 (target of "invalidate-child-leaf"),
// 3 = the children's other leaf, 4 = conditional leaf, 5 = switch: cached
// child "s" (leaf 2) of rerunner 0 and child "t" (leaf 3) of rerunner 1 are
// used only while cell 5's version is odd; the base workload switches them
// off, changes their leaves, and switches them on again.
//
// In about 60 % of the scenarios reactive.WriteThenReadDelay is 0.3-2 ms and
// the half-way Stop of rerunner 2 is aimed at the delay of a re-run (write to
// a cell it reads, sleep part of the delay, Stop).
func GenMatrix(r *rand.Rand, m MatrixCell, pf Profile) *Scenario {
	sc := &Scenario{Name: "matrix", Cells: 6, WaitFirst: true}
	sc.YieldSeed = r.Int63()
	sc.Intensity = 20 + r.Intn(25)
	if r.Intn(5) >= 2 {
		sc.WTRDelayUS = 300 + r.Intn(1700)
	}
	sc.ParallelEnd = r.Intn(2) == 0

	if r.Intn(2) == 0 {
		sc.PairCells = append(sc.PairCells, 0) // only ever written invalidate-style
	}
	if r.Intn(2) == 0 {
		sc.PairCells = append(sc.PairCells, 2)
	}
	g := &PNode{Name: "g", Key: "g", Leaves: []int{2}}
	a := &PNode{Name: "a", Key: "a", Leaves: []int{2, 3}}
	b := &PNode{Name: "b", Key: "b", Leaves: []int{3}, Kids: []*PNode{g}}
	if !pf.Cache && r.Intn(2) == 0 {
		a.Leaves = append(a.Leaves, 0)
	}
	sw := &PNode{Name: "s", Key: "s", Leaves: []int{2}}
	root0 := &PNode{Name: "r0", Leaves: []int{0, 1}, Cond: []CondLeaf{{On: 1, Then: 4}}, Kids: []*PNode{a, b, g}, Par: r.Intn(2) == 0}
	if r.Intn(2) == 0 {
		root0.Kids = append(root0.Kids, a)
	}
	root0.Kids = append(root0.Kids, sw)
	root0.KidOn = make([]int, len(root0.Kids))
	for i := range root0.KidOn {
		root0.KidOn[i] = -1
	}
	root0.KidOn[len(root0.Kids)-1] = 5
	root0.Fail = map[int]string{2 + r.Intn(2): "retry"}
	// kids a (index 0) and b (index 1) are requested with a cancelled derived
	// context in two early runs; later runs use the live context again
	root0.CancelAt = map[int]int{4: 2*1 + r.Intn(2), 5 + r.Intn(2): 2 * 2}
	if pf.Cache {
		if r.Intn(2) == 0 {
			root0.TimerU = 1500 + r.Intn(3000)
		}
		if r.Intn(2) == 0 {
			// the root's short expiration is registered first, then cached
			// child b's longer one; b also reads cell 0 as a TTL value
			root0.AfterU = 1000 + r.Intn(1000)
			b.AfterU = root0.AfterU * (2 + r.Intn(3))
			b.TTL = []int{0}
		} else if r.Intn(3) == 0 {
			b.AfterU = 2000 + r.Intn(3000)
		}
	}
	a1 := &PNode{Name: "a", Key: "a", Leaves: []int{1, 2}}
	t1 := &PNode{Name: "t", Key: "t", Leaves: []int{3}}
	root1 := &PNode{Name: "r1", Leaves: []int{0}, Kids: []*PNode{a1, t1}, KidOn: []int{-1, 5}}
	if r.Intn(2) == 0 {
		root1.Cond = []CondLeaf{{On: 0, Then: 4}}
	}
	root1.LateCell, root1.LateUS = 1+r.Intn(2), r.Intn(500) // late registration on shared cell 0 or 1
	root2 := &PNode{Name: "r2", Leaves: []int{1, 0}}
	sc.RRs = []*RRSpec{
		{Plan: root0, Spawn: m.Spawn, MinInterval: 200 + r.Intn(400)},
		{Plan: root1, Spawn: r.Intn(2) == 0, MinInterval: 200 + r.Intn(400)},
		{Plan: root2, Spawn: !m.Spawn, MinInterval: 200 + r.Intn(400)},
	}
	pace := func() Op { return Op{Kind: "progress", US: 1200 + 2*sc.WTRDelayUS} }
	ops := []Op{
		{Kind: "write", Cell: 0, Style: WInvalidate}, pace(),
		{Kind: "write", Cell: 1, Style: WStrobe}, pace(),
		{Kind: "write", Cell: 2, Style: WInvalidate}, pace(),
	}
	if sc.WTRDelayUS > 0 {
		// rerunner 2 reads cell 1: its re-run is inside the write-then-read delay when Stop arrives
		ops = append(ops, Op{Kind: "write", Cell: 1, Style: WStrobe}, Op{Kind: "sleep", US: sc.WTRDelayUS/4 + r.Intn(sc.WTRDelayUS/2+1)})
	}
	ops = append(ops, Op{Kind: "stop", RR: 2})
	// non-reactive readers of resources that live computations hold
	ops = append(ops, Op{Kind: "plainread", Cell: 0}, Op{Kind: "plainread", Cell: 1}, Op{Kind: "plainread", Cell: 3}, pace())
	if pf.Cache {
		ops = append(ops, Op{Kind: "purge", RR: 0}, Op{Kind: "write", Cell: 0, Style: WInvalidate}, pace())
	}
	ops = append(ops,
		Op{Kind: "write", Cell: 1, Style: WStrobe}, pace(),
		Op{Kind: "write", Cell: 5, Style: styleFor(r)}, pace(), // switch off: keys s, t drop out
		Op{Kind: "write", Cell: 0, Style: WDouble}, pace(),
		Op{Kind: "write", Cell: 3, Style: WStrobe}, pace(),
		Op{Kind: "write", Cell: 2, Style: WInvalidate}, pace(),
		Op{Kind: "write", Cell: 5, Style: styleFor(r)}, pace(), // switch on again
	)
	// a few seeded extras
	for i := 0; i < r.Intn(3); i++ {
		ops = append(ops, Op{Kind: "write", Cell: r.Intn(5), Style: styleFor(r)}, pace()) // never the switch: it stays on
	}
	if len(b.TTL) > 0 {
		// the TTL value cached in b changes after b's last recomputation:
		// only b's own expiry can refresh it
		ops = append(ops, Op{Kind: "write", Cell: b.TTL[0], Style: WInvalidate}, pace())
	}
	sc.Writers = [][]Op{ops}
	inj := &InjSpec{Point: m.Point, Visit: m.Visit, RR: 0}
	switch m.Action {
	case WInvalidate, WDouble:
		inj.Action, inj.Cell = m.Action, 0
	case WStrobe:
		inj.Action, inj.Cell = WStrobe, 1
	case "invalidate-child-leaf":
		inj.Action, inj.Cell = WInvalidate, 2
	case "restrobe":
		// Strobe again right behind a strobe pass's snapshot, after rerunner 0
		// re-registered the strobed cell with a fresh computation.
		inj.Action, inj.Cell = "restrobe", 1
		switch m.Visit {
		case 1:
			inj.Trigger, inj.TrigStyle = 0, WInvalidate
		case 2:
			inj.Trigger, inj.TrigStyle = 2, WInvalidate // through cached children
		default:
			inj.Trigger, inj.TrigStyle = 0, WDouble
		}
		if m.Point == "reactive.strobe.snapshot" {
			// aim at the LAST strobe pass of the scenario so that no later
			// write re-runs the rerunners and masks a dropped invalidation
			ops = append(ops, Op{Kind: "write", Cell: 1, Style: WStrobe})
			n := 0
			for _, o := range ops {
				if o.Kind == "write" && o.Style == WStrobe {
					n++
				}
			}
			inj.Visit = n
			sc.Writers = [][]Op{ops}
		}
	case "stop":
		inj.Action = "stop"
	case "purge":
		inj.Action = "purge"
	default:
		panic("reactx: unknown matrix action " + m.Action)
	}
	sc.Inj = inj
	return sc
}

// GenStorm builds a scenario of the high-contention leg: K rerunners that
// read cell 0 directly and through F concurrently evaluated cached children
// each (equal minRerunInterval, so they re-run together and the resource has
// K*(F+1) dependants), and a chain of storm writes, each of which invalidates
// cell 0's resource at the moment the re-runs triggered by the previous write
// register it.
func GenStorm(r *rand.Rand) *Scenario {
	sc := &Scenario{Name: "storm", Cells: 2, WaitFirst: true}
	if r.Intn(2) == 0 {
		// fetch-then-register readers: the storm write then invalidates a
		// resource that was fetched by the parked readers but has no
		// registered dependant yet
		sc.PairCells = []int{0}
	}
	sc.YieldSeed = r.Int63()
	sc.Intensity = []int{0, 0, 10, 25}[r.Intn(4)]
	sc.ParallelEnd = true
	k := 4 + r.Intn(9)
	f := r.Intn(11)
	iv := 200 + r.Intn(200)
	regs := 0
	for i := 0; i < k; i++ {
		p := &PNode{Name: fmt.Sprintf("s%d", i), Leaves: []int{0}, Par: true}
		if r.Intn(5) == 0 {
			p.Leaves = []int{1, 0}
		}
		regs++
		for j := 0; j < f; j++ {
			p.Kids = append(p.Kids, &PNode{Name: fmt.Sprintf("c%d", j), Key: fmt.Sprintf("c%d", j), Leaves: []int{0}})
			regs++
		}
		sc.RRs = append(sc.RRs, &RRSpec{Plan: p, Spawn: r.Intn(2) == 0, MinInterval: iv})
	}
	ops := []Op{{Kind: "write", Cell: 0, Style: WInvalidate}}
	rounds := 8 + r.Intn(9)
	for i := 0; i < rounds; i++ {
		ops = append(ops, Op{Kind: "stormwrite", Cell: 0, RR: 1 + regs*(1+r.Intn(3))/4, US: 2500})
		if r.Intn(4) == 0 {
			ops = append(ops, Op{Kind: "write", Cell: 1, Style: styleFor(r)})
		}
	}
	sc.Writers = [][]Op{ops}
	return sc
}

// GenNoComp builds a scenario of the "Stop before the first successful run"
// leg: rerunner 0's first 4-9 runs return RetrySentinelError (so it has no
// computation yet), 3-12 goroutines call RerunImmediately in a loop (every
// retry wakes at once and the run goroutines contend with them), and Stop is
// called at a seeded moment of that phase. An optional second, ordinary
// rerunner shares the cell.
func GenNoComp(r *rand.Rand) *Scenario {
	sc := &Scenario{Name: "stop-without-computation", Cells: 1 + r.Intn(2)}
	sc.YieldSeed = r.Int63()
	sc.Intensity = []int{0, 0, 0, 15}[r.Intn(4)]
	sc.ParallelEnd = r.Intn(2) == 0
	p := &PNode{Name: "n0", Leaves: []int{0}, Fail: map[int]string{}}
	m := 4 + r.Intn(6)
	for i := 1; i <= m; i++ {
		p.Fail[i] = "retry"
	}
	sc.RRs = append(sc.RRs, &RRSpec{Plan: p, Spawn: r.Intn(2) == 0, MinInterval: 200 + r.Intn(300)})
	if r.Intn(2) == 0 {
		sc.RRs = append(sc.RRs, &RRSpec{Plan: &PNode{Name: "n1", Leaves: []int{0}}, Spawn: r.Intn(2) == 0, MinInterval: 200 + r.Intn(300)})
	}
	h := 3 + r.Intn(10)
	for i := 0; i < h; i++ {
		sc.Writers = append(sc.Writers, []Op{{Kind: "flush", RR: 0, US: 400 + r.Intn(2000)}})
	}
	stop := []Op{}
	if r.Intn(3) != 0 {
		stop = append(stop, Op{Kind: "progress", US: 1000})
	}
	stop = append(stop, Op{Kind: "spin", US: r.Intn(120)}, Op{Kind: "stop", RR: 0})
	if r.Intn(2) == 0 {
		stop = append(stop, Op{Kind: "write", Cell: 0, Style: styleFor(r)})
	}
	sc.Writers = append(sc.Writers, stop)
	return sc
}

// GenPinnedStops builds a scenario of the pinned "concurrent Stops" family:
// rerunner 0's HoldRun-th run (1..3) parks inside the compute function, 2-4
// Stops are issued from different goroutines in the forced order described at
// RR.PinnedStops; optionally a second ordinary rerunner shares the cell.
func GenPinnedStops(r *rand.Rand) *Scenario {
	sc := &Scenario{Name: "pinned-stops", Cells: 1 + r.Intn(2)}
	sc.YieldSeed = r.Int63()
	sc.Intensity = []int{0, 0, 20}[r.Intn(3)]
	sc.ParallelEnd = r.Intn(2) == 0
	hold := 1 + r.Intn(3)
	p := &PNode{Name: "p0", Leaves: []int{0}}
	if r.Intn(3) == 0 {
		p.Kids = []*PNode{{Name: "c", Key: "c", Leaves: []int{0}}}
	}
	sc.RRs = append(sc.RRs, &RRSpec{Plan: p, Spawn: r.Intn(2) == 0, MinInterval: 200 + r.Intn(300), HoldRun: hold})
	if r.Intn(2) == 0 {
		sc.RRs = append(sc.RRs, &RRSpec{Plan: &PNode{Name: "p1", Leaves: []int{0}}, Spawn: r.Intn(2) == 0, MinInterval: 200 + r.Intn(300)})
	}
	var ops []Op
	for i := 1; i < hold; i++ {
		ops = append(ops, Op{Kind: "await-ok", RR: 0, US: i}, Op{Kind: "write", Cell: 0, Style: styleFor(r)})
	}
	ops = append(ops, Op{Kind: "pinned-stops", RR: 0, US: 2 + r.Intn(3)})
	if r.Intn(2) == 0 {
		ops = append(ops, Op{Kind: "write", Cell: 0, Style: styleFor(r)})
	}
	sc.Writers = [][]Op{ops}
	return sc
}
