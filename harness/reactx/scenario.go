//go:build verif

package reactx

import (
	"fmt"
	"sort"
	"sync"
	"sync/atomic"
	"time"

	"github.com/samsarahq/thunder/reactive"
	"github.com/samsarahq/thunder/verifharness/vlib"
)

// Points are the hook points compiled into thunder/reactive under tag verif.
var Points = []string{
	"reactive.strobe.snapshot", "reactive.invalidate.unlocked", "reactive.invalidate.handled",
	"reactive.release.flagged", "reactive.release.edge", "reactive.addOut.enter", "reactive.addOut.unlocked",
	"reactive.handleInvalidate.enter", "reactive.handleRelease.enter",
	"rerunner.run.woke", "rerunner.run.locked", "rerunner.run.cleaned", "rerunner.run.computed",
	"rerunner.run.arming", "rerunner.stop.cancelled",
	"cache.locked", "cache.hit", "cache.miss", "cache.set",
}

// Op is one step of a writer goroutine.
type Op struct {
	Kind  string `json:"kind"` // write | stop | purge | sleep | progress | plainread | stormwrite (RR = min parked readers, US = max wait)
	Cell  int    `json:"cell,omitempty"`
	Style string `json:"style,omitempty"`
	RR    int    `json:"rr,omitempty"`
	US    int    `json:"us,omitempty"`
}

// InjSpec is a targeted injection: Action is started at the Visit-th visit of
// Point and the visitor is held until the action's goroutine passes Until.
type InjSpec struct {
	Point  string `json:"point"`
	Visit  int    `json:"visit"`
	Action string `json:"action"` // invalidate | strobe | double-invalidate | stop | purge
	Cell   int    `json:"cell"`
	RR     int    `json:"rr"`
	// restrobe only: write Trigger (style TrigStyle) so that rerunner RR
	// re-runs and registers Cell's long-lived resource afresh, wait for that
	// run (at most 20 ms), then bump + Strobe Cell again.
	Trigger   int    `json:"trigger,omitempty"`
	TrigStyle string `json:"trigger_style,omitempty"`
}

// Scenario is a complete, seed-determined description of one execution.
type Scenario struct {
	Name        string    `json:"name"`
	YieldSeed   int64     `json:"yield_seed"`
	Intensity   int       `json:"yield_intensity_percent"`
	WTRDelayUS  int       `json:"write_then_read_delay_us"` // reactive.WriteThenReadDelay for this scenario
	Cells       int       `json:"cells"`
	PairCells   []int     `json:"fetch_then_register_cells,omitempty"` // cells read as an atomic (version, resource) pair that is registered afterwards; written invalidate-style only
	RRs         []*RRSpec `json:"rerunners"`
	Writers     [][]Op    `json:"writers"`
	WaitFirst   bool      `json:"wait_first_runs"`
	Inj         *InjSpec  `json:"injection,omitempty"`
	ParallelEnd bool      `json:"parallel_teardown"`
}

// Result is what a scenario run observed.
type Result struct {
	Findings    []Finding
	Hits        map[string]int64
	Trace       uint64
	InjFired    bool
	Runs        []int
	OKRuns      int
	Stats       map[string]int
	WritesWhile int // writes that landed while some compute function was running
	Resources   int
	Added       int
	Cleaned     int
	Stragglers  int
	WallMS      float64
}

// Options selects the clauses the caller decides.
type Options struct {
	CheckCleanup bool // C08 (ii)/(iii): wait for and judge cleanups after teardown
	StepBound    int  // runs per rerunner allowed after the last write (50)
	Soft, Hard   time.Duration
}

func (sc *Scenario) Shape() string {
	s := fmt.Sprintf("cells=%d pair=%v wf=%v wtr=%v", sc.Cells, sc.PairCells, sc.WaitFirst, sc.WTRDelayUS > 0)
	for _, r := range sc.RRs {
		s += fmt.Sprintf(" rr(spawn=%v %s)", r.Spawn, r.Plan.Shape())
	}
	for _, ops := range sc.Writers {
		s += " w:"
		for _, o := range ops {
			switch o.Kind {
			case "write":
				s += string(o.Style[0])
			case "stop":
				s += "S"
			case "purge":
				s += "P"
			case "plainread":
				s += "r"
			case "stormwrite":
				s += "W"
			case "flush":
				s += "f"
			case "pinned-stops":
				s += fmt.Sprintf("K%d", o.US)
			}
		}
	}
	if sc.Inj != nil {
		s += fmt.Sprintf(" inj=%s#%d/%s", sc.Inj.Point, sc.Inj.Visit, sc.Inj.Action)
	}
	return s
}

// straggled is set once a scenario left goroutines inside thunder behind.
var straggled bool

// Run executes the scenario against the real reactive package. It must not be
// called concurrently: the hook handler is process-global.
func Run(sc *Scenario, opt Options, agg *vlib.HitAgg) *Result {
	t0 := time.Now()
	if opt.StepBound == 0 {
		opt.StepBound = 50
	}
	if opt.Soft == 0 {
		opt.Soft = 1500 * time.Millisecond
	}
	if opt.Hard == 0 {
		opt.Hard = 6 * time.Second
	}
	// the world (and its initial resources) is built before the handler is
	// installed so that visit numbers count from the start of the scenario
	w := NewWorld(sc.Cells)
	for _, c := range sc.PairCells {
		w.Cells[c].Pair = true
	}
	y := vlib.NewYielder(sc.YieldSeed, sc.Intensity)
	for _, spec := range sc.RRs {
		w.AddRerunner(spec)
	}
	activity := func() int64 { return y.Events() + w.Activity() }

	var inj *vlib.Injection
	if sc.Inj != nil {
		in := sc.Inj
		inj = &vlib.Injection{Point: in.Point, Visit: in.Visit}
		switch in.Action {
		case WInvalidate, WDouble:
			inj.Until = "reactive.invalidate.unlocked"
			inj.Act = func() { w.Log("inject", in.Action); w.Cells[in.Cell].Write(in.Action) }
		case WStrobe:
			inj.Until = "reactive.strobe.snapshot"
			inj.Act = func() { w.Log("inject", in.Action); w.Cells[in.Cell].Write(WStrobe) }
		case "stop":
			inj.Until = "rerunner.stop.cancelled"
			inj.Act = func() { w.Log("inject", "stop"); w.RRs[in.RR].Stop() }
		case "purge":
			inj.Act = func() { w.Log("inject", "purge"); w.RRs[in.RR].Purge() }
		case "restrobe":
			// the visitor (normally a strobe pass that has just taken its
			// snapshot) is held until the whole action is done
			inj.Timeout = 30 * time.Millisecond
			inj.Act = func() {
				rr := w.RRs[in.RR]
				w.mu.Lock()
				before := rr.runs
				w.logLocked("inject", in.RR, before, "restrobe: trigger")
				w.mu.Unlock()
				w.Cells[in.Trigger].Write(in.TrigStyle)
				dl := time.Now().Add(20 * time.Millisecond)
				for time.Now().Before(dl) {
					w.mu.Lock()
					done := !rr.liveLocked() || (rr.lastOK != nil && rr.lastOK.ID > before && rr.inflight == 0)
					w.mu.Unlock()
					if done {
						break
					}
					time.Sleep(50 * time.Microsecond)
				}
				w.Log("inject", "restrobe: second strobe")
				w.Cells[in.Cell].Write(WStrobe)
			}
		default:
			panic("reactx: unknown injection action " + in.Action)
		}
		act := inj.Act
		inj.Act = func() {
			atomic.AddInt32(&w.pendingActs, 1)
			defer atomic.AddInt32(&w.pendingActs, -1)
			act()
		}
		y.Inject(inj)
	}
	y.Install()

	// reactive.WriteThenReadDelay is a package variable: it is only changed
	// while no goroutine of an earlier scenario can still be inside thunder.
	if !straggled {
		reactive.WriteThenReadDelay = time.Duration(sc.WTRDelayUS) * time.Microsecond
	}
	for _, rr := range w.RRs {
		rr.Start()
	}

	if sc.WaitFirst {
		// pacing only: let every rerunner finish a first run (or fail)
		vlib.WaitCond(func() bool {
			w.mu.Lock()
			defer w.mu.Unlock()
			for _, rr := range w.RRs {
				if rr.lastOK == nil && !rr.fatal {
					return false
				}
			}
			return true
		}, activity, 300*time.Millisecond, 2*time.Second)
	}

	// phase B: writers
	var wg sync.WaitGroup
	for _, ops := range sc.Writers {
		wg.Add(1)
		go func(ops []Op) {
			defer wg.Done()
			for oi, op := range ops {
				switch op.Kind {
				case "write":
					w.Cells[op.Cell].Write(op.Style)
				case "stop":
					w.RRs[op.RR].Stop()
				case "purge":
					w.RRs[op.RR].Purge()
				case "plainread":
					w.Cells[op.Cell].ReadPlain()
				case "flush":
					// US+1 calls of the public RerunImmediately
					<-w.RRs[op.RR].started
					for k := 0; k <= op.US; k++ {
						w.RRs[op.RR].R.RerunImmediately()
					}
					w.mu.Lock()
					w.Stats["rerun_immediately_calls"] += op.US + 1
					w.mu.Unlock()
					w.bump()
				case "spin":
					for t0 := time.Now(); time.Since(t0) < time.Duration(op.US)*time.Microsecond; {
					}
				case "pinned-stops":
					w.RRs[op.RR].PinnedStops(op.US, func() int64 { return y.Hits()["rerunner.stop.cancelled"] })
				case "await-ok":
					// pacing only: wait until rerunner RR completed US successful runs
					dl := time.Now().Add(50 * time.Millisecond)
					for time.Now().Before(dl) {
						w.mu.Lock()
						ok := w.RRs[op.RR].lastOK != nil && w.RRs[op.RR].lastOK.ID >= op.US
						w.mu.Unlock()
						if ok {
							break
						}
						time.Sleep(30 * time.Microsecond)
					}
				case "stormwrite":
					w.Cells[op.Cell].StormWrite(op.RR, time.Duration(op.US)*time.Microsecond, oi)
				case "sleep":
					time.Sleep(time.Duration(op.US) * time.Microsecond)
				case "progress":
					// pacing only: wait until some run was entered after now, at most US µs
					w.mu.Lock()
					base := 0
					for _, rr := range w.RRs {
						base += rr.runs
					}
					w.mu.Unlock()
					dl := time.Now().Add(time.Duration(op.US) * time.Microsecond)
					for time.Now().Before(dl) {
						w.mu.Lock()
						n := 0
						for _, rr := range w.RRs {
							n += rr.runs
						}
						w.mu.Unlock()
						if n > base {
							break
						}
						time.Sleep(30 * time.Microsecond)
					}
				}
			}
		}(ops)
	}
	wg.Wait()
	w.Log("writers-done", "")

	// phase C: bounded progress after the last write
	w.settle(activity, opt)

	for _, rr := range w.RRs {
		rr := rr
		rr.holdOnce.Do(func() { close(rr.holdCh) }) // never leave a run parked
	}
	// phase D: teardown
	if sc.ParallelEnd {
		var sg sync.WaitGroup
		for _, rr := range w.RRs {
			sg.Add(1)
			go func(rr *RR) { defer sg.Done(); rr.Stop() }(rr)
		}
		sg.Wait()
	} else {
		for _, rr := range w.RRs {
			rr.Stop()
		}
	}
	w.Log("all-stopped", "")
	w.late.Wait() // every computation is dead now, so the late goroutines finish within their LateUS

	res := &Result{}
	if opt.CheckCleanup {
		w.awaitCleanups(activity, opt)
	}
	// let every goroutine thunder started finish, so that late compute
	// entries (clause ii) surface and the next scenario starts clean
	left := vlib.WaitNoThunderGoroutines(120)
	res.Stragglers = len(left)
	if len(left) > 0 {
		straggled = true
		w.mu.Lock()
		w.findLocked(KUndecided+":stragglers", fmt.Sprintf("%d goroutine(s) with thunder frames still alive 600 ms after every rerunner was stopped", len(left)),
			map[string]interface{}{"stacks": vlib.Trunc(fmt.Sprint(left), 6000)})
		w.mu.Unlock()
	}
	vlib.Uninstall()
	if agg != nil {
		agg.Add(y)
	}

	w.mu.Lock()
	if opt.CheckCleanup {
		// exactly-once, final tally (a second call may have arrived late)
		for _, tr := range w.tracked {
			if tr.added {
				res.Added++
			}
			if tr.cleanups > 0 {
				res.Cleaned++
			}
		}
	}
	res.Resources = len(w.tracked)
	for _, rr := range w.RRs {
		res.Runs = append(res.Runs, rr.runs)
	}
	res.Stats = map[string]int{}
	for k, v := range w.Stats {
		res.Stats[k] = v
	}
	res.WritesWhile = w.writesWhileRunning
	res.OKRuns = w.Stats["runs_ok"]
	w.mu.Unlock()
	res.Findings = w.Findings()
	res.Hits = y.Hits()
	res.Trace = y.TraceHash()
	if inj != nil {
		res.InjFired = inj.Fired()
	}
	res.WallMS = float64(time.Since(t0).Microseconds()) / 1000
	return res
}

// settle decides clause (iii) of C04 / clause (i) of C08.
func (w *World) settle(activity func() int64, opt Options) {
	var livelock *RR
	cond := func() bool {
		if atomic.LoadInt32(&w.pendingActs) > 0 {
			return false // an injected action is still issuing writes
		}
		w.mu.Lock()
		defer w.mu.Unlock()
		for _, rr := range w.RRs {
			if !rr.liveLocked() {
				continue
			}
			fresh := rr.lastOK != nil && len(w.staleLocked(rr.lastOK)) == 0
			if !fresh && rr.runs-rr.runsAtMark > opt.StepBound {
				livelock = rr
				return true
			}
			if !fresh || len(w.invalidDepsLocked(rr.lastOK)) > 0 {
				return false
			}
		}
		return true
	}
	oc, slow := waitSettled(cond, activity, opt.Soft, opt.Hard)
	w.mu.Lock()
	defer w.mu.Unlock()
	w.Stats["quiet_but_goroutines_still_busy"] += slow
	describe := func(rr *RR) map[string]interface{} {
		d := map[string]interface{}{"rr": rr.Idx, "runs": rr.runs, "runs_in_progress_now": rr.inflight, "runs_at_last_write": rr.runsAtMark, "recent_runs": rr.recent,
			"always_spawn_goroutine": rr.Spec.Spawn}
		if rr.lastOK != nil {
			d["last_successful_run"] = rr.lastOK
			d["stale_reads"] = w.staleLocked(rr.lastOK)
			d["invalidated_dependencies"] = w.invalidDepsLocked(rr.lastOK)
			d["final_output"] = rr.lastOK.out
		} else {
			d["last_successful_run"] = nil
		}
		cur := map[string]int64{}
		for _, c := range w.Cells {
			cur[fmt.Sprintf("cell%d", c.Idx)] = c.Version()
		}
		d["current_versions"] = cur
		return d
	}
	switch {
	case livelock != nil && livelock.liveLocked():
		d := describe(livelock)
		w.findLocked(KLivelock, fmt.Sprintf("rerunner %d ran %d times after the last write without a successful run that read only current versions (bound %d)",
			livelock.Idx, livelock.runs-livelock.runsAtMark, opt.StepBound), d)
	case oc == vlib.QuiescentNot:
		for _, rr := range w.RRs {
			if !rr.liveLocked() {
				continue
			}
			if rr.lastOK != nil && len(w.staleLocked(rr.lastOK)) == 0 {
				if len(w.invalidDepsLocked(rr.lastOK)) == 0 {
					continue
				}
				d := describe(rr)
				d["stacks"] = vlib.Trunc(vlib.Stacks(), 24000)
				w.findLocked(KInvalidDep, fmt.Sprintf("system quiescent, rerunner %d is live, its last successful run registered a resource that was invalidated (Invalidate was called on it), and no re-run is pending", rr.Idx), d)
				break
			}
			d := describe(rr)
			d["stacks"] = vlib.Trunc(vlib.Stacks(), 24000)
			what := fmt.Sprintf("system quiescent, rerunner %d is live, but its last successful run read superseded versions and no re-run is pending", rr.Idx)
			if rr.lastOK == nil {
				what = fmt.Sprintf("system quiescent, rerunner %d is live, but it never completed a successful run", rr.Idx)
			}
			w.findLocked(KStale, what, d)
			break
		}
	case oc == vlib.Undecided:
		w.findLocked(KUndecided+":settle", "still busy at the hard deadline while waiting for fresh final outputs", nil)
	}
}

// awaitCleanups decides C08 (ii): after every rerunner is stopped, every
// resource that was given to AddDependency gets its Cleanup callback.
func (w *World) awaitCleanups(activity func() int64, opt Options) {
	missing := func() []*Tracked {
		var out []*Tracked
		for _, tr := range w.tracked {
			if tr.added && tr.cleanups == 0 {
				out = append(out, tr)
			}
		}
		return out
	}
	oc, slow := waitSettled(func() bool {
		w.mu.Lock()
		defer w.mu.Unlock()
		return len(missing()) == 0
	}, activity, opt.Soft, opt.Hard)
	w.mu.Lock()
	defer w.mu.Unlock()
	w.Stats["quiet_but_goroutines_still_busy"] += slow
	switch oc {
	case vlib.QuiescentNot:
		ms := missing()
		var ids []string
		for _, tr := range ms {
			ids = append(ids, fmt.Sprintf("res=%d cell=%d invalidated=%v strobed=%v", tr.ID, tr.Cell, tr.invalidated, tr.strobed))
		}
		sort.Strings(ids)
		w.findLocked(KLeak, fmt.Sprintf("all rerunners stopped and system quiescent, but %d resource(s) that were passed to AddDependency never had their Cleanup callback run", len(ms)),
			map[string]interface{}{"resources": ids, "stacks": vlib.Trunc(vlib.Stacks(), 16000)})
	case vlib.Undecided:
		w.findLocked(KUndecided+":cleanup", "still busy at the hard deadline while waiting for Cleanup callbacks", nil)
	}
}

// SetDelays sets the package-level knobs of reactive once, before any
// rerunner exists.
func SetDelays(writeThenRead time.Duration) { reactive.WriteThenReadDelay = writeThenRead }
