package c07

import (
	"database/sql/driver"
	"errors"
	"fmt"
	"math/rand"
	"reflect"
	"sort"
	"strings"
	"time"

	"github.com/samsarahq/thunder/sqlgen"
	"github.com/siddontang/go-mysql/replication"
)

// ---- table shapes ----

type Mood string
type Rank int16

// textT is stored through the `string` tag (encoding.TextMarshaler).
type textT struct{ S string }

func (t textT) MarshalText() ([]byte, error) { return []byte("t:" + t.S), nil }
func (t *textT) UnmarshalText(b []byte) error {
	if !strings.HasPrefix(string(b), "t:") {
		return errors.New("textT: bad prefix")
	}
	t.S = string(b[2:])
	return nil
}

// binT is stored through the `binary` tag (Marshal/Unmarshal).
type binT struct{ N uint8 }

func (b binT) Marshal() ([]byte, error) { return []byte{0xB1, b.N}, nil }
func (b *binT) Unmarshal(d []byte) error {
	if len(d) != 2 || d[0] != 0xB1 {
		return errors.New("binT: bad encoding")
	}
	b.N = d[1]
	return nil
}

// jsonT is stored through the `json` tag.
type jsonT struct {
	A int    `json:"a"`
	B string `json:"b"`
}

// Wide covers every supported column kind.
type Wide struct {
	Id   int64 `sql:",primary"`
	I8   int8
	I16  Rank
	I32  int32
	U8   uint8
	U32  uint32
	U64  uint64
	F32  float32
	F64  float64
	Flag bool
	Name string
	Mood Mood
	Blob []byte
	At   time.Time
	PI   *int64
	PS   *string
	PB   *bool
	PT   *time.Time
	PF   *float64
	Note string `sql:",implicitnull"`
	Txt  textT  `sql:",string"`
	Bin  binT   `sql:",binary"`
	Js   jsonT  `sql:",json"`
}

// Pair has a composite unique-id key (upserts allowed).
type Pair struct {
	A    int32  `sql:",primary"`
	B    string `sql:",primary"`
	V    *string
	N    int64
	Ok   bool
	When *time.Time
}

// Tiny has a string key and an unsigned counter.
type Tiny struct {
	K    string `sql:",primary"`
	Cnt  uint16
	Data []byte
}

var tableTypes = map[string]reflect.Type{"wides": reflect.TypeOf(Wide{}), "pairs": reflect.TypeOf(Pair{}), "tinies": reflect.TypeOf(Tiny{})}
var tableNames = []string{"wides", "pairs", "tinies"}

func newSchema() *sqlgen.Schema {
	s := sqlgen.NewSchema()
	s.MustRegisterType("wides", sqlgen.AutoIncrement, Wide{})
	s.MustRegisterType("pairs", sqlgen.UniqueId, Pair{})
	s.MustRegisterType("tinies", sqlgen.UniqueId, Tiny{})
	return s
}

// whole seconds only: the pinned go-mysql binlog decoder drops the fractional
// part of DATETIME values (decodeDatetime2), so fractional times are outside
// what this stack can track; recorded as a restriction in the rule.
var times = []time.Time{
	time.Date(2020, 2, 29, 23, 59, 59, 0, time.UTC),
	time.Date(2021, 5, 6, 7, 8, 9, 0, time.UTC),
	time.Date(1999, 12, 31, 0, 0, 0, 0, time.UTC),
}
var otherZone = time.FixedZone("UTC-3", -3*3600)

func p64(v int64) *int64      { return &v }
func pstr(s string) *string   { return &s }
func pbool(b bool) *bool      { return &b }
func pf64(f float64) *float64 { return &f }
func ptime(t time.Time) *time.Time {
	return &t
}

// ---- row generators (small domains so that filters hit) ----

func genWide(r *rand.Rand) *Wide {
	w := &Wide{
		I8:   []int8{-1, 0, 1, 127}[r.Intn(4)],
		I16:  Rank([]int16{-300, 0, 7}[r.Intn(3)]),
		I32:  []int32{0, 1, 70000}[r.Intn(3)],
		U8:   []uint8{0, 1, 200}[r.Intn(3)],
		U32:  []uint32{0, 5, 4000000000}[r.Intn(3)],
		U64:  []uint64{0, 9, 1 << 40}[r.Intn(3)],
		F32:  []float32{0, 0.5, 0.1}[r.Intn(3)],
		F64:  []float64{0, 1.25, 0.1}[r.Intn(3)],
		Flag: r.Intn(2) == 0,
		Name: []string{"a", "b", ""}[r.Intn(3)],
		Mood: Mood([]string{"x", "y"}[r.Intn(2)]),
		At:   times[r.Intn(len(times))],
		Note: []string{"", "n"}[r.Intn(2)],
		Txt:  textT{[]string{"", "q"}[r.Intn(2)]},
		Bin:  binT{uint8(r.Intn(2))},
		Js:   jsonT{A: r.Intn(2), B: []string{"", "j"}[r.Intn(2)]},
	}
	switch r.Intn(3) {
	case 0:
		w.Blob = []byte{}
	case 1:
		w.Blob = []byte{0, 255}
	}
	if r.Intn(2) == 0 {
		w.PI = p64(int64(r.Intn(2)))
	}
	if r.Intn(2) == 0 {
		w.PS = pstr([]string{"", "s"}[r.Intn(2)])
	}
	if r.Intn(2) == 0 {
		w.PB = pbool(r.Intn(2) == 0)
	}
	if r.Intn(2) == 0 {
		w.PT = ptime(times[r.Intn(len(times))])
	}
	if r.Intn(2) == 0 {
		w.PF = pf64([]float64{0, 2.5}[r.Intn(2)])
	}
	return w
}

func genPair(r *rand.Rand) *Pair {
	p := &Pair{A: int32(r.Intn(3)), B: []string{"k", "l", "m"}[r.Intn(3)], N: int64(r.Intn(3)), Ok: r.Intn(2) == 0}
	if r.Intn(2) == 0 {
		p.V = pstr([]string{"v", "w"}[r.Intn(2)])
	}
	if r.Intn(3) == 0 {
		p.When = ptime(times[r.Intn(len(times))])
	}
	return p
}

func genTiny(r *rand.Rand) *Tiny {
	t := &Tiny{K: fmt.Sprintf("k%d", r.Intn(5)), Cnt: []uint16{0, 3, 60000}[r.Intn(3)]}
	if r.Intn(2) == 0 {
		t.Data = []byte([]string{"", "d"}[r.Intn(2)])
	}
	return t
}

func genRow(r *rand.Rand, table string) interface{} {
	switch table {
	case "wides":
		return genWide(r)
	case "pairs":
		return genPair(r)
	}
	return genTiny(r)
}

// ---- filters ----

// columnsOf lists the filterable columns of a table with their struct field.
var columnsOf = map[string][][2]string{
	"wides": {{"id", "Id"}, {"i8", "I8"}, {"i16", "I16"}, {"i32", "I32"}, {"u8", "U8"}, {"u32", "U32"}, {"u64", "U64"}, {"f32", "F32"}, {"f64", "F64"},
		{"flag", "Flag"}, {"name", "Name"}, {"mood", "Mood"}, {"blob", "Blob"}, {"at", "At"}, {"p_i", "PI"}, {"p_s", "PS"}, {"p_b", "PB"}, {"p_t", "PT"},
		{"p_f", "PF"}, {"note", "Note"}, {"txt", "Txt"}, {"bin", "Bin"}, {"js", "Js"}},
	"pairs":  {{"a", "A"}, {"b", "B"}, {"v", "V"}, {"n", "N"}, {"ok", "Ok"}, {"when", "When"}},
	"tinies": {{"k", "K"}, {"cnt", "Cnt"}, {"data", "Data"}},
}

// represent rewrites a field value (taken from a generated row, so that it is
// in the column's domain) in another Go representation denoting the same
// column value. level 0 keeps the field's own type.
func represent(r *rand.Rand, v interface{}, level int) (interface{}, string) {
	rv := reflect.ValueOf(v)
	if rv.Kind() == reflect.Ptr {
		if rv.IsNil() {
			if r.Intn(2) == 0 {
				return nil, "nil"
			}
			return v, "typed-nil"
		}
		if r.Intn(2) == 0 {
			return v, "ptr"
		}
		rv = rv.Elem()
		v = rv.Interface()
	}
	if level == 0 {
		return v, "own"
	}
	switch rv.Kind() {
	case reflect.Int, reflect.Int8, reflect.Int16, reflect.Int32, reflect.Int64:
		n := rv.Int()
		switch r.Intn(4) {
		case 0:
			return n, "int64"
		case 1:
			return int(n), "int"
		case 2:
			return &n, "*int64"
		default:
			if n >= -128 && n <= 127 {
				return int8(n), "int8"
			}
			return n, "int64"
		}
	case reflect.Uint, reflect.Uint8, reflect.Uint16, reflect.Uint32, reflect.Uint64:
		n := rv.Uint()
		switch r.Intn(3) {
		case 0:
			return n, "uint64"
		case 1:
			return int64(n), "int64"
		default:
			return uint(n), "uint"
		}
	case reflect.Float32, reflect.Float64:
		if rv.Kind() == reflect.Float32 {
			return v, "own"
		}
		f := rv.Float()
		return &f, "*float64"
	case reflect.String:
		s := rv.String()
		// ([]byte for a string column is deliberately absent: sqlgen defines
		// driver values of different kinds as unequal, TestDriverValuesEqual)
		switch r.Intn(3) {
		case 0:
			return s, "string"
		case 1:
			return Mood(s), "named-string"
		default:
			return &s, "*string"
		}
	case reflect.Bool:
		b := rv.Bool()
		return &b, "*bool"
	case reflect.Struct:
		if t, ok := v.(time.Time); ok {
			switch r.Intn(3) {
			case 0:
				return &t, "*time"
			case 1:
				return t.In(otherZone), "time-other-zone"
			}
			return t, "own"
		}
	}
	return v, "own"
}

type filterDesc struct {
	filter sqlgen.Filter
	reps   map[string]string
}

func (f filterDesc) String() string {
	cols := make([]string, 0, len(f.filter))
	for c := range f.filter {
		cols = append(cols, c)
	}
	sort.Strings(cols)
	parts := make([]string, len(cols))
	for i, c := range cols {
		parts[i] = c + ": " + show(f.filter[c])
	}
	return "Filter{" + strings.Join(parts, ", ") + "}"
}

func (f filterDesc) shape() string {
	cols := make([]string, 0, len(f.filter))
	for c := range f.filter {
		cols = append(cols, c+"="+f.reps[c])
	}
	sort.Strings(cols)
	return strings.Join(cols, ",")
}

func show(v interface{}) string {
	if v == nil {
		return "nil"
	}
	rv := reflect.ValueOf(v)
	if rv.Kind() == reflect.Ptr {
		if rv.IsNil() {
			return fmt.Sprintf("(%T)(nil)", v)
		}
		return "&" + show(rv.Elem().Interface())
	}
	switch x := v.(type) {
	case []byte:
		if x == nil {
			return "[]byte(nil)"
		}
		return fmt.Sprintf("[]byte(%q)", string(x))
	case time.Time:
		return "time(" + x.Format(time.RFC3339Nano) + ")"
	}
	return fmt.Sprintf("%T(%#v)", v, v)
}

// genFilter draws a filter over a random column subset of table; values come
// from a freshly generated row of the same domain.
func genFilter(r *rand.Rand, table string, maxID int) filterDesc {
	fd := filterDesc{filter: sqlgen.Filter{}, reps: map[string]string{}}
	cols := columnsOf[table]
	var n int
	switch x := r.Intn(10); {
	case x == 0:
		n = 0
	case x < 6:
		n = 1
	case x < 9:
		n = 2
	default:
		n = 3
	}
	sample := reflect.ValueOf(genRow(r, table)).Elem()
	for len(fd.filter) < n {
		c := cols[r.Intn(len(cols))]
		if _, dup := fd.filter[c[0]]; dup {
			continue
		}
		v := sample.FieldByName(c[1]).Interface()
		if c[0] == "id" {
			v = int64(1 + r.Intn(maxID+1))
		}
		level := 0
		if r.Intn(3) == 0 {
			level = 1
		}
		fd.filter[c[0]], fd.reps[c[0]] = represent(r, v, level)
	}
	return fd
}

// nullDenoting reports whether a filter value is sent to the database as NULL.
func nullDenoting(col string, v interface{}) bool {
	if v == nil {
		return true
	}
	rv := reflect.ValueOf(v)
	switch rv.Kind() {
	case reflect.Ptr, reflect.Slice:
		return rv.IsNil()
	case reflect.String:
		return col == "note" && rv.Len() == 0 // implicitnull
	}
	return false
}

// genWideFilter draws a filter over 9-12 columns of wides (hence at least 9
// SQL arguments), at least one of them NULL-denoting. Values are taken from
// sample (a row that exists initially) so that the filter can match.
func genWideFilter(r *rand.Rand, sample *Wide) filterDesc {
	fd := filterDesc{filter: sqlgen.Filter{}, reps: map[string]string{}}
	cols := columnsOf["wides"]
	n := 9 + r.Intn(4)
	sv := reflect.ValueOf(sample).Elem()
	for len(fd.filter) < n {
		c := cols[r.Intn(len(cols))]
		if _, dup := fd.filter[c[0]]; dup {
			continue
		}
		level := 0
		if r.Intn(4) == 0 {
			level = 1
		}
		fd.filter[c[0]], fd.reps[c[0]] = represent(r, sv.FieldByName(c[1]).Interface(), level)
	}
	hasNull := false
	for c, v := range fd.filter {
		if nullDenoting(c, v) {
			hasNull = true
		}
	}
	if !hasNull {
		c := [][2]string{{"p_i", "PI"}, {"p_s", "PS"}, {"p_b", "PB"}, {"p_t", "PT"}, {"p_f", "PF"}}[r.Intn(5)]
		if r.Intn(2) == 0 {
			fd.filter[c[0]], fd.reps[c[0]] = nil, "nil"
		} else {
			fd.filter[c[0]], fd.reps[c[0]] = reflect.Zero(sv.FieldByName(c[1]).Type()).Interface(), "typed-nil"
		}
	}
	return fd
}

// wideNull: at least 9 SQL arguments of which at least one is NULL.
func (f filterDesc) wideNull() bool {
	if len(f.filter) < 9 {
		return false
	}
	for c, v := range f.filter {
		if nullDenoting(c, v) {
			return true
		}
	}
	return false
}

// ---- binlog value forms ----

type blForm int

const (
	blInt8 blForm = iota
	blInt16
	blInt32
	blInt64
	blFloat32
	blFloat64
	blString
	blBytes
	blDatetime
)

// binlogForms derives, per struct column, the Go form go-mysql's row decoder
// produces for the MySQL column type a thunder user would declare for the
// field (TINYINT..BIGINT by width, signed Go ints even for UNSIGNED columns,
// FLOAT/DOUBLE, VARCHAR -> string, BLOB -> []byte, DATETIME -> string).
// textAsBlob delivers string-like columns as []byte (TEXT columns are BLOBs
// in the binlog).
func binlogForms(t *sqlgen.Table, textAsBlob bool) map[string]blForm {
	out := map[string]blForm{}
	for _, c := range t.Columns {
		d := c.Descriptor
		str := blString
		if textAsBlob {
			str = blBytes
		}
		switch {
		case d.Tags.Contains("binary"):
			out[c.Name] = blBytes
			continue
		case d.Tags.Contains("string"), d.Tags.Contains("json"):
			out[c.Name] = str
			continue
		}
		switch d.Kind {
		case reflect.Bool, reflect.Int8, reflect.Uint8:
			out[c.Name] = blInt8
		case reflect.Int16, reflect.Uint16:
			out[c.Name] = blInt16
		case reflect.Int32, reflect.Uint32:
			out[c.Name] = blInt32
		case reflect.Int, reflect.Int64, reflect.Uint, reflect.Uint64:
			out[c.Name] = blInt64
		case reflect.Float32:
			out[c.Name] = blFloat32
		case reflect.Float64:
			out[c.Name] = blFloat64
		case reflect.String:
			out[c.Name] = str
		case reflect.Slice:
			out[c.Name] = blBytes
		default:
			out[c.Name] = blDatetime
		}
	}
	return out
}

// binlogValue converts a stored engine value to the decoder's form.
func binlogValue(form blForm, v driver.Value) interface{} {
	if v == nil {
		return nil
	}
	switch x := v.(type) {
	case int64:
		switch form {
		case blInt8:
			return int8(x)
		case blInt16:
			return int16(x)
		case blInt32:
			return int32(x)
		}
		return x
	case float64:
		if form == blFloat32 {
			return float32(x)
		}
		return x
	case string:
		if form == blBytes {
			return []byte(x)
		}
		return x
	case []byte:
		if form == blString {
			return string(x)
		}
		return append([]byte{}, x...)
	case time.Time:
		if x.IsZero() {
			return "0000-00-00 00:00:00"
		}
		return x.Format("2006-01-02 15:04:05")
	}
	return v
}

func rowsEvent(database, table string, tableID uint64, typ replication.EventType, rows [][]interface{}) *replication.BinlogEvent {
	return &replication.BinlogEvent{
		Header: &replication.EventHeader{EventType: typ},
		Event: &replication.RowsEvent{
			Version: 2,
			TableID: tableID,
			Table:   &replication.TableMapEvent{TableID: tableID, Schema: []byte(database), Table: []byte(table)},
			Rows:    rows,
		},
	}
}

func tableMapEvent(database, table string, tableID uint64, columnCount int) *replication.BinlogEvent {
	return &replication.BinlogEvent{
		Header: &replication.EventHeader{EventType: replication.TABLE_MAP_EVENT},
		Event:  &replication.TableMapEvent{TableID: tableID, Schema: []byte(database), Table: []byte(table), ColumnCount: uint64(columnCount)},
	}
}

// reorders are column permutations that keep the column count and move
// columns only onto positions of a type the decoder's value still scans into
// without error (int widths among each other, string <-> string / []byte,
// float32 <-> float64), so that decoding with a stale column map is silent.
var reorders = map[string][]string{
	"pairs":  {"n", "v", "b", "a", "ok", "when"},
	"tinies": {"data", "cnt", "k"},
	"wides": {"id", "i16", "i32", "u8", "u32", "u64", "i8", "f64", "f32", "flag", "mood", "name", "blob", "at", "p_i", "p_s", "p_b", "p_t",
		"p_f", "note", "txt", "bin", "js"},
}

// sentinelFilters are filters on a column that a reorder moves.
func sentinelFilter(r *rand.Rand, table string) filterDesc {
	var col string
	var v interface{}
	switch table {
	case "pairs":
		if r.Intn(2) == 0 {
			col, v = "n", int64(r.Intn(3))
		} else {
			col, v = "a", int32(r.Intn(3))
		}
	case "tinies":
		col, v = "k", fmt.Sprintf("k%d", r.Intn(5))
	default:
		switch r.Intn(3) {
		case 0:
			col, v = "i8", []int8{-1, 0, 1, 127}[r.Intn(4)]
		case 1:
			col, v = "name", []string{"a", "b", ""}[r.Intn(3)]
		default:
			col, v = "u8", []uint8{0, 1, 200}[r.Intn(3)]
		}
	}
	return filterDesc{filter: sqlgen.Filter{col: v}, reps: map[string]string{col: "own"}}
}
