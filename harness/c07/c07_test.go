// Package c07 monitors property C07: every committed write reaches every live
// SQL query it affects. The real livesql / sqlgen / reactive code runs against
// the in-memory engine of package fakesql; committed row changes are turned
// into binlog row events (in the forms go-mysql's decoder produces) and fed
// to the production RunPollLoop through livesql.NewBinlogForVerif - on half of
// the histories interleaved with the events of untracked tables of a shared
// server whose restarts re-assign every table's id. At observed
// quiescence every live query must hold exactly the rows the database returns
// for its filter. A second, sequential monitor checks that the in-memory row
// tester agrees with what the database returns for a filter.
package c07

import (
	"context"
	"database/sql"
	"database/sql/driver"
	"errors"
	"fmt"
	"math/rand"
	"reflect"
	"runtime"
	"runtime/debug"
	"sort"
	"strings"
	"sync"
	"sync/atomic"
	"testing"
	"time"

	"github.com/samsarahq/thunder/livesql"
	"github.com/samsarahq/thunder/reactive"
	"github.com/samsarahq/thunder/sqlgen"
	"github.com/samsarahq/thunder/verifharness/fakesql"
	"github.com/samsarahq/thunder/verifharness/vlib"
	"github.com/siddontang/go-mysql/replication"
)

const database = "verifdb"

// ---- shared helpers ----

func keyOf(row interface{}) string {
	switch x := row.(type) {
	case *Wide:
		return fmt.Sprint(x.Id)
	case *Pair:
		return fmt.Sprintf("%d/%s", x.A, x.B)
	case *Tiny:
		return x.K
	}
	return "?"
}

// normRow copies a row struct with times moved to UTC so that DeepEqual
// compares instants.
func normRow(row interface{}) interface{} {
	v := reflect.ValueOf(row).Elem()
	c := reflect.New(v.Type()).Elem()
	c.Set(v)
	for i := 0; i < c.NumField(); i++ {
		f := c.Field(i)
		switch t := f.Interface().(type) {
		case time.Time:
			f.Set(reflect.ValueOf(t.UTC()))
		case *time.Time:
			if t != nil {
				u := t.UTC()
				f.Set(reflect.ValueOf(&u))
			}
		}
	}
	return c.Interface()
}

func rowString(row interface{}) string {
	v := reflect.ValueOf(row)
	if v.Kind() == reflect.Ptr {
		v = v.Elem()
	}
	t := v.Type()
	var parts []string
	for i := 0; i < t.NumField(); i++ {
		parts = append(parts, t.Field(i).Name+"="+show(v.Field(i).Interface()))
	}
	return strings.Join(parts, " ")
}

type result struct {
	keys  []string
	rows  map[string]interface{}
	class string // QueryRow: "none" | "one:<key>" | "many"; Query: ""
	err   error  // unexpected error
	// panicked: the call panicked (recovered by the harness); stack is the
	// goroutine stack at the recover
	panicked bool
	stack    string
}

// safeQuery is runQuery with a recover: a panic inside the live query becomes
// a result instead of killing the rerunner's goroutine (and the process).
func safeQuery(ctx context.Context, q querier, table string, row bool, filter sqlgen.Filter, where string) (res *result) {
	defer func() {
		if p := recover(); p != nil {
			res = &result{err: fmt.Errorf("panic: %v", p), panicked: true, stack: vlib.Trunc(string(debug.Stack()), 3000)}
		}
	}()
	return runQuery(ctx, q, table, row, filter, where)
}

func (r *result) String() string {
	if r == nil {
		return "<never ran>"
	}
	if r.err != nil {
		return "error: " + r.err.Error()
	}
	if r.class != "" {
		return r.class
	}
	return fmt.Sprint(r.keys)
}

// querier is the part of sqlgen.DB / livesql.LiveDB used to read.
type querier interface {
	Query(ctx context.Context, result interface{}, filter sqlgen.Filter, options *sqlgen.SelectOptions) error
	QueryRow(ctx context.Context, result interface{}, filter sqlgen.Filter, options *sqlgen.SelectOptions) error
}

// runQuery performs Query or QueryRow on table and folds the outcome.
// where is a custom SelectOptions.Where ("" = no options); the options object
// is fresh for every call because sqlgen merges the filter into it.
func runQuery(ctx context.Context, q querier, table string, row bool, filter sqlgen.Filter, where string) *result {
	var opts *sqlgen.SelectOptions
	if where != "" {
		opts = &sqlgen.SelectOptions{Where: where}
	}
	typ := tableTypes[table]
	res := &result{rows: map[string]interface{}{}}
	if row {
		out := reflect.New(reflect.PtrTo(typ))
		err := q.QueryRow(ctx, out.Interface(), filter, opts)
		switch {
		case err == nil && !out.Elem().IsNil():
			k := keyOf(out.Elem().Interface())
			res.keys, res.class = []string{k}, "one:"+k
			res.rows[k] = normRow(out.Elem().Interface())
		case err == sql.ErrNoRows:
			res.class = "none"
		case err != nil:
			// the only other documented outcome is "more than one row"; the
			// caller checks it against an unlimited Query
			res.class = "many"
			res.err = err
		default:
			res.err = errors.New("QueryRow returned nil error and nil row")
		}
		return res
	}
	out := reflect.New(reflect.SliceOf(reflect.PtrTo(typ)))
	if err := q.Query(ctx, out.Interface(), filter, opts); err != nil {
		res.err = err
		return res
	}
	sl := out.Elem()
	for i := 0; i < sl.Len(); i++ {
		r := sl.Index(i).Interface()
		k := keyOf(r)
		res.keys = append(res.keys, k)
		res.rows[k] = normRow(r)
	}
	sort.Strings(res.keys)
	return res
}

// sameResult compares a live result with the expected one.
func sameResult(got, want *result) bool {
	if got == nil || want == nil || got.panicked {
		return false
	}
	if want.class != "" || got.class != "" {
		if got.class != want.class {
			return false
		}
		if strings.HasPrefix(want.class, "one:") {
			return reflect.DeepEqual(got.rows[got.keys[0]], want.rows[want.keys[0]])
		}
		return true
	}
	if got.err != nil || want.err != nil {
		return false
	}
	if len(got.keys) != len(want.keys) {
		return false
	}
	for i, k := range want.keys {
		if got.keys[i] != k || !reflect.DeepEqual(got.rows[k], want.rows[k]) {
			return false
		}
	}
	return true
}

// expected evaluates what the database returns now, without liveness.
func expected(db *sqlgen.DB, table string, row bool, filter sqlgen.Filter, where string) *result {
	bg := fakesql.WithTag(context.Background(), "expected")
	res := runQuery(bg, db, table, row, filter, where)
	if row && res.class == "many" {
		all := runQuery(bg, db, table, false, filter, where)
		if all.err != nil || len(all.keys) < 2 {
			res.err = fmt.Errorf("QueryRow failed with %v although Query returns %d rows (%v)", res.err, len(all.keys), all.err)
			return res
		}
		res.err = nil
	}
	return res
}

// ---- monitor A: tester <=> database ----

func testerCase(run *vlib.Run, i int) {
	r := run.Rand("tester", i)
	eng := fakesql.New("", database)
	defer eng.Dispose()
	if r.Intn(2) == 0 {
		eng.SetProtocol(fakesql.Binary, r.Intn(2) == 0)
	}
	schema := newSchema()
	if err := eng.CreateSchemaTables(schema); err != nil {
		run.Broken(fmt.Sprintf("tester case %d: %v", i, err))
		return
	}
	conn := eng.Open()
	defer conn.Close()
	db := sqlgen.NewDB(conn, schema)
	bg := context.Background()
	table := tableNames[r.Intn(len(tableNames))]
	n := 6 + r.Intn(8)
	for k := 0; k < n; k++ {
		db.InsertRow(bg, genRow(r, table)) // duplicate keys are simply rejected
	}
	all := runQuery(bg, db, table, false, nil, "")
	if all.err != nil || len(all.keys) == 0 {
		run.Broken(fmt.Sprintf("tester case %d: reading %s: %v", i, table, all.err))
		return
	}
	structs := map[string]interface{}{}
	{
		out := reflect.New(reflect.SliceOf(reflect.PtrTo(tableTypes[table])))
		if err := db.Query(bg, out.Interface(), nil, nil); err != nil {
			run.Broken(err.Error())
			return
		}
		for k := 0; k < out.Elem().Len(); k++ {
			s := out.Elem().Index(k).Interface()
			structs[keyOf(s)] = s
		}
	}
	for f := 0; f < 6; f++ {
		fd := genFilter(r, table, n)
		if table == "wides" && r.Intn(6) == 0 {
			fd = genWideFilter(r, structs[all.keys[r.Intn(len(all.keys))]].(*Wide))
		}
		sel := runQuery(bg, db, table, false, fd.filter, "")
		if sel.err != nil {
			run.Broken(fmt.Sprintf("tester case %d: Query(%s, %s): %v", i, table, fd, sel.err))
			return
		}
		tester, err := schema.MakeTester(table, fd.filter)
		if err != nil {
			run.Broken(fmt.Sprintf("tester case %d: MakeTester(%s, %s): %v", i, table, fd, err))
			return
		}
		inSel := map[string]bool{}
		for _, k := range sel.keys {
			inSel[k] = true
		}
		matched := 0
		for _, k := range all.keys {
			got := tester.Test(structs[k])
			if got {
				matched++
			}
			if got != inSel[k] {
				run.Count("tester_mismatch", 1)
				run.Violation(i, classifyTester(fd, got), map[string]interface{}{
					"what":           "sqlgen tester and the database disagree on whether a row matches a filter",
					"table":          table,
					"filter":         fd.String(),
					"row":            rowString(structs[k]),
					"tester_says":    got,
					"database_says":  inSel[k],
					"statement":      lastSelect(eng),
					"representation": fd.shape(),
				})
			}
		}
		run.Count("tester_row_checks", len(all.keys))
		run.Case("tester|"+table+"|"+fd.shape()+fmt.Sprintf("|hit=%v", matched > 0), matched > 0 && len(fd.filter) > 0)
		for c, rep := range fd.reps {
			run.Count("tester_filter:"+table+"."+c+":"+rep, 1)
		}
	}
}

func lastSelect(eng *fakesql.Engine) string {
	log := eng.Log()
	for k := len(log) - 1; k >= 0; k-- {
		if log[k].Kind == fakesql.SSelect {
			return log[k].Summary()
		}
	}
	return ""
}

// classifyTester: no tester defect is recorded as known; every disagreement
// is an unclassified violation.
func classifyTester(fd filterDesc, testerSays bool) string { return "" }

// ---- monitor B: histories ----

type liveQuery struct {
	id    int
	table string
	row   bool
	fd    filterDesc
	where string // custom SelectOptions.Where ("" = nil options)
	// twin: another rerunner on the same LiveDB issues exactly this query
	twin bool
	// other is the same query in the other rerunner; attempts counts how often
	// this query's rerunner has started to (re-)issue it
	other    *liveQuery
	attempts int64

	mu         sync.Mutex
	runs       int
	last       *result
	snapFresh  bool
	snapSeen   int64 // commits visible before the snapshot of the latest SELECT
	resultSnap int64 // the same, for the SELECT that produced `last`
}

func (q *liveQuery) describe() string {
	op := "Query"
	if q.row {
		op = "QueryRow"
	}
	if q.where != "" {
		return fmt.Sprintf("live#%d %s(%s, %s, Where: %q)", q.id, op, q.table, q.fd, q.where)
	}
	return fmt.Sprintf("live#%d %s(%s, %s)", q.id, op, q.table, q.fd)
}

type fault struct {
	kind      string
	table     string
	commitIdx int64
	event     string
}

// evRec remembers every rows event produced, so that a later schema change
// can mark the earlier events of its table: RunPollLoop reads the table's
// columns when it decodes, and an event produced before the change may be
// decoded after it (then its column count no longer fits).
type evRec struct {
	table     string
	commitIdx int64
	desc      string
	faulty    bool
}

type quietLogger struct {
	mu     sync.Mutex
	errors []string
}

func (l *quietLogger) Debug(msg string, tags ...interface{}) {}
func (l *quietLogger) Info(msg string, tags ...interface{})  {}
func (l *quietLogger) Warn(msg string, tags ...interface{})  {}
func (l *quietLogger) Error(msg string, tags ...interface{}) {
	l.mu.Lock()
	l.errors = append(l.errors, fmt.Sprint(append([]interface{}{msg}, tags...)...))
	l.mu.Unlock()
}

type history struct {
	run    *vlib.Run
	idx    int
	r      *rand.Rand
	eng    *fakesql.Engine
	schema *sqlgen.Schema
	db     *sqlgen.DB
	ldb    *livesql.LiveDB
	logger *quietLogger
	push   func(*replication.BinlogEvent)

	forms map[string]map[string]blForm

	mu          sync.Mutex // guards the translator state below
	tableIDs    map[string]uint64
	announced   map[string]uint64 // table id last sent in a table-map event
	staleMap    map[string]bool   // schema changed without a new table id
	faults      []fault
	faultAt     map[int]string // rows-event ordinal -> fault kind
	eventCount  int
	events      []evRec
	reordered   string // table whose columns were permuted
	failLookups map[string]lookupFault
	// pendingFault: the next rows event of the table is made undecodable
	pendingFault map[string]string
	eventLog     []string
	deliverCh    chan []*replication.BinlogEvent
	deliverDone  chan struct{}
	delayR       *rand.Rand
	hookR        *rand.Rand
	hookMu       sync.Mutex

	commits     int64
	pushed      int64
	enqueued    int64
	computeRuns int64
	hookEvents  int64
	// live SELECTs during which (between the hooks around the snapshot) some
	// commit became visible
	commitInWindow                 int64
	inflight                       int64 // compute functions entered and not yet returned
	lookupsFailed                  int64 // information_schema lookups failed by the harness
	slowReads, slowReadsOverlapped int64

	queries []*liveQuery
	byID    map[int]*liveQuery

	// shared server (guarded by mu): the change log also carries the traffic of
	// tables this LiveDB does not track, and the server hands table ids out
	// from a counter that restarts with the server
	shared          bool
	sharedR         *rand.Rand
	foreign         []foreignTable
	foreignIDs      map[string]uint64 // "schema.table" -> current table id
	foreignAnnounce map[uint64]string // id -> foreign table it was last announced for
	trackedAnnounce map[uint64]string // id -> tracked table it was last announced for
	foreignEvents   int
	restarts        int
	idCollisions    map[string]int
}

// foreignTable is a table whose events share the change log with the tracked
// tables: a table of another database (possibly with the name of a tracked
// table) or a table of the tracked database that has no descriptor in the
// sqlgen schema.
type foreignTable struct {
	schema, table string
	cols          int
}

func (f foreignTable) name() string { return f.schema + "." + f.table }

var foreignTables = []foreignTable{
	{"otherdb", "wides", 2},   // same name as a tracked table, other database
	{"otherdb", "audit", 3},   // other database
	{database, "sessions", 2}, // tracked database, no descriptor
	{database, "tinies_archive", 3},
	{"mysql", "gtid_executed", 1},
}

// foreignPair is the change-log footprint of one committed write on a foreign
// table: its table map and one rows event. Caller holds h.mu.
func (h *history) foreignPair() []*replication.BinlogEvent {
	f := h.foreign[h.sharedR.Intn(len(h.foreign))]
	id := h.foreignIDs[f.name()]
	typ := []replication.EventType{replication.WRITE_ROWS_EVENTv2, replication.UPDATE_ROWS_EVENTv2, replication.DELETE_ROWS_EVENTv2}[h.sharedR.Intn(3)]
	nrows := 1
	if typ == replication.UPDATE_ROWS_EVENTv2 {
		nrows = 2
	}
	var rows [][]interface{}
	for k := 0; k < nrows; k++ {
		row := make([]interface{}, f.cols)
		for c := range row {
			if c == 0 {
				row[c] = int64(h.sharedR.Intn(50))
			} else {
				row[c] = fmt.Sprintf("v%d", h.sharedR.Intn(50))
			}
		}
		rows = append(rows, row)
	}
	h.foreignEvents++
	h.foreignAnnounce[id] = f.name()
	delete(h.trackedAnnounce, id)
	h.eventLog = append(h.eventLog, fmt.Sprintf("untracked table %s: TABLE_MAP + %s [table id %d]", f.name(), typ, id))
	return []*replication.BinlogEvent{tableMapEvent(f.schema, f.table, id, f.cols), rowsEvent(f.schema, f.table, id, typ, rows)}
}

// assignIDs models what a (re)started server does: every table gets its id
// from a counter that starts low, in the order in which the tables are first
// opened (seeded). Ids of distinct tables are distinct at any time, but an id
// may denote another table than it did before the restart. Caller holds h.mu.
func (h *history) assignIDs() {
	var names []string
	for _, t := range tableNames {
		names = append(names, "T:"+t)
	}
	for _, f := range h.foreign {
		names = append(names, "F:"+f.name())
	}
	h.sharedR.Shuffle(len(names), func(a, b int) { names[a], names[b] = names[b], names[a] })
	base := uint64(10 + h.sharedR.Intn(3))
	for k, n := range names {
		if n[0] == 'T' {
			h.tableIDs[n[2:]] = base + uint64(k)
		} else {
			h.foreignIDs[n[2:]] = base + uint64(k)
		}
	}
}

// restart: the server restarts (the replication client reconnects and keeps
// streaming); afterwards the other tenants of the server are busy for a
// moment.
func (h *history) restart() {
	h.mu.Lock()
	defer h.mu.Unlock()
	h.restarts++
	h.assignIDs()
	var parts []string
	for _, t := range tableNames {
		parts = append(parts, fmt.Sprintf("%s=%d", t, h.tableIDs[t]))
	}
	h.eventLog = append(h.eventLog, "server restart: table ids re-assigned ("+strings.Join(parts, " ")+")")
	var events []*replication.BinlogEvent
	for k := h.sharedR.Intn(3); k > 0; k-- {
		events = append(events, h.foreignPair()...)
	}
	if len(events) > 0 {
		atomic.AddInt64(&h.enqueued, int64(len(events)))
		h.deliverCh <- events
	}
}

// noteTrackedAnnounce records that a table map announces id for a tracked
// table and counts the re-assignments the history exercises. Caller holds h.mu.
func (h *history) noteTrackedAnnounce(table string, id uint64) {
	if f, ok := h.foreignAnnounce[id]; ok {
		h.idCollisions["tracked_table_announced_under_id_last_announced_for_untracked_table"]++
		h.eventLog = append(h.eventLog, fmt.Sprintf("(table id %d last announced %s, now announces %s)", id, f, table))
		delete(h.foreignAnnounce, id)
	}
	if o, ok := h.trackedAnnounce[id]; ok && o != table {
		h.idCollisions["tracked_table_announced_under_id_last_announced_for_other_tracked_table"]++
	}
	h.trackedAnnounce[id] = table
}

func (h *history) activity() int64 {
	return h.eng.Statements() + atomic.LoadInt64(&h.pushed) + atomic.LoadInt64(&h.computeRuns) + atomic.LoadInt64(&h.hookEvents) + atomic.LoadInt64(&h.commits)
}

// perturb delays the calling goroutine a little (seeded), to vary where
// snapshots fall relative to commits and event delivery.
func (h *history) perturb(after bool) {
	h.hookMu.Lock()
	x := h.hookR.Intn(20)
	d := time.Duration(h.hookR.Intn(400)) * time.Microsecond
	if after && x >= 18 {
		// occasionally hold the reader between its snapshot and its return long
		// enough for a commit to be delivered and processed in between
		d = time.Duration(1000+h.hookR.Intn(2000)) * time.Microsecond
	}
	h.hookMu.Unlock()
	switch {
	case x < 8:
	case x < 12:
		for k := 0; k < 3; k++ {
			time.Sleep(0)
		}
	default:
		time.Sleep(d)
	}
}

// quiet reports whether a "nothing moves" observation can be trusted for this
// history: no compute function in flight, every live query has run at least
// once, the Go scheduler and the OS give goroutines their turn promptly (a
// 1 ms sleep returns within 25 ms, three times; then a few hundred yields so
// that every runnable goroutine gets to run), and no goroutine of the process
// is queued on the harness's process-wide yield handler or sits runnable
// inside a rerunner / binlog frame.
func (h *history) quiet() bool {
	if atomic.LoadInt64(&h.inflight) > 0 {
		return false
	}
	for _, q := range h.queries {
		q.mu.Lock()
		n := q.runs
		q.mu.Unlock()
		if n == 0 {
			return false
		}
	}
	for k := 0; k < 3; k++ {
		t0 := time.Now()
		time.Sleep(time.Millisecond)
		if time.Since(t0) > 25*time.Millisecond {
			return false
		}
	}
	for k := 0; k < 300; k++ {
		runtime.Gosched()
	}
	for _, g := range strings.Split(vlib.Stacks(), "\n\n") {
		if strings.Contains(g, "vlib.(*Yielder).handle") && (strings.Contains(g, "sync.(*Mutex).Lock") || strings.Contains(g, "[runnable")) {
			return false
		}
		if strings.Contains(g, "[runnable") && (strings.Contains(g, "reactive.(*Rerunner).run") || strings.Contains(g, "livesql.(*Binlog).RunPollLoop") ||
			strings.Contains(g, "reactive.(*node).invalidate") || strings.Contains(g, "c07.(*history).deliver")) {
			return false
		}
	}
	return atomic.LoadInt64(&h.inflight) == 0
}

// slowRead keeps a SELECT of a query that another rerunner issues too "in
// flight" after its snapshot was taken (a slow connection / large result):
// for a third of these reads it waits, bounded, until some later commit became
// visible and its events were handed to the binlog, plus a moment for the
// other subscriber to be re-run by them. This is perturbation only; no
// verdict depends on it.
func (h *history) slowRead(q *liveQuery) {
	h.hookMu.Lock()
	hold := h.hookR.Intn(3) == 0
	h.hookMu.Unlock()
	if !hold {
		return
	}
	q.mu.Lock()
	seen := q.snapSeen
	q.mu.Unlock()
	atomic.AddInt64(&h.slowReads, 1)
	before := atomic.LoadInt64(&q.other.attempts)
	for k := 0; k < 100; k++ { // at most ~20 ms
		if atomic.LoadInt64(&h.commits) > seen && atomic.LoadInt64(&h.pushed) == atomic.LoadInt64(&h.enqueued) &&
			atomic.LoadInt64(&q.other.attempts) > before {
			// a later commit is visible, its events were delivered, and the other
			// subscriber has started to re-issue the query while this read is
			// still in flight
			atomic.AddInt64(&h.slowReadsOverlapped, 1)
			time.Sleep(time.Millisecond)
			return
		}
		time.Sleep(200 * time.Microsecond)
	}
}

// onCommit translates the row changes of one commit into binlog events.
func (h *history) onCommit(changes []fakesql.RowChange) {
	idx := atomic.AddInt64(&h.commits, 1)
	h.mu.Lock()
	defer h.mu.Unlock()
	var events []*replication.BinlogEvent
	flush := func(table string, kind fakesql.ChangeKind, rows [][]interface{}) {
		if len(rows) == 0 {
			return
		}
		typ := map[fakesql.ChangeKind]replication.EventType{fakesql.RowInsert: replication.WRITE_ROWS_EVENTv2,
			fakesql.RowUpdate: replication.UPDATE_ROWS_EVENTv2, fakesql.RowDelete: replication.DELETE_ROWS_EVENTv2}[kind]
		ord := h.eventCount
		h.eventCount++
		desc := fmt.Sprintf("event %d (commit %d): %s %s %d row image(s)", ord, idx, kind, table, len(rows))
		fk, ok := h.faultAt[ord]
		if pf, pending := h.pendingFault[table]; pending {
			fk, ok = pf, true
			delete(h.pendingFault, table)
		}
		if ok {
			applied := ""
			switch {
			case fk == "oddrows" && kind == fakesql.RowUpdate:
				rows = append(rows, append([]interface{}{}, rows[0]...))
				applied = "oddrows"
			case fk == "colcount":
				for k := range rows {
					rows[k] = rows[k][:len(rows[k])-1]
				}
				applied = "colcount"
			default:
				// a value of the wrong kind for the first column (an integer in
				// every shape but tinies, where it is the string key: use cnt)
				col := 0
				if table == "tinies" {
					col = 1
				}
				rows[0] = append([]interface{}{}, rows[0]...)
				rows[0][col] = "not-a-number"
				applied = "badkind"
			}
			desc += " FAULT " + applied
			h.faults = append(h.faults, fault{kind: applied, table: table, commitIdx: idx, event: desc})
		} else if h.staleMap[table] {
			desc += " (table changed shape, table id not renewed)"
			h.faults = append(h.faults, fault{kind: "schema-change-without-table-map", table: table, commitIdx: idx, event: desc})
		}
		h.eventLog = append(h.eventLog, desc)
		h.events = append(h.events, evRec{table: table, commitIdx: idx, desc: desc, faulty: strings.Contains(desc, "FAULT") || h.staleMap[table]})
		id := h.tableIDs[table]
		// MySQL precedes every rows event with the table map of its table
		ncols := 0
		if len(rows) > 0 {
			ncols = len(rows[0])
		}
		if def, ok := h.eng.Def(table); ok {
			ncols = len(def.Columns) // what MySQL's table map reports, whatever a fault did to the rows
		}
		if h.shared {
			h.eventLog[len(h.eventLog)-1] += fmt.Sprintf(" [table id %d]", id)
			line := h.eventLog[len(h.eventLog)-1]
			h.eventLog = h.eventLog[:len(h.eventLog)-1]
			if h.sharedR.Intn(3) == 0 {
				events = append(events, h.foreignPair()...)
			}
			h.noteTrackedAnnounce(table, id)
			h.eventLog = append(h.eventLog, line) // in delivery order
		}
		events = append(events, tableMapEvent(database, table, id, ncols), rowsEvent(database, table, id, typ, rows))
	}
	var curTable string
	var curKind fakesql.ChangeKind
	var curSeq int64
	var rows [][]interface{}
	for _, c := range changes {
		if c.Table != curTable || c.Kind != curKind || c.StmtSeq != curSeq {
			flush(curTable, curKind, rows)
			curTable, curKind, curSeq, rows = c.Table, c.Kind, c.StmtSeq, nil
		}
		def, _ := h.eng.Def(c.Table)
		add := func(img []driver.Value) {
			out := make([]interface{}, len(def.Columns))
			for j, col := range def.Columns {
				var v driver.Value
				if j < len(img) {
					v = img[j]
				}
				form, ok := h.forms[c.Table][col.Name]
				if !ok {
					form = blInt64 // a column the struct does not know
				}
				out[j] = binlogValue(form, v)
			}
			rows = append(rows, out)
		}
		if c.Before != nil {
			add(c.Before)
		}
		if c.After != nil {
			add(c.After)
		}
	}
	flush(curTable, curKind, rows)
	if h.shared && len(events) > 0 && h.sharedR.Intn(4) == 0 {
		events = append(events, h.foreignPair()...)
	}
	if len(events) > 0 {
		atomic.AddInt64(&h.enqueued, int64(len(events)))
		h.deliverCh <- events
	}
}

// deliver pushes events in commit order with seeded delays.
func (h *history) deliver() {
	defer close(h.deliverDone)
	for batch := range h.deliverCh {
		for _, ev := range batch {
			switch x := h.delayR.Intn(10); {
			case x < 4:
			case x < 8:
				time.Sleep(time.Duration(h.delayR.Intn(500)) * time.Microsecond)
			default:
				time.Sleep(time.Duration(1+h.delayR.Intn(4)) * time.Millisecond)
			}
			h.push(ev)
			atomic.AddInt64(&h.pushed, 1)
		}
	}
}

// alter performs a schema change (a new nullable column at the end).
func (h *history) alter(table string, renewTableID bool) {
	h.mu.Lock()
	n := len(h.eventLog)
	h.mu.Unlock()
	if err := h.eng.AddColumn(table, fakesql.ColumnDef{Name: fmt.Sprintf("extra_%d", n), Kind: fakesql.KInt}); err != nil {
		h.run.Broken(err.Error())
		return
	}
	h.mu.Lock()
	for k := range h.events {
		if e := &h.events[k]; e.table == table && !e.faulty {
			e.faulty = true
			h.faults = append(h.faults, fault{kind: "decoded-after-schema-change", table: table, commitIdx: e.commitIdx, event: e.desc + " (table changed shape later; decodable only if decoded before)"})
		}
	}
	if renewTableID {
		h.tableIDs[table] += 100
		h.eventLog = append(h.eventLog, "ALTER "+table+" (new table id)")
	} else {
		h.staleMap[table] = true
		h.eventLog = append(h.eventLog, "ALTER "+table+" (table id NOT renewed)")
	}
	h.mu.Unlock()
}

// reorder permutes the columns of a table (same column count) and renews its
// table id. RunPollLoop reads a table's columns when it first decodes an event
// of it, so an event produced before the change but decoded after it with a
// freshly read (new) column list would be mis-decoded - the race the code
// comment in RunPollLoop accepts. The harness therefore reorders only once
// the binlog has read the table's columns (its information_schema query is in
// the statement log), which keeps every event decodable on a correct tree.
func (h *history) reorder(table string) {
	cached := func() bool {
		for _, st := range h.eng.Log() {
			if st.Table == "information_schema.columns" && len(st.Args) == 2 && st.Args[1] == table && st.Done {
				return true
			}
		}
		return false
	}
	deadline := time.Now().Add(500 * time.Millisecond)
	for !cached() {
		if time.Now().After(deadline) {
			h.run.Count("reorder_skipped_columns_not_read_yet", 1)
			return
		}
		time.Sleep(500 * time.Microsecond)
	}
	if err := h.eng.ReorderColumns(table, reorders[table]); err != nil {
		h.run.Broken(err.Error())
		return
	}
	h.mu.Lock()
	h.tableIDs[table] += 100
	h.reordered = table
	h.eventLog = append(h.eventLog, "ALTER "+table+" reorder columns to "+strings.Join(reorders[table], ",")+" (new table id)")
	h.mu.Unlock()
	h.run.Count("reorder_done", 1)
}

// renewTableID gives the table a new table id without changing its shape (what
// MySQL does when it re-opens a table: FLUSH TABLES, table cache eviction,
// index-only ALTERs). RunPollLoop then drops its cached column list and reads
// information_schema again when the next rows event of the table arrives; the
// harness makes exactly that lookup fail with a connection-type error
// (driver.ErrBadConn on every retry database/sql makes, or sql.ErrConnDone,
// which is not retried). The event that hits the failed lookup describes a
// real commit and must still invalidate the live queries on the table.
func (h *history) renewTableID(table string, badConn bool) {
	h.mu.Lock()
	h.tableIDs[table] += 100
	if badConn {
		h.failLookups[table] = lookupFault{left: 3, err: driver.ErrBadConn}
	} else {
		h.failLookups[table] = lookupFault{left: 1, err: sql.ErrConnDone}
	}
	h.eventLog = append(h.eventLog, fmt.Sprintf("table %s re-opened (new table id); its next column lookup fails with %v", table, h.failLookups[table].err))
	h.mu.Unlock()
	h.run.Count("lookup_fault_armed", 1)
}

type lookupFault struct {
	left int
	err  error
}

// faultHook fails the binlog's information_schema lookups that were armed.
func (h *history) faultHook(st *fakesql.Stmt) *fakesql.Fault {
	if st.Table != "information_schema.columns" || len(st.Args) != 2 {
		return nil
	}
	table, _ := st.Args[1].(string)
	h.mu.Lock()
	defer h.mu.Unlock()
	lf := h.failLookups[table]
	if lf.left == 0 {
		return nil
	}
	lf.left--
	h.failLookups[table] = lf
	h.eventLog = append(h.eventLog, fmt.Sprintf("column lookup for %s fails with %v", table, lf.err))
	atomic.AddInt64(&h.lookupsFailed, 1)
	return &fakesql.Fault{Err: lf.err}
}

type writeOp struct {
	fault string // make the (first) event of this write undecodable
	kind  string
	table string
	rows  []interface{}
	tx    []writeOp
	ok    bool // tx: commit
	renew bool // alter
}

func (h *history) genWriteOp(r *rand.Rand, maxWide *int64, allowTx bool) writeOp {
	table := tableNames[r.Intn(len(tableNames))]
	existing := func() interface{} {
		row := genRow(r, table)
		if w, ok := row.(*Wide); ok {
			w.Id = 1 + r.Int63n(*maxWide+1)
		}
		return row
	}
	switch x := r.Intn(20); {
	case x < 4:
		if table == "wides" {
			*maxWide++
		}
		return writeOp{kind: "InsertRow", table: table, rows: []interface{}{genRow(r, table)}}
	case x < 6:
		n := 2 + r.Intn(2)
		op := writeOp{kind: "InsertRows", table: table}
		for k := 0; k < n; k++ {
			op.rows = append(op.rows, genRow(r, table))
		}
		if table == "wides" {
			*maxWide += int64(n)
		}
		return op
	case x < 11:
		return writeOp{kind: "UpdateRow", table: table, rows: []interface{}{existing()}}
	case x < 14:
		return writeOp{kind: "DeleteRow", table: table, rows: []interface{}{existing()}}
	case x < 16:
		if table == "wides" {
			table = "pairs"
		}
		return writeOp{kind: "UpsertRow", table: table, rows: []interface{}{genRow(r, table)}}
	case x < 17:
		if table == "wides" {
			table = "tinies"
		}
		return writeOp{kind: "UpsertRows", table: table, rows: []interface{}{genRow(r, table), genRow(r, table)}}
	default:
		if !allowTx {
			return writeOp{kind: "UpdateRow", table: table, rows: []interface{}{existing()}}
		}
		op := writeOp{kind: "Tx", ok: r.Intn(4) != 0}
		for k := 0; k < 2+r.Intn(2); k++ {
			op.tx = append(op.tx, h.genWriteOp(r, maxWide, false))
		}
		return op
	}
}

func typedSlice(table string, rows []interface{}) interface{} {
	sl := reflect.MakeSlice(reflect.SliceOf(reflect.PtrTo(tableTypes[table])), 0, len(rows))
	for _, r := range rows {
		sl = reflect.Append(sl, reflect.ValueOf(r))
	}
	return sl.Interface()
}

func (h *history) apply(ctx context.Context, op writeOp) {
	var err error
	if op.fault != "" {
		h.mu.Lock()
		h.pendingFault[op.table] = op.fault
		h.mu.Unlock()
	}
	switch op.kind {
	case "InsertRow":
		_, err = h.db.InsertRow(ctx, op.rows[0])
	case "InsertRows":
		err = h.db.InsertRows(ctx, typedSlice(op.table, op.rows), 2)
	case "UpdateRow":
		err = h.db.UpdateRow(ctx, op.rows[0])
	case "DeleteRow":
		err = h.db.DeleteRow(ctx, op.rows[0])
	case "UpsertRow":
		_, err = h.db.UpsertRow(ctx, op.rows[0])
	case "UpsertRows":
		err = h.db.UpsertRows(ctx, typedSlice(op.table, op.rows), 2)
	case "Alter":
		h.alter(op.table, op.renew)
	case "Reorder":
		h.reorder(op.table)
	case "MovePK":
		// a write that changes a row's primary key
		var q string
		var args []interface{}
		switch o := op.rows[0].(type) {
		case *Wide:
			q, args = "UPDATE wides SET id = ? WHERE id = ?", []interface{}{op.rows[1].(*Wide).Id, o.Id}
		case *Pair:
			n := op.rows[1].(*Pair)
			q, args = "UPDATE pairs SET a = ?, b = ? WHERE a = ? AND b = ?", []interface{}{n.A, n.B, o.A, o.B}
		case *Tiny:
			q, args = "UPDATE tinies SET k = ? WHERE k = ?", []interface{}{op.rows[1].(*Tiny).K, o.K}
		}
		_, err = h.db.QueryExecer(ctx).ExecContext(ctx, q, args...)
	case "SoftDelete", "Undelete":
		var val interface{}
		if op.kind == "SoftDelete" {
			val = int64(1700000000)
		}
		var where string
		var args []interface{}
		switch x := op.rows[0].(type) {
		case *Wide:
			where, args = "id = ?", []interface{}{x.Id}
		case *Pair:
			where, args = "a = ? AND b = ?", []interface{}{x.A, x.B}
		case *Tiny:
			where, args = "k = ?", []interface{}{x.K}
		}
		_, err = h.db.QueryExecer(ctx).ExecContext(ctx, "UPDATE "+op.table+" SET deleted_at = ? WHERE "+where, append([]interface{}{val}, args...)...)
	case "RenewTableID":
		h.renewTableID(op.table, op.renew)
	case "Restart":
		h.restart()
	case "Tx":
		txctx, tx, terr := h.db.WithTx(ctx)
		if terr != nil {
			h.run.Broken("WithTx: " + terr.Error())
			return
		}
		for _, o := range op.tx {
			h.apply(txctx, o)
		}
		if op.ok {
			err = tx.Commit()
		} else {
			err = tx.Rollback()
		}
	}
	h.run.Count("write:"+op.kind, 1)
	if err != nil {
		h.run.Count("write_rejected:"+op.kind, 1)
	}
}

// fixedPlan replaces the random parts of a history (pinned reproducers).
type fixedPlan struct {
	name    string
	queries []*liveQuery
	ops     []writeOp
	faultAt map[int]string
	class   string // expected classifier of the stale outcome
}

func runHistory(run *vlib.Run, i int, fixed *fixedPlan) {
	fmt.Println("CASE history", i)
	r := run.Rand("history", i)
	h := &history{run: run, idx: i, r: r, logger: &quietLogger{}, tableIDs: map[string]uint64{}, announced: map[string]uint64{}, staleMap: map[string]bool{},
		faultAt: map[int]string{}, failLookups: map[string]lookupFault{}, pendingFault: map[string]string{}, deliverCh: make(chan []*replication.BinlogEvent, 4096), deliverDone: make(chan struct{}),
		delayR: rand.New(rand.NewSource(r.Int63())), hookR: rand.New(rand.NewSource(r.Int63())), byID: map[int]*liveQuery{}, forms: map[string]map[string]blForm{}}
	h.eng = fakesql.New("", database)
	defer h.eng.Dispose()
	proto := "text"
	if r.Intn(2) == 0 {
		h.eng.SetProtocol(fakesql.Binary, r.Intn(2) == 0)
		proto = "binary"
	}
	if r.Intn(2) == 0 {
		h.eng.SetRowOrder(fakesql.ShuffledOrder, int64(i))
	}
	h.schema = newSchema()
	if err := h.eng.CreateSchemaTables(h.schema); err != nil {
		run.Broken(err.Error())
		return
	}
	textAsBlob := r.Intn(3) == 0
	for k, t := range tableNames {
		h.forms[t] = binlogForms(h.schema.ByName[t], textAsBlob)
		h.tableIDs[t] = uint64(10 + k)
	}
	// The server may be shared: its change log then also carries the events of
	// tables of other databases and of tables of this database that have no
	// descriptor, and its table ids come from one counter for all of them that
	// restarts with the server. (Own random stream: the rest of the history is
	// the same with and without it.)
	sr := run.Rand("shared-server", i)
	h.foreignIDs, h.foreignAnnounce, h.trackedAnnounce, h.idCollisions = map[string]uint64{}, map[uint64]string{}, map[uint64]string{}, map[string]int{}
	if fixed == nil && sr.Intn(2) == 0 {
		h.shared = true
		h.sharedR = rand.New(rand.NewSource(sr.Int63()))
		perm := sr.Perm(len(foreignTables))
		for _, k := range perm[:2+sr.Intn(len(foreignTables)-1)] {
			h.foreign = append(h.foreign, foreignTables[k])
		}
		h.assignIDs()
	}
	conn := h.eng.Open()
	defer conn.Close()
	h.db = sqlgen.NewDB(conn, h.schema)
	h.ldb = livesql.NewLiveDB(h.db)
	bg := context.Background()

	// initial contents (before the binlog starts: no events)
	var maxWide int64
	var initialWides []*Wide
	for k := 0; k < 3+r.Intn(5); k++ {
		w := genWide(r)
		initialWides = append(initialWides, w)
		h.db.InsertRow(bg, w)
		maxWide++
	}
	for k := 0; k < 2+r.Intn(4); k++ {
		h.db.InsertRow(bg, genRow(r, "pairs"))
		h.db.InsertRow(bg, genRow(r, "tinies"))
	}
	// rows with well-known keys (moved to another key by the pk-move histories)
	h.db.InsertRow(bg, &Pair{A: 5, B: "old", N: 77})
	h.db.InsertRow(bg, &Tiny{K: "mv-old", Cnt: 77})

	// a table that is wider than its Go model: a soft-delete column the struct
	// does not map, used by live queries through SelectOptions.Where and
	// written with plain SQL
	widened := ""
	if fixed == nil && r.Intn(3) == 0 {
		widened = tableNames[r.Intn(len(tableNames))]
		if err := h.eng.AddColumn(widened, fakesql.ColumnDef{Name: "deleted_at", Kind: fakesql.KInt}); err != nil {
			run.Broken(err.Error())
			return
		}
		run.Count("histories_with_unmapped_column", 1)
	}

	// fault plan
	nWriters := 1 + r.Intn(3)
	var plans [][]writeOp
	totalOps := 0
	for w := 0; w < nWriters; w++ {
		var ops []writeOp
		for k := 0; k < 3+r.Intn(8); k++ {
			ops = append(ops, h.genWriteOp(r, &maxWide, true))
		}
		totalOps += len(ops)
		plans = append(plans, ops)
	}
	if widened != "" {
		// soft deletes / undeletes of existing rows, spread over the writers
		for k := 0; k < 4+r.Intn(5); k++ {
			row := genRow(r, widened)
			if wd, ok := row.(*Wide); ok {
				wd.Id = 1 + r.Int63n(maxWide+1)
			}
			op := writeOp{kind: "SoftDelete", table: widened, rows: []interface{}{row}}
			if r.Intn(3) == 0 {
				op.kind = "Undelete"
			}
			w := r.Intn(nWriters)
			at := r.Intn(len(plans[w]) + 1)
			plans[w] = append(plans[w][:at:at], append([]writeOp{op}, plans[w][at:]...)...)
			totalOps++
		}
	}
	faulty := r.Intn(5) < 2
	schemaChange := ""
	if widened != "" {
		schemaChange = "unmapped-column" // no further schema change in these histories
	}
	if fixed != nil {
		nWriters, plans, totalOps, faulty = 1, [][]writeOp{fixed.ops}, len(fixed.ops), false
		h.faultAt = fixed.faultAt
	}
	if faulty {
		for k := 0; k < 1+r.Intn(2); k++ {
			// bias towards late events, which nothing later repairs
			ord := totalOps - 1 - r.Intn(totalOps/2+1)
			if r.Intn(4) == 0 {
				ord = r.Intn(totalOps + 1)
			}
			h.faultAt[ord] = []string{"colcount", "badkind", "oddrows"}[r.Intn(3)]
		}
	}
	if fixed == nil && widened == "" && r.Intn(4) == 0 {
		// a schema change in the middle of some writer's plan
		w := r.Intn(nWriters)
		at := r.Intn(len(plans[w]) + 1)
		renew := !faulty || r.Intn(2) == 0
		schemaChange = "renewed"
		if !renew {
			schemaChange = "not-renewed"
		}
		op := writeOp{kind: "Alter", table: tableNames[r.Intn(len(tableNames))], renew: renew}
		plans[w] = append(plans[w][:at:at], append([]writeOp{op}, plans[w][at:]...)...)
	}

	reorderTable := ""
	if fixed == nil && !faulty && schemaChange == "" && r.Intn(4) == 0 {
		// a column-count-preserving schema change: some writes on the table,
		// the reorder, then more writes on it
		reorderTable = tableNames[r.Intn(len(tableNames))]
		schemaChange = "reorder"
		w := r.Intn(nWriters)
		onTable := func() writeOp {
			row := genRow(r, reorderTable)
			if wd, ok := row.(*Wide); ok {
				wd.Id = 1 + r.Int63n(maxWide+1)
			}
			switch r.Intn(4) {
			case 0:
				if reorderTable == "wides" {
					row.(*Wide).Id = 0
				}
				return writeOp{kind: "InsertRow", table: reorderTable, rows: []interface{}{row}}
			case 1:
				return writeOp{kind: "DeleteRow", table: reorderTable, rows: []interface{}{row}}
			}
			return writeOp{kind: "UpdateRow", table: reorderTable, rows: []interface{}{row}}
		}
		at := r.Intn(len(plans[w]) + 1)
		var mid []writeOp
		for k := 0; k < 2; k++ {
			mid = append(mid, onTable())
		}
		// an upsert/insert that certainly produces an event before the reorder
		if reorderTable == "wides" {
			mid = append(mid, writeOp{kind: "InsertRow", table: "wides", rows: []interface{}{genRow(r, "wides")}})
		} else {
			mid = append(mid, writeOp{kind: "UpsertRow", table: reorderTable, rows: []interface{}{genRow(r, reorderTable)}})
		}
		mid = append(mid, writeOp{kind: "Reorder", table: reorderTable})
		for k := 0; k < 4+r.Intn(4); k++ {
			mid = append(mid, onTable())
		}
		plans[w] = append(plans[w][:at:at], append(mid, plans[w][at:]...)...)
	}

	var lookupSentinel *liveQuery
	if fixed == nil && !faulty && schemaChange == "" && r.Intn(4) == 0 {
		// the table is re-opened (new table id), the column lookup of its next
		// rows event fails with a connection error, and that event is a write
		// that changes what a live query on the table returns
		table := tableNames[r.Intn(len(tableNames))]
		schemaChange = "lookup-fault"
		row := genRow(r, table)
		var write writeOp
		var fd filterDesc
		switch x := row.(type) {
		case *Wide:
			write = writeOp{kind: "InsertRow", table: table, rows: []interface{}{row}}
			fd = filterDesc{filter: sqlgen.Filter{"name": x.Name, "i8": x.I8, "u8": x.U8}, reps: map[string]string{"name": "own", "i8": "own", "u8": "own"}}
		case *Pair:
			x.N = 41 // a value no other writer produces, so the upsert changes the row
			write = writeOp{kind: "UpsertRow", table: table, rows: []interface{}{row}}
			fd = filterDesc{filter: sqlgen.Filter{"a": x.A, "b": x.B}, reps: map[string]string{"a": "own", "b": "own"}}
		case *Tiny:
			x.Cnt = 41
			write = writeOp{kind: "UpsertRow", table: table, rows: []interface{}{row}}
			fd = filterDesc{filter: sqlgen.Filter{"k": x.K}, reps: map[string]string{"k": "own"}}
		}
		lookupSentinel = &liveQuery{table: table, fd: fd}
		w := r.Intn(nWriters)
		at := len(plans[w]) - r.Intn(len(plans[w])/3+1) // late: little comes after it
		mid := []writeOp{{kind: "RenewTableID", table: table, renew: r.Intn(2) == 0}, write}
		plans[w] = append(plans[w][:at:at], append(mid, plans[w][at:]...)...)
	}

	var pkSentinels []*liveQuery
	if fixed == nil && !faulty && schemaChange == "" && r.Intn(5) == 0 {
		// writes that change a row's primary key, watched by live queries on the
		// old key, on the new key and on another column of the row
		schemaChange = "pk-move"
		table := tableNames[r.Intn(len(tableNames))]
		var ensure []writeOp
		var oldRow, newRow interface{}
		own := func(f sqlgen.Filter) filterDesc {
			fd := filterDesc{filter: f, reps: map[string]string{}}
			for c := range f {
				fd.reps[c] = "own"
			}
			return fd
		}
		var byOld, byNew, byOther filterDesc
		switch table {
		case "wides":
			oldRow, newRow = &Wide{Id: 1 + r.Int63n(3)}, &Wide{Id: 900 + r.Int63n(50)}
			byOld, byNew = own(sqlgen.Filter{"id": oldRow.(*Wide).Id}), own(sqlgen.Filter{"id": newRow.(*Wide).Id})
			byOther = own(sqlgen.Filter{"flag": true})
		case "pairs":
			oldRow, newRow = &Pair{A: 5, B: "old", N: 77}, &Pair{A: 6, B: "new", N: 77}
			ensure = []writeOp{{kind: "UpsertRow", table: table, rows: []interface{}{oldRow}}}
			byOld, byNew = own(sqlgen.Filter{"a": int32(5), "b": "old"}), own(sqlgen.Filter{"a": int32(6), "b": "new"})
			byOther = own(sqlgen.Filter{"n": int64(77)})
		default:
			oldRow, newRow = &Tiny{K: "mv-old", Cnt: 77}, &Tiny{K: "mv-new", Cnt: 77}
			ensure = []writeOp{{kind: "UpsertRow", table: table, rows: []interface{}{oldRow}}}
			byOld, byNew = own(sqlgen.Filter{"k": "mv-old"}), own(sqlgen.Filter{"k": "mv-new"})
			byOther = own(sqlgen.Filter{"cnt": uint16(77)})
		}
		pkSentinels = []*liveQuery{{table: table, row: r.Intn(2) == 0, fd: byOld}, {table: table, fd: byNew}, {table: table, fd: byOther}}
		w := r.Intn(nWriters)
		at := r.Intn(len(plans[w]) + 1)
		if r.Intn(2) == 0 {
			ensure = nil // the row exists since before the queries started
		}
		mid := append(ensure, writeOp{kind: "MovePK", table: table, rows: []interface{}{oldRow, newRow}})
		if r.Intn(3) == 0 {
			mid = append(mid, writeOp{kind: "MovePK", table: table, rows: []interface{}{newRow, oldRow}})
			if r.Intn(2) == 0 {
				mid = append(mid, writeOp{kind: "MovePK", table: table, rows: []interface{}{oldRow, newRow}})
			}
		}
		if r.Intn(3) == 0 {
			mid = []writeOp{{kind: "Tx", ok: true, tx: mid}}
		}
		plans[w] = append(plans[w][:at:at], append(mid, plans[w][at:]...)...)
	}

	burst := false
	if fixed == nil && !faulty && schemaChange == "" && r.Intn(5) == 0 {
		// an undecodable event immediately followed by decodable events of the
		// same table (a write burst), with delayed application so that they wait
		// in the applier's queue together; a dedicated live query depends on the
		// undecodable write only
		burst = true
		schemaChange = "fault-then-burst"
		table := tableNames[r.Intn(len(tableNames))]
		row := genRow(r, table)
		var first writeOp
		var fd filterDesc
		var later []writeOp
		switch x := row.(type) {
		case *Wide:
			first = writeOp{kind: "InsertRow", table: table, rows: []interface{}{row}}
			fd = filterDesc{filter: sqlgen.Filter{"name": x.Name, "i8": x.I8, "u8": x.U8, "mood": x.Mood}, reps: map[string]string{"name": "own", "i8": "own", "u8": "own", "mood": "own"}}
			for k := 0; k < 2+r.Intn(3); k++ {
				o := genWide(r)
				o.Name = "burst" // never matches the dedicated query
				later = append(later, writeOp{kind: "InsertRow", table: table, rows: []interface{}{o}})
			}
		case *Pair:
			x.A, x.N = 7, 43
			first = writeOp{kind: "UpsertRow", table: table, rows: []interface{}{row}}
			fd = filterDesc{filter: sqlgen.Filter{"a": x.A, "b": x.B}, reps: map[string]string{"a": "own", "b": "own"}}
			for k := 0; k < 2+r.Intn(3); k++ {
				o := genPair(r)
				o.A, o.N = int32(8+k), int64(r.Intn(50))
				later = append(later, writeOp{kind: "UpsertRow", table: table, rows: []interface{}{o}})
			}
		case *Tiny:
			x.K, x.Cnt = "burst-first", 43
			first = writeOp{kind: "UpsertRow", table: table, rows: []interface{}{row}}
			fd = filterDesc{filter: sqlgen.Filter{"k": x.K}, reps: map[string]string{"k": "own"}}
			for k := 0; k < 2+r.Intn(3); k++ {
				o := genTiny(r)
				o.K, o.Cnt = fmt.Sprintf("burst-%d", k), uint16(r.Intn(50))
				later = append(later, writeOp{kind: "UpsertRow", table: table, rows: []interface{}{o}})
			}
		}
		first.fault = []string{"colcount", "badkind"}[r.Intn(2)]
		lookupSentinel = &liveQuery{table: table, fd: fd}
		w := r.Intn(nWriters)
		at := len(plans[w]) - r.Intn(len(plans[w])/3+1)
		if r.Intn(2) == 0 {
			// the burst as one transaction: its events are produced at once
			mid := []writeOp{{kind: "Tx", ok: true, tx: append([]writeOp{first}, later...)}}
			plans[w] = append(plans[w][:at:at], append(mid, plans[w][at:]...)...)
		} else {
			plans[w] = append(plans[w][:at:at], append(append([]writeOp{first}, later...), plans[w][at:]...)...)
		}
	}

	if h.shared && schemaChange != "reorder" {
		// server restarts somewhere in the writers' plans. (Not together with a
		// column reorder: a restart makes RunPollLoop read the columns again, and
		// an event produced before the reorder but decoded after it with the new
		// column list is the mis-decode its code comment accepts.)
		for k := sr.Intn(3); k > 0; k-- {
			w := sr.Intn(nWriters)
			at := sr.Intn(len(plans[w]) + 1)
			plans[w] = append(plans[w][:at:at], append([]writeOp{{kind: "Restart"}}, plans[w][at:]...)...)
		}
	}

	// binlog
	b, push, fail := livesql.NewBinlogForVerif(h.ldb, database)
	b.SetLogger(h.logger)
	if burst || r.Intn(3) == 0 {
		// replica-lag compensation: updates are applied a few milliseconds after
		// they were read, so several of them wait in the applier's queue at once
		d := time.Duration(1+r.Intn(5)) * time.Millisecond
		b.SetUpdateDelay(d)
		run.Count("histories_with_update_delay", 1)
	}
	h.push = push
	pollDone := make(chan error, 1)
	go func() { pollDone <- b.RunPollLoop() }()
	go h.deliver()
	h.eng.SetHooks(fakesql.Hooks{
		BeforeSnapshot: func(st *fakesql.Stmt) {
			atomic.AddInt64(&h.hookEvents, 1)
			if id, ok := st.Tag.(int); ok {
				if q := h.byID[id]; q != nil {
					q.mu.Lock()
					q.snapSeen = atomic.LoadInt64(&h.commits)
					q.snapFresh = true
					q.mu.Unlock()
				}
			}
			h.perturb(false)
		},
		AfterSnapshot: func(st *fakesql.Stmt) {
			atomic.AddInt64(&h.hookEvents, 1)
			h.perturb(true)
			if id, ok := st.Tag.(int); ok {
				if q := h.byID[id]; q != nil {
					if q.twin && q.other != nil {
						h.slowRead(q)
					}
					q.mu.Lock()
					if atomic.LoadInt64(&h.commits) != q.snapSeen {
						atomic.AddInt64(&h.commitInWindow, 1)
					}
					q.mu.Unlock()
				}
			}
		},
		OnCommit: h.onCommit,
		Fault:    h.faultHook,
	})

	// live queries (all generated before any rerunner starts)
	nRerunners := 1 + r.Intn(6)
	var rerunners []*reactive.Rerunner
	var perRerunner [][]*liveQuery
	var reuseMap []bool
	qid := 0
	if fixed != nil {
		nRerunners = 0
		perRerunner = [][]*liveQuery{fixed.queries}
		for _, q := range fixed.queries {
			h.queries = append(h.queries, q)
			h.byID[q.id] = q
		}
	}
	for k := 0; k < nRerunners; k++ {
		var qs []*liveQuery
		seen := map[string]bool{}
		// a quarter of the rerunners issue all their queries (on one table)
		// from one re-used Filter map
		reuse := r.Intn(4) == 0
		reuseMap = append(reuseMap, reuse)
		oneTable := tableNames[r.Intn(len(tableNames))]
		nq := 1 + r.Intn(3)
		if reuse {
			nq = 2 + r.Intn(2)
		}
		for j := 0; j < nq; j++ {
			table := tableNames[r.Intn(len(tableNames))]
			if reuse {
				table = oneTable
			}
			fd := genFilter(r, table, int(maxWide))
			if r.Intn(12) == 0 && (!reuse || oneTable == "wides") {
				// a wide filter: 9+ SQL arguments, some of them NULL
				table, fd = "wides", genWideFilter(r, initialWides[r.Intn(len(initialWides))])
				run.Count("live_wide_null_filters", 1)
			}
			if seen[table+fd.String()] {
				continue
			}
			seen[table+fd.String()] = true
			qid++
			q := &liveQuery{id: qid, table: table, row: r.Intn(4) == 0, fd: fd}
			if table == widened && r.Intn(2) == 0 {
				q.where = "deleted_at IS NULL"
			}
			qs = append(qs, q)
			h.queries = append(h.queries, q)
			h.byID[q.id] = q
		}
		if !reuse && r.Intn(4) == 0 {
			// several queries of one subscriber with the same SQL text whose time
			// arguments are distinct instants within one second (a microsecond, a
			// quarter, almost a whole second apart) or one instant in two locations.
			// The rows hold whole seconds, so only the first of them can match.
			table, col := "wides", "at"
			if r.Intn(3) == 0 {
				table, col = "pairs", "when"
			}
			base := times[r.Intn(len(times))]
			instants := []time.Time{base, base.Add(time.Microsecond), base.Add(250 * time.Millisecond), base.Add(999999 * time.Microsecond), base.In(otherZone)}
			r.Shuffle(len(instants), func(a, b int) { instants[a], instants[b] = instants[b], instants[a] })
			for _, ts := range instants[:2+r.Intn(3)] {
				fd := filterDesc{filter: sqlgen.Filter{col: ts}, reps: map[string]string{col: "time-subsecond"}}
				if r.Intn(3) == 0 {
					p := ts
					fd.filter[col] = &p
				}
				if seen[table+fd.String()] {
					continue
				}
				seen[table+fd.String()] = true
				qid++
				q := &liveQuery{id: qid, table: table, fd: fd}
				qs = append(qs, q)
				h.queries = append(h.queries, q)
				h.byID[q.id] = q
			}
			run.Count("rerunners_with_subsecond_time_arguments", 1)
		}
		perRerunner = append(perRerunner, qs)
	}
	if reorderTable != "" {
		// live queries on columns the reorder moves
		var qs []*liveQuery
		seen := map[string]bool{}
		for j := 0; j < 2; j++ {
			fd := sentinelFilter(r, reorderTable)
			if seen[fd.String()] {
				continue
			}
			seen[fd.String()] = true
			qid++
			q := &liveQuery{id: qid, table: reorderTable, fd: fd}
			qs = append(qs, q)
			h.queries = append(h.queries, q)
			h.byID[q.id] = q
		}
		perRerunner = append(perRerunner, qs)
	}
	if widened != "" {
		// live queries that depend on the unmapped column only through their options
		var qs []*liveQuery
		for j := 0; j < 2; j++ {
			fd := filterDesc{filter: sqlgen.Filter{}, reps: map[string]string{}}
			if j == 1 {
				fd = sentinelFilter(r, widened)
			}
			qid++
			q := &liveQuery{id: qid, table: widened, fd: fd, where: "deleted_at IS NULL"}
			qs = append(qs, q)
			h.queries = append(h.queries, q)
			h.byID[q.id] = q
		}
		perRerunner = append(perRerunner, qs)
	}
	if fixed == nil && len(perRerunner) > 0 && r.Intn(2) == 0 {
		// a second, independent subscriber issuing exactly the queries of an
		// existing one through the same LiveDB
		src := perRerunner[r.Intn(len(perRerunner))]
		var qs []*liveQuery
		for _, o := range src {
			o.twin = true
			qid++
			q := &liveQuery{id: qid, table: o.table, row: o.row, fd: o.fd, where: o.where, twin: true, other: o}
			o.other = q
			qs = append(qs, q)
			h.queries = append(h.queries, q)
			h.byID[q.id] = q
		}
		perRerunner = append(perRerunner, qs)
		run.Count("histories_with_twin_subscribers", 1)
	}
	if pkSentinels != nil {
		for _, q := range pkSentinels {
			qid++
			q.id = qid
			h.queries = append(h.queries, q)
			h.byID[q.id] = q
		}
		if r.Intn(2) == 0 {
			perRerunner = append(perRerunner, pkSentinels)
		} else {
			for _, q := range pkSentinels {
				perRerunner = append(perRerunner, []*liveQuery{q})
			}
		}
	}
	if lookupSentinel != nil {
		qid++
		lookupSentinel.id = qid
		h.queries = append(h.queries, lookupSentinel)
		h.byID[lookupSentinel.id] = lookupSentinel
		perRerunner = append(perRerunner, []*liveQuery{lookupSentinel})
	}
	nRerunners = len(perRerunner)
	for len(reuseMap) < nRerunners {
		reuseMap = append(reuseMap, false)
	}
	spawn := make([]bool, nRerunners)
	for k := range spawn {
		spawn[k] = r.Intn(2) == 0
	}
	for k := 0; k < nRerunners; k++ {
		qs := perRerunner[k]
		var shared sqlgen.Filter
		if reuseMap[k] && len(qs) > 0 {
			shared = sqlgen.Filter{}
			run.Count("rerunners_reusing_one_filter_map", 1)
		}
		rr := reactive.NewRerunner(bg, func(ctx context.Context) (interface{}, error) {
			atomic.AddInt64(&h.computeRuns, 1)
			atomic.AddInt64(&h.inflight, 1)
			defer atomic.AddInt64(&h.inflight, -1)
			for _, q := range qs {
				filter := q.fd.filter
				if shared != nil {
					// this caller keeps ONE Filter map and refills it for every query
					for c := range shared {
						delete(shared, c)
					}
					for c, v := range q.fd.filter {
						shared[c] = v
					}
					filter = shared
				}
				atomic.AddInt64(&q.attempts, 1)
				res := safeQuery(fakesql.WithTag(ctx, q.id), h.ldb, q.table, q.row, filter, q.where)
				q.mu.Lock()
				q.runs++
				q.last = res
				if q.snapFresh {
					q.resultSnap, q.snapFresh = q.snapSeen, false
				}
				q.mu.Unlock()
			}
			if shared != nil {
				// ... and goes on using the map for something else afterwards
				for c := range shared {
					delete(shared, c)
				}
				for c, v := range blindFilter[qs[0].table] {
					shared[c] = v
				}
			}
			return nil, nil
		}, time.Millisecond, spawn[k])
		rerunners = append(rerunners, rr)
	}

	if fixed != nil {
		// pinned reproducers write only after every query ran once
		vlib.WaitCond(func() bool {
			for _, q := range h.queries {
				q.mu.Lock()
				n := q.runs
				q.mu.Unlock()
				if n == 0 {
					return false
				}
			}
			return true
		}, h.activity, 5*time.Second, 10*time.Second)
	}

	if h.shared {
		// the other tenants were busy before the first tracked write
		h.mu.Lock()
		var events []*replication.BinlogEvent
		for k := len(h.foreign) + sr.Intn(3); k > 0; k-- {
			events = append(events, h.foreignPair()...)
		}
		atomic.AddInt64(&h.enqueued, int64(len(events)))
		h.deliverCh <- events
		h.mu.Unlock()
	}

	// writers
	var wg sync.WaitGroup
	for w := range plans {
		wg.Add(1)
		wr := rand.New(rand.NewSource(r.Int63()))
		go func(ops []writeOp, wr *rand.Rand) {
			defer wg.Done()
			ctx := fakesql.WithTag(bg, "writer")
			for _, op := range ops {
				if x := wr.Intn(10); x < 5 {
					time.Sleep(time.Duration(wr.Intn(1500)) * time.Microsecond)
				}
				h.apply(ctx, op)
			}
		}(plans[w], wr)
	}
	wg.Wait()
	close(h.deliverCh)
	<-h.deliverDone

	// the database is final now
	want := map[int]*result{}
	for _, q := range h.queries {
		want[q.id] = expected(h.db, q.table, q.row, q.fd.filter, q.where)
		if want[q.id].err != nil {
			run.Broken(fmt.Sprintf("history %d: reference for %s: %v", i, q.describe(), want[q.id].err))
		}
	}
	cond := func() bool {
		for _, q := range h.queries {
			q.mu.Lock()
			ok := sameResult(q.last, want[q.id]) || (q.last != nil && q.last.panicked)
			q.mu.Unlock()
			if !ok {
				return false
			}
		}
		return true
	}
	runsAtEnd := atomic.LoadInt64(&h.computeRuns)
	outcome := vlib.WaitCond(cond, h.activity, 400*time.Millisecond, 20*time.Second)
	if outcome == vlib.QuiescentNot {
		// Stuck or merely slow? "No activity" also describes a process whose
		// goroutines are starved of CPU. The verdict is only taken when no
		// compute function of this history is in flight, every query has run,
		// the scheduler answers promptly, nobody is queued on the harness's own
		// yield handler, and a further observation window stayed silent with
		// the condition still false. Otherwise keep waiting; at the deadline
		// the history is inconclusive.
		deadline := time.Now().Add(90 * time.Second)
		for outcome == vlib.QuiescentNot {
			if time.Now().After(deadline) {
				outcome = vlib.Undecided
				break
			}
			if !h.quiet() {
				run.Count("verdict_postponed_not_quiet", 1)
				time.Sleep(100 * time.Millisecond)
				if cond() {
					outcome = vlib.Reached
					run.Count("converged_only_in_confirmation_window", 1)
				}
				continue
			}
			a0 := h.activity()
			switch vlib.WaitCond(cond, h.activity, 0, 10*time.Second) {
			case vlib.Reached:
				outcome = vlib.Reached
				run.Count("converged_only_in_confirmation_window", 1)
				continue
			case vlib.Undecided:
				continue
			}
			if h.quiet() && h.activity() == a0 && !cond() {
				break // quiescent and wrong
			}
		}
	}
	rerunsAfter := atomic.LoadInt64(&h.computeRuns) - runsAtEnd
	// the verdict is taken now, before anything is torn down
	type staleQuery struct {
		q    *liveQuery
		last *result
		runs int
		snap int64
	}
	var stale []staleQuery
	if outcome == vlib.QuiescentNot {
		for _, q := range h.queries {
			q.mu.Lock()
			if !sameResult(q.last, want[q.id]) && !(q.last != nil && q.last.panicked) {
				stale = append(stale, staleQuery{q, q.last, q.runs, q.resultSnap})
			}
			q.mu.Unlock()
		}
	}
	if outcome == vlib.QuiescentNot && len(stale) == 0 {
		outcome = vlib.Reached // everything agrees after all
	}
	stuck := ""
	if n := atomic.LoadInt64(&h.inflight); n > 0 && outcome == vlib.QuiescentNot {
		stuck = fmt.Sprintf("%d compute function(s) in flight at the verdict; goroutines: %s", n, vlib.Trunc(strings.Join(vlib.ThunderGoroutines(), "\n---\n"), 6000))
	}

	for _, rr := range rerunners {
		rr.Stop()
	}
	fail(errors.New("verif: end of history"))
	select {
	case <-pollDone:
	case <-time.After(10 * time.Second):
		run.Inconclusive(fmt.Sprintf("history %d: RunPollLoop did not return after the stream failed", i))
	}
	if b := h.eng.Broken(); len(b) > 0 {
		run.Broken(fmt.Sprintf("history %d: fake SQL engine: %s", i, strings.Join(b, " | ")))
		return
	}

	// evidence
	h.mu.Lock()
	faults := append([]fault{}, h.faults...)
	eventLog := append([]string{}, h.eventLog...)
	nEvents := h.eventCount
	h.mu.Unlock()
	h.logger.mu.Lock()
	decodeErrors := append([]string{}, h.logger.errors...)
	h.logger.mu.Unlock()
	run.Count("histories", 1)
	run.Count("outcome:"+outcome.String(), 1)
	run.Count("rows_events", nEvents)
	run.Count("commits", int(atomic.LoadInt64(&h.commits)))
	run.Count("compute_runs", int(atomic.LoadInt64(&h.computeRuns)))
	run.Count("snapshot_hook_visits", int(atomic.LoadInt64(&h.hookEvents)))
	run.Count("live_selects_overlapping_a_commit", int(atomic.LoadInt64(&h.commitInWindow)))
	run.Count("reruns_after_last_delivery", int(rerunsAfter))
	run.Count("undecodable_events_injected", len(faults))
	run.Count("column_lookups_failed", int(atomic.LoadInt64(&h.lookupsFailed)))
	run.Count("twin_slow_reads", int(atomic.LoadInt64(&h.slowReads)))
	run.Count("twin_slow_reads_overlapping_a_delivered_commit", int(atomic.LoadInt64(&h.slowReadsOverlapped)))
	run.Count("decode_failures_logged_by_binlog", len(decodeErrors))
	run.Count("protocol:"+proto, 1)
	server := "own"
	if h.shared {
		h.mu.Lock()
		server = fmt.Sprintf("shared/restarts=%d", h.restarts)
		run.Count("histories_on_shared_server", 1)
		run.Count("server_restarts", h.restarts)
		run.Count("untracked_table_events", h.foreignEvents)
		for k, n := range h.idCollisions {
			run.Count(k, n)
		}
		h.mu.Unlock()
	}
	if schemaChange != "" {
		run.Count("schema_change:"+schemaChange, 1)
	}
	if textAsBlob {
		run.Count("text_columns_as_blob", 1)
	}
	for _, f := range faults {
		run.Count("fault:"+f.kind, 1)
	}
	var shapes []string
	for _, q := range h.queries {
		op := "Q"
		if q.row {
			op = "R"
		}
		shapes = append(shapes, op+":"+q.table+"{"+q.fd.shape()+"}")
		for c, rep := range q.fd.reps {
			run.Count("live_filter:"+q.table+"."+c+":"+rep, 1)
		}
	}
	sort.Strings(shapes)
	faultKinds := map[string]bool{}
	for _, f := range faults {
		faultKinds[f.kind] = true
	}
	var fk []string
	for k := range faultKinds {
		fk = append(fk, k)
	}
	sort.Strings(fk)
	run.Case(fmt.Sprintf("history|rerunners=%d|writers=%d|%s|faults=%s|alter=%s|server=%s", nRerunners, nWriters, strings.Join(shapes, ";"), strings.Join(fk, ","), schemaChange, server), nEvents > 0 && rerunsAfter+runsAtEnd > int64(nRerunners))

	witness := func(sq staleQuery, what string) map[string]interface{} {
		var fs []string
		for _, f := range faults {
			fs = append(fs, f.event)
		}
		w := map[string]interface{}{
			"what": what, "history": i, "query": sq.q.describe(), "holds": sq.last.String(), "database_returns": want[sq.q.id].String(),
			"query_runs": sq.runs, "commits_visible_to_its_last_select": sq.snap, "commits_total": atomic.LoadInt64(&h.commits),
			"events": eventLog, "undecodable_events": fs, "decode_failures_logged": decodeErrors,
			"reruns_after_last_delivery": rerunsAfter, "protocol": proto, "server": server,
		}
		if stuck != "" {
			w["stuck"] = stuck
		}
		return w
	}
	for _, q := range h.queries {
		q.mu.Lock()
		last, runs := q.last, q.runs
		q.mu.Unlock()
		if last == nil || !last.panicked {
			continue
		}
		cls := ""
		if q.fd.wideNull() {
			cls = "livedb-cache-key-panics-on-wide-null-args"
		}
		run.Count("live_query_panicked:"+orUnclassified(cls), 1)
		idx := i
		what := "live query panicked instead of holding the rows the database returns for its filter"
		if fixed != nil {
			idx, what = -1, "pinned reproducer "+fixed.name+": "+what
		}
		run.Violation(idx, cls, map[string]interface{}{
			"what": what, "history": i, "query": q.describe(), "sql_arguments": len(q.fd.filter), "panic": last.err.Error(),
			"stack": last.stack, "database_returns": want[q.id].String(), "query_runs": runs,
		})
	}
	switch outcome {
	case vlib.Reached:
		if rerunsAfter > int64(50*nRerunners) {
			run.Inconclusive(fmt.Sprintf("history %d: converged only after %d re-runs following the last delivery", i, rerunsAfter))
		}
	case vlib.Undecided:
		run.Inconclusive(fmt.Sprintf("history %d: still active after 20s (%d re-runs after the last delivery)", i, rerunsAfter))
	case vlib.QuiescentNot:
		for _, sq := range stale {
			cls := ""
			if len(decodeErrors) > 0 && stuck == "" {
				for _, f := range faults {
					if f.table == sq.q.table && f.commitIdx > sq.snap {
						cls = "binlog-decode-failure-dropped"
					}
				}
			}
			run.Count("stale:"+orUnclassified(cls), 1)
			if fixed != nil {
				run.Violation(-1, cls, witness(sq, "pinned reproducer "+fixed.name+": live query is stale at quiescence"))
				continue
			}
			run.Violation(i, cls, witness(sq, "live query is stale at quiescence: it does not hold the rows the database returns for its filter"))
		}
	}
	if run.WantSample() && nEvents > 0 {
		var qs []string
		for _, q := range h.queries {
			q.mu.Lock()
			qs = append(qs, fmt.Sprintf("%s runs=%d holds=%s", q.describe(), q.runs, q.last.String()))
			q.mu.Unlock()
		}
		run.Sample(map[string]interface{}{"history": i, "queries": qs, "events": eventLog, "outcome": outcome.String()})
	}
}

// pinned runs the fixed reproducer of the recorded finding: one live query,
// one committed insert that makes a row match it, delivered as an event the
// binlog cannot decode (one column short).
func pinned(run *vlib.Run) {
	for k, kind := range []string{"colcount", "badkind", "oddrows"} {
		op := writeOp{kind: "InsertRow", table: "tinies", rows: []interface{}{&Tiny{K: "pinned", Cnt: 3}}}
		if kind == "oddrows" {
			op = writeOp{kind: "UpdateRow", table: "tinies", rows: []interface{}{&Tiny{K: "k0", Cnt: 77, Data: []byte("pinned")}}}
		}
		q := &liveQuery{id: 1, table: "tinies", fd: filterDesc{filter: sqlgen.Filter{"k": "pinned"}, reps: map[string]string{"k": "own"}}}
		if kind == "oddrows" {
			q.fd = filterDesc{filter: sqlgen.Filter{"cnt": uint16(77)}, reps: map[string]string{"cnt": "own"}}
		}
		pre := writeOp{kind: "UpsertRow", table: "tinies", rows: []interface{}{&Tiny{K: "k0", Cnt: 1}}}
		runHistory(run, 1000000+k, &fixedPlan{name: kind, queries: []*liveQuery{q}, ops: []writeOp{pre, op}, faultAt: map[int]string{1: kind}})
	}
}

// pinnedWide: one live query whose filter has nine columns, one of them nil;
// no writes at all. LiveDB.query builds its cache key with
// internal.MakeHashable, whose path for more than 8 elements panics on nil.
func pinnedWide(run *vlib.Run) {
	q := &liveQuery{id: 1, table: "wides", fd: filterDesc{
		filter: sqlgen.Filter{"i8": int8(0), "i16": Rank(0), "i32": int32(0), "u8": uint8(0), "u32": uint32(0), "u64": uint64(0), "flag": false, "name": "zz", "p_i": nil},
		reps:   map[string]string{"i8": "own", "i16": "own", "i32": "own", "u8": "own", "u32": "own", "u64": "own", "flag": "own", "name": "own", "p_i": "nil"}}}
	runHistory(run, 1000010, &fixedPlan{name: "wide-null-filter", queries: []*liveQuery{q}, ops: nil, faultAt: map[int]string{}})
}

// blindFilter is what a caller's re-used Filter map holds after its queries: a
// filter that matches no row of the table.
var blindFilter = map[string]sqlgen.Filter{
	"wides":  {"id": int64(-7)},
	"pairs":  {"b": "\x00never"},
	"tinies": {"k": "\x00never"},
}

func orUnclassified(c string) string {
	if c == "" {
		return "unclassified"
	}
	return c
}

func TestCheck(t *testing.T) {
	run := vlib.Start(t, "C07", "exploration")
	defer run.Finish()
	run.Rule("history = fresh fake-SQL engine with 3 table shapes (wides: every int width signed/unsigned, float32/64, bool, string, named scalars, []byte, time, pointer variants of int/string/bool/time/float, implicitnull, string/binary/json tags; pairs: composite key; tinies: string key) seeded with a few rows; " +
		"1-6 reactive.Rerunners each running 1-3 LiveDB.Query/QueryRow with filters over 0-3 random columns (values in the field's type, other int widths, named types, pointers, nil / typed nil); 1-3 concurrent writers committing InsertRow(s)/UpdateRow/DeleteRow/UpsertRow(s), alone or in WithTx (commit or rollback); " +
		"the engine's commits become TABLE_MAP + WRITE/UPDATE/DELETE_ROWS_EVENTv2 events in binlog decoder forms (sized ints, signed for unsigned columns, float32, string or []byte text, datetime strings) pushed in commit order with seeded delays into the production RunPollLoop; seeded delays around every SELECT snapshot and the verif yield points perturb the register/read/commit/deliver order; " +
		"half of the histories run on a SHARED server: the change log interleaves TABLE_MAP + rows events of 2-5 untracked tables (other databases, one with a tracked table's name; tables of the tracked database without descriptor) with the tracked ones, all tables take their ids from one counter, and 0-2 server restarts re-assign every table's id in a seeded order, so that an id announced for an untracked table later announces a tracked one and tracked tables take each other's ids (every rows event still follows the table map that defines its id); " +
		"40% of histories contain 1-2 undecodable events (wrong column count, wrong value kind, odd number of update rows) that describe real commits, 25% a schema change (with or without a renewed table id). Verdict at observed quiescence (all writers done, all events delivered, no statement/event/compute activity): each live query holds what a fresh non-live query returns. " +
		"A second sequential monitor compares sqlgen's MakeTester(filter).Test(row) with the database's answer for random rows and filters of all column kinds. " +
		"Evaluation = one history or one tester case; non-trivial = history with events and re-runs / tester filter with a matching row; distinct = query shapes + fault kinds, resp. table + filter representation.")
	run.Assume("fakesql evaluates WHERE like MySQL for the argument forms sqlgen sends; a fresh non-live Query on the final table is the reference")
	run.Assume("binlog value forms are those of the pinned go-mysql row decoder; times are whole seconds because that decoder drops DATETIME fractions")
	run.Assume("events are delivered in commit order, each rows event preceded by its table map, as MySQL does; table ids are unique among the tables open at one time but not across server restarts (the replication client reconnects and keeps streaming)")
	reactive.WriteThenReadDelay = 0
	y := vlib.NewYielder(run.Seed(), 25)
	y.Install()
	defer vlib.Uninstall()
	run.Each(run.N(600, 500000), 8, func(i int) { testerCase(run, i) })
	pinned(run)
	pinnedWide(run)
	run.Each(run.N(240, 100000), 4, func(i int) { runHistory(run, i, nil) })
	agg := vlib.NewHitAgg()
	agg.Add(y)
	agg.Report(run)
}
