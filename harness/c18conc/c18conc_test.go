// Package c18conc runs the concurrent leg of the C18 monitor (see package
// c18) under the race detector: several clients use one built schema at the
// same time, each with its own argument values. Only compile-time args structs
// and ordinary closures are used here (no reflect.StructOf / reflect.MakeFunc).
package c18conc

import (
	"testing"

	"github.com/samsarahq/thunder/verifharness/c18"
	"github.com/samsarahq/thunder/verifharness/vlib"
)

func TestCheck(t *testing.T) {
	run := vlib.Start(t, "C18", "exploration")
	defer run.Finish()
	c18.Describe(run)
	n := run.N(1500, 60000)
	run.Each(n, 2, func(i int) { c18.ConcurrentCase(run, i, true) })
}
